import Driver.CondOps
import Driver.EncOps
import Driver.SStrOps
import Driver.ModOps
import Driver.RuleOps
import Driver.CollOps
import Driver.GateOps
import Driver.PipeOps
import Driver.FilterOps
import Driver.ValidOps
import Driver.CapsOps
import Driver.LoadOps
import Driver.CorrOps
import Driver.DetOps
import Driver.SerOps
import Driver.RewriteOps
import Driver.ConvOps
open Lean Driver

def dispatch1 (op : String) (j : Json) : Except String Json :=
  match op with
  | "cond.parse" => condParse j
  | "b64.case" => b64Case j
  | "wide.case" => wideCase j
  | "cidr.case" => cidrCase j
  | "sstr.case" => sstrCase j
  | "sstr.regex" => sstrRegex j
  | "sstr.slice" => sstrSlice j
  | "field.case" => fieldCase j
  | "field.batch" => fieldBatch j
  | "mod.apply" => modApply j
  | "rule.sem" => ruleSem j
  | "rule.batch" => ruleBatch j
  | "coll.check" => collCheck j
  | "coll.convert" => collConvert j
  | "gate.eval" => gateEval j
  | "gate.case" => GateCase.gateCase j
  | "pipe.compose" => pipeCompose j
  | "pipe.sys" => pipeSys j
  | "reg.run" => regRun j
  | "filter.applies" => filterApplies j
  | "filter.case" => filterCase j
  | "valid.case" => validCase j
  | "caps.case" => capsCase j
  | "load.case" => loadCase j
  | "corr.case" => CorrOps.corrCase j
  | "corr.timespan" => CorrOps.corrTimespan j
  | "det.case" => detCase j
  | "ser.case" => serCase j
  | "ser.obj" => serObj j
  | "rewrite.case" => rewriteCase j
  | "conv.run" => convRun j
  | "ping" => pure (Json.mkObj [("pong", true)])
  | _ => throw s!"unknown op {op}"

/-- `multi`: several requests about one case in one line (`parts`), answered in order -/
def dispatch (op : String) (j : Json) : Except String Json :=
  match op with
  | "multi" => do
      let parts ← (← j.getObjVal? "parts").getArr?
      let rs ← parts.toList.mapM fun p => do dispatch1 (← p.getObjValAs? String "op") p
      pure (Json.mkObj [("parts", .arr rs.toArray)])
  | _ => dispatch1 op j

def handleLine (line : String) : String :=
  match Json.parse line with
  | .error e => (Json.mkObj [("error", Json.str s!"bad json: {e}")]).compress
  | .ok j =>
    let id := (j.getObjVal? "id").toOption.getD Json.null
    match j.getObjValAs? String "op" with
    | .error e => (Json.mkObj [("id", id), ("error", Json.str e)]).compress
    | .ok op =>
      match dispatch op j with
      | .ok r => (r.setObjVal! "id" id).compress
      | .error e => (Json.mkObj [("id", id), ("error", Json.str e)]).compress

partial def loop (hin hout : IO.FS.Stream) : IO Unit := do
  let line ← hin.getLine
  if line.isEmpty then return ()
  let t := line.trimAscii.toString
  if !t.isEmpty then
    hout.putStrLn (handleLine t)
  loop hin hout

def main : IO Unit := do
  let hin ← IO.getStdin
  let hout ← IO.getStdout
  loop hin hout
  hout.flush
