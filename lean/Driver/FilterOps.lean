import Driver.Json
import SigmaVerif.Model.Filter
import Driver.RuleOps
namespace Driver
open Lean SigmaVerif SigmaVerif.Filter

def optStrF (j : Json) (k : String) : Except String (Option Str) :=
  match j.getObjVal? k with
  | .ok .null => pure none
  | .ok v => do pure (some (← strOfJson v))
  | .error _ => pure none

def logsourceOfJson (j : Json) : Except String LogSource := do
  pure { category := ← optStrF j "category", product := ← optStrF j "product", service := ← optStrF j "service" }

/-- `filter.applies`: filter log source + rule list, rule info -/
def filterApplies (j : Json) : Except String Json := do
  let fl ← logsourceOfJson (← j.getObjVal? "flog")
  let fr : RuleList ← match j.getObjVal? "frules" with
    | .ok (.str "any") => pure .any
    | .ok v => do pure (.refs (← (← v.getArr?).toList.mapM strOfJson))
    | .error e => throw e
  let rules ← (← (← j.getObjVal? "rules").getArr?).toList.mapM fun r => do
    pure ({ isCorrelation := getBoolD r "corr" false, logsource := ← logsourceOfJson (← r.getObjVal? "log"),
            keys := ← getStrList r "keys" } : RuleInfo)
  let rw ← match j.getObjVal? "rewrite" with
    | .ok x => do
        let pre ← getStr x "prefix"
        let cond ← getStr x "cond"
        pure (strToJson (rewrite pre cond))
    | .error _ => pure Json.null
  pure (Json.mkObj [("applies", .arr (rules.map (fun r => Json.bool (applies fl fr r))).toArray), ("rewritten", rw)])

/-- `filter.case`: rules (info + detections + conditions + emitted queries) and filters (log
source, rule list, detections, condition).  For every rule the filters that apply per the model
are AND-ed to its specification reading and compared with the emitted queries. -/
def filterCase (j : Json) : Except String Json := do
  let filters ← (← j.getObjVal? "filters").getArr?
  let finfo ← filters.toList.mapM fun f => do
    let fl ← logsourceOfJson (← f.getObjVal? "flog")
    let fr : RuleList ← match f.getObjVal? "frules" with
      | .ok (.str "any") => pure .any
      | .ok v => do pure (.refs (← (← v.getArr?).toList.mapM strOfJson))
      | .error e => throw e
    pure (fl, fr, f)
  let rules ← (← j.getObjVal? "rules").getArr?
  let outs ← rules.toList.mapM fun r => do
    let info : RuleInfo := { isCorrelation := getBoolD r "corr" false, logsource := ← logsourceOfJson (← r.getObjVal? "log"),
                             keys := ← getStrList r "keys" }
    let app := finfo.map (fun x => applies x.1 x.2.1 info)
    let extra := (finfo.zip app).filterMap (fun x => if x.2 then
      some (Json.mkObj [("dets", (x.1.2.2.getObjVal? "dets").toOption.getD (.arr #[])), ("cond", (x.1.2.2.getObjVal? "cond").toOption.getD Json.null)]) else none)
    let items ← (← r.getObjVal? "items").getArr?
    let rs ← items.toList.mapM fun it => do
      match it.getObjVal? "tokErr" with
      | .ok e => pure (Json.mkObj [("tokErr", e)])
      | .error _ =>
        let base := (j.setObjVal! "dets" ((r.getObjVal? "dets").toOption.getD (.arr #[]))).setObjVal! "extra" (.arr extra.toArray)
        let j1 := base.setObjVal! "cond" (← it.getObjVal? "cond")
        let j2 := match it.getObjVal? "query" with | .ok q => j1.setObjVal! "query" q | .error _ => j1
        ruleSem j2
    pure (Json.mkObj [("applies", .arr (app.map Json.bool).toArray), ("items", .arr rs.toArray)])
  pure (Json.mkObj [("rules", .arr outs.toArray)])

end Driver
