import Driver.Json
import SigmaVerif.Model.Cond
import SigmaVerif.Spec.Cond
namespace Driver
open Lean SigmaVerif SigmaVerif.Cond

def grammarOfJson (j : Json) : Except String Grammar := do
  pure {
    identChars := ← getStr j "identChars"
    patChars := ← getStr j "patChars"
    quantKwChars := ← getStr j "quantKwChars"
    opKeyword := getBoolD j "opKeyword" true
    opKwChars := ← getStr j "opKwChars"
    kwNot := ← getStr j "kwNot"
    kwAnd := ← getStr j "kwAnd"
    kwOr := ← getStr j "kwOr"
    quants := ← getStrList j "quants"
    kwOf := ← getStr j "kwOf" }

/-- assignment number `k`: detection `i` is true iff bit `i` of `k` is set -/
def assignment (dets : List Str) (k : Nat) : Str → Bool := fun n =>
  match dets.idxOf? n with
  | some i => k.testBit i
  | none => false

def tableOf (dets : List Str) (f : (Str → Bool) → Bool) : Json :=
  .arr ((List.range (2 ^ dets.length)).map (fun k => Json.bool (f (assignment dets k)))).toArray

partial def ptToString : PT → String
  | .id n => showStr n
  | .sel .any p => s!"(any-of {showStr p})"
  | .sel .all p => s!"(all-of {showStr p})"
  | .not p => s!"(not {ptToString p})"
  | .and ps => "(and " ++ " ".intercalate (ps.map ptToString) ++ ")"
  | .or ps => "(or " ++ " ".intercalate (ps.map ptToString) ++ ")"

def modelOutcome (g : Grammar) (text : Str) (dets : List Str) : Json :=
  match parse g text with
  | none => Json.mkObj [("outcome", "parse_error")]
  | some pt =>
    match resolve dets pt with
    | .undefinedDet n => Json.mkObj [("outcome", "undefined"), ("name", strToJson n), ("tree", ptToString pt)]
    | .ok none => Json.mkObj [("outcome", "none"), ("tree", ptToString pt)]
    | .ok (some c) => Json.mkObj [("outcome", "ok"), ("table", tableOf dets (fun ρ => c.eval ρ)), ("tree", ptToString pt)]

def specOutcome (text : Str) (dets : List Str) : Json :=
  match CondSpec.read text with
  | none => Json.mkObj [("outcome", "parse_error")]
  | some e =>
    if e.defined dets then
      Json.mkObj [("outcome", "ok"), ("table", tableOf dets (fun ρ => e.sem dets ρ))]
    else Json.mkObj [("outcome", "undefined")]

/-- are all words of the string keywords, quantifier words, `of`, `them`, detection names, or
patterns — i.e. is it a string "over the rule's detection names"? -/
def overNames (text : Str) (dets : List Str) : Bool :=
  let ts := CondSpec.tokenize text [] []
  let kws : List Str := ["not", "and", "or", "1", "any", "all", "of", "them"].map String.toList
  ts.all fun t =>
    match t with
    | .word w => kws.contains w || dets.contains w || (w.contains '*' && CondSpec.allIn stdGrammar.patChars w)
    | _ => true

def condParse (j : Json) : Except String Json := do
  let text ← getStr j "text"
  let dets ← getStrList j "dets"
  let g ← match j.getObjVal? "grammar" with
    | .ok gj => grammarOfJson gj
    | .error _ => pure stdGrammar
  pure (Json.mkObj [
    ("model", modelOutcome g text dets),
    ("modelStd", modelOutcome stdGrammar text dets),
    ("spec", specOutcome text dets),
    ("overNames", Json.bool (overNames text dets))])

end Driver
