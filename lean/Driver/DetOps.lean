import Driver.Json
import Driver.CondOps
import SigmaVerif.Model.Det
/-! `det.case` (C20): the model's tracking state, resolved trees and set renderings for one case. -/
namespace Driver
open Lean SigmaVerif SigmaVerif.Cond SigmaVerif.Det

def keyOfJson (j : Json) : Except String Key :=
  match j with
  | .null => pure none
  | v => do pure (some (← strOfJson v))

def keyToJson : Key → Json
  | none => .null
  | some s => strToJson s

def opOfJson (j : Json) : Except String (Key × List Key) := do
  let src ← keyOfJson ((j.getObjVal? "src").toOption.getD .null)
  let tgt ← (← (← j.getObjVal? "tgt").getArr?).toList.mapM keyOfJson
  pure (src, tgt)

/-- steps: `{"add": op}` or `{"merge": [op, …]}` (a nested pipeline: its own tracking object, built
from empty by its ops, merged into the outer one) -/
def runSteps (S : Track) : List Json → Except String Track
  | [] => pure S
  | st :: rest => do
    match st.getObjVal? "add" with
    | .ok o =>
      let op ← opOfJson o
      runSteps (addMapping S op.1 op.2) rest
    | .error _ =>
      let ops ← (← (← st.getObjVal? "merge").getArr?).toList.mapM opOfJson
      runSteps (merge S (runOps Track.empty ops)) rest

def dictToJson (d : List (Key × List Key)) : Json :=
  .arr (d.map (fun kv => Json.arr #[keyToJson kv.1, .arr (kv.2.map keyToJson).toArray])).toArray

partial def dtToJson : DT Nat → Json
  | .det d => Json.mkObj [("d", d)]
  | .not c => Json.mkObj [("not", dtToJson c)]
  | .and cs => Json.mkObj [("and", .arr (cs.map dtToJson).toArray)]
  | .or cs => Json.mkObj [("or", .arr (cs.map dtToJson).toArray)]

def resToJson : Option (Res (Option (DT Nat))) → Json
  | none => Json.mkObj [("outcome", "parse_error")]
  | some (.undefinedDet n) => Json.mkObj [("outcome", "undefined"), ("name", strToJson n)]
  | some (.ok none) => Json.mkObj [("outcome", "none")]
  | some (.ok (some t)) => Json.mkObj [("outcome", "ok"), ("tree", dtToJson t)]

def flagOfJson (j : Json) : Except String Flag := do
  match ← j.getStr? with
  | "i" => pure .i
  | "m" => pure .m
  | "s" => pure .s
  | x => throw s!"flag {x}"

def detCase (j : Json) : Except String Json := do
  let kind ← j.getObjValAs? String "kind"
  match kind with
  | "track" =>
    let steps ← (← j.getObjVal? "steps").getArr?
    let S ← runSteps Track.empty steps.toList
    pure (Json.mkObj [("fwd", dictToJson S.render), ("rev", dictToJson S.renderRev)])
  | "addcond" =>
    let g ← grammarOfJson (← j.getObjVal? "grammar")
    let names ← getStrList j "names"
    let conds ← getStrList j "conds"
    let name ← getStr j "name"
    let neg := getBoolD j "neg" false
    let env : Env Nat := (List.range names.length).zip names |>.map (fun p => (p.2, p.1))
    let out := applyAddCond g env conds neg name 1000000
    pure (Json.mkObj [("items", .arr (out.map resToJson).toArray)])
  | "filter" =>
    -- parse both conditions, rewrite structurally (`filteredTree`), resolve over the injected dict
    let g ← grammarOfJson (← j.getObjVal? "grammar")
    let names ← getStrList j "names"
    let fnames ← getStrList j "fnames"
    let cond ← getStr j "cond"
    let fcond ← getStr j "fcond"
    let pre ← getStr j "prefix"
    let env : Env Nat := (List.range names.length).zip names |>.map (fun p => (p.2, p.1))
    let fenv : Env Nat := (List.range fnames.length).zip fnames |>.map (fun p => (p.2, 1000 + p.1))
    match parse g cond, parse g fcond with
    | some R, some F =>
      pure (Json.mkObj [("item", resToJson (some (resolveC (filteredEnv pre env fenv) (filteredTree pre R F))))])
    | _, _ => pure (Json.mkObj [("item", resToJson none)])
  | "render" =>
    let what ← j.getObjValAs? String "what"
    match what with
    | "flags" =>
      let fl ← (← (← j.getObjVal? "flags").getArr?).toList.mapM flagOfJson
      pure (Json.mkObj [("text", strToJson (renderFlags fl))])
    | "unknown_keys" => pure (Json.mkObj [("text", strToJson (msgUnknownKeys (← getStrList j "keys")))])
    | "unreferenced" =>
      pure (Json.mkObj [("text", strToJson (msgUnreferenced (← getStr j "name") (← getStrList j "keys")))])
    | "unmapped" =>
      let mapped ← getStrList j "mapped"
      pure (Json.mkObj [("text", strToJson (msgUnmapped (fun f => mapped.contains f) (← getStrList j "fields")))])
    | "dangling" =>
      let r := danglingIssues (← getStrList j "names") (← getStrList j "referenced")
      pure (Json.mkObj [("names", .arr (r.map strToJson).toArray)])
    | "remove_validator" =>
      pure (Json.mkObj [("text", strToJson (msgRemoveValidator (← getStr j "vn") (← getStrList j "vs")))])
    | x => throw s!"unknown render {x}"
  | x => throw s!"unknown det.case kind {x}"

end Driver
