import Driver.Json
import SigmaVerif.Model.SStr
import SigmaVerif.Spec.SStr
namespace Driver
open Lean SigmaVerif SigmaVerif.SStr SigmaVerif.SStrSpec

def partToJson : Part → Json
  | .lit c => Json.num (JsonNumber.fromNat c.toNat)
  | .star => "*"
  | .qm => "?"
  | .ph n => Json.mkObj [("ph", strToJson n)]

def sstrToJson (s : SStr) : Json := .arr (s.map partToJson).toArray

def partOfJson (j : Json) : Except String Part :=
  match j with
  | .str "*" => pure .star
  | .str "?" => pure .qm
  | .obj _ => do pure (.ph (← getStr j "ph"))
  | _ => do pure (.lit (Char.ofNat (← j.getNat?)))

def sstrOfJson (j : Json) : Except String SStr := do
  (← j.getArr?).toList.mapM partOfJson

def optStr (j : Json) (k : String) : Except String (Option Str) :=
  match j.getObjVal? k with
  | .ok .null => pure none
  | .ok v => do pure (some (← strOfJson v))
  | .error _ => pure none

def convOfJson (j : Json) : Except String Conv := do
  pure { esc := ← optStr j "esc", multi := ← optStr j "multi", single := ← optStr j "single",
         addEscaped := (← optStr j "addEscaped").getD [], filter := (← optStr j "filter").getD [] }

def errToJson : Err → Json
  | .noMulti => "noMulti" | .noSingle => "noSingle" | .placeholder _ => "placeholder"

def optSStrJson : Option SStr → Json
  | some s => sstrToJson s | none => Json.null

/-- `sstr.case`: source text `src`; optional list `convs` of renderings
`{cfg, quote, quoted, impl}` where `impl` is the implementation's output text (or null on error).
Reply: the model's parse / plain form / re-parse, and per rendering the target-language reading
of the implementation's text and of the model's text (`quoted`: `decodeQuoted`; otherwise the
bare-word reader `decodeBare` with the configuration's quote string). -/
def sstrCase (j : Json) : Except String Json := do
  let src ← getStr j "src"
  let s := parse src
  let plain := toPlain s
  let convs := match j.getObjVal? "convs" with | .ok (.arr a) => a.toList | _ => []
  let rs ← convs.mapM fun c => do
    let k ← convOfJson (← c.getObjVal? "cfg")
    let q := (← optStr c "quote").getD []
    let quoted := getBoolD c "quoted" false
    let kk : Conv := { k with addEscaped := q ++ k.addEscaped }
    let sc : StrCfg := { quote := q, esc := k.esc, multi := k.multi, single := k.single,
                         addEscaped := k.addEscaped, filter := k.filter }
    let model := convertValueStr sc quoted s
    -- an unquoted literal is read by the bare-word reader: the language's quote (if any) keeps its meaning there
    let rd (t : Str) : Option SStr := if quoted then decodeQuoted kk q t else decodeBare kk q t
    let implText ← optStr c "impl"
    pure (Json.mkObj [
      ("wf", Json.bool (convWf kk && (!quoted || (quoteWf kk q && quoteTailOk kk q)))),
      ("escInSet", Json.bool (match kk.esc with | some [e] => kk.escapedSet.contains e | _ => false)),
      ("want", sstrToJson (filtered kk s)),
      ("model", match model with | .ok t => strToJson t | .error e => Json.mkObj [("err", errToJson e)]),
      ("implRead", match implText with | some t => optSStrJson (rd t) | none => Json.null),
      ("implReadOk", match implText with | some t => Json.bool (rd t == some (filtered kk s)) | none => Json.null)])
  pure (Json.mkObj [
    ("parts", sstrToJson s), ("plain", strToJson plain), ("reparse", sstrToJson (parse plain)),
    ("plainExact", Json.bool (parse plain == s)),
    ("replaceId", sstrToJson (replaceIdentity s)),
    ("convs", .arr rs.toArray)])

/-- `sstr.regex`: `src`, `custom`, `impl` regex text, `subjects`: glob truth per subject, the
model's regex text and the fragment reading of the implementation's text per subject -/
def sstrRegex (j : Json) : Except String Json := do
  let src ← getStr j "src"
  let custom := (← optStr j "custom").getD []
  let s := parse src
  let subjects ← getStrList j "subjects"
  let implText ← optStr j "impl"
  pure (Json.mkObj [
    ("model", match toRegex custom s with | .ok t => strToJson t | .error e => Json.mkObj [("err", errToJson e)]),
    ("glob", .arr (subjects.map (fun x => Json.bool (glob s x))).toArray),
    ("implFragment", match implText with
      | some t => .arr (subjects.map (fun x => match reMatch t x with | some b => Json.bool b | none => Json.null)).toArray
      | none => Json.null)])

/-- `sstr.slice`: parts in, the three slices and predicates out -/
def sstrSlice (j : Json) : Except String Json := do
  let src ← getStr j "src"
  let s := parse src
  pure (Json.mkObj [
    ("dropLast", sstrToJson (dropLast1 s)), ("drop1", sstrToJson (drop1 s)), ("mid", sstrToJson (mid s)),
    ("special", Json.bool (containsSpecial s)), ("startsStar", Json.bool (startsWithStar s)),
    ("endsStar", Json.bool (endsWithStar s))])

def fieldCfgOfJson (j : Json) : Except String FieldCfg := do
  pure { escape := ← optStr j "escape", escapeChars := (← optStr j "escapeChars").getD [],
         escapeQuote := getBoolD j "escapeQuote" true, quote := ← optStr j "quote" }

/-- `field.case`: `cfg`, `quoted`, `name`, `impl` (the implementation's text).  Reply:
* `ok` — the implementation's text, read by the STRICT target reader `decodeField` (a quoted name
  ends at the first unescaped quote; text after it = terminated early), is the name;
* `implRead` — that reading (null = malformed / terminated early);
* `model` — the model's rendering (drift diagnostic);
* `escCovered` — the escape character is in the escape class (finding D7f otherwise);
* `quoteEscaped` — the configuration escapes its quote at all: a non-empty escape string and the
  first quote character is in the escape class or is the one-character quote with `escapeQuote`;
* `hasQuote` — the name contains the first character of the (non-empty) quote string. -/
def fieldCase (j : Json) : Except String Json := do
  let c ← fieldCfgOfJson (← j.getObjVal? "cfg")
  let quoted := getBoolD j "quoted" false
  let name ← getStr j "name"
  let impl ← getStr j "impl"
  let escCovered := match c.escape with
    | some [e] => c.escapeChars.contains e
    | some _ => false
    | none => true
  let escapes (ch : Char) : Bool :=
    match c.escape with
    | some (_ :: _) => c.escapeChars.contains ch || (c.escapeQuote && c.quote == some [ch])
    | _ => false
  let q0 : Option Char := c.quote.bind List.head?
  pure (Json.mkObj [
    ("model", strToJson (escapeAndQuoteField c quoted name)),
    ("implRead", match decodeField c quoted impl with | some f => strToJson f | none => Json.null),
    ("ok", Json.bool (decodeField c quoted impl == some name)),
    ("escCovered", Json.bool escCovered),
    ("quoteEscaped", Json.bool (match q0 with | some ch => escapes ch | none => false)),
    ("hasQuote", Json.bool (match q0 with | some ch => name.contains ch | none => false))])

/-- `field.batch`: several configurations for one field name -/
def fieldBatch (j : Json) : Except String Json := do
  let name ← j.getObjVal? "name"
  let items ← (← j.getObjVal? "items").getArr?
  let rs ← items.toList.mapM fun it => fieldCase (it.setObjVal! "name" name)
  pure (Json.mkObj [("items", .arr rs.toArray)])

end Driver
