import Driver.Json
import Driver.SStrOps
import Driver.ModOps
import SigmaVerif.Spec.Rule
import SigmaVerif.Spec.Conv
namespace Driver
open Lean SigmaVerif SigmaVerif.SStr SigmaVerif.Rule

def optStrJ (j : Json) (k : String) : Except String (Option Str) :=
  match j.getObjVal? k with
  | .ok .null => pure none
  | .ok v => do pure (some (← strOfJson v))
  | .error _ => pure none

/-- `**` matches what `*` matches: adjacent multi-character wildcards are collapsed before atoms are
compared (justified by the glob semantics, `Props.C03` star absorption) -/
def collapseStars : SStr → SStr
  | .star :: .star :: r => collapseStars (.star :: r)
  | p :: r => p :: collapseStars r
  | [] => []

def normAtom : Atom → Atom
  | .str f c p => .str f c (collapseStars p)
  | a => a

mutual
partial def normBE : BE → BE
  | .atom a => .atom (normAtom a)
  | .not e => .not (normBE e)
  | .and es => .and (es.map normBE)
  | .or es => .or (es.map normBE)
end

def atomOfJson (j : Json) : Except String Atom := do
  let k ← j.getObjValAs? String "k"
  let f ← optStrJ j "f"
  match k with
  | "str" => pure (.str f (getBoolD j "cased" false) (collapseStars (← sstrOfJson (← j.getObjVal? "pat"))))
  | "num" => pure (.num f (← getStr j "n"))
  | "bool" => pure (.bool f (getBoolD j "b" false))
  | "null" => pure (.null f)
  | "exists" => pure (.exists_ f)
  | "re" => pure (.re f (← getStr j "src") (getBoolD j "i" false) (getBoolD j "m" false) (getBoolD j "s" false))
  | "cidr" => pure (.cidr f (← getStr j "text"))
  | "cmp" => pure (.cmp f (← getStr j "op") (← getStr j "n"))
  | "ref" => pure (.ref f (← getStr j "f2") (getBoolD j "sw" false) (getBoolD j "ew" false))
  | "ts" => pure (.ts f (← getStr j "unit") (← getStr j "n"))
  | "qx" => pure (.qx f (← getStr j "expr") (← getStr j "id"))
  | _ => throw s!"unknown atom kind {k}"

def strOptJson : Option Str → Json | some s => strToJson s | none => Json.null

def atomToJson : Atom → Json
  | .str f c p => Json.mkObj [("k", "str"), ("f", strOptJson f), ("cased", c), ("pat", sstrToJson p)]
  | .num f n => Json.mkObj [("k", "num"), ("f", strOptJson f), ("n", strToJson n)]
  | .bool f b => Json.mkObj [("k", "bool"), ("f", strOptJson f), ("b", b)]
  | .null f => Json.mkObj [("k", "null"), ("f", strOptJson f)]
  | .exists_ f => Json.mkObj [("k", "exists"), ("f", strOptJson f)]
  | .re f s a b d => Json.mkObj [("k", "re"), ("f", strOptJson f), ("src", strToJson s), ("i", a), ("m", b), ("s", d)]
  | .cidr f t => Json.mkObj [("k", "cidr"), ("f", strOptJson f), ("text", strToJson t)]
  | .cmp f o n => Json.mkObj [("k", "cmp"), ("f", strOptJson f), ("op", strToJson o), ("n", strToJson n)]
  | .ref f g sw ew => Json.mkObj [("k", "ref"), ("f", strOptJson f), ("f2", strToJson g), ("sw", sw), ("ew", ew)]
  | .ts f u n => Json.mkObj [("k", "ts"), ("f", strOptJson f), ("unit", strToJson u), ("n", strToJson n)]
  | .qx f e i => Json.mkObj [("k", "qx"), ("f", strOptJson f), ("expr", strToJson e), ("id", strToJson i)]

def pvOfJson (j : Json) : Except String PV :=
  match j with
  | .null => pure .null
  | .bool b => pure (.bool b)
  | .obj _ =>
    match j.getObjVal? "num" with
    | .ok n => do pure (.num (← strOfJson n))
    | .error _ => do pure (.str (← getStr j "str"))
  | _ => throw "bad plain value"

partial def detOfJson (j : Json) : Except String Det := do
  match j.getObjVal? "map" with
  | .ok (.arr kvs) =>
    let items ← kvs.toList.mapM fun kv => do
      let a ← kv.getArr?
      let key ← strOfJson (a.getD 0 Json.null)
      let vs ← (← (a.getD 1 Json.null).getArr?).toList.mapM pvOfJson
      pure (key, vs)
    pure (.map items)
  | _ =>
    match j.getObjVal? "list" with
    | .ok (.arr ds) => do pure (.list (← ds.toList.mapM detOfJson))
    | _ =>
      match j.getObjVal? "values" with
      | .ok (.arr vs) => do pure (.values (← vs.toList.mapM pvOfJson))
      | _ =>
        match j.getObjVal? "all" with
        | .ok (.arr ds) => do pure (.all (← ds.toList.mapM detOfJson))
        | _ => throw "bad detection"

inductive TokJ
  | lp | rp | tand | tor | tnot
  | atom (a : Atom) | natom (a : Atom) | inl (isOr : Bool) (as : List Atom)

def tokOfJson (j : Json) : Except String TokJ :=
  match j with
  | .str "(" => pure .lp | .str ")" => pure .rp
  | .str "and" => pure .tand | .str "or" => pure .tor | .str "not" => pure .tnot
  | .obj _ =>
    match j.getObjVal? "atom", j.getObjVal? "natom", j.getObjVal? "in" with
    | .ok a, _, _ => do pure (.atom (← atomOfJson a))
    | _, .ok a, _ => do pure (.natom (← atomOfJson a))
    | _, _, .ok l => do
        let as ← (← (← l.getObjVal? "atoms").getArr?).toList.mapM atomOfJson
        pure (.inl (getBoolD l "or" true) as)
    | _, _, _ => throw "bad token"
  | _ => throw "bad token"

def opOfString : String → Except String Conv.Op
  | "not" => pure .not | "and" => pure .and | "or" => pure .or
  | s => throw s!"bad op {s}"

def specErrJson : SpecErr → Json
  | .mod e => Json.mkObj [("specErr", "modifier"), ("detail", errJson e)]
  | .unsupported w => Json.mkObj [("specErr", "unsupported"), ("detail", w)]
  | .cond w => Json.mkObj [("specErr", "condition"), ("detail", w)]
  | .ph (.missingVar n) => Json.mkObj [("specErr", "placeholder"), ("detail", "missing variable"), ("name", strToJson n)]
  | .ph (.badVar n) => Json.mkObj [("specErr", "placeholder"), ("detail", "bad variable value"), ("name", strToJson n)]
  | .ph .mixed => Json.mkObj [("specErr", "placeholder"), ("detail", "query expression placeholder mixed with text")]
  | .unresolved n => Json.mkObj [("specErr", "unresolved"), ("name", strToJson n)]

/-- `rule.sem`: the rule's detections + condition (source form), the backend configuration and the
tokenised query the implementation emitted.  Judged: the query, read with the target language's
precedence (`readQ`), denotes the same boolean function of the atoms as the specification reading
of the rule. -/
def optStrList (j : Json) (k : String) : Except String (Option (List Str)) :=
  match j.getObjVal? k with
  | .ok (.arr a) => do pure (some (← a.toList.mapM strOfJson))
  | _ => pure none

def phItemOfJson (j : Json) : Except String Placeholder.PhItem := do
  let kind ← j.getObjValAs? String "kind"
  let k : Placeholder.Kind ← match kind with
    | "value" => pure .value
    | "wildcard" => pure .wildcard
    | "query" => do
        let expr ← getStr j "expr"
        let mapping ← match j.getObjVal? "mapping" with
          | .ok (.arr a) => a.toList.mapM fun kv => do
              let p ← kv.getArr?
              pure ((← strOfJson (p.getD 0 Json.null)), (← strOfJson (p.getD 1 Json.null)))
          | _ => pure []
        pure (.query expr mapping)
    | _ => throw s!"bad placeholder item kind {kind}"
  pure { kind := k, incl := ← optStrList j "include", excl := ← optStrList j "exclude" }

def varsOfJson (j : Json) : Except String (List (Str × List Placeholder.VarVal)) := do
  match j with
  | .arr a => a.toList.mapM fun kv => do
      let p ← kv.getArr?
      let name ← strOfJson (p.getD 0 Json.null)
      let vals ← (← (p.getD 1 Json.null).getArr?).toList.mapM fun v =>
        match v with
        | .str "bad" => pure Placeholder.VarVal.bad
        | _ => do pure (Placeholder.VarVal.text (← getStr v "text"))
      pure (name, vals)
  | _ => pure []

def ruleSem (j : Json) : Except String Json := do
  let env ← envOfJson j
  let cfgj ← j.getObjVal? "cfg"
  let prec ← (← (← cfgj.getObjVal? "prec").getArr?).toList.mapM (fun o => do opOfString (← o.getStr?))
  let phItems ← match j.getObjVal? "phItems" with
    | .ok (.arr a) => a.toList.mapM phItemOfJson
    | _ => pure []
  let vars ← match j.getObjVal? "vars" with
    | .ok v => varsOfJson v
    | .error _ => pure []
  let cx : Ctx := { env := env, nativeCidr := getBoolD cfgj "nativeCidr" false, phItems := phItems, vars := vars }
  let dets ← (← (← j.getObjVal? "dets").getArr?).toList.mapM fun d => do
    pure ((← getStr d "name"), (← detOfJson (← d.getObjVal? "det")))
  let cond ← getStr j "cond"
  -- `extra`: further (detections, condition) parts that must hold as well (applied filters)
  let extras ← match j.getObjVal? "extra" with
    | .ok (.arr a) => a.toList.mapM fun x => do
        let ds ← (← (← x.getObjVal? "dets").getArr?).toList.mapM fun d => do
          pure ((← getStr d "name"), (← detOfJson (← d.getObjVal? "det")))
        pure (ds, (← getStr x "cond"))
    | _ => pure []
  let whole : Except SpecErr BE :=
    extras.foldl (fun acc x => match acc, ruleBE cx x.1 x.2 with
      | .ok a, .ok b => .ok (.and [a, b])
      | .error e, _ => .error e
      | _, .error e => .error e) (ruleBE cx dets cond)
  match whole with
  | .error e => pure (specErrJson e)
  | .ok spec0 =>
    let spec := normBE spec0
    match j.getObjVal? "query" with
    | .ok (.arr toksJ) =>
      let toks ← toksJ.toList.mapM tokOfJson
      let qAtoms := toks.flatMap (fun t => match t with | .atom a => [a] | .natom a => [a] | .inl _ as => as | _ => [])
      let all := (spec.atoms ++ qAtoms).eraseDups
      let idx (a : Atom) : Nat := (all.idxOf? a).getD 0
      let qtoks : List Conv.QTok := toks.map fun t => match t with
        | .lp => .lp | .rp => .rp | .tand => .tand | .tor => .tor | .tnot => .tnot
        | .atom a => .atom (idx a) | .natom a => .natom (idx a) | .inl o as => .inList o (as.map idx)
      match ConvSpec.readQ prec qtoks with
      | none => pure (Json.mkObj [("readErr", true), ("natoms", all.length)])
      | some qe =>
        let n := all.length
        if n > 16 then pure (Json.mkObj [("tooMany", n)]) else
        let rows := List.range (2 ^ n)
        let bad := rows.find? fun k =>
          let ρi : Nat → Bool := fun i => k.testBit i
          let ρa : Atom → Bool := fun a => k.testBit (idx a)
          spec.eval ρa != qe.denote ρi
        match bad with
        | none => pure (Json.mkObj [("equal", true), ("natoms", n),
            ("extraAtoms", .arr ((qAtoms.filter (fun a => !spec.atoms.contains a)).eraseDups.map atomToJson).toArray),
            ("missingAtoms", .arr ((spec.atoms.filter (fun a => !qAtoms.contains a)).eraseDups.map atomToJson).toArray)])
        | some k =>
          let ρa : Atom → Bool := fun a => k.testBit (idx a)
          pure (Json.mkObj [("equal", false), ("natoms", n),
            ("specValue", Json.bool (spec.eval ρa)),
            ("trueAtoms", .arr ((all.filter ρa).map atomToJson).toArray),
            ("extraAtoms", .arr ((qAtoms.filter (fun a => !spec.atoms.contains a)).eraseDups.map atomToJson).toArray),
            ("missingAtoms", .arr ((spec.atoms.filter (fun a => !qAtoms.contains a)).eraseDups.map atomToJson).toArray)])
    | _ => pure (Json.mkObj [("specOk", true), ("specAtoms", .arr (spec.atoms.eraseDups.map atomToJson).toArray)])

/-- `rule.batch`: several (condition, query) pairs over the same detections and configuration -/
def ruleBatch (j : Json) : Except String Json := do
  let items ← (← j.getObjVal? "items").getArr?
  let rs ← items.toList.mapM fun it => do
    let j1 := j.setObjVal! "cond" (← it.getObjVal? "cond")
    match it.getObjVal? "tokErr" with
    | .ok e => pure (Json.mkObj [("tokErr", e)])
    | .error _ =>
      let j2 := match it.getObjVal? "query" with | .ok q => j1.setObjVal! "query" q | .error _ => j1
      ruleSem j2
  pure (Json.mkObj [("items", .arr rs.toArray)])

end Driver
