import Driver.Json
import SigmaVerif.Model.Corr
import SigmaVerif.Spec.Corr
/-! `corr.case`: model record, specification record and extended-condition truth tables for one
correlation rule (C10). -/
namespace Driver.CorrOps
open Driver
open Lean SigmaVerif SigmaVerif.Corr SigmaVerif.CorrSpec
open SigmaVerif.Conv (Op QTok)

private def optJ (j : Json) (k : String) : Option Json :=
  match j.getObjVal? k with
  | .ok .null => none
  | .ok v => some v
  | .error _ => none

private def strListOfJson (j : Json) : Except String (List Str) := do
  (← j.getArr?).toList.mapM strOfJson

private def optStrList (j : Json) (k : String) : Except String (Option (List Str)) :=
  match optJ j k with
  | none => pure none
  | some v => do pure (some (← strListOfJson v))

private def getB (j : Json) (k : String) : Except String Bool := do
  match ← j.getObjVal? k with
  | .bool b => pure b
  | _ => throw s!"{k}: expected bool"

def ctypeOfString (s : String) : Except String CType :=
  match CType.all.find? (fun t => t.pyName == s) with
  | some t => pure t
  | none => throw s!"unknown correlation type {s}"

def tnameOfString (s : String) : Except String TName :=
  match TName.all.find? (fun t => t.pyName == s) with
  | some t => pure t
  | none => throw s!"unknown template name {s}"

def condOpOfString (s : String) : Except String CondOp :=
  match CondOp.all.find? (fun t => t.pyName == s) with
  | some t => pure t
  | none => throw s!"unknown operator {s}"

def corrOpOfString : String → Except String Op
  | "not" => pure .not | "and" => pure .and | "or" => pure .or
  | s => throw s!"unknown operator {s}"

partial def extOfJson (j : Json) : Except String Ext := do
  match optJ j "ref", optJ j "not", optJ j "and", optJ j "or" with
  | some r, _, _, _ => do pure (.ref (← strOfJson r))
  | _, some e, _, _ => do pure (.not (← extOfJson e))
  | _, _, some es, _ => do pure (.and (← (← es.getArr?).toList.mapM extOfJson))
  | _, _, _, some es => do pure (.or (← (← es.getArr?).toList.mapM extOfJson))
  | _, _, _, _ => throw "bad extended condition node"

def fieldRefOfJson (j : Json) (k : String) : Except String FieldRef :=
  match optJ j k with
  | none => pure .none
  | some (.obj o) => do
      match o.get? "many" with
      | some m => do pure (.many (← strListOfJson m))
      | none => throw "bad field reference"
  | some v => do pure (.one (← strOfJson v))

def corrOptInt (j : Json) (k : String) : Except String (Option Int) :=
  match optJ j k with
  | none => pure none
  | some v => do pure (some (← v.getInt?))

def condOfJson (j : Json) : Except String Cond :=
  match optJ j "basic", optJ j "ext" with
  | some b, _ => do
      let op ← condOpOfString (← b.getObjValAs? String "op")
      let count ← (← b.getObjVal? "count").getInt?
      pure (.basic { op := op, count := count, field := ← fieldRefOfJson b "field", percentile := ← corrOptInt b "pct" })
  | _, some e => do pure (.ext (← extOfJson e))
  | _, _ => throw "bad condition"

def corrPairOfJson (j : Json) : Except String (Str × Str) := do
  let a ← j.getArr?
  pure (← strOfJson (a[0]?.getD Json.null), ← strOfJson (a[1]?.getD Json.null))

def aliasOfJson (j : Json) : Except String Alias := do
  pure { name := ← getStr j "name",
         mapping := ← (← (← j.getObjVal? "mapping").getArr?).toList.mapM corrPairOfJson }

def ruleOfJson (j : Json) : Except String Rule := do
  pure { type := ← ctypeOfString (← j.getObjValAs? String "type"),
         rules := ← optStrList j "rules",
         generate := getBoolD j "generate" false,
         timespan := ← getStr j "timespan",
         groupBy := ← optStrList j "groupBy",
         aliases := ← (← (← j.getObjVal? "aliases").getArr?).toList.mapM aliasOfJson,
         cond := ← condOfJson (← j.getObjVal? "cond"),
         fields := ← getStrList j "fields" }

def cfgOfJson (j : Json) : Except String Cfg := do
  let tsMap ← match optJ j "tsMap" with
    | none => pure none
    | some v => do
        let xs ← (← v.getArr?).toList.mapM fun p => do
          let a ← p.getArr?
          let u ← (a[0]?.getD Json.null).getNat?
          pure (Char.ofNat u, ← strOfJson (a[1]?.getD Json.null))
        pure (some xs)
  let qTypes ← (← (← j.getObjVal? "qTypes").getArr?).toList.mapM fun p => do
    let a ← p.getArr?
    pure (← tnameOfString (← (a[0]?.getD Json.null).getStr?), ← strListOfJson (a[1]?.getD Json.null))
  let tnames (k : String) : Except String (List TName) := do
    (← (← j.getObjVal? k).getArr?).toList.mapM fun x => do tnameOfString (← x.getStr?)
  pure { corr := ← getB j "corr", methods := ← getStrList j "methods", defaultMethod := ← getStr j "defaultMethod",
         tsSeconds := ← getB j "tsSeconds", tsMap := tsMap, single := ← getB j "single", multi := ← getB j "multi",
         typing := ← getB j "typing", norm := ← getB j "norm", gb := ← getB j "gb", gbNoField := ← getB j "gbNoField",
         refsExpr := ← getB j "refsExpr", refsUsed := ← getB j "refsUsed", fieldsExpr := ← getB j "fieldsExpr",
         extRef := ← getB j "extRef", finalizeSub := ← getB j "finalizeSub",
         qDefault := ← optStrList j "qDefault", qTypes := qTypes, aggTypes := ← tnames "aggTypes",
         condTypes := ← tnames "condTypes",
         prec := ← (← (← j.getObjVal? "prec").getArr?).toList.mapM (fun x => do corrOpOfString (← x.getStr?)),
         parenthesize := ← getB j "parenthesize",
         corrFinTested := getBoolD j "corrFinTested" false, aliasAlways := getBoolD j "aliasAlways" false }

def envOfJson (j : Json) : Except String (List (Str × RefInfo)) := do
  (← j.getArr?).toList.mapM fun e => do
    pure (← getStr e "ref",
      { tag := ← getStr e "tag", queries := ← getStrList e "queries", fields := ← getStrList e "fields",
        isCorr := getBoolD e "isCorr" false })

def stagesOfJson (j : Json) : Except String (List Stage) := do
  (← j.getArr?).toList.mapM fun st => do
    (← st.getArr?).toList.mapM fun p => do
      let a ← p.getArr?
      pure (← strOfJson (a[0]?.getD Json.null), ← strListOfJson (a[1]?.getD Json.null))

def corrTokOfJson : Json → Except String QTok
  | .str "(" => pure .lp | .str ")" => pure .rp
  | .str "and" => pure .tand | .str "or" => pure .tor | .str "not" => pure .tnot
  | j => do
      match optJ j "atom" with
      | some a => do pure (.atom (← a.getNat?))
      | none => throw "bad token"

def corrTokToJson : QTok → Json
  | .lp => "(" | .rp => ")" | .tand => "and" | .tor => "or" | .tnot => "not"
  | .atom a => Json.mkObj [("atom", Json.num (JsonNumber.fromNat a))]
  | .natom a => Json.mkObj [("natom", Json.num (JsonNumber.fromNat a))]
  | .inList _ _ => "inlist"

def corrStrsToJson (xs : List Str) : Json := .arr (xs.map strToJson).toArray
def corrOptToJson {α} (f : α → Json) : Option α → Json
  | some x => f x
  | none => Json.null
def corrIntToJson (i : Int) : Json := Json.num (JsonNumber.fromInt i)
def corrBoolsToJson (bs : List Bool) : Json := .arr (bs.map (fun b => Json.bool b)).toArray

def corrSubToJson (s : SubQ) : Json :=
  Json.mkObj [("tag", strToJson s.tag), ("fin", s.fin), ("q", strToJson s.query),
    ("norms", .arr (s.norms.map (fun p => Json.arr #[strToJson p.1, strToJson p.2])).toArray)]

def recordToJson (r : Record) : Json :=
  Json.mkObj [("qt", r.qt), ("tn", r.tn), ("method", strToJson r.method), ("single", r.single),
    ("subs", .arr (r.subs.map corrSubToJson).toArray),
    ("typing", corrOptToJson (fun ss => .arr (ss.map corrSubToJson).toArray) r.typing),
    ("ts", strToJson r.ts),
    ("gb", match r.gb with
      | .absent => Json.null
      | .nofield => "none"
      | .fields fs => corrStrsToJson fs),
    ("aggField", corrStrsToJson r.aggField), ("pct", corrOptToJson corrIntToJson r.pct), ("fields", corrStrsToJson r.fields),
    ("refs", corrOptToJson corrStrsToJson r.refs),
    ("cond", match r.cond with
      | .basic op c f => Json.mkObj [("op", op.pyName), ("count", corrIntToJson c), ("field", corrStrsToJson f)]
      | .ext names toks => Json.mkObj [("names", corrStrsToJson names), ("toks", .arr (toks.map corrTokToJson).toArray)])]

def corrErrName : Err → String
  | .load => "load" | .notFound => "notFound" | .unsupported => "unsupported" | .conversion => "conversion"
  | .backend => "backend" | .config => "config" | .crash => "crash"

/-- `corr.case`: `cfg`, `env`, `stages`, `method`, `rule`, optionally `implExt` (the tokens of the
emitted extended condition, atoms numbered by the specification's reference order).  Reply: `model`
(`{"ok": record}` / `{"err": class}`), `spec` (record or null = unsupported), and for extended
conditions the truth tables `ext = {names, spec, model, impl}` (model / impl read by `readQ`). -/
def corrCase (j : Json) : Except String Json := do
  let k ← cfgOfJson (← j.getObjVal? "cfg")
  let envL ← envOfJson (← j.getObjVal? "env")
  let env : Env := fun r => envL.lookup r
  let stages ← stagesOfJson (← j.getObjVal? "stages")
  let method ← match optJ j "method" with
    | none => pure none
    | some v => do pure (some (← strOfJson v))
  let rule ← ruleOfJson (← j.getObjVal? "rule")
  let model := convertCorr k env stages method rule
  let sp := spec k env stages method rule
  let ext ← match rule.cond with
    | .ext e => do
        let names := e.refs
        let impl ← match optJ j "implExt" with
          | none => pure Json.null
          | some v => do
              let toks ← (← v.getArr?).toList.mapM corrTokOfJson
              pure (corrOptToJson corrBoolsToJson (readTT k.prec names.length toks))
        let mtt := match model with
          | .ok { cond := .ext _ toks, .. } => corrOptToJson corrBoolsToJson (readTT k.prec names.length toks)
          | _ => Json.null
        pure (Json.mkObj [("names", corrStrsToJson names), ("spec", corrBoolsToJson (ttExt names e)),
          ("model", mtt), ("impl", impl)])
    | _ => pure Json.null
  pure (Json.mkObj [
    ("model", match model with
      | .ok r => Json.mkObj [("ok", recordToJson r)]
      | .error e => Json.mkObj [("err", corrErrName e)]),
    ("spec", corrOptToJson recordToJson sp),
    ("ext", ext)])

/-- `corr.timespan`: `spec` string → `{count, unit, seconds}` or null -/
def corrTimespan (j : Json) : Except String Json := do
  match parseTimespan (← getStr j "spec") with
  | some t => pure (Json.mkObj [("ts", Json.mkObj [("count", Json.num (JsonNumber.fromNat t.count)),
      ("unit", Json.num (JsonNumber.fromNat t.unit.toNat)), ("seconds", Json.num (JsonNumber.fromNat t.seconds))])])
  | none => pure (Json.mkObj [("ts", Json.null)])

end Driver.CorrOps
