import Driver.RuleOps
import SigmaVerif.Spec.Rewrite
/-! `rewrite.case` (C12): the ORIGINAL rule document and the description of a transformation; the
documented rewrite of `Spec/Rewrite.lean` is applied here, the rewritten document is returned and
every (condition, query) pair is judged exactly as `rule.sem` judges a document. -/
namespace Driver
open Lean SigmaVerif SigmaVerif.SStr SigmaVerif.Rule SigmaVerif.Rewrite

def rwPvToJson : PV → Json
  | .str s => Json.mkObj [("str", strToJson s)]
  | .num n => Json.mkObj [("num", strToJson n)]
  | .bool b => Json.bool b
  | .null => Json.null

def rwKvToJson (kv : KV) : Json := .arr #[strToJson kv.1, .arr (kv.2.map rwPvToJson).toArray]

partial def rwDetToJson : Det → Json
  | .map items => Json.mkObj [("map", .arr (items.map rwKvToJson).toArray)]
  | .values vs => Json.mkObj [("values", .arr (vs.map rwPvToJson).toArray)]
  | .list ds => Json.mkObj [("list", .arr (ds.map rwDetToJson).toArray)]
  | .all ds => Json.mkObj [("all", .arr (ds.map rwDetToJson).toArray)]

def rwDetsToJson (ds : List (Str × Det)) : Json :=
  .arr (ds.map (fun d => Json.mkObj [("name", strToJson d.1), ("det", rwDetToJson d.2)])).toArray

def rwKvOfJson (kv : Json) : Except String KV := do
  let a ← kv.getArr?
  let key ← strOfJson (a.getD 0 Json.null)
  let vs ← (← (a.getD 1 Json.null).getArr?).toList.mapM pvOfJson
  pure (key, vs)

def rwStrListOfJson (j : Json) : Except String (List Str) := do
  (← j.getArr?).toList.mapM strOfJson

/-- `[[src, [dst, …]], …]` -/
def rwTableOfJson (j : Json) : Except String (List (Str × List Str)) := do
  (← j.getArr?).toList.mapM fun e => do
    let a ← e.getArr?
    pure ((← strOfJson (a.getD 0 Json.null)), (← rwStrListOfJson (a.getD 1 Json.null)))

/-- `[[s, s'], …]` -/
def rwPairsOfJson (j : Json) : Except String (List (Str × Str)) := do
  (← j.getArr?).toList.mapM fun e => do
    let a ← e.getArr?
    pure ((← strOfJson (a.getD 0 Json.null)), (← strOfJson (a.getD 1 Json.null)))

def rwCondOfJson (s : Json) : Except String FScope := do
  let fs ← rwStrListOfJson (← s.getObjVal? "fields")
  match ← s.getObjValAs? String "mode" with
  | "include" => pure (includeFields fs)
  | "exclude" => pure (excludeFields fs)
  | m => throw s!"bad scope mode {m}"

/-- `scope` = `{conds: [{mode, fields}…], anyOf, neg}` (the condition group of the item) or a single `{mode, fields}`
→ the group on field names and the group on detection items -/
def rwGroupOfJson (j : Json) : Except String (FScope × Scope) :=
  match j.getObjVal? "scope" with
  | .ok (.obj o) => do
    let s := Json.obj o
    match s.getObjVal? "conds" with
    | .ok (.arr a) => do
      let cs ← a.toList.mapM rwCondOfJson
      let anyOf := getBoolD s "anyOf" false
      let neg := getBoolD s "neg" false
      pure (groupFields anyOf neg cs, groupItems anyOf neg cs)
    | _ => do
      let c ← rwCondOfJson s
      pure (c, fieldScope c)
  | _ => pure (everything, fieldScope everything)

def rwFieldFnOfJson (j : Json) : Except String (Str → List Str) := do
  match ← j.getObjValAs? String "k" with
  | "table" => do pure (tableMap (← rwTableOfJson (← j.getObjVal? "tbl")))
  | "prefix" => do pure (addPrefix (← getStr j "s"))
  | "suffix" => do pure (addSuffix (← getStr j "s"))
  | "prefixMap" => do pure (prefixMap (← rwTableOfJson (← j.getObjVal? "tbl")))
  | k => throw s!"bad field function {k}"

def rwVtOfJson (j : Json) : Except String VT := do
  match ← j.getObjValAs? String "k" with
  | "replace" => do
    let tbl ← rwPairsOfJson (← j.getObjVal? "tbl")
    pure (replaceString (fun s => (tbl.lookup s).getD s))
  | "map" => do pure (mapString (← rwTableOfJson (← j.getObjVal? "tbl")))
  | "lower" => pure caseLower
  | "upper" => pure caseUpper
  | "set" => do pure (setValue (← pvOfJson (← j.getObjVal? "v")))
  | "convertStr" => pure convertStr
  | k => throw s!"bad value transformation {k}"

partial def rwTrOfJson (j : Json) : Except String Tr := do
  match ← j.getObjValAs? String "t" with
  | "rename" => do
    let m ← rwFieldFnOfJson (← j.getObjVal? "fn")
    let (fsc, gate) ← rwGroupOfJson j
    pure (.renameGated gate (scopedMap fsc m))
  | "kw2field" => do pure (.kwToField (← getStr j "g"))
  | "kw2fields" => do pure (.kwToFields (← rwStrListOfJson (← j.getObjVal? "gs")))
  | "drop" => do pure (.drop (← rwGroupOfJson j).2)
  | "addCond" => do
    let items ← (← (← j.getObjVal? "items").getArr?).toList.mapM rwKvOfJson
    let items ← if getBoolD j "template" false then do
        pure (tplItems (← rwPairsOfJson (← j.getObjVal? "vars")) items)
      else pure items
    pure (.addCond (← getStr j "name") items (getBoolD j "negated" false))
  | "value" => do pure (.value (← rwVtOfJson (← j.getObjVal? "vt")) (← rwGroupOfJson j).2)
  | "addFields" => do let fs ← rwStrListOfJson (← j.getObjVal? "fields"); pure (.fieldsList (addFields fs))
  | "removeFields" => do let fs ← rwStrListOfJson (← j.getObjVal? "fields"); pure (.fieldsList (removeFields fs))
  | "setFields" => do let fs ← rwStrListOfJson (← j.getObjVal? "fields"); pure (.fieldsList (setFields fs))
  | "hashes" => do
    let byLen ← (← (← j.getObjVal? "byLength").getArr?).toList.mapM fun e => do
      let a ← e.getArr?
      pure ((← (a.getD 0 Json.null).getNat?), (← strOfJson (a.getD 1 Json.null)))
    let cfg : HashCfg := { algos := ← rwStrListOfJson (← j.getObjVal? "algos"), pfx := ← getStr j "pfx",
                           dropAlgo := getBoolD j "drop" false, fields := ← rwStrListOfJson (← j.getObjVal? "fields"),
                           byLength := byLen }
    pure (.hashes cfg (← rwGroupOfJson j).2)
  | "nest" => do pure (.nest (← (← (← j.getObjVal? "items").getArr?).toList.mapM rwTrOfJson))
  | t => throw s!"bad transformation {t}"

def rwRwErrJson : RwErr → Json
  | .emptied n => Json.mkObj [("rwErr", "emptied"), ("name", strToJson n)]
  | .notExpressible w => Json.mkObj [("rwErr", "notExpressible"), ("detail", w)]
  | .noValidHash => Json.mkObj [("rwErr", "noValidHash")]

def rewriteCase (j : Json) : Except String Json := do
  let dets ← (← (← j.getObjVal? "dets").getArr?).toList.mapM fun d => do
    pure ((← getStr d "name"), (← detOfJson (← d.getObjVal? "det")))
  let conds ← rwStrListOfJson (← j.getObjVal? "conds")
  let fields ← match j.getObjVal? "fields" with | .ok f => rwStrListOfJson f | .error _ => pure []
  let tr ← rwTrOfJson (← j.getObjVal? "tr")
  match tr.apply { dets := dets, conds := conds, fields := fields } with
  | .error e => pure (rwRwErrJson e)
  | .ok doc =>
    let docJ := Json.mkObj [("dets", rwDetsToJson doc.dets), ("conds", .arr (doc.conds.map strToJson).toArray),
                            ("fields", .arr (doc.fields.map strToJson).toArray)]
    let queries := match j.getObjVal? "queries" with | .ok (.arr a) => a.toList | _ => []
    let j0 := (j.setObjVal! "dets" (rwDetsToJson doc.dets)).setObjVal! "op" "rule.sem"
    let rs ← (doc.conds.zip (queries ++ List.replicate (doc.conds.length - queries.length) Json.null)).mapM fun (c, q) => do
      match q.getObjVal? "tokErr" with
      | .ok e => pure (Json.mkObj [("tokErr", e)])
      | .error _ =>
        let j1 := j0.setObjVal! "cond" (strToJson c)
        let j2 := match q with | .arr _ => j1.setObjVal! "query" q | _ => j1
        ruleSem j2
    pure (Json.mkObj [("doc", docJ), ("items", .arr rs.toArray)])

end Driver
