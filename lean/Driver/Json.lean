import Lean.Data.Json
/-! JSON glue for the line protocol: strings travel as arrays of code points. -/
namespace Driver
open Lean

abbrev Str := List Char

def strOfJson (j : Json) : Except String Str := do
  match j with
  | .arr a => a.toList.mapM fun x => do
      let n ← x.getNat?
      pure (Char.ofNat n)
  | .str s => pure s.toList
  | _ => throw "expected code point array"

def strToJson (s : Str) : Json := .arr (s.map (fun c => Json.num c.toNat)).toArray

def getStr (j : Json) (k : String) : Except String Str := do
  strOfJson (← j.getObjVal? k)

def getStrList (j : Json) (k : String) : Except String (List Str) := do
  let a ← (← j.getObjVal? k).getArr?
  a.toList.mapM strOfJson

def getBoolD (j : Json) (k : String) (d : Bool) : Bool :=
  match j.getObjVal? k with
  | .ok (.bool b) => b
  | _ => d

def getNatD (j : Json) (k : String) (d : Nat) : Nat :=
  match j.getObjVal? k with
  | .ok v => (v.getNat?).toOption.getD d
  | _ => d

def showStr (s : Str) : String := String.ofList s

end Driver
