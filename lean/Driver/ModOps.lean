import Driver.Json
import Driver.SStrOps
import SigmaVerif.Spec.Mods
namespace Driver
open Lean SigmaVerif SigmaVerif.SStr SigmaVerif.Mods

partial def valToJson : Val → Json
  | .str c s => Json.mkObj [("t", "str"), ("cased", c), ("s", sstrToJson s)]
  | .num n => Json.mkObj [("t", "num"), ("n", strToJson n)]
  | .bool b => Json.mkObj [("t", "bool"), ("b", b)]
  | .null => Json.mkObj [("t", "null")]
  | .re src a b d => Json.mkObj [("t", "re"), ("src", strToJson src), ("i", a), ("m", b), ("s", d)]
  | .cidr t => Json.mkObj [("t", "cidr"), ("text", strToJson t)]
  | .cmp op n => Json.mkObj [("t", "cmp"), ("op", strToJson op), ("n", strToJson n)]
  | .fieldref f sw ew => Json.mkObj [("t", "ref"), ("f", strToJson f), ("sw", sw), ("ew", ew)]
  | .exists_ b => Json.mkObj [("t", "exists"), ("b", b)]
  | .tspart u n => Json.mkObj [("t", "ts"), ("unit", strToJson u), ("n", strToJson n)]
  | .expansion vs => Json.mkObj [("t", "exp"), ("vs", .arr (vs.map valToJson).toArray)]

/-- plain YAML value → initial Sigma value (`sigma_type`, or `SigmaString.from_str` when the
chain contains `re`) -/
def plainToVal (raw : Bool) (j : Json) : Except String Val :=
  match j with
  | .null => pure .null
  | .bool b => pure (.bool b)
  | .obj _ => do
      match j.getObjVal? "num" with
      | .ok n => pure (.num (← strOfJson n))
      | .error _ => do
        let s ← getStr j "str"
        pure (.str false (if raw then s.map .lit else parse s))
  | _ => throw "bad plain value"

def envOfJson (j : Json) : Except String Env := do
  let wcs := match j.getObjVal? "wordChars" with
    | .ok v => (strOfJson v).toOption.getD []
    | .error _ => []
  let tables : B64.Tables ← match j.getObjVal? "tables" with
    | .ok tj => do
        let s ← (← tj.getObjVal? "starts").getArr?
        let c ← (← tj.getObjVal? "cuts").getArr?
        pure { starts := ← s.toList.mapM (·.getNat?), cuts := ← c.toList.mapM (·.getNat?) }
    | .error _ => pure B64.stdTables
  pure { w := fun c => c.isAlphanum || c == '_' || wcs.contains c, tables := tables }

def errJson : MErr → Json
  | .type m => Json.mkObj [("err", "type"), ("mod", strToJson m)]
  | .value m => Json.mkObj [("err", "value"), ("mod", strToJson m)]
  | .unknown m => Json.mkObj [("err", "unknown"), ("mod", strToJson m)]

/-- `mod.apply`: `hasField`, `mods` (strings), `vals` (plain values) -/
def modApply (j : Json) : Except String Json := do
  let env ← envOfJson j
  let mods ← (← (← j.getObjVal? "mods").getArr?).toList.mapM (fun m => m.getStr?)
  let raw := mods.contains "re"
  let vals ← (← (← j.getObjVal? "vals").getArr?).toList.mapM (plainToVal raw)
  let it : Item := { hasField := getBoolD j "hasField" true, vals := vals }
  match applyChain env mods it with
  | .ok r => pure (Json.mkObj [("ok", Json.mkObj [
      ("vals", .arr (r.vals.map valToJson).toArray), ("linkAnd", r.linkAnd), ("negated", r.negated)])])
  | .error e => pure (errJson e)

end Driver
