import Driver.Json
import Driver.RuleOps
import SigmaVerif.Model.Conv
/-!
`conv.run` — the drift comparison of C01: the MODEL converter `Conv.convert` (the function the
theorems of `Props/C01.lean` are about) is run on the condition tree the implementation built, and
its token list is returned in the token JSON of `harness/qsyntax.py` with atoms named by leaf id.

Request: `{"op":"conv.run","cfg":{"prec":[…],"parenthesize":b,"orAsIn":b,"andAsIn":b,"inAllowWild":b,
"notAsNotEq":b},"tree":T}` where `T` is
`null` | `{"and":[T…]}` | `{"or":[T…]}` | `{"not":T}` | `{"atom":id,"info":I}` | `{"nex":id,"info":I}` |
`{"exp":[[id,I]…]}` | `{"cidr":[[id,I]…]}` and `I = {"field":n|null,"inOk":b,"special":b,"negatable":b}`.
Reply: `{"tokens":[…]}` with tokens `"(" ")" "not" "and" "or" {"atom":id} {"natom":id}
{"in":{"or":b,"ids":[…]}}`, or `{"vanished":true}` when the model returns `none`.
-/
namespace Driver
open Lean SigmaVerif SigmaVerif.Conv

def infoOfJson (j : Json) : Except String AtomInfo := do
  let field : Option Nat ← match j.getObjVal? "field" with
    | .ok .null => pure none
    | .ok v => do pure (some (← v.getNat?))
    | .error _ => pure none
  pure { field := field, inOk := getBoolD j "inOk" false, special := getBoolD j "special" false,
         negatable := getBoolD j "negatable" false }

def altsOfJson (j : Json) : Except String (List (Nat × AtomInfo)) := do
  (← j.getArr?).toList.mapM fun p => do
    let a ← p.getArr?
    pure ((← (a.getD 0 Json.null).getNat?), (← infoOfJson (a.getD 1 Json.null)))

partial def ctOfJson (j : Json) : Except String CT :=
  match j with
  | .null => pure .none
  | .obj _ =>
    match j.getObjVal? "and", j.getObjVal? "or", j.getObjVal? "not" with
    | .ok (.arr cs), _, _ => do pure (.and (← cs.toList.mapM ctOfJson))
    | _, .ok (.arr cs), _ => do pure (.or (← cs.toList.mapM ctOfJson))
    | _, _, .ok c => do pure (.not (← ctOfJson c))
    | _, _, _ =>
      match j.getObjVal? "atom", j.getObjVal? "nex", j.getObjVal? "exp", j.getObjVal? "cidr" with
      | .ok a, _, _, _ => do pure (.atom (← a.getNat?) (← infoOfJson (← j.getObjVal? "info")))
      | _, .ok a, _, _ => do pure (.nex (← a.getNat?) (← infoOfJson (← j.getObjVal? "info")))
      | _, _, .ok as, _ => do pure (.exp (← altsOfJson as))
      | _, _, _, .ok as => do pure (.cidr (← altsOfJson as))
      | _, _, _, _ => throw "bad condition tree node"
  | _ => throw "bad condition tree node"

def cfgOfJson (j : Json) : Except String Cfg := do
  let prec ← (← (← j.getObjVal? "prec").getArr?).toList.mapM (fun o => do opOfString (← o.getStr?))
  pure { prec := prec, parenthesize := getBoolD j "parenthesize" false, orAsIn := getBoolD j "orAsIn" false,
         andAsIn := getBoolD j "andAsIn" false, inAllowWild := getBoolD j "inAllowWild" false,
         notAsNotEq := getBoolD j "notAsNotEq" false }

def qtokToJson : QTok → Json
  | .lp => "(" | .rp => ")" | .tnot => "not" | .tand => "and" | .tor => "or"
  | .atom a => Json.mkObj [("atom", a)]
  | .natom a => Json.mkObj [("natom", a)]
  | .inList o as => Json.mkObj [("in", Json.mkObj [("or", o), ("ids", .arr (as.map (fun (n : Nat) => (n : Json))).toArray)])]

def convRun (j : Json) : Except String Json := do
  let k ← cfgOfJson (← j.getObjVal? "cfg")
  let ct ← ctOfJson (← j.getObjVal? "tree")
  match convert k false ct with
  | none => pure (Json.mkObj [("vanished", true), ("wf", k.wf)])
  | some q => pure (Json.mkObj [("tokens", .arr (q.map qtokToJson).toArray), ("wf", k.wf)])

end Driver
