import Driver.Json
import Driver.EncOps
import SigmaVerif.Model.Pipe
import SigmaVerif.Model.Registry
namespace Driver
open Lean SigmaVerif SigmaVerif.Pipe

def pOfJson (j : Json) : Except String P := do
  let vars ← match j.getObjVal? "vars" with
    | .ok (.arr a) => a.toList.mapM fun kv => do
        let p ← natsOfJson kv
        pure (p.getD 0 0, p.getD 1 0)
    | _ => pure []
  pure { items := ← getNats j "items", post := ← getNats j "post", fins := ← getNats j "fins", vars := vars }

def pToJson (p : P) (keys : List Nat) : Json :=
  Json.mkObj [("items", natsToJson p.items), ("post", natsToJson p.post), ("fins", natsToJson p.fins),
    ("vars", .arr (keys.map (fun k => match lookupVar p.vars k with
      | some v => natsToJson [k, v] | none => natsToJson [k])).toArray)]

/-- bracketing tree: a number = leaf index, a 2-array = `left + right` -/
partial def evalTree (ps : List P) : Json → Except String P
  | .arr a =>
    if a.size == 2 then do
      let l ← evalTree ps a[0]!
      let r ← evalTree ps a[1]!
      pure (l.add r)
    else throw "tree node must have two children"
  | j => do
    let i ← j.getNat?
    pure (ps.getD i P.empty)

/-- `pipe.compose`: `pipes` (values), and one of `tree` (bracketing of `+`), `resolve`
(list of `[priority, nameRank, pipeIndex]` in the order named), `init` ([backend, user, format]) -/
def pipeCompose (j : Json) : Except String Json := do
  let ps ← (← (← j.getObjVal? "pipes").getArr?).toList.mapM pOfJson
  let keys := (ps.flatMap (fun p => p.vars.map (·.1))).eraseDups
  match j.getObjVal? "tree", j.getObjVal? "resolve", j.getObjVal? "init" with
  | .ok t, _, _ => do pure (pToJson (← evalTree ps t) keys)
  | _, .ok (.arr specs), _ => do
      let ss ← specs.toList.mapM fun s => do
        let x ← natsOfJson s
        pure ({ priority := x.getD 0 0, name := x.getD 1 0, pipe := ps.getD (x.getD 2 0) P.empty } : Spec)
      pure (pToJson (resolve ss) keys)
  | _, _, .ok i => do
      let x ← natsOfJson i
      pure (pToJson (initPipeline (ps.getD (x.getD 0 0) P.empty) (ps.getD (x.getD 1 0) P.empty) (ps.getD (x.getD 2 0) P.empty)) keys)
  | _, _, _ => throw "no operation"

/-- `pipe.sys`: ownership history: ops `["define", [items]]` / `["add", a, b]`; reply: per pipeline
object the visible and all items -/
def pipeSys (j : Json) : Except String Json := do
  let ops ← (← (← j.getObjVal? "ops").getArr?).toList.mapM fun o => do
    let a ← o.getArr?
    match a[0]? with
    | some (.str "define") => do pure (Op.define (← natsOfJson (a[1]?.getD Json.null)))
    | some (.str "add") => do pure (Op.add (← (a[1]?.getD Json.null).getNat?) (← (a[2]?.getD Json.null).getNat?))
    | _ => throw "bad op"
  let s := Sys.init.run ops
  pure (Json.mkObj [("pipes", .arr ((List.range s.pipes.length).map (fun p =>
    Json.mkObj [("all", natsToJson (s.specVisible p)), ("visible", natsToJson (s.visible p))])).toArray)])

/-- `reg.run`: registration history of `sigma.pipelines.base.Pipeline`: ops `["decorate", d]`, `["instantiate", c, d]`,
`["callFunc", h]`, `["callClass", c]`; reply: the output of every op (`null` = nothing registered under the handle) -/
def regRun (j : Json) : Except String Json := do
  let ops ← (← (← j.getObjVal? "ops").getArr?).toList.mapM fun o => do
    let a ← o.getArr?
    let n (i : Nat) : Except String Nat := (a[i]?.getD Json.null).getNat?
    match a[0]? with
    | some (.str "decorate") => do pure (SigmaVerif.Registry.Op.decorate (← n 1))
    | some (.str "instantiate") => do pure (SigmaVerif.Registry.Op.instantiate (← n 1) (← n 2))
    | some (.str "callFunc") => do pure (SigmaVerif.Registry.Op.callFunc (← n 1))
    | some (.str "callClass") => do pure (SigmaVerif.Registry.Op.callClass (← n 1))
    | _ => throw "bad op"
  let outs := ((({} : SigmaVerif.Registry.Reg).run ops).2)
  pure (Json.mkObj [("outs", .arr (outs.map (fun o => match o with | some v => Json.num v | none => Json.null)).toArray)])

end Driver
