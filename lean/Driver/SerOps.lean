import Driver.Json
import Driver.SStrOps
import Driver.ModOps
import Driver.RuleOps
import SigmaVerif.Model.Ser
import SigmaVerif.Model.LogSource
import SigmaVerif.Lemmas.C06Touch
namespace Driver
open Lean SigmaVerif SigmaVerif.SStr SigmaVerif.Mods SigmaVerif.Ser
open SigmaVerif.Rule (PV)

/-! JSON glue for C06: `ser.case` (a detection section in plain form → the model's load, write,
reload) and `ser.obj` (a detection object tree as left by a pipeline → the model's `to_plain`). -/

def pvToJson : PV → Json
  | .null => Json.null
  | .bool b => Json.bool b
  | .num n => Json.mkObj [("num", strToJson n)]
  | .str s => Json.mkObj [("str", strToJson s)]

def pvalsOfJson (j : Json) : Except String PVals :=
  match j.getObjVal? "many" with
  | .ok (.arr a) => do pure (.many (← a.toList.mapM pvOfJson))
  | _ => do pure (.one (← pvOfJson (← j.getObjVal? "one")))

def pvalsToJson : PVals → Json
  | .one v => Json.mkObj [("one", pvToJson v)]
  | .many vs => Json.mkObj [("many", .arr (vs.map pvToJson).toArray)]

partial def pdefOfJson (j : Json) : Except String PDef := do
  match j.getObjVal? "map" with
  | .ok (.arr kvs) =>
    let items ← kvs.toList.mapM fun kv => do
      let a ← kv.getArr?
      pure ((← strOfJson (a.getD 0 Json.null)), (← pvalsOfJson (a.getD 1 Json.null)))
    pure (.map items)
  | _ =>
    match j.getObjVal? "list" with
    | .ok (.arr es) => do pure (.list (← es.toList.mapM pdefOfJson))
    | _ => do pure (.val (← pvOfJson (← j.getObjVal? "val")))

partial def pdefToJson : PDef → Json
  | .val v => Json.mkObj [("val", pvToJson v)]
  | .map kvs => Json.mkObj [("map", .arr (kvs.map (fun kv => Json.arr #[strToJson kv.1, pvalsToJson kv.2])).toArray)]
  | .list es => Json.mkObj [("list", .arr (es.map pdefToJson).toArray)]

def serErrJson : Ser.Err → Json
  | .modifier => "modifier" | .type => "type" | .value => "value" | .refused => "refused"
  | .empty => "empty" | .condition => "condition" | .junk => "junk"

def pcondOfJson (j : Json) : Except String PCond :=
  match j.getObjVal? "cond" with
  | .ok (.obj o) =>
    let jj := Json.obj o
    match jj.getObjVal? "many" with
    | .ok (.arr a) => do pure (.many (← a.toList.mapM strOfJson))
    | _ => do pure (.one (← getStr jj "one"))
  | _ => pure .missing

def pcondToJson : PCond → Json
  | .missing => Json.null
  | .one c => Json.mkObj [("one", strToJson c)]
  | .many cs => Json.mkObj [("many", .arr (cs.map strToJson).toArray)]

def pdocToJson (p : PDoc) : Json :=
  Json.mkObj [("dets", .arr (p.dets.map (fun nd => Json.arr #[strToJson nd.1, pdefToJson nd.2])).toArray),
              ("cond", pcondToJson p.cond)]

def dateJson (s : Str) : Json :=
  match parseDate s with
  | some t => strToJson (printDate t)
  | none => Json.null

/-- the log source of the document (`logsource` = [[attribute name, text]…], named attributes only): the model's dict
form after loading, `null` when the model refuses it (no category, product, service) -/
def logsourceJson (j : Json) : Except String Json := do
  match j.getObjVal? "logsource" with
  | .ok (.arr a) =>
    let d ← a.toList.mapM fun e => do
      let kv ← e.getArr?
      pure ((← (kv.getD 0 Json.null).getStr?), (← strOfJson (kv.getD 1 Json.null)))
    match LogSource.fromDict d with
    | none => pure Json.null
    | some l => pure (.arr ((LogSource.toDict l).map (fun kv => Json.arr #[Json.str kv.1, strToJson kv.2])).toArray)
  | _ => pure (Json.mkObj [("absent", true)])

/-- `ser.case`: `dets` = [[name, pdef]…], `cond`, `dates` = [text…].  Reply: the plain form the model
writes after loading (`plain`) or the error class of the load (`loadErr`) / of the write (`serErr`);
whether the model's own reload of what it wrote gives the same plain form again (`fixed`); whether
the document is in the class the round-trip theorem covers (`good`); dates in ISO spelling. -/
def serCase (j : Json) : Except String Json := do
  let env ← envOfJson j
  let dets ← (← (← j.getObjVal? "dets").getArr?).toList.mapM fun nd => do
    let a ← nd.getArr?
    pure ((← strOfJson (a.getD 0 Json.null)), (← pdefOfJson (a.getD 1 Json.null)))
  let doc : PDoc := { dets := dets, cond := ← pcondOfJson j }
  let dates := match j.getObjVal? "dates" with
    | .ok (.arr a) => a.toList.map (fun d => match strOfJson d with | .ok s => dateJson s | .error _ => Json.null)
    | _ => []
  let base := [("good", Json.bool (GoodDoc doc)), ("dates", Json.arr dates.toArray), ("logsource", ← logsourceJson j)]
  match loadDoc env doc with
  | .error e => pure (Json.mkObj (("loadErr", serErrJson e) :: base))
  | .ok D =>
    match serDoc D with
    | .error e => pure (Json.mkObj (("serErr", serErrJson e) :: base))
    | .ok p' =>
      let fixed : Json := match loadDoc env p' with
        | .error e => Json.mkObj [("reloadErr", serErrJson e)]
        | .ok D' =>
          match serDoc D' with
          | .error e => Json.mkObj [("reserErr", serErrJson e)]
          | .ok p'' => Json.bool ((pdocToJson p'').compress == (pdocToJson p').compress)
      pure (Json.mkObj (("plain", pdocToJson p') :: ("fixed", fixed) :: base))

/-! ### object trees -/

partial def valOfJson (j : Json) : Except String Val := do
  let t ← j.getObjValAs? String "t"
  match t with
  | "str" => pure (.str (getBoolD j "cased" false) (← sstrOfJson (← j.getObjVal? "s")))
  | "num" => pure (.num (← getStr j "n"))
  | "bool" => pure (.bool (getBoolD j "b" false))
  | "null" => pure .null
  | "re" => pure (.re (← getStr j "src") (getBoolD j "i" false) (getBoolD j "m" false) (getBoolD j "s" false))
  | "cidr" => pure (.cidr (← getStr j "text"))
  | "cmp" => pure (.cmp (← getStr j "op") (← getStr j "n"))
  | "ref" => pure (.fieldref (← getStr j "f") (getBoolD j "sw" false) (getBoolD j "ew" false))
  | "exists" => pure (.exists_ (getBoolD j "b" false))
  | "ts" => pure (.tspart (← getStr j "unit") (← getStr j "n"))
  | "exp" => do pure (.expansion (← (← (← j.getObjVal? "vs").getArr?).toList.mapM valOfJson))
  | _ => throw s!"bad value type {t}"

partial def detOfJsonObj (j : Json) : Except String Ser.Det := do
  match j.getObjVal? "item" with
  | .ok it =>
    let field ← optStrJ it "field"
    let mods ← (← (← it.getObjVal? "mods").getArr?).toList.mapM strOfJson
    let orig ← match it.getObjVal? "orig" with
      | .ok (.arr a) => do pure (some (← a.toList.mapM valOfJson))
      | _ => pure none
    pure (.item { field := field, mods := mods, value := [], linkAnd := false, negated := false, orig := orig })
  | .error _ =>
    let cs ← (← (← j.getObjVal? "node").getArr?).toList.mapM detOfJsonObj
    pure (.node cs (getBoolD j "or" false))

/-- `ser.obj`: `dets` = [[name, object tree]…] → per detection the model's `to_plain` or error class -/
def serObj (j : Json) : Except String Json := do
  let dets ← (← (← j.getObjVal? "dets").getArr?).toList.mapM fun nd => do
    let a ← nd.getArr?
    pure ((← strOfJson (a.getD 0 Json.null)), (← detOfJsonObj (a.getD 1 Json.null)))
  match mapNamed toPlainDet dets with
  | .error e => pure (Json.mkObj [("serErr", serErrJson e)])
  | .ok ps => pure (Json.mkObj [("dets", .arr (ps.map (fun nd => Json.arr #[strToJson nd.1, pdefToJson nd.2])).toArray)])

end Driver
