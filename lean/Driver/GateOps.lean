import Driver.Json
import Driver.CondOps
import SigmaVerif.Model.Gate
import SigmaVerif.Model.Cond
namespace Driver
open Lean SigmaVerif SigmaVerif.Gate

/-- parse tree of the (selector-free) expression grammar → expression over condition indices -/
def bxOfPT (ids : List Str) : Cond.PT → Option BX
  | .id n => (ids.idxOf? n).map BX.id
  | .sel _ _ => none
  | .not p => (bxOfPT ids p).map BX.not
  | .and ps => foldOp BX.and (ps.map (bxOfPT ids))
  | .or ps => foldOp BX.or (ps.map (bxOfPT ids))
where
  foldOp (mk : BX → BX → BX) : List (Option BX) → Option BX
    | [] => none
    | some x :: rest => rest.foldl (fun acc y => match acc, y with | some a, some b => some (mk a b) | _, _ => none) (some x)
    | none :: _ => none

def boolsOfJson (j : Json) : Except String (List Bool) := do
  (← j.getArr?).toList.mapM fun b => match b with | .bool x => pure x | _ => throw "bool expected"

def fnOf (bs : List Bool) : Nat → Bool := fun i => bs.getD i false

def groupOfJson (g : Cond.Grammar) (j : Json) : Except String (Option Group) := do
  let n ← (← j.getObjVal? "n").getNat?
  let neg := getBoolD j "neg" false
  match j.getObjVal? "link" with
  | .ok (.str "all") => pure (some { n := n, link := .all, neg := neg })
  | .ok (.str "any") => pure (some { n := n, link := .any, neg := neg })
  | .ok lj => do
      let text ← getStr lj "expr"
      let ids ← getStrList lj "ids"
      match Cond.parse g text with
      | some pt => pure ((bxOfPT ids pt).map (fun e => { n := n, link := .expr e, neg := neg }))
      | none => pure none
  | .error e => throw e

/-- `gate.eval`: an item (three groups), the truth values of its rule conditions and, per target
detection item, the truth values of its detection-item and field-name conditions -/
def gateEval (j : Json) : Except String Json := do
  let g ← match j.getObjVal? "grammar" with
    | .ok gj => grammarOfJson gj
    | .error _ => pure { Cond.stdGrammar with quants := [] }
  let rg ← groupOfJson g (← j.getObjVal? "rule")
  let dg ← groupOfJson g (← j.getObjVal? "det")
  let fg ← groupOfJson g (← j.getObjVal? "field")
  match rg, dg, fg with
  | some r, some d, some f =>
    let it : Item := { rule := r, det := d, field := f }
    let rr ← boolsOfJson (← j.getObjVal? "rr")
    let targets ← (← j.getObjVal? "targets").getArr?
    let outs ← targets.toList.mapM fun t => do
      let dr ← boolsOfJson (← t.getObjVal? "dr")
      let fr ← boolsOfJson (← t.getObjVal? "fr")
      pure (Json.bool (it.onDetItem (fnOf rr) (fnOf dr) (fnOf fr)))
    pure (Json.mkObj [("onRule", Json.bool (it.onRule (fnOf rr))), ("onDet", .arr outs.toArray)])
  | _, _, _ => pure (Json.mkObj [("exprError", true)])

end Driver
