import Driver.Json
import Driver.CondOps
import SigmaVerif.Model.Gate
import SigmaVerif.Model.Cond
import SigmaVerif.Spec.PipeConds
namespace Driver
open Lean SigmaVerif SigmaVerif.Gate

/-- parse tree of the (selector-free) expression grammar → expression over condition indices -/
def bxOfPT (ids : List Str) : Cond.PT → Option BX
  | .id n => (ids.idxOf? n).map BX.id
  | .sel _ _ => none
  | .not p => (bxOfPT ids p).map BX.not
  | .and ps => foldOp BX.and (ps.map (bxOfPT ids))
  | .or ps => foldOp BX.or (ps.map (bxOfPT ids))
where
  foldOp (mk : BX → BX → BX) : List (Option BX) → Option BX
    | [] => none
    | some x :: rest => rest.foldl (fun acc y => match acc, y with | some a, some b => some (mk a b) | _, _ => none) (some x)
    | none :: _ => none

def boolsOfJson (j : Json) : Except String (List Bool) := do
  (← j.getArr?).toList.mapM fun b => match b with | .bool x => pure x | _ => throw "bool expected"

def fnOf (bs : List Bool) : Nat → Bool := fun i => bs.getD i false

def groupOfJson (g : Cond.Grammar) (j : Json) : Except String (Option Group) := do
  let n ← (← j.getObjVal? "n").getNat?
  let neg := getBoolD j "neg" false
  match j.getObjVal? "link" with
  | .ok (.str "all") => pure (some { n := n, link := .all, neg := neg })
  | .ok (.str "any") => pure (some { n := n, link := .any, neg := neg })
  | .ok lj => do
      let text ← getStr lj "expr"
      let ids ← getStrList lj "ids"
      match Cond.parse g text with
      | some pt => pure ((bxOfPT ids pt).map (fun e => { n := n, link := .expr e, neg := neg }))
      | none => pure none
  | .error e => throw e

/-- `gate.eval`: an item (three groups), the truth values of its rule conditions and, per target
detection item, the truth values of its detection-item and field-name conditions -/
def gateEval (j : Json) : Except String Json := do
  let g ← match j.getObjVal? "grammar" with
    | .ok gj => grammarOfJson gj
    | .error _ => pure { Cond.stdGrammar with quants := [] }
  let rg ← groupOfJson g (← j.getObjVal? "rule")
  let dg ← groupOfJson g (← j.getObjVal? "det")
  let fg ← groupOfJson g (← j.getObjVal? "field")
  match rg, dg, fg with
  | some r, some d, some f =>
    let it : Item := { rule := r, det := d, field := f }
    let rr ← boolsOfJson (← j.getObjVal? "rr")
    let targets ← (← j.getObjVal? "targets").getArr?
    let outs ← targets.toList.mapM fun t => do
      let dr ← boolsOfJson (← t.getObjVal? "dr")
      let fr ← boolsOfJson (← t.getObjVal? "fr")
      pure (Json.bool (it.onDetItem (fnOf rr) (fnOf dr) (fnOf fr)))
    pure (Json.mkObj [("onRule", Json.bool (it.onRule (fnOf rr))), ("onDet", .arr outs.toArray)])
  | _, _, _ => pure (Json.mkObj [("exprError", true)])


/-! ## `gate.case`: the full specification (`Spec/PipeConds.lean`) on an ORIGINAL rule + pipeline description -/
namespace GateCase
open SigmaVerif.PipeConds

def optStr (j : Json) (k : String) : Except String (Option Str) :=
  match j.getObjVal? k with
  | .ok .null => pure none
  | .ok v => do pure (some (← strOfJson v))
  | .error _ => pure none

def numOfJson (j : Json) : Except String Num := do
  match (← j.getArr?).toList with
  | [a, b] => pure { m := ← a.getInt?, e := ← b.getNat? }
  | _ => throw "number expected as [mantissa, exponent]"

def scalarOfJson (j : Json) : Except String Scalar := do
  match j.getObjVal? "s", j.getObjVal? "n", j.getObjVal? "b" with
  | .ok s, _, _ => pure (.str (← strOfJson s))
  | _, .ok n, _ => pure (.num (← numOfJson n))
  | _, _, .ok (.bool b) => pure (.bool b)
  | _, _, _ => throw s!"scalar expected: {j.compress}"

def valOfJson (j : Json) : Except String Val := do
  match j with
  | .null => pure .null
  | _ =>
    match j.getObjVal? "s", j.getObjVal? "n", j.getObjVal? "b", j.getObjVal? "ref" with
    | .ok s, _, _, _ => pure (.str (SStr.parse (← strOfJson s)))
    | _, .ok n, _, _ => pure (.num (← numOfJson n))
    | _, _, .ok (.bool b), _ => pure (.bool b)
    | _, _, _, .ok r => pure (.ref (← strOfJson r))
    | _, _, _, _ => pure .other

def logsourceOfJson (j : Json) : Except String LogSource := do
  pure { category := ← optStr j "category", product := ← optStr j "product", service := ← optStr j "service" }

def attrOfJson (j : Json) : Except String AttrVal := do
  match j.getObjVal? "str", j.getObjVal? "num", j.getObjVal? "date", j.getObjVal? "level", j.getObjVal? "status", j.getObjVal? "list" with
  | .ok s, _, _, _, _, _ => pure (.str (← strOfJson s))
  | _, .ok n, _, _, _, _ => pure (.num (← numOfJson n))
  | _, _, .ok d, _, _, _ =>
    match (← d.getArr?).toList with
    | [y, m, dd] => pure (.date (← y.getNat?) (← m.getNat?) (← dd.getNat?))
    | _ => throw "date expected as [y, m, d]"
  | _, _, _, .ok l, _, _ => pure (match enumIdx? levelNames (← strOfJson l) with | some i => .level i | none => .unsupported)
  | _, _, _, _, .ok l, _ => pure (match enumIdx? statusNames (← strOfJson l) with | some i => .status i | none => .unsupported)
  | _, _, _, _, _, .ok xs => do pure (.list (← (← xs.getArr?).toList.mapM strOfJson))
  | _, _, _, _, _, _ => pure .unsupported

def worldOfJson (j : Json) : Except String World := do
  let items ← (← (← j.getObjVal? "items").getArr?).toList.mapM fun it => do
    let vals ← (← (← it.getObjVal? "values").getArr?).toList.mapM valOfJson
    let applied ← match it.getObjVal? "applied" with
      | .ok a => (← a.getArr?).toList.mapM strOfJson
      | .error _ => pure []
    pure ({ det := ← getStr it "det", field := ← optStr it "field", values := vals, applied := applied } : DetItem)
  let attrs ← (← (← j.getObjVal? "attrs").getArr?).toList.mapM fun a => do
    match (← a.getArr?).toList with
    | [k, v] => pure ((← strOfJson k), (← attrOfJson v))
    | _ => throw "attribute expected as [name, value]"
  let kind := match j.getObjVal? "kind" with | .ok (.str "correlation") => RuleKind.correlation | _ => RuleKind.sigma
  let refSources ← match j.getObjVal? "refSources" with
    | .ok a => (← a.getArr?).toList.mapM logsourceOfJson
    | .error _ => pure []
  pure { kind := kind, logsource := ← logsourceOfJson (← j.getObjVal? "logsource"), refSources := refSources,
         items := items, fields := ← getStrList j "fields", applied := [], state := [], nameApplied := [],
         attrs := attrs, tags := ← getStrList j "tags" }

def typeOf (j : Json) : Except String String := do
  match ← j.getObjVal? "type" with
  | .str s => pure s
  | _ => throw "condition type expected"

def opOfJson (j : Json) (k : String) : Except String Op :=
  match j.getObjVal? k with
  | .ok (.str "eq") | .error _ => pure .eq
  | .ok (.str "ne") => pure .ne
  | .ok (.str "gte") => pure .gte
  | .ok (.str "gt") => pure .gt
  | .ok (.str "lte") => pure .lte
  | .ok (.str "lt") => pure .lt
  | .ok v => throw s!"unknown relation {v.compress}"

def stateOfJson (j : Json) : Except String StateCond := do
  pure { key := ← getStr j "key", val := ← scalarOfJson (← j.getObjVal? "val"), op := ← opOfJson j "op" }

def allOfJson (j : Json) : Except String Bool :=
  match j.getObjVal? "cond" with
  | .ok (.str "any") => pure false
  | .ok (.str "all") => pure true
  | _ => throw "cond must be any or all"

def ruleCondOfJson (j : Json) : Except String RuleCond := do
  match ← typeOf j with
  | "logsource" => pure (.logsource (← logsourceOfJson j))
  | "contains_field" => pure (.containsField (← getStr j "field"))
  | "contains_detection_item" => pure (.containsDetItem (← getStr j "field") (← scalarOfJson (← j.getObjVal? "value")))
  | "processing_item_applied" => pure (.itemApplied (← getStr j "processing_item_id"))
  | "processing_state" => pure (.state (← stateOfJson j))
  | "is_sigma_rule" => pure .isSigmaRule
  | "is_sigma_correlation_rule" => pure .isCorrelation
  | "rule_attribute" =>
    let op ← match j.getObjVal? "op" with
      | .ok (.str "in") => pure AttrOp.isIn
      | .ok (.str "not_in") => pure AttrOp.notIn
      | _ => do pure (AttrOp.cmp (← opOfJson j "op"))
    pure (.attr (← getStr j "attribute") (← scalarOfJson (← j.getObjVal? "value")) op)
  | "tag" => pure (.tag (← getStr j "tag"))
  | t => throw s!"unknown rule condition {t}"

def detCondOfJson (j : Json) : Except String DetCond := do
  match ← typeOf j with
  | "match_string" => pure (.matchString (← allOfJson j) (← getStr j "pattern") (getBoolD j "negate" false))
  | "match_value" => pure (.matchValue (← allOfJson j) (← scalarOfJson (← j.getObjVal? "value")))
  | "contains_wildcard" => pure (.containsWildcard (← allOfJson j))
  | "is_null" => pure (.isNull (← allOfJson j))
  | "processing_item_applied" => pure (.itemApplied (← getStr j "processing_item_id"))
  | "processing_state" => pure (.state (← stateOfJson j))
  | t => throw s!"unknown detection item condition {t}"

def fieldCondOfJson (j : Json) : Except String FieldCond := do
  let re := match j.getObjVal? "mode" with | .ok (.str "re") => true | _ => false
  match ← typeOf j with
  | "include_fields" => pure (.incl (← getStrList j "fields") re)
  | "exclude_fields" => pure (.excl (← getStrList j "fields") re)
  | "processing_item_applied" => pure (.itemApplied (← getStr j "processing_item_id"))
  | "processing_state" => pure (.state (← stateOfJson j))
  | t => throw s!"unknown field name condition {t}"

/-- `none` = the condition expression is not readable / refers to an unknown identifier -/
def groupOfJson' {α : Type} (g : Cond.Grammar) (leaf : Json → Except String α) (j : Json) : Except String (Option (PipeConds.Group α)) := do
  let conds ← (← (← j.getObjVal? "conds").getArr?).toList.mapM leaf
  let neg := getBoolD j "neg" false
  match j.getObjVal? "link" with
  | .ok (.str "all") => pure (some { conds := conds, link := .all, neg := neg })
  | .ok (.str "any") => pure (some { conds := conds, link := .any, neg := neg })
  | .ok lj => do
      let text ← getStr lj "expr"
      let ids ← getStrList lj "ids"
      match Cond.parse g text with
      | some pt => pure ((bxOfPT ids pt).map (fun e => { conds := conds, link := .expr e, neg := neg }))
      | none => pure none
  | .error e => throw e

def actionOfJson (j : Json) : Except String Action := do
  match ← typeOf j with
  | "set_state" => pure (.setState (← getStr j "key") (← scalarOfJson (← j.getObjVal? "val")))
  | "field_name_mapping" =>
    let mp ← (← (← j.getObjVal? "mapping").getArr?).toList.mapM fun kv => do
      match (← kv.getArr?).toList with
      | [k, v] => pure ((← strOfJson k), (← strOfJson v))
      | _ => throw "mapping entry expected as [from, to]"
    pure (.mapFields mp)
  | "field_name_suffix" => pure (.suffix (← getStr j "suffix"))
  | "change_logsource" => pure (.changeLogsource (← logsourceOfJson j))
  | "drop_detection_item" => pure .dropItem
  | t => throw s!"unknown transformation {t}"

def pitemOfJson (g : Cond.Grammar) (j : Json) : Except String (Option PItem) := do
  let r ← groupOfJson' g ruleCondOfJson (← j.getObjVal? "rule")
  let d ← groupOfJson' g detCondOfJson (← j.getObjVal? "det")
  let f ← groupOfJson' g fieldCondOfJson (← j.getObjVal? "field")
  match r, d, f with
  | some r, some d, some f =>
    pure (some { id := ← optStr j "id", rule := r, det := d, field := f, action := ← actionOfJson (← j.getObjVal? "action") })
  | _, _, _ => pure none

/-- the regular-expression table: (pattern, subject) ↦ `re.match(pattern, subject) is not None` -/
def tableOfJson (j : Json) : Except String (List (Str × Str × Bool)) := do
  (← j.getArr?).toList.mapM fun e => do
    match (← e.getArr?).toList with
    | [p, s, .bool b] => pure ((← strOfJson p), (← strOfJson s), b)
    | _ => throw "table entry expected as [pattern, subject, bool]"

def tableLookup (tbl : List (Str × Str × Bool)) (p s : Str) : Option Bool :=
  (tbl.find? fun e => e.1 == p && e.2.1 == s).map (·.2.2)

def patternsOf (p : PItem) : List Str × List Str :=
  (p.det.conds.filterMap fun c => match c with | .matchString _ pat _ => some pat | _ => none,
   p.field.conds.flatMap fun c => match c with | .incl fs true => fs | .excl fs true => fs | _ => [])

def worldNames (w : World) : List Str :=
  w.fields ++ w.items.flatMap fun it => it.field.toList ++ it.refs

def worldStrings (w : World) : List Str :=
  w.items.flatMap fun it => it.values.filterMap fun v => match v with | .str s => some (SStr.toPlain s) | _ => none

def boolsToJson (bs : List Bool) : Json := .arr (bs.map Json.bool).toArray

/-- worlds along the run: before each item, and after the last -/
def worldsAlong (m : Str → Str → Bool) : List PItem → World → List World
  | [], w => [w]
  | p :: rest, w => w :: worldsAlong m rest (p.step m w)

def gateCore (g : Cond.Grammar) (reJ : Json) (j : Json) : Except String Json := do
  let w0 ← worldOfJson (← j.getObjVal? "world")
  let pitems ← (← (← j.getObjVal? "items").getArr?).toList.mapM (pitemOfJson g)
  if pitems.any Option.isNone then
    return Json.mkObj [("exprError", true)]
  let items := pitems.filterMap id
  let tbl ← tableOfJson reJ
  let m : Str → Str → Bool := fun p s => (tableLookup tbl p s).getD false
  match items.reverse with
  | [] => throw "pipeline without probe"
  | probe :: revPre =>
    let pre := revPre.reverse
    let worlds := worldsAlong m items w0
    -- every regular-expression question the specification can ask must be answered by the table
    for (p, w) in items.zip worlds do
      let (vp, fp) := patternsOf p
      for pat in vp do
        for s in worldStrings w do
          if (tableLookup tbl pat s).isNone then throw s!"no table entry for pattern {showStr pat} on value {showStr s}"
      for pat in fp do
        for s in worldNames w do
          if (tableLookup tbl pat s).isNone then throw s!"no table entry for pattern {showStr pat} on field name {showStr s}"
    let w := runPipe m pre w0
    let after := runPipe m items w0
    let clash := items.zip worlds |>.any fun (p, w) =>
      p.rule.conds.any (fun c => match c with | .state c => !c.wellTyped w.state | _ => false) ||
      p.det.conds.any (fun c => match c with | .state c => !c.wellTyped w.state | _ => false) ||
      p.field.conds.any (fun c => match c with | .state c => !c.wellTyped w.state | _ => false)
    let leaves := Json.mkObj [
      ("rule", boolsToJson (probe.rule.conds.map (RuleCond.eval w))),
      ("ruleRaises", boolsToJson (probe.rule.conds.map (RuleCond.raises w))),
      ("det", .arr (w.items.map fun it => boolsToJson (probe.det.conds.map (DetCond.eval m w it))).toArray),
      ("fieldOnItem", .arr (w.items.map fun it => boolsToJson (probe.field.conds.map (FieldCond.onItem m w it))).toArray),
      ("fieldOnName", .arr (w.items.map fun it => boolsToJson (probe.field.conds.map (FieldCond.onName m w it.field))).toArray)]
    pure (Json.mkObj [
      ("raises", Json.bool (runRaises m items w0)),
      ("clash", Json.bool clash),
      ("flags", boolsToJson (runFlags m items w0)),
      ("onRule", Json.bool (probe.ruleHolds w)),
      ("onDet", boolsToJson (w.items.map (probe.probeActs m w))),
      ("groups", Json.mkObj [
        ("det", boolsToJson (w.items.map (probe.detHolds m w))),
        ("fieldOnItem", boolsToJson (w.items.map (probe.fieldHoldsOnItem m w))),
        ("fieldOnName", boolsToJson (w.items.map fun it => probe.fieldHoldsOnName m w it.field))]),
      ("before", .arr (w.items.map fun it => Json.mkObj [("det", strToJson it.det),
          ("field", match it.field with | some f => strToJson f | none => .null),
          ("applied", .arr (it.applied.map strToJson).toArray)]).toArray),
      ("after", .arr (after.items.map fun it => Json.mkObj [("det", strToJson it.det),
          ("field", match it.field with | some f => strToJson f | none => .null),
          ("refs", .arr (it.refs.map strToJson).toArray)]).toArray),
      ("applied", .arr (after.applied.map strToJson).toArray),
      ("leaves", leaves)])

/-- `gate.case`: world + pipeline (+ optionally a second world + pipeline under `alt`, used by the
harness to attribute a disagreement to a recorded finding) -/
def gateCase (j : Json) : Except String Json := do
  let g ← match j.getObjVal? "grammar" with
    | .ok gj => grammarOfJson gj
    | .error _ => pure { Cond.stdGrammar with quants := [] }
  let reJ ← j.getObjVal? "re"
  let main ← gateCore g reJ j
  match j.getObjVal? "alt" with
  | .ok a => do pure (main.setObjVal! "alt" (← gateCore g reJ a))
  | .error _ => pure main

end GateCase

end Driver
