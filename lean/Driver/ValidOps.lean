import Driver.Json
import Driver.CondOps
import Driver.EncOps
import SigmaVerif.Model.Valid
namespace Driver
open Lean SigmaVerif SigmaVerif.Valid

/-- `valid.case`: per rule `{dets:[names], conds:[texts]}`, and key lists `ids`/`titles`/`files`
(numbers or null) → expected dangling detections / selectors per rule and uniqueness groups -/
def validCase (j : Json) : Except String Json := do
  let g ← match j.getObjVal? "grammar" with
    | .ok gj => grammarOfJson gj
    | .error _ => pure Cond.stdGrammar
  let rules ← (← (← j.getObjVal? "rules").getArr?).toList.mapM fun r => do
    let dets ← getStrList r "dets"
    let conds ← getStrList r "conds"
    let pts := conds.map (Cond.parse g)
    if pts.any Option.isNone then pure (Json.mkObj [("parseError", true)])
    else
      let ps := pts.filterMap id
      pure (Json.mkObj [
        ("danglingDetections", .arr ((danglingDetections dets ps).map strToJson).toArray),
        ("danglingConditions", .arr ((danglingConditions dets ps).map strToJson).toArray)])
  let keyList (k : String) : Except String (List (Option Nat)) :=
    match j.getObjVal? k with
    | .ok (.arr a) => a.toList.mapM fun x => match x with | .null => pure none | _ => do pure (some (← x.getNat?))
    | _ => pure []
  let grp (k : String) : Except String Json := do
    let ks ← keyList k
    pure (.arr ((groups ks).map (fun g => Json.mkObj [("key", Json.num (JsonNumber.fromNat g.1)), ("rules", natsToJson g.2)])).toArray)
  pure (Json.mkObj [("rules", .arr rules.toArray), ("idGroups", ← grp "ids"), ("titleGroups", ← grp "titles"), ("fileGroups", ← grp "files")])

end Driver
