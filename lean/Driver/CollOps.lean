import Driver.Json
import Driver.EncOps
import SigmaVerif.Model.Coll
namespace Driver
open Lean SigmaVerif SigmaVerif.Coll

def docOfJson (j : Json) : Except String Doc := do
  pure { keys := ← getNats j "keys", refs := ← getNats j "refs", generate := getBoolD j "generate" false }

def boolsToJson (bs : List Bool) : Json := .arr (bs.map Json.bool).toArray

/-- what the property says about a rule's own output: `some true/false` where it is specified
(unreferenced, or all referrers agree on `generate`), `none` where referrers disagree -/
def specOutput (docs : List Doc) (graph : List (List Nat)) (i : Nat) : Option Bool :=
  let referrers := (List.range docs.length).filter (fun j => (graph.getD j []).contains i)
  if referrers.isEmpty then some true
  else
    let gens := referrers.map (fun j => (docs.getD j ⟨[], [], false⟩).generate)
    if gens.all id then some true else if gens.all (!·) then some false else none

/-- is `ord` a permutation of `0..n-1` in which every referenced document precedes its referrer? -/
def validOrder (n : Nat) (graph : List (List Nat)) (ord : List Nat) : Bool :=
  ord.length == n && (List.range n).all ord.contains &&
  (List.range n).all (fun v => (graph.getD v []).all (fun w =>
    match ord.idxOf? w, ord.idxOf? v with
    | some a, some b => a < b
    | _, _ => false))

/-- `coll.check`: documents (in the order given to the loader) and, when loading succeeded, the
implementation's rule order (as indices into the given documents) and output flags -/
def collCheck (j : Json) : Except String Json := do
  let docs ← (← (← j.getObjVal? "docs").getArr?).toList.mapM docOfJson
  match resolveAll docs with
  | none => pure (Json.mkObj [("resolve", "missing")])
  | some graph =>
    let n := docs.length
    let mord := order n (graphFn graph)
    let flags := (List.range n).map (outputFlag docs graph)
    let spec := (List.range n).map (fun i => match specOutput docs graph i with | some b => Json.bool b | none => Json.null)
    let implOrd := (getNats j "implOrder").toOption
    pure (Json.mkObj [
      ("resolve", "ok"), ("graph", .arr (graph.map natsToJson).toArray),
      ("modelOrder", natsToJson mord), ("modelOrderValid", Json.bool (validOrder n graph mord)),
      ("modelFlags", boolsToJson flags), ("specFlags", .arr spec.toArray),
      ("implOrderValid", match implOrd with | some o => Json.bool (validOrder n graph o) | none => Json.null)])

/-- `coll.convert`: model of `Backend.convert` over already ordered rules.  `rules`: list of
`{id, refs:[ids], result: {"ok": [query ids]} | {"err": code}, output: bool}` in conversion order. -/
def collConvert (j : Json) : Except String Json := do
  let rules ← (← (← j.getObjVal? "rules").getArr?).toList.mapM fun r => do
    let id ← (← r.getObjVal? "id").getNat?
    let refs ← getNats r "refs"
    let out := getBoolD r "output" true
    let res ← r.getObjVal? "result"
    let result : Except Nat (List Nat) ← match res.getObjVal? "ok" with
      | .ok qs => do pure (.ok (← natsOfJson qs))
      | .error _ => do pure (.error (← (← res.getObjVal? "err").getNat?))
    pure (id, refs, out, result)
  let collect := getBoolD j "collect" true
  let find (i : Nat) := rules.find? (fun r => r.1 == i)
  let conv (i : Nat) (avail : List Nat) : Except Nat (List Nat) :=
    match find i with
    | some (_, refs, _, result) => if refs.all avail.contains then result else .error 999   -- "Conversion result not available"
    | none => .error 998
  let output (i : Nat) : Bool := match find i with | some (_, _, o, _) => o | none => false
  match convertAll collect output conv (rules.map (·.1)) [] [] [] with
  | .ok qs es => pure (Json.mkObj [("outcome", "ok"), ("queries", natsToJson qs),
      ("errors", .arr (es.map (fun e => natsToJson [e.1, e.2])).toArray)])
  | .raised i e => pure (Json.mkObj [("outcome", "raised"), ("rule", i), ("err", e)])

end Driver
