import Driver.Json
import SigmaVerif.Model.B64
import SigmaVerif.Model.Cidr
namespace Driver
open Lean SigmaVerif

def natsOfJson (j : Json) : Except String (List Nat) := do
  let a ← j.getArr?
  a.toList.mapM (·.getNat?)

def getNats (j : Json) (k : String) : Except String (List Nat) := do
  natsOfJson (← j.getObjVal? k)

def natsToJson (xs : List Nat) : Json := .arr (xs.map (fun (n : Nat) => (Json.num (JsonNumber.fromNat n)))).toArray

def isInfixB [BEq α] (a b : List α) : Bool :=
  (List.range (b.length + 1)).any (fun i => (b.drop i).take a.length == a && a.length + i ≤ b.length)

/-- `b64.case`: payload bytes `v`, the three values the implementation produced (`impl3`, or
null when it rejected), and contexts `(prefix, suffix)`.  Judged by the textbook `b64Spec`:
the value for alignment `|p| % 3` must occur in the Base64 text of `p ++ v ++ s`.
Optional `flat`: all strings produced for a whole value *list* the payload is an element of; reply
`flatResults`: per context, does at least one of them occur in the Base64 text of `p ++ v ++ s`
(the payload is found by the detection item as a whole, `Props.C04.b64offset_list_complete`). -/
def b64Case (j : Json) : Except String Json := do
  let v ← getNats j "v"
  let lenV := getNatD j "lenV" v.length
  let T : B64.Tables ← match j.getObjVal? "tables" with
    | .ok tj => do pure { starts := ← getNats tj "starts", cuts := ← getNats tj "cuts" }
    | .error _ => pure B64.stdTables
  let model3 := B64.b64offset T lenV v
  let ctxs ← (← j.getObjVal? "ctxs").getArr?
  let impl3 : Option (List Str) ← match j.getObjVal? "impl3" with
    | .ok (.arr a) => do pure (some (← a.toList.mapM strOfJson))
    | _ => pure none
  let results ← ctxs.toList.mapM fun c => do
    let p ← getNats c "p"
    let s ← getNats c "s"
    let full := B64.b64Spec (p ++ v ++ s)
    match impl3 with
    | some vals => pure (Json.bool (isInfixB (vals.getD (p.length % 3) []) full))
    | none => pure Json.null
  let noPad := match impl3 with
    | some vals => vals.all (fun s => !s.contains '=')
    | none => true
  let flat : Option (List Str) ← match j.getObjVal? "flat" with
    | .ok (.arr a) => do pure (some (← a.toList.mapM strOfJson))
    | _ => pure none
  let flatResults ← ctxs.toList.mapM fun c => do
    let p ← getNats c "p"
    let s ← getNats c "s"
    let full := B64.b64Spec (p ++ v ++ s)
    match flat with
    | some vals => pure (Json.bool (vals.any (fun x => isInfixB x full)))
    | none => pure Json.null
  pure (Json.mkObj [
    ("model3", .arr (model3.map strToJson).toArray),
    ("spec", strToJson (B64.b64Spec v)),
    ("modelPlain", strToJson (B64.b64 v)),
    ("results", .arr results.toArray),
    ("flatResults", .arr flatResults.toArray),
    ("noPad", noPad)])

/-- `wide.case`: code points `s`, big-endian flag; reply: the model's trick result, the UTF-16
bytes of the payload and the UTF-8 bytes of the implementation's output. -/
def wideCase (j : Json) : Except String Json := do
  let s ← getNats j "s"
  let be := getBoolD j "be" false
  let model := B64.wideTrick be s
  let u16 := B64.utf16 be s
  let implBytes : Option (List Nat) ← match j.getObjVal? "impl" with
    | .ok (.arr a) => do
        let cps ← a.toList.mapM (·.getNat?)
        pure (B64.utf8enc cps)
    | _ => pure none
  let optNats : Option (List Nat) → Json := fun o => match o with | some x => natsToJson x | none => Json.null
  pure (Json.mkObj [("model", optNats model), ("utf16", optNats u16), ("implBytes", optNats implBytes)])

/-- `cidr.case`: `base`, `p`, `v6`, implementation patterns `impl` (strings with `*`), probe
addresses `addrs` (integers as decimal strings).  For each probe: is it in the network
(arithmetic), which implementation patterns match its canonical text, does the model match. -/
def natOfJsonStr (j : Json) : Except String Nat :=
  match j with
  | .str s => match s.toNat? with | some n => pure n | none => throw "bad nat"
  | _ => j.getNat?

def cidrCase (j : Json) : Except String Json := do
  let base ← natOfJsonStr (← j.getObjVal? "base")
  let p ← (← j.getObjVal? "p").getNat?
  let v6 := getBoolD j "v6" false
  let impl ← getStrList j "impl"
  let addrs ← (← (← j.getObjVal? "addrs").getArr?).toList.mapM natOfJsonStr
  let w := if v6 then 128 else 32
  let render := if v6 then Cidr.render6 else Cidr.render4
  let model := if v6 then Cidr.expand6 base p else Cidr.expand4 base p
  let rows := addrs.map fun a =>
    let txt := render a
    let hits := (List.range impl.length).filter (fun i => Cidr.glob (impl.getD i []) txt)
    Json.mkObj [("in", Json.bool (Cidr.inNet w base p a)), ("hits", natsToJson hits),
                ("model", Json.bool (model.any (fun pat => Cidr.glob pat txt))), ("text", strToJson txt)]
  pure (Json.mkObj [("model", .arr (model.map strToJson).toArray), ("rows", .arr rows.toArray)])

end Driver
