import Driver.Json
import SigmaVerif.Model.Caps
/-! `caps.case`: run the capability-flow model (Model/Caps.lean) on one pipeline document.

Request: `cfg` (the generated configuration, registries restricted to the types the document uses), `world`
(`envVars`, `envExt`: string or null; `realpath`, `dirname`: finite maps as `[[from, to], …]`, identity elsewhere;
`fails`: arguments of effects that fail after being attempted), `caller` (`atv`, `vap`: null or list, `aes`,
`sourcePath`), `mode` (`dict` = `from_dict`, `yaml` = `from_yaml`, `resolve` = resolver with `path`), `doc`.
Values: `null`, `{"b":bool}`, `{"s":str}`, `{"l":[str]}`, `{"o":truthy}`.
Reply: `load` / `convert` outcome, all events in order, and per section the objects in depth-first order with the
three stored values. -/
namespace Driver
open Lean SigmaVerif SigmaVerif.Caps

def capsStrsOfJson (j : Json) : Except String (List String) := do
  (← j.getArr?).toList.mapM fun x => x.getStr?

def capsValOfJson : Json → Except String Val
  | .null => pure .null
  | j => do
    match j.getObjVal? "b" with
    | .ok (.bool b) => pure (.bool b)
    | _ =>
    match j.getObjVal? "s" with
    | .ok s => do pure (.str (← strOfJson s))
    | _ =>
    match j.getObjVal? "l" with
    | .ok (.arr a) => do pure (.strs (← a.toList.mapM strOfJson))
    | _ =>
    match j.getObjVal? "o" with
    | .ok (.bool b) => pure (.other b)
    | _ => throw "bad value"

def capsValToJson : Val → Json
  | .null => .null
  | .bool b => Json.mkObj [("b", .bool b)]
  | .str s => Json.mkObj [("s", .str (String.ofList s))]
  | .strs l => Json.mkObj [("l", .arr (l.map (fun s => Json.str (String.ofList s))).toArray)]
  | .other t => Json.mkObj [("o", .bool t)]

def capsKvOfJson (j : Json) : Except String KV := do
  (← j.getArr?).toList.mapM fun e => do
    let a ← e.getArr?
    pure (← (a[0]?.getD Json.null).getStr?, ← capsValOfJson (a[1]?.getD Json.null))

partial def capsNodeOfJson (j : Json) : Except String Node := do
  let ty ← match j.getObjVal? "ty" with
    | .ok (.str s) => pure (some s)
    | _ => pure none
  let kv ← capsKvOfJson (← j.getObjVal? "kv")
  let ch ← match j.getObjVal? "ch" with
    | .ok (.arr a) => a.toList.mapM capsNodeOfJson
    | _ => pure []
  pure (.mk ty kv (getBoolD j "hasCh" false) ch)

def capsNodesOfJson (j : Json) (k : String) : Except String (List Node) :=
  match j.getObjVal? k with
  | .ok (.arr a) => a.toList.mapM capsNodeOfJson
  | _ => pure []

def capsClsOfJson (j : Json) : Except String (String × Cls) := do
  let src ← match j.getObjVal? "src" with
    | .ok (.arr a) => do
        let k ← (a[0]?.getD Json.null).getStr?
        let key ← (a[1]?.getD Json.null).getStr?
        let kind := match k with | "cmd" => Src.cmd | "file" => Src.file | "url" => Src.url | _ => Src.unknown
        pure (some (kind, key))
    | _ => pure none
  pure (← j.getObjValAs? String "name",
    { accepts := ← capsStrsOfJson (← j.getObjVal? "accepts"), required := ← capsStrsOfJson (← j.getObjVal? "required"),
      isTemplate := getBoolD j "isTemplate" false, isExt := getBoolD j "isExt" false, src := src,
      nest := getBoolD j "nest" false })

def capsRegOfJson (j : Json) (k : String) : Except String Reg := do
  (← (← j.getObjVal? k).getArr?).toList.mapM capsClsOfJson

def capsSiteOfJson (j : Json) (k : String) : Except String Site := do
  let s ← j.getObjVal? k
  pure { strip := ← capsStrsOfJson (← s.getObjVal? "strip"), injTmpl := ← capsStrsOfJson (← s.getObjVal? "injTmpl"),
         injExt := ← capsStrsOfJson (← s.getObjVal? "injExt") }

def capsFwdOfJson (j : Json) (k : String) : Except String Fwd := do
  let s ← j.getObjVal? k
  pure ⟨getBoolD s "atv" false, getBoolD s "vap" false, getBoolD s "aes" false⟩

def capsCfgOfJson (j : Json) : Except String Cfg := do
  pure { regT := ← capsRegOfJson j "regT", regPP := ← capsRegOfJson j "regPP", regF := ← capsRegOfJson j "regF",
         topAllowed := ← capsStrsOfJson (← j.getObjVal? "topAllowed"),
         item := ← capsSiteOfJson j "item", finTop := ← capsSiteOfJson j "finTop", finNested := ← capsSiteOfJson j "finNested",
         fwdT := ← capsFwdOfJson j "fwdT", fwdPP := ← capsFwdOfJson j "fwdPP", fwdFin := ← capsFwdOfJson j "fwdFin",
         fwdNestT := ← capsFwdOfJson j "fwdNestT", fwdNestPP := ← capsFwdOfJson j "fwdNestPP",
         fwdTopNestF := ← capsFwdOfJson j "fwdTopNestF", fwdNestF := ← capsFwdOfJson j "fwdNestF",
         nestPPDirect := getBoolD j "nestPPDirect" true,
         envAccepted := (← capsStrsOfJson (← j.getObjVal? "envAccepted")).map String.toList,
         envLower := getBoolD j "envLower" false, pathSep := getBoolD j "pathSep" false,
         pathEq := getBoolD j "pathEq" false, derivesBase := getBoolD j "derivesBase" false }

def capsOptStr (j : Json) (k : String) : Except String (Option Str) :=
  match j.getObjVal? k with
  | .ok (.str s) => pure (some s.toList)
  | .ok (.arr a) => do pure (some (← strOfJson (.arr a)))
  | _ => pure none

def capsMapOfJson (j : Json) (k : String) : Except String (Str → Str) :=
  match j.getObjVal? k with
  | .ok (.arr a) => do
      let ps ← a.toList.mapM fun e => do
        let x ← e.getArr?
        pure (← strOfJson (x[0]?.getD Json.null), ← strOfJson (x[1]?.getD Json.null))
      pure fun p => (ps.lookup p).getD p
  | _ => pure id

def capsWorldOfJson (j : Json) : Except String World := do
  let fails ← match j.getObjVal? "fails" with
    | .ok (.arr a) => a.toList.mapM strOfJson
    | _ => pure []
  pure { envVars := ← capsOptStr j "envVars", envExt := ← capsOptStr j "envExt",
         realpath := ← capsMapOfJson j "realpath", dirname := ← capsMapOfJson j "dirname",
         fails := fun a => fails.contains a }

def capsCallerOfJson (j : Json) : Except String Caller := do
  let vap ← match j.getObjVal? "vap" with
    | .ok (.arr a) => do pure (some (← a.toList.mapM strOfJson))
    | _ => pure none
  pure { atv := getBoolD j "atv" false, vap := vap, aes := getBoolD j "aes" false, sourcePath := ← capsOptStr j "sourcePath" }

def capsErrToString : Err → String
  | .config => "config" | .security => "security" | .value => "value" | .other => "other"

def capsResToJson {α : Type} : Except Err α → Json
  | .ok _ => .str "ok"
  | .error e => .str (capsErrToString e)

def capsEventToJson : Event → Json
  | .cmd a => .arr #[.str "cmd", .str (String.ofList a)]
  | .read a => .arr #[.str "read", .str (String.ofList a)]
  | .fetch a => .arr #[.str "fetch", .str (String.ofList a)]
  | .exec a => .arr #[.str "exec", .str (String.ofList a)]

def capsObjToJson (o : Obj) : Json :=
  match o with
  | .mk t cls params _ =>
    Json.mkObj [("ty", .str t), ("tmpl", .bool cls.isTemplate), ("ext", .bool cls.isExt),
      ("hasAtv", .bool (params.lookup kAtv).isSome), ("hasVap", .bool (params.lookup kVap).isSome),
      ("hasAes", .bool (params.lookup kAes).isSome),
      ("atv", capsValToJson o.atv), ("vap", capsValToJson o.vap), ("aes", capsValToJson o.aes)]

def capsCase (j : Json) : Except String Json := do
  let cfg ← capsCfgOfJson (← j.getObjVal? "cfg")
  let w ← capsWorldOfJson (← j.getObjVal? "world")
  let c ← capsCallerOfJson (← j.getObjVal? "caller")
  let dj ← j.getObjVal? "doc"
  let d : Doc := { keys := ← capsStrsOfJson (← dj.getObjVal? "keys"), ts := ← capsNodesOfJson dj "ts",
                   pps := ← capsNodesOfJson dj "pps", fs := ← capsNodesOfJson dj "fs" }
  let mode := (j.getObjValAs? String "mode").toOption.getD "dict"
  let l : Run PObj := match mode with
    | "yaml" => fromYaml cfg w c d
    | "resolve" => resolveFile cfg w (c.sourcePath.getD []) d
    | _ => load cfg w c d
  let sect (os : List Obj) : Json := .arr ((Obj.allL os).map capsObjToJson).toArray
  match l.res with
  | .error e =>
    pure (Json.mkObj [("load", .str (capsErrToString e)), ("convert", .null),
      ("events", .arr (l.evs.map capsEventToJson).toArray)])
  | .ok p =>
    let u := convert cfg w p
    pure (Json.mkObj [("load", .str "ok"), ("convert", capsResToJson u.res),
      ("events", .arr ((l.evs ++ u.evs).map capsEventToJson).toArray),
      ("loadEvents", Json.num l.evs.length),
      ("items", sect p.items), ("pps", sect p.pps), ("fins", sect p.fins),
      ("safe", .bool cfg.safe), ("basesSafe", .bool cfg.basesSafe)])

end Driver
