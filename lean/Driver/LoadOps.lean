import Driver.Json
import SigmaVerif.Model.LoadDomain
/-! `load.case`: the C07 loader model on one document.
YAML values travel as `null`, `true`/`false`, `{"i":n}`, `{"f":<repr code points>}`, `{"s":<code points>}`,
`{"l":[…]}`, `{"m":[[key,value],…]}` (maps keep their order and may have non-string keys). -/
namespace Driver
open Lean SigmaVerif.Load

partial def yOfJson (j : Json) : Except String Y :=
  match j with
  | .null => pure .null
  | .bool b => pure (.bool b)
  | .obj _ =>
    match j.getObjVal? "i" with
    | .ok v => do pure (.int (← v.getInt?))
    | .error _ =>
    match j.getObjVal? "f" with
    | .ok v => do pure (.float (← strOfJson v))
    | .error _ =>
    match j.getObjVal? "s" with
    | .ok v => do pure (.str (← strOfJson v))
    | .error _ =>
    match j.getObjVal? "l" with
    | .ok v => do
        let a ← v.getArr?
        pure (.list (← a.toList.mapM yOfJson))
    | .error _ =>
    match j.getObjVal? "m" with
    | .ok v => do
        let a ← v.getArr?
        let es ← a.toList.mapM fun e => do
          let kv ← e.getArr?
          if kv.size != 2 then throw "map entry must be a pair"
          pure ((← yOfJson kv[0]!), (← yOfJson kv[1]!))
        pure (.map es)
    | .error _ => throw "bad YAML value"
  | _ => throw "bad YAML value"

def kindOfString : String → Except String Kind
  | "rule" => pure .rule | "corr" => pure .corr | "filter" => pure .filter | "collection" => pure .collection
  | "collection_refs" => pure .collectionRef
  | k => throw s!"unknown kind {k}"

def excToString : Exc → String
  | .sigma c => "sigma:" ++ c.name
  | .py c => "py:" ++ c.name

/-- `load.case`: `{kind, doc}` → `{inDomain, strict, collect, errors}` -/
def loadCase (j : Json) : Except String Json := do
  let k ← kindOfString (← j.getObjValAs? String "kind")
  let d ← yOfJson (← j.getObjVal? "doc")
  let s := match strict k d with | .ok _ => "ok" | .error e => excToString e
  let (c, errs) : String × List Json := match collect k d with
    | .ok es => ("ok", es.map (fun (e : SigmaCls) => Json.str e.name))
    | .error e => (excToString e, [])
  pure (Json.mkObj [("inDomain", inDomain k d), ("strict", s), ("collect", c), ("errors", .arr errs.toArray)])

end Driver
