import SigmaVerif.Model.Cond
/-!
# Specification reading of a Sigma condition (independent of pyparsing)

Written from the Sigma specification, not from the code: a condition is a sequence of *words*
separated by whitespace and parentheses; `not`/`and`/`or` are operators, `1|any|all of <pattern>`
is a selector, every other word is a detection name, read whole.  NOT > AND > OR, binary operators
associate left, parentheses override.  The meaning is a boolean function of the detections.
-/
namespace SigmaVerif.CondSpec
open SigmaVerif.Cond

/-- the three spellings of a selector's quantifier -/
inductive QW | one | any | all
deriving Repr, DecidableEq

def QW.quant : QW → Quant
  | .one => .any | .any => .any | .all => .all

def QW.text : QW → Str
  | .one => "1".toList | .any => "any".toList | .all => "all".toList

/-- binary source expressions, as a rule author writes them -/
inductive E
  | id (n : Str)
  | sel (q : QW) (pat : Str)
  | not (e : E)
  | and (a b : E)
  | or (a b : E)
deriving Repr

/-- glob reading of a selector pattern: `*` stands for any run of characters -/
def globStar : Str → Str → Bool
  | [], n => n.isEmpty
  | '*' :: p, n => globStar p n || (match n with | [] => false | _ :: n' => globStar ('*' :: p) n')
  | a :: p, n => match n with | [] => false | c :: n' => a == c && globStar p n'
termination_by p n => (p.length + n.length, p.length)
decreasing_by all_goals simp_wf <;> omega

/-- which detections a selector stands for -/
def selects (pat name : Str) : Bool :=
  (pat == "them".toList || globStar pat name) &&
  (pat.head? == some '_' || name.head? != some '_')

/-- the boolean function a condition spells, over the rule's detection names `dets` -/
def E.sem (dets : List Str) (ρ : Str → Bool) : E → Bool
  | .id n => ρ n
  | .sel q pat =>
    match q.quant with
    | .any => (dets.filter (selects pat)).any ρ
    | .all => (dets.filter (selects pat)).all ρ
  | .not e => !(e.sem dets ρ)
  | .and a b => a.sem dets ρ && b.sem dets ρ
  | .or a b => a.sem dets ρ || b.sem dets ρ

/-- every name the expression mentions is a detection of the rule -/
def E.defined (dets : List Str) : E → Bool
  | .id n => dets.contains n
  | .sel _ _ => true
  | .not e => e.defined dets
  | .and a b => a.defined dets && b.defined dets
  | .or a b => a.defined dets && b.defined dets

/-! ## Canonical printer: single spaces, parentheses exactly where precedence requires -/

def paren (b : Bool) (s : Str) : Str := if b then s else '(' :: s ++ [')']

/-- `ctx` = loosest operator level admitted without parentheses (0 operand/NOT, 1 AND, 2 OR);
binary operators associate left, so the right operand is printed one level tighter. -/
def pp (ctx : Nat) : E → Str
  | .id n => n
  | .sel q pat => q.text ++ " of ".toList ++ pat
  | .not e => "not ".toList ++ pp 0 e
  | .and a b => paren (decide (1 ≤ ctx)) (pp 1 a ++ " and ".toList ++ pp 0 b)
  | .or a b => paren (decide (2 ≤ ctx)) (pp 2 a ++ " or ".toList ++ pp 1 b)

/-- a detection name the grammar can spell: non-empty, identifier characters only, and not one of
the three operator words -/
def wfName (g : Grammar) (n : Str) : Bool :=
  !n.isEmpty && n.all g.identChars.contains &&
  n != g.kwNot && n != g.kwAnd && n != g.kwOr

def wfPat (g : Grammar) (p : Str) : Bool := !p.isEmpty && p.all g.patChars.contains

def E.wf (g : Grammar) : E → Bool
  | .id n => wfName g n
  | .sel _ p => wfPat g p
  | .not e => e.wf g
  | .and a b => a.wf g && b.wf g
  | .or a b => a.wf g && b.wf g

/-- meaning of a *parse tree* (n-ary nodes), selectors read by the specification's `selects` -/
def semPT (dets : List Str) (ρ : Str → Bool) : PT → Bool
  | .id n => ρ n
  | .sel .any pat => (dets.filter (selects pat)).any ρ
  | .sel .all pat => (dets.filter (selects pat)).all ρ
  | .not p => !(semPT dets ρ p)
  | .and ps => semPTAll dets ρ ps
  | .or ps => semPTAny dets ρ ps
where
  semPTAll (dets : List Str) (ρ : Str → Bool) : List PT → Bool
    | [] => true
    | p :: ps => semPT dets ρ p && semPTAll dets ρ ps
  semPTAny (dets : List Str) (ρ : Str → Bool) : List PT → Bool
    | [] => false
    | p :: ps => semPT dets ρ p || semPTAny dets ρ ps

/-! ## Word-level reader -/

inductive Tok
  | lp | rp | word (w : Str)
deriving Repr, DecidableEq

def flushWord (cur : Str) (acc : List Tok) : List Tok :=
  if cur.isEmpty then acc else acc ++ [.word cur.reverse]

def tokenize : Str → Str → List Tok → List Tok
  | [], cur, acc => flushWord cur acc
  | c :: s, cur, acc =>
    if isWs c then tokenize s [] (flushWord cur acc)
    else if c == '(' then tokenize s [] (flushWord cur acc ++ [.lp])
    else if c == ')' then tokenize s [] (flushWord cur acc ++ [.rp])
    else tokenize s (c :: cur) acc

def isKw (w : Str) : Bool :=
  w == "not".toList || w == "and".toList || w == "or".toList

def allIn (cs : List Char) (w : Str) : Bool := w.all cs.contains

def quantWord (w : Str) : Option QW :=
  if w == "1".toList then some .one else if w == "any".toList then some .any
  else if w == "all".toList then some .all else none

/-- operand: selector, name, or parenthesised expression; `f` is fuel (token count suffices) -/
def rAtom (rOr : List Tok → Option (E × List Tok)) : List Tok → Option (E × List Tok)
  | .lp :: ts =>
    match rOr ts with
    | some (e, .rp :: ts') => some (e, ts')
    | _ => none
  | .word w :: ts =>
    match quantWord w, ts with
    | some q, .word o :: .word p :: ts' =>
      if o == "of".toList && allIn stdGrammar.patChars p then some (.sel q p, ts')
      else if !isKw w && allIn stdGrammar.identChars w then some (.id w, ts) else none
    | _, _ => if !isKw w && allIn stdGrammar.identChars w then some (.id w, ts) else none
  | _ => none

def rNotF (rOr : List Tok → Option (E × List Tok)) : Nat → List Tok → Option (E × List Tok)
  | 0, _ => none
  | f+1, ts =>
    match ts with
    | .word w :: ts' =>
      if w == "not".toList then
        match rNotF rOr f ts' with
        | some (e, r) => some (.not e, r)
        | none => none
      else rAtom rOr ts
    | _ => rAtom rOr ts

/-- left-associative chain `sub (kw sub)*` -/
def rChain (kw : Str) (mk : E → E → E) (sub : List Tok → Option (E × List Tok)) :
    Nat → E → List Tok → Option (E × List Tok)
  | 0, acc, ts => some (acc, ts)
  | f+1, acc, ts =>
    match ts with
    | .word w :: ts' =>
      if w == kw then
        match sub ts' with
        | some (e, r) => rChain kw mk sub f (mk acc e) r
        | none => none          -- an operator must be followed by an operand
      else some (acc, ts)
    | _ => some (acc, ts)

def rOrF : Nat → List Tok → Option (E × List Tok)
  | 0, _ => none
  | f+1, ts =>
    let rNot := rNotF (rOrF f) (ts.length + 1)
    let rAnd : List Tok → Option (E × List Tok) := fun ts =>
      match rNot ts with
      | some (e, r) => rChain "and".toList .and rNot r.length e r
      | none => none
    match rAnd ts with
    | some (e, r) => rChain "or".toList .or rAnd r.length e r
    | none => none

/-- the specification reading of a condition string -/
def read (s : Str) : Option E :=
  let ts := tokenize s [] []
  match rOrF (ts.length + 1) ts with
  | some (e, []) => some e
  | _ => none

end SigmaVerif.CondSpec
