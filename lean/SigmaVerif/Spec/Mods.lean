import SigmaVerif.Model.SStr
import SigmaVerif.Model.B64
/-!
# What the Sigma specification says a value modifier chain produces (C03), as an executable
definition over an abstract value type.  Used as the oracle for C03 and as the source-side
reading of detection items in C01/C12/C17.

Outcomes: a new item state, a *Sigma error* (the chain is not admissible for the value), never
anything else.
-/
namespace SigmaVerif.Mods
open SigmaVerif.SStr

inductive Val
  | str (cased : Bool) (s : SStr)
  | num (repr : Str)                       -- opaque rendering of the number
  | bool (b : Bool)
  | null
  | re (src : Str) (fi fm fs : Bool)       -- regular expression text and flags
  | cidr (text : Str)
  | cmp (op : Str) (n : Str)
  | fieldref (f : Str) (sw ew : Bool)
  | exists_ (b : Bool)
  | tspart (unit : Str) (n : Str)
  | expansion (vs : List Val)
deriving Repr

structure Item where
  hasField : Bool
  vals : List Val
  linkAnd : Bool := false
  negated : Bool := false
deriving Repr

inductive MErr
  | type (modifier : Str)      -- SigmaTypeError: modifier incompatible to value type
  | value (modifier : Str)     -- SigmaValueError and friends (wildcards in base64, non-first re/cidr/exists, …)
  | unknown (modifier : Str)   -- SigmaModifierError
deriving Repr

def L (x : String) : Str := x.toList

/-! ## string helpers -/

def addStarFront (s : SStr) : SStr := if s.head? == some .star then s else .star :: s
def addStarBack (s : SStr) : SStr := if s.getLast? == some .star then s else s ++ [.star]

def hasWildcard (s : SStr) : Bool := s.any (fun p => p == .star || p == .qm)

/-- wildcards and (still unexpanded) placeholders cannot be encoded -/
def hasSpecial (s : SStr) : Bool :=
  s.any (fun p => match p with | .star => true | .qm => true | .ph _ => true | .lit _ => false)

/-- the characters of a string without wildcards/placeholders (`str(val)` as code points) -/
def plainChars : SStr → List Nat
  | [] => []
  | .lit c :: r => c.toNat :: plainChars r
  | _ :: r => plainChars r

def litChars : SStr → Str
  | [] => []
  | .lit c :: r => c :: litChars r
  | .star :: r => '*' :: litChars r
  | .qm :: r => '?' :: litChars r
  | .ph n :: r => '%' :: n ++ '%' :: litChars r

def ofCPs (cs : List Nat) : SStr := cs.map (fun n => .lit (Char.ofNat n))

/-- apply a code-point transformation to every maximal run of literal characters, keeping
wildcards and placeholders in place (the wide/utf16 modifiers work part by part) -/
def mapRuns (f : List Nat → Option (List Nat)) : SStr → List Nat → Option SStr
  | [], acc => if acc.isEmpty then some [] else (f acc.reverse).map ofCPs
  | .lit c :: r, acc => mapRuns f r (c.toNat :: acc)
  | p :: r, acc =>
    match (if acc.isEmpty then some [] else f acc.reverse), mapRuns f r [] with
    | some a, some b => some (ofCPs a ++ p :: b)
    | _, _ => none

/-! ## windash: parameter-position dashes -/

def dashes : List Char := ['-', '/', Char.ofNat 0x2013, Char.ofNat 0x2014, Char.ofNat 0x2015]

/-- positions matched by the windash regex (non-boundary, dash or slash, boundary) inside one run of literal characters: the character is `-`
or `/`, the previous character of the run is absent or a non-word character, the next character
of the run is a word character.  `w` is the word-character predicate (`\w`). -/
def windashMarks (w : Char → Bool) : Option Char → List Char → List Bool
  | _, [] => []
  | prev, c :: r =>
    let isDash := c == '-' || c == '/'
    let prevOk := match prev with | none => true | some p => !w p
    let nextOk := match r with | d :: _ => w d | [] => false
    (isDash && prevOk && nextOk) :: windashMarks w (some c) r

/-- mark the parameter dashes of a whole value (runs are delimited by wildcards/placeholders) -/
def markValue (w : Char → Bool) : SStr → List Char → List (Part × Bool)
  | [], acc => (acc.reverse.zip (windashMarks w none acc.reverse)).map (fun p => (Part.lit p.1, p.2))
  | .lit c :: r, acc => markValue w r (c :: acc)
  | p :: r, acc =>
    (acc.reverse.zip (windashMarks w none acc.reverse)).map (fun q => (Part.lit q.1, q.2)) ++ (p, false) :: markValue w r []

/-- all dash variants: cross product over the marked positions, first position most significant,
alternatives in the order `- / – — ―` -/
def windashExpand : List (Part × Bool) → List SStr
  | [] => [[]]
  | (p, false) :: r => (windashExpand r).map (p :: ·)
  | (_, true) :: r => dashes.flatMap (fun d => (windashExpand r).map (Part.lit d :: ·))

def windash (w : Char → Bool) (s : SStr) : List SStr := windashExpand (markValue w s [])

/-! ## expand: `%name%` placeholders -/

/-- `[^%]+%` at the head of `r`: the name and what follows the closing `%` -/
def splitName (r : List Char) : Option (List Char × List Char) :=
  match r.takeWhile (· != '%'), r.dropWhile (· != '%') with
  | name@(_ :: _), '%' :: rest => some (name, rest)
  | _, _ => none

/-- scan one run of literal characters (`re.finditer("(?<!\\\\)%(?P<name>[^%]+)%")`): an unescaped `%`,
one or more non-`%` characters and a `%` become a placeholder; in the text between placeholders
`\%` becomes `%`.  `prev` = the character in front (for the look-behind); fuel = run length. -/
def expandRunF : Nat → Option Char → List Char → SStr
  | 0, _, _ => []
  | _+1, _, [] => []
  | f+1, prev, c :: r =>
    if c == '%' && prev != some '\\' then
      match splitName r with
      | some (name, rest) => .ph name :: expandRunF f (some '%') rest
      | none => .lit c :: expandRunF f (some c) r
    else if c == '\\' && r.head? == some '%' then
      .lit '%' :: expandRunF f (some '%') r.tail
    else .lit c :: expandRunF f (some c) r

def expandRun (r : List Char) : SStr := expandRunF (r.length + 1) none r

/-- `insert_placeholders` on a whole value: run by run -/
def expandValue : SStr → List Char → SStr
  | [], acc => expandRun acc.reverse
  | .lit c :: r, acc => expandValue r (c :: acc)
  | p :: r, acc => expandRun acc.reverse ++ p :: expandValue r []

/-- the text of scanned parts (`str()` of the pattern after `insert_placeholders`) -/
def renderRun : SStr → List Char
  | [] => []
  | .lit c :: r => c :: renderRun r
  | .ph n :: r => '%' :: n ++ '%' :: renderRun r
  | .star :: r => '*' :: renderRun r
  | .qm :: r => '?' :: renderRun r

/-- `expand` on a regular expression: its pattern is kept as a string value read WITHOUT escape processing (`*` and
`?` are wildcard parts, every other character - backslashes included - is literal); each literal run is scanned
like a string's, the result is the pattern's new text -/
def expandRe : List Char → List Char → List Char
  | [], acc => renderRun (expandRun acc.reverse)
  | c :: r, acc =>
    if c == '*' || c == '?' then renderRun (expandRun acc.reverse) ++ c :: expandRe r []
    else expandRe r (c :: acc)

/-! ## the modifier table -/

def typeName : Val → String
  | .str false _ => "str" | .str true _ => "cased" | .num _ => "num" | .bool _ => "bool" | .null => "null"
  | .re .. => "re" | .cidr _ => "cidr" | .cmp .. => "cmp" | .fieldref .. => "fieldref"
  | .exists_ _ => "exists" | .tspart .. => "tspart" | .expansion _ => "expansion"

def isStr : Val → Bool | .str _ _ => true | _ => false
/-- `SigmaTimestampPart` is a `SigmaNumber` -/
def isNum : Val → Bool | .num _ => true | .tspart .. => true | _ => false

structure Env where
  w : Char → Bool                        -- `\w` of Python's `re` for the characters in play
  tables : B64.Tables := B64.stdTables

def utf8OfStr (s : SStr) : Option (List Nat) := B64.utf8enc (plainChars s)

/-- one value modifier on one non-expansion value: the produced values, or an error.
`first` = no modifier was applied before (`applied_modifiers` is empty). -/
def modifyValue (env : Env) (hasField first : Bool) (m : String) (v : Val) : Except MErr (List Val) :=
  let tyErr : Except MErr (List Val) := .error (.type m.toList)
  let valErr : Except MErr (List Val) := .error (.value m.toList)
  match m with
  | "contains" =>
    match v with
    | .str c s => .ok [.str c (addStarBack (addStarFront s))]
    | .re src a b d =>
      let pre := if src.take 2 == L ".*" || src.head? == some '^' then [] else L ".*"
      let post := if (src.drop (src.length - 2)) == L ".*" && src.length ≥ 2 || src.getLast? == some '$' then [] else L ".*"
      .ok [.re (pre ++ src ++ post) a b d]
    | .fieldref f _ _ => .ok [.fieldref f true true]
    | _ => tyErr
  | "startswith" =>
    match v with
    | .str c s => .ok [.str c (addStarBack s)]
    | .re src a b d =>
      let post := if (src.drop (src.length - 2)) == L ".*" && src.length ≥ 2 || src.getLast? == some '$' then [] else L ".*"
      .ok [.re (src ++ post) a b d]
    | .fieldref f sw ew => .ok [.fieldref f true ew]
    | _ => tyErr
  | "endswith" =>
    match v with
    | .str c s => .ok [.str c (addStarFront s)]
    | .re src a b d =>
      let pre := if src.take 2 == L ".*" || src.head? == some '^' then [] else L ".*"
      .ok [.re (pre ++ src) a b d]
    | .fieldref f sw _ => .ok [.fieldref f sw true]
    | _ => tyErr
  | "base64" =>
    match v with
    | .str _ s =>
      if hasSpecial s then valErr else
      match utf8OfStr s with
      | some b => .ok [.str false ((B64.b64Spec b).map .lit)]
      | none => valErr
    | _ => tyErr
  | "base64offset" =>
    match v with
    | .str _ s =>
      if hasSpecial s then valErr else
      match utf8OfStr s with
      | some b => .ok [.expansion ((B64.b64offset env.tables b.length b).map (fun t => .str false (t.map .lit)))]
      | none => valErr
    | _ => tyErr
  | "wide" =>
    match v with
    | .str _ s => match mapRuns (B64.wideTrick false) s [] with | some t => .ok [.str false t] | none => valErr
    | _ => tyErr
  | "utf16be" =>
    match v with
    | .str _ s => match mapRuns (B64.wideTrick true) s [] with | some t => .ok [.str false t] | none => valErr
    | _ => tyErr
  | "utf16" =>
    match v with
    | .str _ s => match mapRuns (B64.wideTrick false) s [] with
                  | some t => .ok [.str false (.lit (Char.ofNat 0xFEFF) :: t)] | none => valErr
    | _ => tyErr
  | "windash" =>
    match v with
    | .str c s => .ok [.expansion ((windash env.w s).map (.str c))]
    | _ => tyErr
  | "re" =>
    match v with
    | .str _ s => if !first then valErr else .ok [.re (litChars s) false false false]   -- raw text (from_str)
    | _ => tyErr
  | "i" | "ignorecase" => match v with | .re src _ b d => .ok [.re src true b d] | _ => tyErr
  | "m" | "multiline" => match v with | .re src a _ d => .ok [.re src a true d] | _ => tyErr
  | "s" | "dotall" => match v with | .re src a b _ => .ok [.re src a b true] | _ => tyErr
  | "cased" => match v with | .str _ s => .ok [.str true s] | _ => tyErr
  | "cidr" =>
    match v with
    | .str _ s => if !first then valErr else .ok [.cidr (toPlain s)]
    | _ => tyErr
  | "lt" | "lte" | "gt" | "gte" =>
    match v with
    | .num n => .ok [.cmp m.toList n]
    | .tspart _ n => .ok [.cmp m.toList n]
    | _ => tyErr
  | "fieldref" =>
    match v with
    | .str _ s => if hasWildcard s then valErr else .ok [.fieldref (toPlain s) false false]
    | _ => tyErr
  | "exists" =>
    match v with
    | .bool b => if !hasField || !first then valErr else .ok [.exists_ b]
    | _ => tyErr
  | "expand" =>
    match v with
    | .str c s => .ok [.str c (expandValue s [])]
    | .re src a b d => .ok [.re (expandRe src []) a b d]     -- the pattern's text after the scan (its validity as a regular expression is assumed)
    | _ => tyErr
  | "minute" | "hour" | "day" | "week" | "month" | "year" =>
    match v with
    | .num n => if n.contains '.' || n.contains 'e' then valErr else .ok [.tspart m.toList n]   -- integers only
    | .tspart _ n => .ok [.tspart m.toList n]
    | _ => tyErr
  | _ => .error (.unknown m.toList)

def valueModifiers : List String :=
  ["contains", "startswith", "endswith", "base64", "base64offset", "wide", "utf16be", "utf16", "windash", "re",
   "i", "ignorecase", "m", "multiline", "s", "dotall", "cased", "cidr", "lt", "lte", "gt", "gte", "fieldref",
   "exists", "expand", "minute", "hour", "day", "week", "month", "year"]
def listModifiers : List String := ["all", "neq"]

def mapM' (f : Val → Except MErr (List Val)) : List Val → Except MErr (List Val)
  | [] => .ok []
  | v :: vs =>
    match f v, mapM' f vs with
    | .ok a, .ok b => .ok (a ++ b)
    | .error e, _ => .error e
    | _, .error e => .error e

/-- `SigmaModifier.apply`: expansions are handled alternative by alternative (one level: the
alternatives of an expansion produced by a modifier are never expansions themselves, except
through a second expanding modifier, which nests) -/
def applyToVal (env : Env) (hasField first : Bool) (m : String) (fuel : Nat) (v : Val) : Except MErr (List Val) :=
  match fuel, v with
  | f+1, .expansion vs =>
    match mapM' (applyToVal env hasField first m f) vs with
    | .ok vs' => .ok [.expansion vs']
    | .error e => .error e
  | _, v => modifyValue env hasField first m v

def applyModifier (env : Env) (first : Bool) (m : String) (it : Item) : Except MErr Item :=
  if m == "all" then .ok { it with linkAnd := true }
  else if m == "neq" then .ok { it with negated := true }
  else if valueModifiers.contains m then
    match mapM' (applyToVal env it.hasField first m 8) it.vals with
    | .ok vs => .ok { it with vals := vs }
    | .error e => .error e
  else .error (.unknown m.toList)

def applyChainAux (env : Env) : Bool → List String → Item → Except MErr Item
  | _, [], it => .ok it
  | first, m :: ms, it =>
    match applyModifier env first m it with
    | .ok it' => applyChainAux env false ms it'
    | .error e => .error e

/-- unknown modifiers are reported before anything is applied (`from_mapping`) -/
def applyChain (env : Env) (mods : List String) (it : Item) : Except MErr Item :=
  match mods.find? (fun m => !(valueModifiers.contains m || listModifiers.contains m)) with
  | some m => .error (.unknown m.toList)
  | none => applyChainAux env true mods it

end SigmaVerif.Mods

namespace SigmaVerif.Mods
/-! ## accepted value types per modifier, as the specification above implies them -/

def typeTags : List String :=
  ["str", "cased", "num", "bool", "null", "re", "cidr", "cmp", "fieldref", "exists", "tspart"]

def repVal : String → Val
  | "str" => .str false [.lit 'a'] | "cased" => .str true [.lit 'a'] | "num" => .num ['1'] | "bool" => .bool true
  | "null" => .null | "re" => .re ['a'] false false false | "cidr" => .cidr (L "10.0.0.0/8")
  | "cmp" => .cmp (L "gt") ['1'] | "fieldref" => .fieldref ['f'] false false | "exists" => .exists_ true
  | _ => .tspart (L "minute") ['1']

def acceptsBySpec (m : String) (tag : String) : Bool :=
  match modifyValue { w := fun _ => false } true true m (repVal tag) with
  | .error (.type _) => false
  | _ => true

/-- a regenerated modifier table row agrees with the specification -/
def rowOk (r : String × Bool × List String) : Bool :=
  if r.2.1 then listModifiers.contains r.1
  else valueModifiers.contains r.1 && typeTags.all (fun t => r.2.2.contains t == acceptsBySpec r.1 t)

def tableOk (t : List (String × Bool × List String)) : Bool :=
  t.all rowOk && (valueModifiers ++ listModifiers).all (fun m => t.any (fun r => r.1 == m))

end SigmaVerif.Mods
