import SigmaVerif.Model.Corr
import SigmaVerif.Spec.Conv
/-!
# Specification side for C10: what the property says a correlation query must carry

Written from the property statement, in one pass over the *source* rule and the *whole* pipeline (no
phases, no stage-by-stage rewriting of the rule):

* sub-queries = for each referenced rule in reference order, each of its own queries, tagged with its
  name or id, finalised iff the backend opts in, with one normalisation per (alias, rule) pair;
* timespan = count × unit length in seconds (`unitSeconds`, defined by calendar arithmetic, not copied
  from the code), or count + mapped unit, or the specification as written;
* group-by / alias targets / condition field = the names as given, renamed by the whole pipeline
  (`mapAll`); alias names used in group-by are not renamed;
* an extended condition is specified by its *meaning*: the emitted token list, read by the target
  language's reader `ConvSpec.readQ` (C01), must have the truth table of the condition tree.

`spec` returns `none` when the combination is unsupported (support conditions of the backend /
pipeline); then any Sigma error is acceptable.  The data types are shared with the model.
-/
namespace SigmaVerif.CorrSpec
open SigmaVerif.Corr SigmaVerif.ConvSpec
open SigmaVerif.Conv (Op QTok)

/-! ## Timespan units by calendar arithmetic -/

def minute : Nat := 60
def hour : Nat := 60 * minute
def day : Nat := 24 * hour
def week : Nat := 7 * day
/-- mean Gregorian year: 365.2425 days = 365 d 5 h 49 min 12 s -/
def year : Nat := 365 * day + 5 * hour + 49 * minute + 12
/-- mean Gregorian month: a twelfth of the year -/
def month : Nat := year / 12

def unitSeconds : Char → Nat
  | 's' => 1 | 'm' => minute | 'h' => hour | 'd' => day | 'w' => week | 'M' => month | 'y' => year
  | _ => 0

def specTimespan (k : Cfg) (t : Timespan) : Str :=
  if k.tsSeconds then natStr (t.count * unitSeconds t.unit)
  else match k.tsMap with
    | some m => (match m.lookup t.unit with | some u => natStr t.count ++ u | none => t.spec)
    | none => t.spec

/-! ## Field renaming by the whole pipeline -/

/-- all images of a name after every stage -/
def mapAll (stages : List Stage) (f : Str) : List Str :=
  stages.foldl (fun acc t => acc.flatMap (mapField t)) [f]

def theOne : List Str → Option Str
  | [x] => some x
  | _ => none

def specPairs (stages : List Stage) : List (Str × Str) → Option (List (Str × Str))
  | [] => some []
  | p :: ps =>
    match theOne (mapAll stages p.2), specPairs stages ps with
    | some x, some r => some ((p.1, x) :: r)
    | _, _ => none

/-- every alias target renamed by the whole pipeline; `none` when some target has not exactly one image -/
def specAliases (stages : List Stage) : List Alias → Option (List Alias)
  | [] => some []
  | a :: as =>
    match specPairs stages a.mapping, specAliases stages as with
    | some mp, some r => some ({ a with mapping := mp } :: r)
    | _, _ => none

def specGroupBy (stages : List Stage) (aliasNames : List Str) (gb : List Str) : List Str :=
  gb.flatMap (fun g => if aliasNames.contains g then [g] else mapAll stages g)

def specNames (stages : List Stage) : List Str → Option (List Str)
  | [] => some []
  | f :: fs =>
    match theOne (mapAll stages f), specNames stages fs with
    | some x, some r => some (x :: r)
    | _, _ => none

def specFieldRef (stages : List Stage) : FieldRef → Option FieldRef
  | .none => some .none
  | .one f => (theOne (mapAll stages f)).map .one
  | .many fs => (specNames stages fs).map .many

def specCond (stages : List Stage) : Cond → Option Cond
  | .basic c => (specFieldRef stages c.field).map (fun f => .basic { c with field := f })
  | .ext e => some (.ext e)

/-! ## The record the property enumerates -/

def specSubs (k : Cfg) (aliases : List Alias) (refs : List (Str × RefInfo)) : List SubQ :=
  refs.flatMap (fun p => p.2.queries.map (fun q =>
    { tag := p.2.tag, fin := k.finalizeSub, query := q,
      norms := aliases.flatMap (fun a => (a.mapping.filter (fun x => x.1 == p.1)).map (fun x => (a.name, x.2))) }))

def dedup (xs : List Str) : List Str := xs.foldl (fun acc x => if acc.contains x then acc else acc ++ [x]) []

def spec (k : Cfg) (env : Env) (stages : List Stage) (method : Option Str) (r : Rule) : Option Record := do
  guard (validate r)
  let t ← parseTimespan r.timespan
  let refs ← (refsOf r).mapM (fun n => (env n).map (fun i => (n, i)))
  -- support conditions
  guard k.corr
  let m := method.getD k.defaultMethod
  guard (k.methods.contains m)
  let tn := dispatch r.type r.cond.isExt
  let (qt, qms) ← queryTemplate k tn
  guard (qms.contains m)
  guard (k.aggTypes.contains tn && k.condTypes.contains tn)
  let nSub := (refs.map (fun p => p.2.queries.length)).sum
  let single := refs.length == 1 && nSub == 1 && k.single
  guard (single || k.multi)
  guard (r.aliases.isEmpty || k.norm || nSub == 0)
  guard (r.groupBy.isNone || k.gb)
  guard (!k.refsUsed || k.refsExpr)
  -- elements
  let aliases ← specAliases stages r.aliases
  let gbFields := r.groupBy.map (specGroupBy stages (r.aliases.map (·.name)))
  let subs := specSubs k aliases refs
  let ownFields := r.fields.flatMap (mapAll stages)
  let flds := if k.fieldsExpr then
      (dedup ((refs.flatMap (fun p => p.2.fields)) ++ ownFields)).filter
        (fun f => match gbFields with | some g => !g.contains f | none => true)
    else []
  let (cond, aggField, pct) ← match r.cond with
    | .basic c => do
        guard (!(tn == .valuePercentile) || c.percentile.isSome)
        let f ← specFieldRef stages c.field
        pure (CondR.basic c.op c.count f.toList, f.toList, c.percentile)
    | .ext e => do
        guard k.extRef
        pure (CondR.ext e.refs [], [], none)
  pure { qt := qt, tn := tn.pyName, method := m, single := single, subs := subs,
         typing := if k.typing then some (specSubs k [] refs) else none,
         ts := specTimespan k t,
         gb := match gbFields with
           | some fs => .fields fs
           | none => if k.gbNoField then .nofield else .absent,
         aggField := aggField, pct := pct, fields := flds,
         refs := if k.refsExpr then some (refs.map (·.2.tag)) else none,
         cond := cond }

/-! ## Extended conditions: meaning as truth tables -/

def bit (v i : Nat) : Bool := (v / 2 ^ i) % 2 == 1

/-- truth table of the condition tree over the valuations of `names` -/
def ttExt (names : List Str) (e : Ext) : List Bool :=
  (List.range (2 ^ names.length)).map (fun v => e.sem (fun r => bit v (names.idxOf r)))

/-- truth table of a target-language expression over `n` atoms -/
def ttQE (n : Nat) (e : QE) : List Bool :=
  (List.range (2 ^ n)).map (fun v => e.denote (bit v))

/-- the target language's reading of an emitted token list, as a truth table -/
def readTT (prec : List Op) (n : Nat) (toks : List QTok) : Option (List Bool) :=
  (readQ prec toks).map (ttQE n)

end SigmaVerif.CorrSpec
