import SigmaVerif.Model.SStr
/-!
# Specification side for C05: what a pattern *means* and how a target language *reads* a literal

* `glob` — the set of subject strings a Sigma wildcard pattern matches.
* `decode` — the target language's own reading of a string literal under a quoting/escaping
  configuration: an escape character makes the next character literal, the wildcard tokens
  stand for wildcards, everything else is itself; a quoted literal ends at the first unescaped
  quote.
* `decodeBare` — the reading of a literal emitted WITHOUT quotes by a backend that has a string
  quote (conditional quoting): the same token reading, and an unescaped quote string inside the
  bare word is a string delimiter of the target, i.e. the literal is malformed.
* `reRead`/`reMatch` — the reading of the regular-expression fragment `to_regex` emits.
* `decodeField` — the target language's reading of a rendered field name; a quoted name is read
  strictly (`readQuotedField`): escape-aware, and the first unescaped quote string ends the name,
  so text after it means the name was terminated early (`none`).
Written from the property statement, not from the code.
-/
namespace SigmaVerif.SStrSpec
open SigmaVerif.SStr

/-- does the pattern (placeholders match nothing) match the subject string? -/
def glob : SStr → Str → Bool
  | [], x => x.isEmpty
  | .lit c :: p, x => match x with | [] => false | d :: x' => c == d && glob p x'
  | .qm :: p, x => match x with | [] => false | _ :: x' => glob p x'
  | .star :: p, x => glob p x || (match x with | [] => false | _ :: x' => glob (.star :: p) x')
  | .ph _ :: _, _ => false
termination_by p x => (p.length + x.length, p.length)
decreasing_by all_goals simp_wf <;> omega

def stripPrefix : Str → Str → Option Str
  | [], s => some s
  | _ :: _, [] => none
  | p :: ps, c :: s => if p == c then stripPrefix ps s else none

/-- Target-language reading of the *body* of a literal, token by token: escape first, then the
multi-character wildcard token, then the single-character one, else a plain character.
`fuel` bounds the number of tokens (the text length suffices). -/
def decodeBody (k : Conv) : Nat → Str → Option SStr
  | _, [] => some []
  | 0, _ :: _ => none
  | f+1, t@(c :: rest) =>
    let tryEsc : Option (Part × Str) :=
      match k.esc with
      | some e => if e.isEmpty then none else
          match stripPrefix e t with
          | some (d :: r) => some (.lit d, r)
          | _ => none
      | none => none
    let tryTok (tok : Option Str) (p : Part) : Option (Part × Str) :=
      match tok with
      | some m => if m.isEmpty then none else (stripPrefix m t).map (fun r => (p, r))
      | none => none
    let next : Part × Str :=
      match tryEsc with
      | some r => r
      | none =>
        match tryTok k.multi .star with
        | some r => r
        | none =>
          match tryTok k.single .qm with
          | some r => r
          | none => (.lit c, rest)
    (decodeBody k f next.2).map (next.1 :: ·)

def decode (k : Conv) (t : Str) : Option SStr := decodeBody k (t.length + 1) t

/-- reading of a quoted literal `q body q`: the body must not contain an unescaped quote at a
token boundary (checked by reading tokens until the closing quote, which must be the end) -/
def decodeQuotedBody (k : Conv) (q : Str) : Nat → Str → Option SStr
  | 0, _ => none
  | f+1, t =>
    match stripPrefix q t with
    | some [] => some []                -- closing quote at the very end
    | some (_ :: _) => none             -- an unescaped quote before the end terminates the literal early
    | none =>
      match t with
      | [] => none                      -- no closing quote
      | c :: rest =>
        let tryEsc : Option (Part × Str) :=
          match k.esc with
          | some e => if e.isEmpty then none else
              match stripPrefix e t with
              | some (d :: r) => some (.lit d, r)
              | _ => none
          | none => none
        let tryTok (tok : Option Str) (p : Part) : Option (Part × Str) :=
          match tok with
          | some m => if m.isEmpty then none else (stripPrefix m t).map (fun r => (p, r))
          | none => none
        let next : Part × Str :=
          match tryEsc with
          | some r => r
          | none =>
            match tryTok k.multi .star with
            | some r => r
            | none =>
              match tryTok k.single .qm with
              | some r => r
              | none => (.lit c, rest)
        (decodeQuotedBody k q f next.2).map (next.1 :: ·)

def decodeQuoted (k : Conv) (q : Str) (t : Str) : Option SStr :=
  match stripPrefix q t with
  | some body => decodeQuotedBody k q (body.length + 1) body
  | none => none

/-- reading of an UNQUOTED literal (a bare word) in a target language whose string quote is `q`
(non-empty): token by token like `decodeBody`, but the quote string keeps its meaning inside a bare
word — an unescaped occurrence at a token boundary opens/closes a string there, i.e. a source
character would act as a target metacharacter: the literal is malformed (`none`). -/
def decodeBareBody (k : Conv) (q : Str) : Nat → Str → Option SStr
  | _, [] => some []
  | 0, _ :: _ => none
  | f+1, t@(c :: rest) =>
    match stripPrefix q t with
    | some _ => none                    -- an unescaped quote inside a bare word
    | none =>
      let tryEsc : Option (Part × Str) :=
        match k.esc with
        | some e => if e.isEmpty then none else
            match stripPrefix e t with
            | some (d :: r) => some (.lit d, r)
            | _ => none
        | none => none
      let tryTok (tok : Option Str) (p : Part) : Option (Part × Str) :=
        match tok with
        | some m => if m.isEmpty then none else (stripPrefix m t).map (fun r => (p, r))
        | none => none
      let next : Part × Str :=
        match tryEsc with
        | some r => r
        | none =>
          match tryTok k.multi .star with
          | some r => r
          | none =>
            match tryTok k.single .qm with
            | some r => r
            | none => (.lit c, rest)
      (decodeBareBody k q f next.2).map (next.1 :: ·)

/-- reading of a literal that was emitted WITHOUT quotes by a backend whose string quote is `q`:
the language has no string quote (`q` empty) — plain `decode`; otherwise `decodeBareBody`. -/
def decodeBare (k : Conv) (q : Str) (t : Str) : Option SStr :=
  if q.isEmpty then decode k t else decodeBareBody k q (t.length + 1) t

/-- the value with the filtered characters removed (what the backend configuration asks for) -/
def filtered (k : Conv) (s : SStr) : SStr :=
  s.filter (fun p => match p with | .lit c => !k.filter.contains c | _ => true)

/-- decidable well-formedness of an escaping configuration: exactly what unique decodability
needs.  (1) there is a one-character escape string and it is itself escaped; (2) wildcard tokens
are non-empty and distinct; (3) no token starts with the escape character; (4) the multi token is
not a prefix of the single token, and if the single token is a proper prefix of the multi token,
the character after it can start nothing else. -/
def convWf (k : Conv) : Bool :=
  match k.esc with
  | some [e] =>
    k.escapedSet.contains e &&
    (match k.multi with | some m => !m.isEmpty && m.head? != some e | none => true) &&
    (match k.single with | some m => !m.isEmpty && m.head? != some e | none => true) &&
    (match k.multi, k.single with
     | some m, some s =>
        m != s && (stripPrefix m s).isNone &&
        (match stripPrefix s m with
         | some (r :: _) => r != e && some r != m.head? && some r != s.head?
         | _ => true)
     | _, _ => true)
  | _ => false

/-- additionally for quoted literals: the quote is one character, escaped, and starts no token -/
def quoteWf (k : Conv) (q : Str) : Bool :=
  match q with
  | [c] => k.escapedSet.contains c && k.esc != some [c] &&
           k.multi.bind List.head? != some c && k.single.bind List.head? != some c
  | _ => false

/-- extra condition that `quoteWf` lacks: when the single-character token is a proper prefix of the
multi-character token, the character that follows it in the multi token is not the quote
(otherwise `single ++ closing quote` reads as the multi token) -/
def quoteTailOk (k : Conv) (q : Str) : Bool :=
  match q, k.multi, k.single with
  | [c], some m, some s =>
    (match stripPrefix s m with
     | some (r :: _) => r != c
     | _ => true)
  | _, _, _ => true

/-! ## Regular-expression fragment -/

inductive RAtom | ch (c : Char) | any | anyStar
deriving Repr, DecidableEq

def reMeta : List Char := ".*+?^$[](){}\\|".toList

/-- reading of a regular expression of the fragment: `\c` is the character `c`, `.*` any run,
`.` any character, any other metacharacter is outside the fragment -/
def reRead : Nat → Str → Option (List RAtom)
  | _, [] => some []
  | 0, _ => none
  | f+1, '\\' :: c :: r => (reRead f r).map (.ch c :: ·)
  | _, ['\\'] => none
  | f+1, '.' :: '*' :: r => (reRead f r).map (.anyStar :: ·)
  | f+1, '.' :: r => (reRead f r).map (.any :: ·)
  | f+1, c :: r => if reMeta.contains c then none else (reRead f r).map (.ch c :: ·)

def reMatchAtoms : List RAtom → Str → Bool
  | [], x => x.isEmpty
  | .ch c :: p, x => match x with | [] => false | d :: x' => c == d && reMatchAtoms p x'
  | .any :: p, x => match x with | [] => false | _ :: x' => reMatchAtoms p x'
  | .anyStar :: p, x => reMatchAtoms p x || (match x with | [] => false | _ :: x' => reMatchAtoms (.anyStar :: p) x')
termination_by p x => (p.length + x.length, p.length)
decreasing_by all_goals simp_wf <;> omega

/-- `re.fullmatch(regex, x)` for the fragment (subjects without line terminators) -/
def reMatch (re : Str) (x : Str) : Option Bool :=
  (reRead (re.length + 1) re).map (fun atoms => reMatchAtoms atoms x)

/-! ## Field names -/

/-- target reading of an UNQUOTED rendered field name: an escape string makes the next character
literal -/
def unescapeField (c : FieldCfg) : Nat → Str → Option Str
  | _, [] => some []
  | 0, _ => none
  | f+1, t@(ch :: rest) =>
    match c.escape with
    | some e =>
      if e.isEmpty then (unescapeField c f rest).map (ch :: ·) else
      match stripPrefix e t with
      | some (d :: r) => (unescapeField c f r).map (d :: ·)
      | some [] => none
      | none => (unescapeField c f rest).map (ch :: ·)
    | none => (unescapeField c f rest).map (ch :: ·)

/-- STRICT target reading of a quoted field name after its opening quote, up to and including the
closing quote `q` (non-empty).  At every position: (1) the escape string followed by a character
is that character, literally; (2) otherwise the quote string ENDS the name here — this must be the
end of the text, an unescaped quote before the end has terminated the name early (`none`);
(3) otherwise a plain character.  Running out of text without a closing quote is `none`.
(The escape is tried before the quote, so a language that escapes the quote by doubling it — escape
string = quote string — is read correctly; for the usual disjoint escape/quote the order is
immaterial.) -/
def readQuotedField (c : FieldCfg) (q : Str) : Nat → Str → Option Str
  | 0, _ => none
  | f+1, t =>
    let esc : Option (Char × Str) :=
      match c.escape with
      | some e => if e.isEmpty then none else
          match stripPrefix e t with
          | some (d :: r) => some (d, r)
          | _ => none
      | none => none
    match esc with
    | some (d, r) => (readQuotedField c q f r).map (d :: ·)
    | none =>
      match stripPrefix q t with
      | some [] => some []              -- closing quote at the very end
      | some (_ :: _) => none           -- an unescaped quote before the end terminates the name early
      | none =>
        match t with
        | [] => none                    -- no closing quote
        | ch :: rest => (readQuotedField c q f rest).map (ch :: ·)

/-- target reading of a rendered field name.  Quoted (a non-empty quote string is configured and
the name was emitted quoted): the opening quote, then `readQuotedField`.  Otherwise (no quote
configured, the configuration said not to quote this name, or the quote string is empty): the
escape-aware reading of the whole text. -/
def decodeField (c : FieldCfg) (quoted : Bool) (t : Str) : Option Str :=
  match c.quote, quoted with
  | some q, true =>
    if q.isEmpty then unescapeField c (t.length + 1) t else
    match stripPrefix q t with
    | some r => readQuotedField c q (r.length + 1) r
    | none => none
  | _, _ => unescapeField c (t.length + 1) t

end SigmaVerif.SStrSpec
