import SigmaVerif.Model.Conv
/-!
# Specification side for C01: the *target language's* reading of a flat token list, and the
meaning of a condition tree

`readQ prec` is the stratified grammar induced by the backend's precedence tuple (index 0 binds
tightest): level `-1` is an atom, an in-list or a parenthesised expression; a binary operator at
level `i` joins level `i-1` expressions (left to right); NOT at level `i` is a prefix operator whose
operand is again a level-`i` expression.  Written from the property statement ("operator
precedence of the target language"), not from the converter.
-/
namespace SigmaVerif.ConvSpec
open SigmaVerif.Conv

/-- expressions of the target language -/
inductive QE
  | atom (a : Nat)
  | natom (a : Nat)
  | inList (isOr : Bool) (as : List Nat)
  | not (e : QE)
  | and (a b : QE)
  | or (a b : QE)
deriving Repr

def QE.denote (ρ : Nat → Bool) : QE → Bool
  | .atom a => ρ a
  | .natom a => !ρ a
  | .inList true as => as.any ρ
  | .inList false as => as.all ρ
  | .not e => !(e.denote ρ)
  | .and a b => a.denote ρ && b.denote ρ
  | .or a b => a.denote ρ || b.denote ρ

abbrev P := List QTok → Option (QE × List QTok)

/-- level -1: atom, in-list, or parenthesised top-level expression -/
def rPrim (top : P) : P
  | .atom a :: r => some (.atom a, r)
  | .natom a :: r => some (.natom a, r)
  | .inList o as :: r => some (.inList o as, r)
  | .lp :: r =>
    match top r with
    | some (e, .rp :: r') => some (e, r')
    | _ => none
  | _ => none

/-- left-associative chain `sub (tok sub)*`; fuel = remaining token count -/
def rChain (tok : QTok) (mk : QE → QE → QE) (sub : P) : Nat → QE → List QTok → Option (QE × List QTok)
  | 0, acc, ts => some (acc, ts)
  | f+1, acc, ts =>
    match ts with
    | t :: ts' =>
      if t = tok then
        match sub ts' with
        | some (e, r) => rChain tok mk sub f (mk acc e) r
        | none => none
      else some (acc, ts)
    | [] => some (acc, ts)

def rBin (tok : QTok) (mk : QE → QE → QE) (sub : P) : P := fun ts =>
  match sub ts with
  | some (e, r) => rChain tok mk sub r.length e r
  | none => none

/-- prefix NOT at this level: `NOT* sub`; fuel = remaining token count -/
def rNot (sub : P) : Nat → P
  | 0, _ => none
  | f+1, .tnot :: r =>
    match rNot sub f r with
    | some (e, r') => some (.not e, r')
    | none => none
  | _+1, ts => sub ts

/-- one level of the stratified grammar for operator `o` above `sub` -/
def rLevel (o : Op) (sub : P) : P :=
  match o with
  | .not => fun ts => rNot sub (ts.length + 1) ts
  | .and => rBin .tand .and sub
  | .or => rBin .tor .or sub

/-- all levels, tightest first; `fuel` bounds the parenthesis nesting depth -/
def rTop (prec : List Op) : Nat → P
  | 0 => fun _ => none
  | f+1 => prec.foldl (fun sub o => rLevel o sub) (rPrim (rTop prec f))

/-- the target language's reading of a query -/
def readQ (prec : List Op) (ts : List QTok) : Option QE :=
  match rTop prec (ts.length + 1) ts with
  | some (e, []) => some e
  | _ => none

/-! ## Meaning of a condition tree (vanished operands are dropped, as the Sigma converter does) -/

mutual
/-- `none` = the node vanished -/
def evalCT (ρ : Nat → Bool) : CT → Option Bool
  | .atom a _ => some (ρ a)
  | .exp as => some (as.any (fun p => ρ p.1))
  | .cidr as => some (as.any (fun p => ρ p.1))
  | .nex a _ => some (!ρ a)
  | .not c => (evalCT ρ c).map (!·)
  | .and cs => match evalList ρ cs with | [] => none | bs => some (bs.all id)
  | .or cs => match evalList ρ cs with | [] => none | bs => some (bs.any id)
  | .none => none
def evalList (ρ : Nat → Bool) : List CT → List Bool
  | [] => []
  | c :: cs => match evalCT ρ c with | some b => b :: evalList ρ cs | none => evalList ρ cs
end

end SigmaVerif.ConvSpec
