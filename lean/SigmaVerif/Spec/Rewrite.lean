import SigmaVerif.Spec.Rule
/-!
# The documented source-level rewrites of the built-in pipeline transformations (C12)

Every transformation is documented by what it does to a rule: "map a field name to one or multiple
different", "add field name prefix", "deletes detection items", "add a condition expression to rule
conditions", "replace string part matched by regular expression", "map static string value to one
or multiple other strings", "set value to a fixed value", ...  This file writes these sentences
down as **total functions on the rule document** (`Doc`: named detections in the source form `Det`
of `Spec/Rule.lean`, the condition texts, the `fields` list).  The meaning of a rule converted
through a pipeline is, by the property, the meaning (`Rule.ruleBE`) of the rewritten document.

What is a parameter (trusted to be what the harness says it is):
* the string substitution of `replace_string` (Python `re.sub`) is a function `Str → Str` on *plain*
  strings ("the replacement operates on the plain string representation"); `plainText`/`reescape`
  go from the Sigma string syntax of the document to the plain string and back,
* the case mapping of `case` is a function `Char → Char` (the driver uses ASCII `toLower/toUpper`),
* field-name conditions of the processing item (`include_fields`/`exclude_fields`) are a predicate
  on field names (`FScope`); an item is in scope through its field *or* through a field it references.

What is not expressible as a source-level rewrite (the functions answer `notExpressible`, the
harness does not judge the case): a string transformation below `contains|startswith|endswith` or
any other value modifier than `cased` (the transformation sees the value *after* the modifier);
mapping a keyword list with non-string values to a field; a detection emptied by dropping
(`emptied`: the operand vanishes from the condition, C02's subject).
-/
namespace SigmaVerif.Rewrite
open SigmaVerif.SStr SigmaVerif.Mods SigmaVerif.Rule

/-- one detection item `key: values` -/
abbrev KV := Str × List PV

/-- the parts of a rule document the transformations touch -/
structure Doc where
  dets : List (Str × Det)
  conds : List Str
  fields : List Str := []

/-! ## keys `field|mod|…` -/

def keyField (k : Str) : Str := k.takeWhile (· != '|')
/-- empty, or `|mod|…` -/
def keyRest (k : Str) : Str := k.dropWhile (· != '|')
def keyMods (k : Str) : List Str := (splitOn '|' k).drop 1
def hasMod (k : Str) (m : String) : Bool := (keyMods k).contains m.toList
/-- `none` = keyword item -/
def fieldOf (k : Str) : Option Str := if (keyField k).isEmpty then none else some (keyField k)

def joinMods (ms : List Str) : Str := ms.flatMap ('|' :: ·)

/-! ## scopes -/

/-- field name condition of a processing item -/
abbrev FScope := Option Str → Bool
/-- which detection items a transformation applies to -/
abbrev Scope := Str → List PV → Bool

def strsOf (vs : List PV) : List Str := vs.filterMap (fun v => match v with | .str s => some s | _ => none)

/-- the fields an item references (values of a `fieldref` item) -/
def refNames (k : Str) (vs : List PV) : List Str := if hasMod k "fieldref" then strsOf vs else []

/-- a field name condition matches a detection item through its field or through a field it references -/
def fieldScope (sc : FScope) : Scope := fun k vs => sc (fieldOf k) || (refNames k vs).any (fun s => sc (some s))

def includeFields (fs : List Str) : FScope := fun f => match f with | some f => fs.contains f | none => false
def excludeFields (fs : List Str) : FScope := fun f => !includeFields fs f
def everything : FScope := fun _ => true

/-! ### condition groups

The `field_name_conditions` of a processing item are linked by `field_name_cond_op` (`and`, the default, or `or`) and the
linked result is negated by `field_name_cond_not`; a group without conditions always applies, whatever the flag says.
The same options exist for detection item and rule conditions (`detection_item_cond_not`, `rule_cond_not`): each flag
belongs to its own group. -/

def linkBools (anyOf : Bool) (bs : List Bool) : Bool := if anyOf then bs.any id else bs.all id

def groupResult (anyOf neg : Bool) (bs : List Bool) : Bool := bs.isEmpty || (linkBools anyOf bs != neg)

/-- the group evaluated on a field name (a field of an item, a referenced field, an entry of the fields list) -/
def groupFields (anyOf neg : Bool) (cs : List FScope) : FScope := fun f => groupResult anyOf neg (cs.map (· f))

/-- the group evaluated on a detection item: each condition sees the item (its field or a field it references), then
the results are linked and negated -/
def groupItems (anyOf neg : Bool) (cs : List FScope) : Scope := fun k vs => groupResult anyOf neg (cs.map (fun c => fieldScope c k vs))

/-! ## generic traversals -/

/-- what becomes of one item of a map -/
inductive Out
  | one (kv : KV)          -- an item in its place
  | sub (d : Det)          -- a sub-detection in its place (OR of alternatives, AND of per-value items)

def Out.kv? : Out → Option KV | .one kv => some kv | .sub _ => none
def Out.det : Out → Det | .one kv => .map [kv] | .sub d => d

/-- a map whose items were all rewritten in place stays a map; otherwise it becomes the AND of its pieces, in order -/
def assemble (os : List Out) : Det :=
  match os.mapM Out.kv? with
  | some kvs => .map kvs
  | none => .all (os.map Out.det)

mutual
/-- rewrite every item (`fi`) and every keyword list (`fk`) of a detection, keeping the structure -/
def mapDet (fi : KV → Out) (fk : List PV → Det) : Det → Det
  | .map items => assemble (items.map fi)
  | .values vs => fk vs
  | .list ds => .list (mapDetL fi fk ds)
  | .all ds => .all (mapDetL fi fk ds)
def mapDetL (fi : KV → Out) (fk : List PV → Det) : List Det → List Det
  | [] => []
  | d :: ds => mapDet fi fk d :: mapDetL fi fk ds
end

mutual
/-- all items of a detection, a keyword list as the item with the empty key -/
def detItems : Det → List KV
  | .map items => items
  | .values vs => [([], vs)]
  | .list ds => detItemsL ds
  | .all ds => detItemsL ds
def detItemsL : List Det → List KV
  | [] => []
  | d :: ds => detItems d ++ detItemsL ds
end

def mapDets (f : Det → Det) (ds : List (Str × Det)) : List (Str × Det) := ds.map (fun d => (d.1, f d.2))

/-! ## field renaming -/

/-- the values of a field reference are field names: they are renamed as well (one-to-many: spliced) -/
def renameValue (m : Str → List Str) : PV → List PV
  | .str s => (m s).map .str
  | v => [v]

def renameValues (m : Str → List Str) (k : Str) (vs : List PV) : List PV :=
  if hasMod k "fieldref" then vs.flatMap (renameValue m) else vs

/-- one target: the item keeps its place under the new name; several: the OR of one copy per target
(each copy keeps the modifiers, so the values of an `all` item stay AND-linked *inside* each copy) -/
def renameItem (m : Str → List Str) (kv : KV) : Out :=
  let vs' := renameValues m kv.1 kv.2
  match fieldOf kv.1 with
  | none => .one (kv.1, vs')
  | some f =>
    match m f with
    | [g] => .one (g ++ keyRest kv.1, vs')
    | gs => .sub (.list (gs.map (fun g => .map [(g ++ keyRest kv.1, vs')])))

def renameDet (m : Str → List Str) : Det → Det := mapDet (renameItem m) .values

/-- `renameFields m`: detection items, field references and the fields list -/
def renameFields (m : Str → List Str) (doc : Doc) : Doc :=
  { doc with dets := mapDets (renameDet m) doc.dets, fields := doc.fields.flatMap m }

/-- a mapping restricted by the field name conditions of its processing item -/
def scopedMap (sc : FScope) (m : Str → List Str) : Str → List Str := fun f => if sc (some f) then m f else [f]

/-- the item-level gate the processing item evaluates first (`match_detection_item`): an item that
is not in scope is not looked at.  `renameItem_gate` shows it is redundant for renaming. -/
def renameItemGated (sc : FScope) (m : Str → List Str) (kv : KV) : Out :=
  if fieldScope sc kv.1 kv.2 then renameItem (scopedMap sc m) kv else .one kv

/-- renaming behind an arbitrary item-level gate (a condition group evaluated on the item, `groupItems`): an item the
gate rejects is not looked at; the fields list has no items, every entry goes through the mapping -/
def renameDetGated (gate : Scope) (m : Str → List Str) : Det → Det :=
  mapDet (fun kv => if gate kv.1 kv.2 then renameItem m kv else .one kv) .values

def renameFieldsGated (gate : Scope) (m : Str → List Str) (doc : Doc) : Doc :=
  { doc with dets := mapDets (renameDetGated gate m) doc.dets, fields := doc.fields.flatMap m }

/-- `field_name_mapping` -/
def tableMap (tbl : List (Str × List Str)) : Str → List Str := fun f => (tbl.lookup f).getD [f]
def oneToOne (tbl : List (Str × Str)) : Str → List Str := tableMap (tbl.map (fun e => (e.1, [e.2])))
/-- `field_name_prefix` -/
def addPrefix (p : Str) : Str → List Str := fun f => [p ++ f]
/-- `field_name_suffix` -/
def addSuffix (s : Str) : Str → List Str := fun f => [f ++ s]
/-- `field_name_prefix_mapping`: the first configured prefix the name starts with is replaced -/
def prefixMap (tbl : List (Str × List Str)) : Str → List Str := fun f =>
  match tbl.find? (fun e => e.1.isPrefixOf f) with
  | some e => e.2.map (· ++ f.drop e.1.length)
  | none => [f]

/-! ## keyword → field -/

def allStr (vs : List PV) : Bool := vs.all (fun v => match v with | .str _ => true | _ => false)

/-- keywords are substring searches: mapped to a field they become a `contains` item -/
def keywordItem (g : Str) (vs : List PV) : Det := .map [(g ++ "|contains".toList, vs)]

def keywordToFieldDet (g : Str) : Det → Det := mapDet .one (keywordItem g)

def keywordToField (g : Str) (doc : Doc) : Doc := { doc with dets := mapDets (keywordToFieldDet g) doc.dets }

/-- keywords mapped to several fields: one-to-many is an OR, each alternative a `contains` item -/
def keywordItems (gs : List Str) (vs : List PV) : Det :=
  match gs with
  | [g] => keywordItem g vs
  | gs => .list (gs.map (fun g => keywordItem g vs))

def keywordToFieldsDet (gs : List Str) : Det → Det := mapDet .one (keywordItems gs)

def keywordToFields (gs : List Str) (doc : Doc) : Doc := { doc with dets := mapDets (keywordToFieldsDet gs) doc.dets }

/-- expressible here: every keyword list consists of strings, there is no keyword item inside a map -/
def kwExpressible (d : Det) : Bool := (detItems d).all (fun kv => fieldOf kv.1 != none || (kv.1.isEmpty && allStr kv.2))

/-! ## dropping items -/

mutual
/-- `none` = the detection lost everything -/
def dropDet (sc : Scope) : Det → Option Det
  | .map items =>
    match items.filter (fun kv => !sc kv.1 kv.2) with
    | [] => none
    | kept => some (.map kept)
  | .values vs => if sc [] vs then none else some (.values vs)
  | .list ds => match dropDetL sc ds with | [] => none | ds' => some (.list ds')
  | .all ds => match dropDetL sc ds with | [] => none | ds' => some (.all ds')
def dropDetL (sc : Scope) : List Det → List Det
  | [] => []
  | d :: ds =>
    match dropDet sc d with
    | some d' => d' :: dropDetL sc ds
    | none => dropDetL sc ds
end

inductive RwErr
  | emptied (name : Str)             -- a detection lost all its items (its operand vanishes from the condition: C02)
  | notExpressible (what : String)   -- the documented effect is not a source-level rewrite here
  | noValidHash                      -- `hashes_fields`: an item without an entry of a valid algorithm (documented failure)
deriving Repr

def dropDets (sc : Scope) : List (Str × Det) → Except RwErr (List (Str × Det))
  | [] => .ok []
  | d :: r =>
    match dropDet sc d.2, dropDets sc r with
    | none, _ => .error (.emptied d.1)
    | some d', .ok r' => .ok ((d.1, d') :: r')
    | some _, .error e => .error e

def dropItems (sc : Scope) (doc : Doc) : Except RwErr Doc :=
  match dropDets sc doc.dets with
  | .ok ds => .ok { doc with dets := ds }
  | .error e => .error e

/-! ## adding a condition -/

/-- `name and (cond)` / `not name and (cond)` -/
def addCondText (name : Str) (negated : Bool) (c : Str) : Str :=
  (if negated then "not ".toList else []) ++ name ++ " and (".toList ++ c ++ [')']

/-- a new detection (a map of the configured items) and *every* condition of the rule extended by it -/
def addCondition (name : Str) (items : List KV) (negated : Bool) (doc : Doc) : Doc :=
  { doc with dets := doc.dets ++ [(name, .map items)], conds := doc.conds.map (addCondText name negated) }

def isIdStart (c : Char) : Bool := c == '_' || c.isAlpha
def isIdChar (c : Char) : Bool := c == '_' || c.isAlphanum

/-- `string.Template.safe_substitute`: `$name`, `${name}` with a known name are replaced, `$$` is `$`,
everything else stays -/
def tplSubstF (vars : List (Str × Str)) : Nat → Str → Str
  | 0, s => s
  | _, [] => []
  | f+1, '$' :: '$' :: r => '$' :: tplSubstF vars f r
  | f+1, '$' :: '{' :: r =>
    let name := r.takeWhile isIdChar
    match r.dropWhile isIdChar with
    | '}' :: rest =>
      if (name.head?.map isIdStart).getD false then
        match vars.lookup name with
        | some v => v ++ tplSubstF vars f rest
        | none => '$' :: '{' :: (name ++ '}' :: tplSubstF vars f rest)
      else '$' :: tplSubstF vars f ('{' :: r)
    | _ => '$' :: tplSubstF vars f ('{' :: r)
  | f+1, '$' :: r =>
    let name := r.takeWhile isIdChar
    if (name.head?.map isIdStart).getD false then
      match vars.lookup name with
      | some v => v ++ tplSubstF vars f (r.dropWhile isIdChar)
      | none => '$' :: (name ++ tplSubstF vars f (r.dropWhile isIdChar))
    else '$' :: tplSubstF vars f r
  | f+1, c :: r => c :: tplSubstF vars f r

def tplSubst (vars : List (Str × Str)) (s : Str) : Str := tplSubstF vars (s.length + 1) s

def tplItems (vars : List (Str × Str)) (items : List KV) : List KV :=
  items.map (fun kv => (kv.1, kv.2.map (fun v => match v with | .str s => .str (tplSubst vars s) | v => v)))

/-- `template: true`: the string values are templates over the rule's log source -/
def addConditionTemplate (vars : List (Str × Str)) (name : Str) (items : List KV) (negated : Bool) (doc : Doc) : Doc :=
  addCondition name (tplItems vars items) negated doc

/-! ## value transformations -/

/-- a value transformation: the replacement values of one value (several = alternatives), and whether
the configured value replaces value *and* type (then the value modifiers of the key are void) -/
structure VT where
  f : PV → List PV
  stripMods : Bool := false

/-- the plain string a value written in Sigma string syntax stands for (`\\\\` is one backslash; wildcards and
escaped wildcards stay as written): what "the plain string representation" of the documentation is -/
def plainText (s : Str) : Str := toPlain (parse s)

/-- back to Sigma string syntax: every backslash that does not escape a wildcard is doubled -/
def reescape : Str → Str
  | [] => []
  | '\\' :: c :: r => if c == '*' || c == '?' then '\\' :: c :: reescape r else '\\' :: '\\' :: reescape (c :: r)
  | c :: r => if c == '\\' then ['\\', '\\'] else c :: reescape r

/-- "the replacement operates on the plain string representation" and the result is a Sigma string again -/
def replaceText (sub : Str → Str) (s : Str) : Str := reescape (sub (plainText s))

/-- `replace_string`; a number is taken as its text -/
def replaceString (sub : Str → Str) : VT :=
  { f := fun v => match v with | .str s => [.str (replaceText sub s)] | .num n => [.str (reescape (sub n))] | v => [v] }

/-- `map_string`: a value whose plain string is a key of the mapping becomes its image(s) -/
def mapString (tbl : List (Str × List Str)) : VT :=
  { f := fun v => match v with
      | .str s => (match tbl.lookup (plainText s) with | some r => r.map .str | none => [v])
      | v => [v] }

/-- `case` -/
def caseString (cf : Char → Char) : VT :=
  { f := fun v => match v with | .str s => [.str (s.map cf)] | v => [v] }
def caseLower : VT := caseString Char.toLower
def caseUpper : VT := caseString Char.toUpper

/-- `set_value` -/
def setValue (v0 : PV) : VT := { f := fun _ => [v0], stripMods := true }

/-- `convert_type` to `str`: numbers become their text -/
def convertStr : VT := { f := fun v => match v with | .num n => [.str n] | v => [v] }

def listMods : List Str := ["all".toList, "neq".toList]
/-- the key without value modifiers (`all`/`neq` say how values are linked, not what they are) -/
def stripKey (k : Str) : Str := keyField k ++ joinMods ((keyMods k).filter listMods.contains)
def dropAllKey (k : Str) : Str := keyField k ++ joinMods ((keyMods k).filter (· != "all".toList))

/-- modifiers under which a string transformation of the *source* values says what happens -/
def softMods : List Str := ["cased".toList, "all".toList, "neq".toList]

/-- is the documented effect on this item a source-level rewrite? -/
def valueItemExpressible (vt : VT) (sc : Scope) (kv : KV) : Bool :=
  !sc kv.1 kv.2 || vt.stripMods || hasMod kv.1 "re" || hasMod kv.1 "fieldref" ||
  (keyMods kv.1).all softMods.contains

def valueItem (vt : VT) (sc : Scope) (kv : KV) : Out :=
  if !sc kv.1 kv.2 then .one kv
  else if vt.stripMods then .one (stripKey kv.1, kv.2.flatMap vt.f)
  else if hasMod kv.1 "re" || hasMod kv.1 "fieldref" then .one kv     -- not strings / field names, not values
  else
    let alts := kv.2.map vt.f
    if hasMod kv.1 "all" && alts.any (fun a => decide (1 < a.length)) then
      -- the alternatives of one value stay OR-linked also when the values are AND-linked
      .sub (.all (alts.map (fun a => .map [(dropAllKey kv.1, a)])))
    else .one (kv.1, alts.flatten)

def valueKeywords (vt : VT) (sc : Scope) (vs : List PV) : Det :=
  if sc [] vs then .values (vs.flatMap vt.f) else .values vs

def valueDet (vt : VT) (sc : Scope) : Det → Det := mapDet (valueItem vt sc) (valueKeywords vt sc)

def valueTransform (vt : VT) (sc : Scope) (doc : Doc) : Doc := { doc with dets := mapDets (valueDet vt sc) doc.dets }

def valueExpressible (vt : VT) (sc : Scope) (d : Det) : Bool := (detItems d).all (valueItemExpressible vt sc)

/-! ## the fields list alone -/

/-- `add_field` -/
def addFields (fs : List Str) (doc : Doc) : Doc := { doc with fields := doc.fields ++ fs }
/-- `remove_field`: for each listed name its first occurrence goes; a name that is not in the list is ignored -/
def removeFields (fs : List Str) (doc : Doc) : Doc := { doc with fields := fs.foldl (fun l f => l.erase f) doc.fields }
/-- `set_field` -/
def setFields (fs : List Str) (doc : Doc) : Doc := { doc with fields := fs }

/-! ## hash-field splitting (`hashes_fields`)

"Replaces the generic 'Hashes' field with specific fields for each hash algorithm, optionally prefixing the field names.
It supports various hash formats and can auto-detect hash types based on their length."  An entry is `ALGO=hash` or
`ALGO|hash` (wildcards around it are void) or a bare hash whose algorithm is found by its length; `ALGO` names one of the
configured `valid_hash_algos` **whatever its spelling** (the field is built from the algorithm, not from how the rule
spells it), so all entries of one algorithm end up in one item `<field_prefix><ALGO>: [hashes]`; the items of the
algorithms are alternatives (OR), in order of first appearance; entries of no valid algorithm are left out and an item
without any valid entry is an error ("Raises: if no valid hash algorithms were found"). -/

structure HashCfg where
  algos : List Str                 -- `valid_hash_algos`
  pfx : Str := []                  -- `field_prefix`
  dropAlgo : Bool := false         -- `drop_algo_prefix`
  fields : List Str := ["Hashes".toList, "Hash".toList]     -- `field_to_parse`
  byLength : List (Nat × Str) := []                         -- digest length (hex characters) → algorithm

def isStar (c : Char) : Bool := c == '*'
def isWild (c : Char) : Bool := c == '*' || c == '?'
def stripL (p : Char → Bool) (s : Str) : Str := s.dropWhile p
def strip (p : Char → Bool) (s : Str) : Str := ((s.dropWhile p).reverse.dropWhile p).reverse

/-- the algorithm an entry names, in the spelling of the configuration (upper case) -/
def normAlgo (a : Str) : Str := stripL isStar (a.map Char.toUpper)

/-- algorithm and hash of the parts of an entry -/
def hashEntryParts (cfg : HashCfg) : List Str → Str × Str
  | [a, v] => (normAlgo a, strip isWild v)
  | parts => let v := strip isWild (parts.headD []); ((cfg.byLength.lookup v.length).getD [], v)

def hashParts (s : Str) : List Str := if s.contains '|' then splitOn '|' s else splitOn '=' s

/-- `some (algorithm, hash)` for an entry of a valid algorithm -/
def hashEntry (cfg : HashCfg) (s : Str) : Option (Str × Str) :=
  let e := hashEntryParts cfg (hashParts s)
  if !e.1.isEmpty && cfg.algos.contains e.1 then some e else none

def hashField (cfg : HashCfg) (algo : Str) : Str := cfg.pfx ++ (if cfg.dropAlgo then [] else algo)

/-- append `v` to the group of key `k`; a new key opens a group at the end -/
def groupInsert (k v : Str) : List (Str × List Str) → List (Str × List Str)
  | [] => [(k, [v])]
  | g :: gs => if g.1 = k then (g.1, g.2 ++ [v]) :: gs else g :: groupInsert k v gs

def groupAll : List (Str × Str) → List (Str × List Str) → List (Str × List Str)
  | [], acc => acc
  | e :: es, acc => groupAll es (groupInsert e.1 e.2 acc)

def hashEntries (cfg : HashCfg) (vs : List PV) : List (Str × Str) := (strsOf vs).filterMap (hashEntry cfg)

/-- one group per target field, in order of first appearance -/
def hashGroups (cfg : HashCfg) (es : List (Str × Str)) : List (Str × List Str) :=
  groupAll (es.map (fun e => (hashField cfg e.1, e.2))) []

/-- the items the transformation looks at: a field of `field_to_parse` with string values only -/
def hashApplies (cfg : HashCfg) (kv : KV) : Bool :=
  (match fieldOf kv.1 with | some f => cfg.fields.contains f | none => false) && allStr kv.2

/-- the OR of one item per algorithm -/
def hashItem (cfg : HashCfg) (kv : KV) : Out :=
  .sub (.list ((hashGroups cfg (hashEntries cfg kv.2)).map (fun g => .map [(g.1, g.2.map .str)])))

def hashItemGated (cfg : HashCfg) (gate : Scope) (kv : KV) : Out :=
  if gate kv.1 kv.2 && hashApplies cfg kv then hashItem cfg kv else .one kv

def hashDet (cfg : HashCfg) (gate : Scope) : Det → Det := mapDet (hashItemGated cfg gate) .values

def hashesFields (cfg : HashCfg) (gate : Scope) (doc : Doc) : Doc := { doc with dets := mapDets (hashDet cfg gate) doc.dets }

/-- modifiers that only put wildcards around the entries (which are void) -/
def hashMods : List Str := ["contains".toList, "startswith".toList, "endswith".toList]

/-- is the documented effect on this item a source-level rewrite?  Only wildcard-adding modifiers, no escapes in the
entries, and target field names that are field names -/
def hashItemExpressible (cfg : HashCfg) (gate : Scope) (kv : KV) : Bool :=
  !(gate kv.1 kv.2 && hashApplies cfg kv) ||
  ((keyMods kv.1).all hashMods.contains && (strsOf kv.2).all (fun s => !s.contains '\\') &&
   (hashGroups cfg (hashEntries cfg kv.2)).all (fun g => !g.1.isEmpty && g.1 != "keyword".toList && !g.1.contains '|'))

/-- an item in scope has at least one entry of a valid algorithm -/
def hashItemValid (cfg : HashCfg) (gate : Scope) (kv : KV) : Bool :=
  !(gate kv.1 kv.2 && hashApplies cfg kv) || !(hashEntries cfg kv.2).isEmpty

/-- a check on every item (a keyword list has no field: `hashApplies` is false on it) -/
def hashCheck (cfg : HashCfg) (gate : Scope) (p : HashCfg → Scope → KV → Bool) (d : Det) : Bool :=
  (detItems d).all (p cfg gate)

/-! ## transformations as data; nesting -/

inductive Tr
  | rename (m : Str → List Str)
  | renameGated (gate : Scope) (m : Str → List Str)
  | kwToField (g : Str)
  | kwToFields (gs : List Str)
  | drop (sc : Scope)
  | addCond (name : Str) (items : List KV) (negated : Bool)
  | value (vt : VT) (sc : Scope)
  | fieldsList (g : Doc → Doc)       -- `add_field`/`remove_field`/`set_field`: one of the three functions above
  | hashes (cfg : HashCfg) (gate : Scope)
  | nest (ts : List Tr)

mutual
/-- the documented rewrite of a transformation; a nested pipeline is the composition of its items, in order -/
def Tr.apply : Tr → Doc → Except RwErr Doc
  | .rename m, doc => .ok (renameFields m doc)
  | .renameGated gate m, doc => .ok (renameFieldsGated gate m doc)
  | .kwToField g, doc =>
    if doc.dets.all (fun d => kwExpressible d.2) then .ok (keywordToField g doc)
    else .error (.notExpressible "keyword list with non-string values")
  | .kwToFields gs, doc =>
    if doc.dets.all (fun d => kwExpressible d.2) then .ok (keywordToFields gs doc)
    else .error (.notExpressible "keyword list with non-string values")
  | .drop sc, doc => dropItems sc doc
  | .addCond n items neg, doc => .ok (addCondition n items neg doc)
  | .value vt sc, doc =>
    if doc.dets.all (fun d => valueExpressible vt sc d.2) then .ok (valueTransform vt sc doc)
    else .error (.notExpressible "value transformation below a value modifier")
  | .fieldsList g, doc => .ok { doc with fields := (g doc).fields }
  | .hashes cfg gate, doc =>
    if !doc.dets.all (fun d => hashCheck cfg gate hashItemExpressible d.2) then
      .error (.notExpressible "hash entries below a value modifier or with escapes")
    else if !doc.dets.all (fun d => hashCheck cfg gate hashItemValid d.2) then .error .noValidHash
    else .ok (hashesFields cfg gate doc)
  | .nest ts, doc => Tr.applyL ts doc
def Tr.applyL : List Tr → Doc → Except RwErr Doc
  | [], doc => .ok doc
  | t :: ts, doc =>
    match t.apply doc with
    | .ok d => Tr.applyL ts d
    | .error e => .error e
end

/-! ## substitution of atoms (how the theorems of `Props/C12.lean` speak about renamed fields) -/

mutual
def mapAtoms (h : Atom → Atom) : BE → BE
  | .atom a => .atom (h a)
  | .not e => .not (mapAtoms h e)
  | .and es => .and (mapAtomsL h es)
  | .or es => .or (mapAtomsL h es)
def mapAtomsL (h : Atom → Atom) : List BE → List BE
  | [] => []
  | e :: es => mapAtoms h e :: mapAtomsL h es
end

def atomField : Atom → Option Str
  | .str f .. => f | .num f _ => f | .bool f _ => f | .null f => f | .exists_ f => f | .re f .. => f
  | .cidr f _ => f | .cmp f .. => f | .ref f .. => f | .ts f .. => f | .qx f .. => f

/-- the same test on field `g`; the field a field reference compares with goes through `r` -/
def shiftAtom (g : Option Str) (r : Str → Str) : Atom → Atom
  | .str _ c p => .str g c p
  | .num _ n => .num g n
  | .bool _ b => .bool g b
  | .null _ => .null g
  | .exists_ _ => .exists_ g
  | .re _ s a b d => .re g s a b d
  | .cidr _ t => .cidr g t
  | .cmp _ o n => .cmp g o n
  | .ref _ x sw ew => .ref g (r x) sw ew
  | .ts _ u n => .ts g u n
  | .qx _ e i => .qx g e i

/-- the atom after a one-to-one renaming of fields: the field tested and the field referenced -/
def renameAtom (r : Str → Str) (a : Atom) : Atom := shiftAtom ((atomField a).map r) r a

/-! ## coverage of the registered transformation identifiers (obligation in `Oblig/C12.lean`) -/

/-- identifiers (`sigma.processing.transformations.transformations`) with a Lean rewrite above -/
def covered : List String :=
  ["field_name_mapping", "field_name_prefix_mapping", "field_name_suffix", "field_name_prefix",
   "drop_detection_item", "add_condition", "replace_string", "map_string", "case", "set_value",
   "convert_type", "nest", "add_field", "remove_field", "set_field", "hashes_fields"]

/-- placeholder expansion is part of the rule semantics itself (`Ctx.phItems`, `Rule.strBE`): C17 -/
def coveredBySemantics : List String :=
  ["wildcard_placeholders", "value_placeholders", "query_expression_placeholders"]

/-- identifiers without a Lean rewrite: not query-relevant (rule metadata, state, failures), needing
external data, a Python callable, or not specified at source level -/
def notCovered : List String :=
  ["field_name_transform", "extract_fields", "file_placeholders", "http_placeholders",
   "command_placeholders", "change_logsource", "set_state",
   "regex", "rule_failure", "detection_item_failure", "strict_field_mapping_failure",
   "set_custom_attribute"]

/-- the parameters of the covered transformations the description sent to the driver knows about:
modelled ones, and (after `--`) ones that exist but are not varied by the sweep -/
def knownParams : List (String × List String) :=
  [("field_name_mapping", ["mapping"]), ("field_name_prefix_mapping", ["mapping"]), ("field_name_suffix", ["suffix"]),
   ("field_name_prefix", ["prefix"]), ("drop_detection_item", []), ("add_condition", ["conditions", "name", "template", "negated"]),
   ("replace_string", ["regex", "replacement", /- -- -/ "skip_special", "interpret_special"]), ("map_string", ["mapping"]),
   ("case", ["method"]), ("set_value", ["value", /- -- -/ "force_type"]), ("convert_type", ["target_type"]), ("nest", ["items"]),
   ("add_field", ["field"]), ("remove_field", ["field"]), ("set_field", ["fields"]),
   ("hashes_fields", ["valid_hash_algos", "field_prefix", "drop_algo_prefix", "field_to_parse"]),
   ("wildcard_placeholders", ["include", "exclude"]), ("value_placeholders", ["include", "exclude"]),
   ("query_expression_placeholders", ["include", "exclude", "expression", "mapping"])]

/-- every parameter of every covered transformation is a known one -/
def paramsKnown (table : List (String × List String)) : Bool :=
  table.all (fun row =>
    !(covered.contains row.1 || coveredBySemantics.contains row.1) ||
    (match knownParams.lookup row.1 with
     | some ps => row.2.all ps.contains
     | none => false))

def classified (ids : List String) : Bool := ids.all (fun i => covered.contains i || coveredBySemantics.contains i || notCovered.contains i)

end SigmaVerif.Rewrite
