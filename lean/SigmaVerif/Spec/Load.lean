import SigmaVerif.Model.Load
/-!
# C07 — declarative specification of a well-formed rule document

No exceptions, no control flow: a rule document is well formed when it is a map whose attributes have
the right shapes.  `Props/C07.lean` (`rule_loads_iff`) proves that the exception-based loader model
accepts exactly these documents, for every YAML value.  Shares with the model only the value type, the
lexical helpers (`uuidOk`, `dateMatch`, `validDate`, `splitOn`, `upperS`, `floatClass`) and the name tables.
-/
namespace SigmaVerif.LoadSpec
open SigmaVerif.Load

/-- absent (or null), or a valid UUID string -/
def idOk : Y → Bool | .null => true | .str s => uuidOk s | _ => false
/-- absent, or a non-empty string -/
def nameOk : Y → Bool | .null => true | .str s => !s.isEmpty | _ => false
/-- absent (default `sigma`), explicitly null, or a non-empty string -/
def taxonomyOk : Option Y → Bool
  | none => true | some .null => true | some (.str s) => !s.isEmpty | some _ => false

/-- a map with a UUID string `id` and a `type` naming a relation type (any letter case) -/
def relatedItemOk : Y → Bool
  | .map m =>
    (match lookup m (S "id"), lookup m (S "type") with
     | some (.str i), some (.str t) => uuidOk i && relatedTypes.contains (upperS t)
     | _, _ => false)
  | _ => false
def relatedOk : Y → Bool | .null => true | .list l => l.all relatedItemOk | _ => false

/-- absent, or the name of a member (any letter case) -/
def enumOk (names : List Str) : Y → Bool | .null => true | .str s => names.contains (upperS s) | _ => false

/-- a tag is a string with a namespace: it contains a dot -/
def tagOk : Y → Bool | .str s => s.contains '.' | _ => false
def tagsOk : Option Y → Bool
  | none => true | some .null => true | some (.list l) => l.all tagOk | some _ => false

/-- absent, or a value whose text is a calendar date `yyyy-mm-dd` or `yyyy/m/d` (years 1000–3999) -/
def dateOk (v : Y) : Bool :=
  v.isNone ||
  match dateMatch (pyStr v) with
  | some (y, m, d) => validDate y m d
  | none => false

def optList (v : Y) : Bool := v.isNone || v.isList
def optStr (v : Y) : Bool := v.isNone || v.isStr
/-- mandatory, a string of at most 256 characters -/
def titleOk : Y → Bool | .str s => s.length ≤ 256 | _ => false

/-- the attributes every rule, correlation rule and filter shares -/
def commonOk (m : Dict) : Bool :=
  idOk (dget m (S "id")) && nameOk (dget m (S "name")) && taxonomyOk (lookup m (S "taxonomy")) &&
  relatedOk (dget m (S "related")) && enumOk levels (dget m (S "level")) && enumOk statuses (dget m (S "status")) &&
  tagsOk (lookup m (S "tags")) && dateOk (dget m (S "date")) && dateOk (dget m (S "modified")) &&
  optList (dget m (S "fields")) && optList (dget m (S "falsepositives")) && optStr (dget m (S "author")) &&
  optStr (dget m (S "description")) && optList (dget m (S "references")) && titleOk (dget m (S "title")) &&
  optList (dget m (S "scope")) && optStr (dget m (S "license"))

/-- falsy (absent, null, `""`, `0`, `[]`, …) or a string -/
def lsAttrOk (v : Y) : Bool := !v.truthy || v.isStr

/-- a map naming at least one of category / product / service, the four attributes falsy or strings -/
def logsourceOk : Option Y → Bool
  | some (.map ls) =>
    let c := dget ls (S "category"); let p := dget ls (S "product"); let s := dget ls (S "service")
    !(c.isNone && p.isNone && s.isNone) && lsAttrOk c && lsAttrOk p && lsAttrOk s && lsAttrOk (dget ls (S "definition"))
  | _ => false

/-- a plain value Sigma has a type for: not a list or map, not a non-finite number -/
def plainOk : Y → Bool
  | .list _ => false | .map _ => false
  | .float r => floatClass r == .zero || floatClass r == .finite
  | _ => true

/-- the modifier identifiers of a key: none for the null key, `f|m1|m2` ↦ `[m1, m2]` -/
def keyModifiers : Y → Option (List Str)
  | .null => some [] | .str k => some (splitOn '|' k).tail | _ => none

/-- modelled modifiers: a single string modifier needs string values (other chains are abstracted) -/
def modifiersAccept (mods : List Str) (vals : List Y) : Bool :=
  match mods with
  | [m] => !stringModifiers.contains m || allStr vals
  | _ => true

def valuesOf : Y → List Y | .list l => l | v => [v]

/-- a detection item `key: value` -/
def itemOk (key val : Y) : Bool :=
  match keyModifiers key with
  | none => false
  | some mods => mods.all knownModifiers.contains && (valuesOf val).all plainOk && modifiersAccept mods (valuesOf val)

def itemsOk : Dict → Bool
  | [] => true
  | (k, v) :: rest => itemOk k v && itemsOk rest

mutual
/-- a detection: a non-empty map of items, a plain value, a list of plain values, or a list of detections -/
def defOk : Y → Bool
  | .map m => itemsOk m && !m.isEmpty
  | .list l => if l.all Y.isScalar then itemOk .null (.list l) else defsOk l
  | v => itemOk .null v
def defsOk : List Y → Bool
  | [] => true
  | x :: xs => defOk x && defsOk xs
end

/-- the entries of a section that are detections (everything but the reserved keys) -/
def named (skip : List Str) (m : Dict) : Dict := m.filter (fun p => !skip.any (keyIs p.1 ·))

def namedOk (skip : List Str) : Dict → Bool
  | [] => true
  | (k, v) :: rest => (skip.any (keyIs k ·) || defOk v) && namedOk skip rest

/-- a map with a `condition` (not the empty list) and at least one detection, all detections well formed -/
def detectionOk : Option Y → Bool
  | some (.map d) =>
    (match lookup d (S "condition") with
     | none => false
     | some c => namedOk [S "condition"] d && !(named [S "condition"] d).isEmpty && !isEmptyList c)
  | _ => false

/-- a well-formed rule document -/
def wellFormedRule : Y → Bool
  | .map m => commonOk m && logsourceOk (lookup m (S "logsource")) && detectionOk (lookup m (S "detection"))
  | _ => false

end SigmaVerif.LoadSpec
