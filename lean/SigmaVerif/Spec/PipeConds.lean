import SigmaVerif.Model.SStr
import SigmaVerif.Model.Gate
/-!
# Specification: the documented meaning of every built-in processing condition

Written from `docs/guides/processing_pipelines.rst` (section *Conditions*) and the class docstrings
of `sigma/processing/conditions/{base,rule,values,fields,state}.py` (which are the reference
documentation, `docs/reference/conditions.rst` is `automodule`).  No Mathlib.

* `World` — the rule as the conditions of a processing item see it *at the moment the item runs*:
  log source, flattened detection items (field, values, ids of the processing items applied to the
  item), the rule's `fields` list, ids applied to the rule, pipeline state, the tracking of
  processing items per field name, rule attributes, tags, rule kind.
* `RuleCond.eval`, `DetCond.eval`, `FieldCond.onName`, `FieldCond.onItem` — one clause per registered
  condition identifier (the obligation `Oblig.C13.gen_every_condition_kind_classified` breaks when
  the registry of the code gains an identifier that is neither modelled here nor in `notModelled`).
* `Group.holds` — linking / negation / expression, "no conditions ⇒ always".
* `PItem.step` — the documented effect of the pre-items `set_state`, `field_name_mapping` (1:1
  mappings; also on field references and the `fields` list), `field_name_suffix`,
  `change_logsource`, `drop_detection_item` on the `World`, so that a request only carries the
  ORIGINAL rule and the pipeline description.

Parameters (not decided in Lean): `m : Str → Str → Bool`, "the regular expression `pattern` matches
at the start of `subject`" (Python `re.match`), supplied per request as a table computed by Python's
`re`; everything else is computed here.

Deliberate choices where documentation and code differ or the documentation is silent are marked
`DOC≠CODE` / `DOC-SILENT` below and listed in the module docstring of `harness/c13.py`:
`rule_attribute` on integers (D70) and with `in`/`not_in` on scalars (D71); items with an unmapped
field reference recorded as processed (D72); `track_field_processing_items` forgetting the source
name; the guide's "supports wildcards" for `include_fields`; `processing_item_applied` as a
field-name condition on a detection item; `negate` on non-string values; a rule attribute that does
not exist; ordering a string against a number in `processing_state`.
-/
namespace SigmaVerif.PipeConds
open SigmaVerif.SStr (SStr Part)
open SigmaVerif.Gate (BX Link)

abbrev Str := List Char

/-! ## Scalars: condition parameters and pipeline state values -/

/-- exact decimal number `m / 10^e` (ints and the floats that occur in YAML documents) -/
structure Num where
  m : Int
  e : Nat
deriving Repr, DecidableEq

def Num.le (a b : Num) : Bool := decide (a.m * 10 ^ b.e ≤ b.m * 10 ^ a.e)
def Num.eqv (a b : Num) : Bool := decide (a.m * 10 ^ b.e = b.m * 10 ^ a.e)
def Num.ofInt (i : Int) : Num := ⟨i, 0⟩

/-- a plain parameter / state value: string, number or boolean -/
inductive Scalar
  | str (s : Str)
  | num (q : Num)
  | bool (b : Bool)
deriving Repr, DecidableEq

/-- numbers and booleans are numeric (Python: `bool` is an `int`); strings are not -/
def Scalar.asNum? : Scalar → Option Num
  | .num q => some q
  | .bool b => some (Num.ofInt (if b then 1 else 0))
  | .str _ => none

/-- code point order on strings (Python `str.__le__`) -/
def strLe : Str → Str → Bool
  | [], _ => true
  | _ :: _, [] => false
  | a :: x, b :: y => if a.toNat < b.toNat then true else if a.toNat = b.toNat then strLe x y else false

/-- equality of two scalars: equal strings, or numerically equal numbers; a string never equals a number -/
def Scalar.eqv (a b : Scalar) : Bool :=
  match a, b with
  | .str x, .str y => x == y
  | _, _ => match a.asNum?, b.asNum? with
    | some p, some q => p.eqv q
    | _, _ => false

/-- `a ≤ b` where it is defined: two strings or two numeric values.  `none`: a string against a
number (the code raises `TypeError` there; nothing is documented) -/
def Scalar.le? (a b : Scalar) : Option Bool :=
  match a, b with
  | .str x, .str y => some (strLe x y)
  | _, _ => match a.asNum?, b.asNum? with
    | some p, some q => some (p.le q)
    | _, _ => none

/-- the six relations of `processing_state` and `rule_attribute` -/
inductive Op
  | eq | ne | gte | gt | lte | lt
deriving Repr, DecidableEq

/-- `stateValue op parameter` -/
def Op.eval? (op : Op) (a b : Scalar) : Option Bool :=
  match op with
  | .eq => some (a.eqv b)
  | .ne => some (!a.eqv b)
  | .lte => a.le? b
  | .gte => b.le? a
  | .lt => (b.le? a).map (!·)
  | .gt => (a.le? b).map (!·)

/-- relation on two positions of an ordered enumeration (levels, statuses) or date ordinals -/
def Op.onNat (op : Op) (a b : Nat) : Bool :=
  match op with
  | .eq => a == b
  | .ne => a != b
  | .gte => decide (b ≤ a)
  | .gt => decide (b < a)
  | .lte => decide (a ≤ b)
  | .lt => decide (a < b)

/-! ## The rule as the conditions see it -/

/-- a detection item value -/
inductive Val
  | str (s : SStr)       -- string (with wildcards), `SigmaString`
  | num (q : Num)
  | bool (b : Bool)
  | null
  | ref (field : Str)    -- reference to another field (`|fieldref`)
  | other                -- regular expression, CIDR, … : no value condition recognises it
deriving Repr, DecidableEq

structure DetItem where
  det : Str                -- name of the detection the item belongs to (diagnostics only)
  field : Option Str       -- `none` = keyword item
  values : List Val
  applied : List Str       -- ids of the processing items applied to this detection item
deriving Repr, DecidableEq

/-- the fields referenced in the values of an item -/
def DetItem.refs (it : DetItem) : List Str :=
  it.values.filterMap fun v => match v with | .ref f => some f | _ => none

structure LogSource where
  category : Option Str
  product : Option Str
  service : Option Str
deriving Repr, DecidableEq

inductive RuleKind
  | sigma | correlation
deriving Repr, DecidableEq

/-- typed value of a rule attribute as `rule_attribute` distinguishes them -/
inductive AttrVal
  | str (s : Str)              -- strings and UUIDs (by their text)
  | num (q : Num)
  | date (y m d : Nat)
  | level (i : Nat)            -- position in `levelNames`
  | status (i : Nat)           -- position in `statusNames`
  | list (xs : List Str)       -- list of strings (references, tags by their text, …)
  | unsupported                -- maps, objects, unset (None) attributes
deriving Repr, DecidableEq

structure World where
  kind : RuleKind
  logsource : LogSource
  refSources : List LogSource           -- correlation rule: log sources of the rules it refers to
  items : List DetItem                  -- all detection items, detections in document order, nested ones flattened
  fields : List Str                     -- the rule's `fields` list
  applied : List Str                    -- ids of the processing items applied to the rule so far
  state : List (Str × Scalar)           -- pipeline state, latest binding first
  nameApplied : List (Str × List Str)   -- field name ↦ ids of items that produced it (fields list, field references)
  attrs : List (Str × AttrVal)          -- rule attributes (built-in and custom) by name
  tags : List Str                       -- "namespace.name"
deriving Repr, DecidableEq

def lookup {α : Type} (k : Str) : List (Str × α) → Option α
  | [] => none
  | (k', v) :: r => if k' == k then some v else lookup k r

/-! ## Rule conditions -/

/-- `logsource`: "Not specified log source fields are ignored" -/
def LogSource.admits (c r : LogSource) : Bool :=
  (c.category.isNone || c.category == r.category) &&
  (c.product.isNone || c.product == r.product) &&
  (c.service.isNone || c.service == r.service)

/-- a detection item value equals a plain parameter: same kind and equal ("a detection item that
matches the given field name and value", "Exact match of a value with an arbitrary Sigma type");
a string parameter is read as a Sigma string (wildcards, escapes) -/
def Val.eqParam (v : Val) (p : Scalar) : Bool :=
  match v, p with
  | .str s, .str t => s == SStr.parse t
  | .num q, .num r => q.eqv r
  | .bool b, .bool c => b == c
  | _, _ => false

structure StateCond where
  key : Str
  val : Scalar
  op : Op
deriving Repr, DecidableEq

/-- `processing_state`: "Matches on processing pipeline state" — a key that was never set matches
under no relation.  DOC-SILENT: ordering a string against a number is undefined (`wellTyped` false);
the value here is then `false`, the code raises `TypeError`. -/
def StateCond.eval (st : List (Str × Scalar)) (c : StateCond) : Bool :=
  match lookup c.key st with
  | none => false
  | some v => (c.op.eval? v c.val).getD false

def StateCond.wellTyped (st : List (Str × Scalar)) (c : StateCond) : Bool :=
  match lookup c.key st with
  | none => true
  | some v => (c.op.eval? v c.val).isSome

inductive AttrOp
  | cmp (o : Op)
  | isIn
  | notIn
deriving Repr, DecidableEq

def asciiLower (c : Char) : Char := if 'A' ≤ c ∧ c ≤ 'Z' then Char.ofNat (c.toNat + 32) else c

/-- severity levels, lowest first -/
def levelNames : List Str :=
  ["informational".toList, "low".toList, "medium".toList, "high".toList, "critical".toList]
/-- rule statuses, lowest first -/
def statusNames : List Str :=
  ["unsupported".toList, "deprecated".toList, "experimental".toList, "test".toList, "stable".toList]

/-- position of a (case-insensitively written) name in an ordered enumeration -/
def enumIdx? (names : List Str) (s : Str) : Option Nat := names.idxOf? (s.map asciiLower)

def digit? (c : Char) : Option Nat := if '0' ≤ c ∧ c ≤ '9' then some (c.toNat - 48) else none

def natOfDigits? : Str → Option Nat
  | [] => none
  | s => s.foldl (fun acc c => match acc, digit? c with | some a, some d => some (a * 10 + d) | _, _ => none) (some 0)

/-- the numeric reading of a parameter for a numeric attribute: a number, a boolean, or a string
`[+-]?digits` (ASSUMPTION of the harness: other spellings Python's `float()` accepts are not generated) -/
def paramNum? : Scalar → Option Num
  | .num q => some q
  | .bool b => some (Num.ofInt (if b then 1 else 0))
  | .str ('-' :: s) => (natOfDigits? s).map fun n => Num.ofInt (-(n : Int))
  | .str ('+' :: s) => (natOfDigits? s).map fun n => Num.ofInt n
  | .str s => (natOfDigits? s).map fun n => Num.ofInt n

def isLeap (y : Nat) : Bool := (y % 4 == 0 && y % 100 != 0) || y % 400 == 0
def daysIn (y m : Nat) : Nat :=
  if m == 2 then (if isLeap y then 29 else 28) else if m == 4 || m == 6 || m == 9 || m == 11 then 30 else 31

/-- `YYYY-MM-DD` (ASSUMPTION of the harness: the other ISO spellings are not generated) -/
def parseIsoDate? (s : Str) : Option (Nat × Nat × Nat) :=
  match s with
  | [y1, y2, y3, y4, '-', m1, m2, '-', d1, d2] =>
    match natOfDigits? [y1, y2, y3, y4], natOfDigits? [m1, m2], natOfDigits? [d1, d2] with
    | some y, some m, some d =>
      if 1 ≤ y ∧ 1 ≤ m ∧ m ≤ 12 ∧ 1 ≤ d ∧ d ≤ daysIn y m then some (y, m, d) else none
    | _, _, _ => none
  | _ => none

/-- order-preserving number of a date -/
def dateOrd (y m d : Nat) : Nat := (y * 16 + m) * 32 + d

/-- `rule_attribute` on an attribute of known type.  `none` = the condition raises
`SigmaConfigurationError` ("If the type of the value doesn't allows a particular relation, the
condition also raises a SigmaConfigurationError on match").
DOC≠CODE (1): for numbers, dates, levels and statuses the operations `in`/`not_in` are such a
relation; the code raises `KeyError` instead.  DOC≠CODE (2): for an attribute holding an `int` the
code answers `True` under every relation (`int.__eq__(float)` is `NotImplemented`, which is truthy). -/
def attrEval (a : AttrVal) (v : Scalar) (op : AttrOp) : Option Bool :=
  match a with
  | .list xs =>
    match op with
    | .isIn => some (match v with | .str s => xs.contains s | _ => false)
    | .notIn => some (!(match v with | .str s => xs.contains s | _ => false))
    | .cmp .ne => some true
    | .cmp _ => some false
  | .str s =>
    match op with
    | .cmp .eq => some (v == .str s)
    | .cmp .ne => some (v != .str s)
    | _ => none
  | .num q =>
    match op, paramNum? v with
    | .cmp o, some p => o.eval? (.num q) (.num p)
    | _, _ => none
  | .date y m d =>
    match op, v with
    | .cmp o, .str s => (parseIsoDate? s).map fun (y', m', d') => o.onNat (dateOrd y m d) (dateOrd y' m' d')
    | _, _ => none
  | .level i =>
    match op, v with
    | .cmp o, .str s => (enumIdx? levelNames s).map fun j => o.onNat i j
    | _, _ => none
  | .status i =>
    match op, v with
    | .cmp o, .str s => (enumIdx? statusNames s).map fun j => o.onNat i j
    | _, _ => none
  | .unsupported => none

inductive RuleCond
  | logsource (c : LogSource)
  | containsField (field : Str)
  | containsDetItem (field : Str) (value : Scalar)
  | itemApplied (id : Str)
  | state (c : StateCond)
  | isSigmaRule
  | isCorrelation
  | attr (name : Str) (value : Scalar) (op : AttrOp)
  | tag (t : Str)
deriving Repr, DecidableEq

/-- `rule_attribute`: an attribute the rule does not have matches nothing -/
def ruleAttr? (w : World) (name : Str) (v : Scalar) (op : AttrOp) : Option Bool :=
  match lookup name w.attrs with
  | none => some false
  | some a => attrEval a v op

def RuleCond.eval (w : World) : RuleCond → Bool
  | .logsource c =>
    match w.kind with
    | .sigma => c.admits w.logsource
    | .correlation => w.refSources.any c.admits       -- "any of the associated rules"
  | .containsField f => w.items.any fun it => it.field == some f
  | .containsDetItem f v => w.items.any fun it => it.field == some f && it.values.any (·.eqParam v)
  | .itemApplied id => w.applied.contains id          -- "was applied to rule": the RULE's set
  | .state c => c.eval w.state
  | .isSigmaRule => w.kind == .sigma
  | .isCorrelation => w.kind == .correlation
  | .attr n v op => (ruleAttr? w n v op).getD false
  | .tag t => w.tags.contains t

/-- the condition raises `SigmaConfigurationError` when evaluated -/
def RuleCond.raises (w : World) : RuleCond → Bool
  | .attr n v op => (ruleAttr? w n v op).isNone
  | _ => false

/-! ## Detection-item conditions -/

inductive DetCond
  | matchString (all : Bool) (pattern : Str) (negate : Bool)
  | matchValue (all : Bool) (value : Scalar)
  | containsWildcard (all : Bool)
  | isNull (all : Bool)
  | itemApplied (id : Str)
  | state (c : StateCond)
deriving Repr, DecidableEq

/-- "The 'cond' parameter determines if any or all values … must match" -/
def quantify (all : Bool) (vs : List Val) (p : Val → Bool) : Bool := if all then vs.all p else vs.any p

/-- `match_string` on one value: only strings can match; the text matched is the plain form of the
value; `negate` flips the outcome of EACH value (before any/all).
DOC-SILENT: `negate` is not described; "values which aren't strings are skipped in any mode or result
in a false result in all match mode" is written for the un-negated condition.  The code's reading is
specified: a non-string value does not match, hence DOES count under `negate`. -/
def matchStringVal (m : Str → Str → Bool) (pattern : Str) (negate : Bool) (v : Val) : Bool :=
  (match v with | .str s => m pattern (SStr.toPlain s) | _ => false) != negate

/-- "the value contains a wildcard character", read off the TEXT of a string value as it is written
in the rule, without the parsed representation: an asterisk or question mark that is not escaped; a
backslash escapes `*`, `?` and itself (Sigma specification, "Escaping") and is a plain character
anywhere else.  `Props.C13.contains_wildcard_iff_unescaped` proves that `contains_wildcard` below
(through `SStr.parse` / `containsSpecial`) answers exactly this. -/
def unescapedWildcard : Str → Bool
  | [] => false
  | [c] => c == '*' || c == '?'
  | c :: d :: r =>
    if c == '\\' then
      if d == '*' || d == '?' || d == '\\' then unescapedWildcard r else unescapedWildcard (d :: r)
    else c == '*' || c == '?' || unescapedWildcard (d :: r)
termination_by s => s.length

def DetCond.eval (m : Str → Str → Bool) (w : World) (it : DetItem) : DetCond → Bool
  | .matchString all p neg => quantify all it.values (matchStringVal m p neg)
  | .matchValue all v => quantify all it.values (·.eqParam v)
  | .containsWildcard all => quantify all it.values fun v => match v with | .str s => SStr.containsSpecial s | _ => false
  | .isNull all => quantify all it.values (· == .null)
  | .itemApplied id => it.applied.contains id
  | .state c => c.eval w.state

/-! ## Field-name conditions -/

inductive FieldCond
  | incl (fields : List Str) (re : Bool)
  | excl (fields : List Str) (re : Bool)
  | state (c : StateCond)
  | itemApplied (id : Str)
deriving Repr, DecidableEq

/-- `include_fields` on a name: "Matches on field name if it is contained in fields list. The
parameter 'mode' determines if field names are matched as plain string or regular expressions".
(DOC≠CODE: the guide's table says "supports wildcards"; neither mode has wildcards.) -/
def included (m : Str → Str → Bool) (fields : List Str) (re : Bool) : Option Str → Bool
  | none => false
  | some n => if re then fields.any (fun p => m p n) else fields.contains n

/-- a field-name condition evaluated ON A FIELD NAME -/
def FieldCond.onName (m : Str → Str → Bool) (w : World) (name : Option Str) : FieldCond → Bool
  | .incl fs re => included m fs re name
  | .excl fs re => !included m fs re name           -- "if it is not contained in fields list"
  | .state c => c.eval w.state
  | .itemApplied id =>                                -- "was applied to a field name"
    match name with
    | none => false
    | some n => ((lookup n w.nameApplied).getD []).contains id

/-- a field-name condition evaluated ON A DETECTION ITEM: "Field names can be contained in the
detection item field as well as in field references in detection item values. The detection item
matching returns True for both cases".
DOC-SILENT: for `processing_item_applied` the documentation does not say how "applied to a field name"
reads on a detection item; the general rule would ask the name tracking for the item's field or a
referenced field, the code asks the detection item's own set.  The code's reading is specified here
(`Props.C13.field_applied_on_item_differs_from_general_rule` records a witness where they differ). -/
def FieldCond.onItem (m : Str → Str → Bool) (w : World) (it : DetItem) (c : FieldCond) : Bool :=
  match c with
  | .itemApplied id => it.applied.contains id
  | c => c.onName m w it.field || it.refs.any fun r => c.onName m w (some r)

/-! ## Groups: linking, negation, expressions -/

structure Group (α : Type) where
  conds : List α
  link : Link
  neg : Bool
deriving Repr

/-- "By default, multiple conditions are combined with AND (all must match). Use `…_cond_op: or` to use
OR logic. Use `…_cond_not: true` to negate the result"; a condition expression over the identifiers
of the conditions; an item without conditions always applies. -/
def Group.holds {α : Type} (g : Group α) (leaf : α → Bool) : Bool :=
  g.conds.isEmpty ||
  ((match g.link with
    | .all => g.conds.all leaf
    | .any => g.conds.any leaf
    | .expr e => e.eval fun i => match g.conds[i]? with | some c => leaf c | none => false) != g.neg)

/-! ## Processing items and their documented effect -/

inductive Action
  | setState (key : Str) (val : Scalar)         -- "Set pipeline state key to value."
  | mapFields (mapping : List (Str × Str))      -- "Map a field name to one or multiple different." (1:1 only)
  | suffix (s : Str)                            -- "Add field name suffix."
  | changeLogsource (l : LogSource)             -- "Replace log source as defined in transformation parameters."
  | dropItem                                    -- "Deletes detection items."
deriving Repr, DecidableEq

structure PItem where
  id : Option Str
  rule : Group RuleCond
  det : Group DetCond
  field : Group FieldCond
  action : Action
deriving Repr

/-- new name of a field under a field-name transformation -/
def Action.target (a : Action) (f : Str) : Option Str :=
  match a with
  | .mapFields mp => lookup f mp
  | .suffix s => some (f ++ s)
  | _ => none

def PItem.ruleHolds (p : PItem) (w : World) : Bool := p.rule.holds (RuleCond.eval w)
def PItem.ruleRaises (p : PItem) (w : World) : Bool := p.rule.conds.any (RuleCond.raises w)
def PItem.detHolds (p : PItem) (m : Str → Str → Bool) (w : World) (it : DetItem) : Bool :=
  p.det.holds (DetCond.eval m w it)
def PItem.fieldHoldsOnItem (p : PItem) (m : Str → Str → Bool) (w : World) (it : DetItem) : Bool :=
  p.field.holds (FieldCond.onItem m w it)
def PItem.fieldHoldsOnName (p : PItem) (m : Str → Str → Bool) (w : World) (n : Option Str) : Bool :=
  p.field.holds (FieldCond.onName m w n)

/-- the item's transformation is applied to detection item `it` (detection-item transformations:
`drop_detection_item`, value transformations; and the gate of field-name transformations) -/
def PItem.actsOnItem (p : PItem) (m : Str → Str → Bool) (w : World) (it : DetItem) : Bool :=
  p.ruleHolds w && p.detHolds m w it && p.fieldHoldsOnItem m w it

/-- a field-name transformation renames the field name `f` (where the name occurs in an item it acts
on, or in the `fields` list) -/
def PItem.maps (p : PItem) (m : Str → Str → Bool) (w : World) (f : Str) : Bool :=
  p.fieldHoldsOnName m w (some f) && (p.action.target f).isSome

def PItem.rename (p : PItem) (m : Str → Str → Bool) (w : World) (f : Str) : Str :=
  if p.maps m w f then (p.action.target f).getD f else f

/-- the field of `it` has a new name under the transformation and the field-name conditions hold on it -/
def PItem.mapsFieldOf (p : PItem) (m : Str → Str → Bool) (w : World) (it : DetItem) : Bool :=
  match it.field with
  | some f => p.maps m w f
  | none => false

/-- the field or a field reference of `it` is mapped -/
def PItem.touches (p : PItem) (m : Str → Str → Bool) (w : World) (it : DetItem) : Bool :=
  p.mapsFieldOf m w it || it.refs.any (p.maps m w)

/-- a field-name transformation renames the FIELD of detection item `it` -/
def PItem.renamesFieldOf (p : PItem) (m : Str → Str → Bool) (w : World) (it : DetItem) : Bool :=
  p.actsOnItem m w it && p.mapsFieldOf m w it

/-- what the probe of the harness observes on item `it` -/
def PItem.probeActs (p : PItem) (m : Str → Str → Bool) (w : World) (it : DetItem) : Bool :=
  match p.action with
  | .dropItem => p.actsOnItem m w it
  | .mapFields _ => p.renamesFieldOf m w it
  | .suffix _ => p.renamesFieldOf m w it
  | _ => false

def mark (id : Option Str) (xs : List Str) : List Str :=
  match id with
  | some i => if xs.contains i then xs else xs ++ [i]
  | none => xs

def setKey {α : Type} (k : Str) (v : α) : List (Str × α) → List (Str × α)
  | [] => [(k, v)]
  | (k', v') :: r => if k' == k then (k, v) :: r else (k', v') :: setKey k v r

/-- `track_field_processing_items`: "adds the processing_item_id to the set of applied processing items
from src_field and assigns a copy of this set as tracking set to all fields in dest_field"; "Only add
if source field was mapped to something different".  (DOC≠CODE: the code also forgets `src`.) -/
def trackMove (id : Option Str) (tr : List (Str × List Str)) (src dst : Str) : List (Str × List Str) :=
  if src == dst then tr else
    let s := mark id ((lookup src tr).getD [])
    setKey dst s (setKey src s tr)

/-- the detection item after a field-name transformation.  All conditions are evaluated on the
world `w` as it was when the item started ("the items applied so far").
DOC≠CODE: the code records the item as processed as soon as a field reference in it satisfied the
field-name conditions, even when the transformation has no new name for it; here an item counts as
processed when its field or a referenced field was actually mapped. -/
def PItem.mapItem (p : PItem) (m : Str → Str → Bool) (w : World) (it : DetItem) : DetItem :=
  if p.detHolds m w it && p.fieldHoldsOnItem m w it then
    { it with
      field := it.field.map (p.rename m w)
      values := it.values.map fun v => match v with | .ref f => .ref (p.rename m w f) | v => v
      applied := if p.touches m w it then mark p.id it.applied else it.applied }
  else it

/-- names whose tracking moves: mapped names of the `fields` list, then mapped references of the
items the transformation acts on -/
def PItem.movedNames (p : PItem) (m : Str → Str → Bool) (w : World) : List Str :=
  (w.fields.filter (p.maps m w)) ++
  (w.items.filter fun it => p.detHolds m w it && p.fieldHoldsOnItem m w it).flatMap
    fun it => it.refs.filter (p.maps m w)

/-- the world after the item (its rule conditions hold) -/
def PItem.act (p : PItem) (m : Str → Str → Bool) (w : World) : World :=
  let w' := { w with applied := mark p.id w.applied }
  match p.action with
  | .setState k v => { w' with state := (k, v) :: w.state }
  | .changeLogsource l => match w.kind with
    | .sigma => { w' with logsource := l }
    | .correlation => w'
  | .dropItem => { w' with items := w.items.filter fun it => !(p.detHolds m w it && p.fieldHoldsOnItem m w it) }
  | _ =>
    { w' with
      items := w.items.map (p.mapItem m w)
      fields := w.fields.map (p.rename m w)
      nameApplied := (p.movedNames m w).foldl (fun tr f => trackMove p.id tr f (p.rename m w f)) w.nameApplied }

/-- one item of the pipeline: acts iff its rule conditions hold -/
def PItem.step (p : PItem) (m : Str → Str → Bool) (w : World) : World :=
  if p.ruleHolds w then p.act m w else w

/-- the world after a list of items -/
def runPipe (m : Str → Str → Bool) : List PItem → World → World
  | [], w => w
  | p :: rest, w => runPipe m rest (p.step m w)

/-- which items of the pipeline were applied to the rule -/
def runFlags (m : Str → Str → Bool) : List PItem → World → List Bool
  | [], _ => []
  | p :: rest, w => p.ruleHolds w :: runFlags m rest (p.step m w)

/-- some item raises a configuration error when its rule conditions are evaluated -/
def runRaises (m : Str → Str → Bool) : List PItem → World → Bool
  | [], _ => false
  | p :: rest, w => p.ruleRaises w || runRaises m rest (p.step m w)

/-! ## Classification of the registered condition identifiers -/

/-- identifiers of `sigma.processing.conditions.rule_conditions` with a clause in `RuleCond.eval`,
with the parameter names of the class -/
def ruleKinds : List (String × List String) :=
  [("logsource", ["category", "product", "service"]),
   ("contains_detection_item", ["field", "value"]),
   ("contains_field", ["field"]),
   ("processing_item_applied", ["processing_item_id"]),
   ("processing_state", ["key", "val", "op"]),
   ("is_sigma_rule", []),
   ("is_sigma_correlation_rule", []),
   ("rule_attribute", ["attribute", "value", "op"]),
   ("tag", ["tag"])]

def detKinds : List (String × List String) :=
  [("match_string", ["cond", "pattern", "negate"]),
   ("match_value", ["cond", "value"]),
   ("contains_wildcard", ["cond"]),
   ("is_null", ["cond"]),
   ("processing_item_applied", ["processing_item_id"]),
   ("processing_state", ["key", "val", "op"])]

def fieldKinds : List (String × List String) :=
  [("include_fields", ["fields", "mode"]),
   ("exclude_fields", ["fields", "mode"]),
   ("processing_item_applied", ["processing_item_id"]),
   ("processing_state", ["key", "val", "op"])]

/-- registered identifiers (prefixed `rule:`, `det:`, `field:`) deliberately left without a clause -/
def notModelled : List String := []

end SigmaVerif.PipeConds
