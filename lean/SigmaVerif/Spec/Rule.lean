import SigmaVerif.Spec.Mods
import SigmaVerif.Spec.Placeholder
import SigmaVerif.Spec.Cond
import SigmaVerif.Model.Cidr
/-!
# The Sigma specification's reading of a rule's detection section (C01, C12, C17)

* a map is the AND of its items, a list the OR of its elements, a list of plain values one
  keyword item;
* an item's values are OR-linked unless `all`, the whole item is negated by `neq`;
  an empty value list stands for `field is null`; alternatives of an expanded value are OR-linked
  whatever the linking of the item;
* the condition is read by `CondSpec.read`; a detection name stands for the meaning of that
  detection, a selector for the OR/AND of the matching detections.
The result is a boolean expression over *atoms* (field, match kind, decoded value).
-/
namespace SigmaVerif.Rule
open SigmaVerif.SStr SigmaVerif.Mods

inductive Atom
  | str (field : Option Str) (cased : Bool) (pat : SStr)
  | num (field : Option Str) (n : Str)
  | bool (field : Option Str) (b : Bool)
  | null (field : Option Str)
  | exists_ (field : Option Str)
  | re (field : Option Str) (src : Str) (fi fm fs : Bool)
  | cidr (field : Option Str) (text : Str)
  | cmp (field : Option Str) (op : Str) (n : Str)
  | ref (field : Option Str) (f2 : Str) (sw ew : Bool)
  | ts (field : Option Str) (unit : Str) (n : Str)
  | qx (field : Option Str) (expr : Str) (id : Str)          -- query expression put in place of a placeholder
deriving DecidableEq, Repr

inductive BE
  | atom (a : Atom)
  | not (e : BE)
  | and (es : List BE)
  | or (es : List BE)
deriving Repr

mutual
def BE.eval (ρ : Atom → Bool) : BE → Bool
  | .atom a => ρ a
  | .not e => !(e.eval ρ)
  | .and es => BE.evalAll ρ es
  | .or es => BE.evalAny ρ es
def BE.evalAll (ρ : Atom → Bool) : List BE → Bool
  | [] => true
  | e :: es => e.eval ρ && BE.evalAll ρ es
def BE.evalAny (ρ : Atom → Bool) : List BE → Bool
  | [] => false
  | e :: es => e.eval ρ || BE.evalAny ρ es
end

mutual
def BE.atoms : BE → List Atom
  | .atom a => [a]
  | .not e => e.atoms
  | .and es => BE.atomsL es
  | .or es => BE.atomsL es
def BE.atomsL : List BE → List Atom
  | [] => []
  | e :: es => e.atoms ++ BE.atomsL es
end

/-- plain YAML value of a detection item -/
inductive PV | str (s : Str) | num (n : Str) | bool (b : Bool) | null
deriving Repr

/-- source form of a detection -/
inductive Det
  | map (items : List (Str × List PV))        -- key (`field|mod|…`) ↦ values
  | list (ds : List Det)
  | values (vs : List PV)                      -- plain value / list of plain values: keyword item
  | all (ds : List Det)                        -- AND of sub-detections (only produced by documented rewrites, e.g. one-to-many field mapping inside a map)
deriving Repr

structure Ctx where
  env : Env
  nativeCidr : Bool
  phItems : List Placeholder.PhItem := []
  vars : List (Str × List Placeholder.VarVal) := []

/-! ### IPv4 CIDR text → (base, prefix) for backends without native CIDR support -/

def parseNat (s : Str) : Option Nat :=
  if s.isEmpty || !s.all Char.isDigit then none
  else some (s.foldl (fun acc c => acc * 10 + (c.toNat - 48)) 0)

def splitOn (sep : Char) : Str → List Str
  | [] => [[]]
  | c :: r =>
    match splitOn sep r with
    | h :: t => if c == sep then [] :: h :: t else (c :: h) :: t
    | [] => [[c]]

def parseCidr4 (t : Str) : Option (Nat × Nat) :=
  match splitOn '/' t with
  | [addr, p] =>
    match (splitOn '.' addr).map parseNat, parseNat p with
    | [some a, some b, some c, some d], some p =>
      if a < 256 && b < 256 && c < 256 && d < 256 && p ≤ 32 then some (a * 2 ^ 24 + b * 2 ^ 16 + c * 2 ^ 8 + d, p) else none
    | _, _ => none
  | _ => none

def patOfStr (t : Str) : SStr := t.map (fun c => if c == '*' then Part.star else Part.lit c)

inductive SpecErr
  | mod (e : MErr) | unsupported (what : String) | cond (what : String)
  | ph (e : Placeholder.PhErr)          -- a placeholder item raises a Sigma error
  | unresolved (name : Str)             -- a placeholder is left when the query is rendered
deriving Repr

/-- state of one string value while the placeholder items of the pipeline run over it -/
inductive PhState
  | alts (vs : List SStr)
  | qexpr (expr id : Str)

def phStep (cx : Ctx) (it : Placeholder.PhItem) : List SStr → Except SpecErr PhState
  | [] => .ok (.alts [])
  | s :: rest =>
    match Placeholder.applyItem cx.vars it s, phStep cx it rest with
    | .err e, _ => .error (.ph e)
    | _, .error e => .error e
    | .qexpr e i, _ => .ok (.qexpr e i)
    | _, .ok (.qexpr e i) => .ok (.qexpr e i)
    | .same, .ok (.alts vs) => .ok (.alts (s :: vs))
    | .alts xs, .ok (.alts vs) => .ok (.alts (xs ++ vs))

def phRun (cx : Ctx) : List Placeholder.PhItem → PhState → Except SpecErr PhState
  | [], st => .ok st
  | _ :: _, .qexpr e i => .ok (.qexpr e i)
  | it :: its, .alts vs =>
    match phStep cx it vs with
    | .ok st => phRun cx its st
    | .error e => .error e

/-- a string value after all placeholder items: alternatives (OR-linked) or a query expression;
a placeholder that is still there makes the conversion fail -/
def strBE (cx : Ctx) (field : Option Str) (c : Bool) (s : SStr) : Except SpecErr BE :=
  if Placeholder.noPh s then .ok (.atom (.str field c s)) else
  match phRun cx cx.phItems (.alts [s]) with
  | .error e => .error e
  | .ok (.qexpr e i) =>
    -- the expression template names the field: a keyword value cannot carry it
    if field.isNone then .error (.ph .mixed) else .ok (.atom (.qx field e i))
  | .ok (.alts vs) =>
    match vs.find? (fun v => !Placeholder.noPh v) with
    | some v => .error (.unresolved ((Placeholder.phNames v).headD []))
    | none =>
      match vs with
      | [v] => .ok (.atom (.str field c v))
      | _ => .ok (.or (vs.map (fun v => .atom (.str field c v))))

/-- meaning of one (field, value) pair; `none` = the specification cannot express it here -/
def valBE (cx : Ctx) (field : Option Str) : Nat → Val → Option BE
  | _, .str c s => if Placeholder.noPh s then some (.atom (.str field c s)) else none   -- placeholders: see `valBE'`
  | _, .num n => some (.atom (.num field n))
  | _, .bool b => some (.atom (.bool field b))
  | _, .null => some (.atom (.null field))
  | _, .re src a b d => some (.atom (.re field src a b d))
  | _, .cidr t =>
    if cx.nativeCidr then some (.atom (.cidr field t))
    else match parseCidr4 t with
      | some (base, p) => some (.or ((Cidr.expand4 base p).map (fun pat => .atom (.str field false (patOfStr pat)))))
      | none => none
  | _, .cmp op n => some (.atom (.cmp field op n))
  | _, .fieldref f sw ew => some (.atom (.ref field f sw ew))
  | _, .exists_ b => some (if b then .atom (.exists_ field) else .not (.atom (.exists_ field)))
  | _, .tspart u n => some (.atom (.ts field u n))
  | 0, .expansion _ => none
  | f+1, .expansion vs =>
    match vs.mapM (valBE cx field f) with
    | some es => some (.or es)
    | none => none

/-- values of an item: strings — also the alternatives of an expanded value — go through the
placeholder items of the pipeline -/
def valBE' (cx : Ctx) (field : Option Str) (v : Val) : Except SpecErr BE :=
  match v with
  | .str c s => strBE cx field c s
  | .expansion vs =>
    let alt (x : Val) : Except SpecErr BE :=
      match x with
      | .str c s => strBE cx field c s
      | _ => match valBE cx field 8 x with | some e => .ok e | none => .error (.unsupported "value")
    let rec go : List Val → Except SpecErr (List BE)
      | [] => .ok []
      | x :: xs => match alt x, go xs with
        | .ok e, .ok es => .ok (e :: es)
        | .error e, _ => .error e
        | _, .error e => .error e
    match go vs with
    | .ok es => .ok (.or es)
    | .error e => .error e
  | _ => match valBE cx field 8 v with | some e => .ok e | none => .error (.unsupported "value")

def pvToVal (raw : Bool) : PV → Val
  | .str s => .str false (if raw then s.map .lit else parse s)
  | .num n => .num n
  | .bool b => .bool b
  | .null => .null

def mapME (f : α → Except SpecErr β) : List α → Except SpecErr (List β)
  | [] => .ok []
  | a :: as =>
    match f a, mapME f as with
    | .ok b, .ok bs => .ok (b :: bs)
    | .error e, _ => .error e
    | _, .error e => .error e

/-- meaning of one detection item `key: values` -/
def itemBE (cx : Ctx) (key : Option Str) (vs : List PV) : Except SpecErr BE :=
  let parts := match key with | some k => splitOn '|' k | none => [[]]
  let field : Option Str := match parts with | f :: _ => if f.isEmpty then none else some f | [] => none
  let mods := (parts.drop 1).map String.ofList
  let raw := mods.contains "re"
  match applyChain cx.env mods { hasField := field.isSome, vals := vs.map (pvToVal raw) } with
  | .error e => .error (.mod e)
  | .ok it =>
    let body : Except SpecErr BE :=
      match it.vals with
      | [] => if field.isSome then .ok (.atom (.null field)) else .error (.unsupported "null value without field")
      | vals =>
        match mapME (valBE' cx field) vals with
        | .ok [e] => .ok e
        | .ok es => .ok (if it.linkAnd then .and es else .or es)
        | .error e => .error e
    match body with
    | .ok e => .ok (if it.negated then .not e else e)
    | .error e => .error e

/-- meaning of a detection: map = AND of items, list = OR of elements -/
def detBE (cx : Ctx) : Nat → Det → Except SpecErr BE
  | _, .map items =>
    match mapME (fun kv => itemBE cx (some kv.1) kv.2) items with
    | .ok [e] => .ok e
    | .ok es => .ok (.and es)
    | .error e => .error e
  | _, .values vs => itemBE cx none vs
  | 0, .list _ => .error (.unsupported "nesting")
  | 0, .all _ => .error (.unsupported "nesting")
  | f+1, .all ds =>
    match mapME (detBE cx f) ds with
    | .ok [e] => .ok e
    | .ok es => .ok (.and es)
    | .error e => .error e
  | f+1, .list ds =>
    match mapME (detBE cx f) ds with
    | .ok [e] => .ok e
    | .ok es => .ok (.or es)
    | .error e => .error e

/-- meaning of a condition expression over the meanings of the detections -/
def condBE (dets : List (Str × BE)) : CondSpec.E → Except SpecErr BE
  | .id n =>
    match dets.find? (fun d => d.1 == n) with
    | some d => .ok d.2
    | none => .error (.cond "undefined detection")
  | .sel q pat =>
    let ms := (dets.filter (fun d => CondSpec.selects pat d.1)).map (·.2)
    if ms.isEmpty then .error (.cond "selector matches nothing")
    else .ok (match q.quant with | .any => .or ms | .all => .and ms)
  | .not e => match condBE dets e with | .ok b => .ok (.not b) | .error x => .error x
  | .and a b =>
    match condBE dets a, condBE dets b with
    | .ok x, .ok y => .ok (.and [x, y])
    | .error e, _ => .error e
    | _, .error e => .error e
  | .or a b =>
    match condBE dets a, condBE dets b with
    | .ok x, .ok y => .ok (.or [x, y])
    | .error e, _ => .error e
    | _, .error e => .error e

/-- the boolean function a rule condition denotes -/
def ruleBE (cx : Ctx) (dets : List (Str × Det)) (cond : Str) : Except SpecErr BE :=
  match mapME (fun d => match detBE cx 8 d.2 with | .ok b => .ok (d.1, b) | .error e => .error e) dets with
  | .error e => .error e
  | .ok ds =>
    match CondSpec.read cond with
    | none => .error (.cond "not a condition")
    | some e => condBE ds e

end SigmaVerif.Rule
