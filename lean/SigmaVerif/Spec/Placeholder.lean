import SigmaVerif.Spec.Mods
/-!
# Placeholder expansion by pipelines (C17): what the documentation says happens to a value that
contains `%name%` placeholders, as an executable definition.

* value-list items replace every *handled* placeholder by each configured value (parsed as a Sigma
  string); several placeholders of one value give all combinations, first placeholder most
  significant, in configuration order;
* wildcard items replace handled placeholders by the multi-character wildcard;
* query-expression items turn a placeholder-only value into a query expression;
* a placeholder no item handles is left in place — and makes the conversion fail later.
-/
namespace SigmaVerif.Placeholder
open SigmaVerif.SStr SigmaVerif.Mods

/-- cross product over the placeholders of a value; `repl n = none` leaves the placeholder -/
def replaceAll (repl : Str → Option (List SStr)) : SStr → List SStr
  | [] => [[]]
  | .ph n :: r =>
    match repl n with
    | some alts => alts.flatMap (fun a => (replaceAll repl r).map (a ++ ·))
    | none => (replaceAll repl r).map (.ph n :: ·)
  | p :: r => (replaceAll repl r).map (p :: ·)

def phNames : SStr → List Str
  | [] => []
  | .ph n :: r => n :: phNames r
  | _ :: r => phNames r

def noPh (s : SStr) : Bool := (phNames s).isEmpty

inductive Kind
  | value | wildcard | query (expr : Str) (mapping : List (Str × Str))
deriving Repr

structure PhItem where
  kind : Kind
  incl : Option (List Str)
  excl : Option (List Str)
deriving Repr

/-- `is_handled_placeholder` -/
def handled (it : PhItem) (n : Str) : Bool :=
  match it.incl, it.excl with
  | none, none => true
  | some l, _ => l.contains n
  | none, some l => !l.contains n

/-- a configured variable value: string or number (as text); anything else is an error -/
inductive VarVal | text (s : Str) | bad
deriving Repr

inductive PhErr
  | missingVar (n : Str) | badVar (n : Str) | mixed            -- Sigma errors raised by the items
deriving Repr

/-- result of one item on one value: unchanged, alternatives, a query expression, or an error -/
inductive Res
  | same
  | alts (vs : List SStr)
  | qexpr (expr id : Str)
  | err (e : PhErr)
deriving Repr

def lookupVar (vars : List (Str × List VarVal)) (n : Str) : Except PhErr (List SStr) :=
  match vars.find? (fun kv => kv.1 == n) with
  | none => .error (.missingVar n)
  | some kv =>
    if kv.2.isEmpty || kv.2.any (fun v => match v with | .bad => true | _ => false) then .error (.badVar n)
    else .ok (kv.2.filterMap (fun v => match v with | .text s => some (parse s) | .bad => none))

/-- the first error among the handled placeholders, in order of occurrence -/
def firstVarErr (vars : List (Str × List VarVal)) (it : PhItem) : List Str → Option PhErr
  | [] => none
  | n :: ns =>
    if handled it n then
      match lookupVar vars n with
      | .error e => some e
      | .ok _ => firstVarErr vars it ns
    else firstVarErr vars it ns

def applyItem (vars : List (Str × List VarVal)) (it : PhItem) (s : SStr) : Res :=
  let names := phNames s
  match it.kind with
  | .value =>
    if !names.any (handled it) then .same else
    match firstVarErr vars it names with
    | some e => .err e
    | none =>
      .alts (replaceAll (fun n => if handled it n then (lookupVar vars n).toOption else none) s)
  | .wildcard =>
    if !names.any (handled it) then .same else
    .alts (replaceAll (fun n => if handled it n then some [[.star]] else none) s)
  | .query expr mapping =>
    if names.isEmpty then .same else
    match s with
    | [.ph n] =>
      if handled it n then .qexpr expr ((mapping.find? (fun kv => kv.1 == n)).map (·.2) |>.getD n) else .same
    | _ => .err .mixed

/-! ## Observations of the live code (regenerated into `Gen/Ph.lean`, compared in `Oblig/C17.lean`) -/

/-- what one placeholder item was observed to do with one value: `None` (unchanged), a list of
strings, a query expression, or an exception (class name; kind 0 = missing variable, 1 = ill-typed
or empty variable, 2 = placeholder mixed with other parts, 3 = anything else; the variable name) -/
inductive Obs
  | same
  | alts (vs : List SStr)
  | qexpr (expr id : Str)
  | err (cls : String) (kind : Nat) (name : Str)
deriving Repr, DecidableEq

/-- the observation the specification predicts -/
def Res.obs : Res → Obs
  | .same => .same
  | .alts vs => .alts vs
  | .qexpr e i => .qexpr e i
  | .err (.missingVar n) => .err "SigmaValueError" 0 n
  | .err (.badVar n) => .err "SigmaValueError" 1 n
  | .err .mixed => .err "SigmaValueError" 2 []

/-- Python type names of variable values the value-list item accepts (`isinstance(v, (str, int,
float))`; `bool` is a subclass of `int`) -/
def acceptedVarTypes : List String := ["str", "int", "float", "bool"]

/-- a configured value as the specification sees it: its text if the type is accepted -/
def toVarVal (tv : String × Str) : VarVal := if acceptedVarTypes.contains tv.1 then .text tv.2 else .bad

end SigmaVerif.Placeholder
