import SigmaVerif.Spec.Mods
import SigmaVerif.Spec.SStr
import SigmaVerif.Lemmas.Mods
/-!
# C03 — laws of the value modifiers (for all values)

1. `contains` / `startswith` / `endswith` add only the missing wildcards, and the padded pattern
   means "occurs somewhere / at the start / at the end".
2. `windash` yields every dash variant of every parameter-position dash, nothing else, each once.
3. `expand` turns exactly the unescaped `%name%` into placeholders.
4. structural laws of the chain (`all`, `neq`, unknown modifiers, content-preserving retyping).
-/
namespace SigmaVerif.Props.C03
open SigmaVerif.Mods SigmaVerif.SStr SigmaVerif.SStrSpec SigmaVerif.Lemmas.Mods

/-! ## 1. wildcard padding -/

/-- `contains`: the padded pattern matches `x` iff the original pattern matches some infix of `x` -/
theorem contains_glob (s : SStr) (x : Str) :
    glob (addStarBack (addStarFront s)) x = true ↔ ∃ u v w, x = u ++ v ++ w ∧ glob s v = true := by
  rw [glob_addStarBack, glob_append_star]
  constructor
  · rintro ⟨v', w, rfl, h⟩
    rw [glob_addStarFront, glob_star_cons] at h
    obtain ⟨u, v, rfl, hv⟩ := h
    exact ⟨u, v, w, rfl, hv⟩
  · rintro ⟨u, v, w, rfl, hv⟩
    refine ⟨u ++ v, w, rfl, ?_⟩
    rw [glob_addStarFront, glob_star_cons]
    exact ⟨u, v, rfl, hv⟩

example : glob (addStarBack (addStarFront [.lit 'a', .qm])) "xaby".toList = true :=
  (contains_glob _ _).2 ⟨['x'], ['a', 'b'], ['y'], rfl, by simp [glob]⟩

/-- `startswith`: the padded pattern matches `x` iff the original pattern matches a prefix of `x` -/
theorem startswith_glob (s : SStr) (x : Str) :
    glob (addStarBack s) x = true ↔ ∃ v w, x = v ++ w ∧ glob s v = true := by
  rw [glob_addStarBack, glob_append_star]

example : glob (addStarBack [.lit 'a']) "ab".toList = true :=
  (startswith_glob _ _).2 ⟨['a'], ['b'], rfl, by simp [glob]⟩

/-- `endswith`: the padded pattern matches `x` iff the original pattern matches a suffix of `x` -/
theorem endswith_glob (s : SStr) (x : Str) :
    glob (addStarFront s) x = true ↔ ∃ u v, x = u ++ v ∧ glob s v = true := by
  rw [glob_addStarFront, glob_star_cons]

example : glob (addStarFront [.lit 'b']) "ab".toList = true :=
  (endswith_glob _ _).2 ⟨['a'], ['b'], rfl, by simp [glob]⟩

/-- `contains` adds a wildcard at either end exactly when there is none yet, and changes nothing else -/
theorem contains_adds_only_missing (s : SStr) :
    addStarBack (addStarFront s) =
      (if s.head? = some .star then [] else [.star]) ++ s ++
      (if (addStarFront s).getLast? = some .star then [] else [.star]) := by
  unfold addStarBack addStarFront
  by_cases h1 : s.head? = some Part.star <;>
    by_cases h2 : (if (s.head? == some Part.star) = true then s else Part.star :: s).getLast? = some Part.star <;>
    simp_all

example : addStarBack (addStarFront [.star, .lit 'a']) = [.star, .lit 'a', .star] := by decide
example : addStarBack (addStarFront [.lit 'a']) = [.star, .lit 'a', .star] := by decide
example : addStarBack (addStarFront []) = [.star] := by decide

/-- contains adds only the missing wildcards -/
theorem contains_idem (s : SStr) :
    addStarBack (addStarFront (addStarBack (addStarFront s))) = addStarBack (addStarFront s) := by
  unfold addStarBack addStarFront
  by_cases h1 : s.head? = some Part.star <;> by_cases h2 : s.getLast? = some Part.star <;>
    simp [h1, h2, List.getLast?_cons, List.getLast?_append]
  all_goals (cases s <;> simp_all [List.getLast?_cons])

theorem startswith_idem (s : SStr) : addStarBack (addStarBack s) = addStarBack s := by
  unfold addStarBack
  by_cases h2 : s.getLast? = some Part.star <;> simp [h2, List.getLast?_append]

theorem endswith_idem (s : SStr) : addStarFront (addStarFront s) = addStarFront s := by
  unfold addStarFront
  by_cases h1 : s.head? = some Part.star <;> simp [h1]

example : addStarBack (addStarBack [.lit 'a']) = [.lit 'a', .star] := by decide
example : addStarFront (addStarFront [.lit 'a']) = [.star, .lit 'a'] := by decide

/-! ## 2. windash -/

/-- marking does not change the value -/
theorem markValue_fst (w : Char → Bool) (s : SStr) : (markValue w s []).map (·.1) = s := by
  simpa using markValue_fst_acc w s []

/-- one variant per choice of a dash for every parameter-position dash -/
theorem windash_count (w : Char → Bool) (s : SStr) :
    (windash w s).length = 5 ^ ((markValue w s []).filter (·.2)).length :=
  windashExpand_length _

/-- no variant is produced twice -/
theorem windash_nodup (w : Char → Bool) (s : SStr) : (windash w s).Nodup :=
  windashExpand_nodup _

/-- the variants are exactly the values that agree with the original at every unmarked position
and carry one of the five dashes at every marked one -/
theorem windash_exact (w : Char → Bool) (s : SStr) (t : SStr) :
    t ∈ windash w s ↔
      t.length = (markValue w s []).length ∧
      ∀ i (h : i < (markValue w s []).length),
        ((markValue w s [])[i].2 = false → t[i]? = some (markValue w s [])[i].1) ∧
        ((markValue w s [])[i].2 = true → ∃ d ∈ dashes, t[i]? = some (.lit d)) := by
  unfold windash
  rw [mem_windashExpand, isVariant_iff_index]

/-- the original value is among the variants (read with `markValue_fst`) -/
theorem windash_contains_original (w : Char → Bool) (s : SStr) :
    (markValue w s []).map (·.1) ∈ windash w s := by
  unfold windash
  rw [mem_windashExpand]
  exact isVariant_self _ (markValue_wellMarked w s [])

theorem windash_contains_self (w : Char → Bool) (s : SStr) : s ∈ windash w s := by
  have := windash_contains_original w s
  rwa [markValue_fst] at this

/-- position `i` of a run of literal characters is marked iff the character is `-` or `/`, the
previous character of the run is absent or not a word character, and the next character of the
run exists and is a word character -/
theorem windash_marks_spec (w : Char → Bool) (r : List Char) (i : Nat) :
    (windashMarks w none r).length = r.length ∧
    ((windashMarks w none r)[i]? = some true ↔
      (r[i]? = some '-' ∨ r[i]? = some '/') ∧
      (i = 0 ∨ ∃ p, r[i - 1]? = some p ∧ w p = false) ∧
      (∃ d, r[i + 1]? = some d ∧ w d = true)) := by
  refine ⟨windashMarks_length _ _ _, ?_⟩
  rw [windashMarks_getElem?, markAt]
  cases hc : r[i]? with
  | none => simp
  | some c =>
    by_cases hi : i = 0
    · subst hi
      cases hd : r[0 + 1]? with
      | none => simp
      | some d => simp
    · cases hp : r[i - 1]? with
      | none =>
        exfalso
        have h1 := List.getElem?_eq_none_iff.1 hp
        have h2 : i < r.length := by
          cases hlt : decide (i < r.length) with
          | true => exact of_decide_eq_true hlt
          | false =>
            have := List.getElem?_eq_none_iff.2 (Nat.le_of_not_lt (of_decide_eq_false hlt))
            rw [this] at hc; cases hc
        omega
      | some p =>
        cases hd : r[i + 1]? with
        | none => simp [hi]
        | some d => simp [hi, and_assoc]

example : windashMarks (fun c => c.isAlphanum) none " -a /b x-y".toList =
    [false, true, false, false, true, false, false, false, false, false] := by decide
example : (windash (fun c => c.isAlphanum) [.lit ' ', .lit '-', .lit 'a']).length = 5 := by decide
example : [Part.lit ' ', .lit (Char.ofNat 0x2013), .lit 'a'] ∈
    windash (fun c => c.isAlphanum) [.lit ' ', .lit '-', .lit 'a'] := by decide

/-- the same over the whole value (runs are delimited by wildcards and placeholders): position `i`
is marked iff it holds a literal `-` or `/`, the part in front of it is absent, not a literal
character, or a literal non-word character, and the part behind it is a literal word character -/
theorem windash_mark_positions (w : Char → Bool) (s : SStr) (i : Nat) :
    ((markValue w s [])[i]?).map (·.2) = some true ↔
      (s[i]? = some (.lit '-') ∨ s[i]? = some (.lit '/')) ∧
      (i = 0 ∨ ∀ q, s[i - 1]? = some (.lit q) → w q = false) ∧
      (∃ d, s[i + 1]? = some (.lit d) ∧ w d = true) := by
  rw [markValue_snd_getElem?]
  cases hc : s[i]? with
  | none => simp
  | some p =>
    have hnext : nextOkP w s[i + 1]? = true ↔ ∃ d, s[i + 1]? = some (.lit d) ∧ w d = true := by
      cases s[i + 1]? with
      | none => simp [nextOkP]
      | some q => cases q <;> simp [nextOkP]
    have hprev : prevOkP w (if i = 0 then none else s[i - 1]?) = true ↔
        (i = 0 ∨ ∀ q, s[i - 1]? = some (.lit q) → w q = false) := by
      by_cases hi : i = 0
      · simp [hi, prevOkP]
      · simp only [hi, if_false, false_or]
        cases s[i - 1]? with
        | none => simp [prevOkP]
        | some q => cases q <;> simp [prevOkP]
    have hdash : isDashP p = true ↔ (p = .lit '-' ∨ p = .lit '/') := by
      cases p <;> simp [isDashP]
    simp only [Option.map_some, Option.some.injEq, Bool.and_eq_true, hnext, hprev, hdash, and_assoc]

example : ((markValue (fun c => c.isAlphanum) [.star, .lit '-', .lit 'a'] [])[1]?).map (·.2) = some true := by
  decide
example : ((markValue (fun c => c.isAlphanum) [.lit 'x', .lit '-', .lit 'a'] [])[1]?).map (·.2) = some false := by
  decide

/-! ## 3. expand -/

/-- without `%` nothing changes -/
theorem expand_no_percent (r : List Char) (h : '%' ∉ r) : expandRun r = r.map .lit :=
  expandRunF_no_percent _ _ _ (Nat.le_succ _) h

example : expandRun "ab\\c".toList = [.lit 'a', .lit 'b', .lit '\\', .lit 'c'] := by decide

/-- an unescaped `%name%` (non-empty name without `%`) becomes a placeholder; scanning goes on
behind the closing `%` (with `%` as the look-behind character) -/
theorem expand_placeholder (name : List Char) (hn : name ≠ []) (h : '%' ∉ name) (rest : List Char) :
    expandRun ('%' :: name ++ '%' :: rest) = .ph name :: expandRunF rest.length (some '%') rest := by
  unfold expandRun
  rw [List.cons_append, expandRunF_cons, splitName_append name rest hn h]
  simp only [beq_self_eq_true, Bool.true_and, bne_iff_ne, ne_eq, reduceCtorEq, not_false_eq_true,
    if_true]
  rw [expandRunF_eq]
  simp; omega

example : expandRun "%ab%c".toList = [.ph ['a', 'b'], .lit 'c'] := by decide

/-- `\%` is a literal percent sign anywhere in a run, whatever precedes it: it never opens a
placeholder … -/
theorem expand_escaped_anywhere (f : Nat) (prev : Option Char) (rest : List Char) :
    expandRunF (f + 1) prev ('\\' :: '%' :: rest) = .lit '%' :: expandRunF f (some '%') rest := by
  rw [expandRunF_cons]
  have h1 : ('\\' == '%' && prev != some '\\') = false := by
    have : ('\\' == '%') = false := by decide
    rw [this]; rfl
  rw [if_neg (by rw [h1]; exact Bool.false_ne_true)]
  rfl

/-- … in particular at the start of a run -/
theorem expand_escaped (rest : List Char) :
    expandRun ('\\' :: '%' :: rest) = .lit '%' :: expandRunF rest.length (some '%') rest := by
  unfold expandRun
  rw [expand_escaped_anywhere, expandRunF_eq _ _ _ (by simp only [List.length_cons]; omega)]

/-- a percent sign whose look-behind character is a backslash is literal -/
theorem expand_percent_after_backslash (f : Nat) (r : List Char) :
    expandRunF (f + 1) (some '\\') ('%' :: r) = .lit '%' :: expandRunF f (some '%') r := by
  rw [expandRunF_cons]; rfl

example : expandRun "\\%a%".toList = [.lit '%', .lit 'a', .lit '%'] := by decide
example : expandRun "x\\%a%".toList = [.lit 'x', .lit '%', .lit 'a', .lit '%'] := by decide

/-- placeholder names produced by `expand` are non-empty and contain no `%` -/
theorem expand_names_nonempty_nopercent (r : List Char) :
    ∀ n, Part.ph n ∈ expandRun r → n ≠ [] ∧ '%' ∉ n :=
  fun n h => expandRunF_names _ _ _ n h

example : Part.ph ['a'] ∈ expandRun "%a%".toList := by decide

/-- whole values (`expand` works run by run): without a literal `%` nothing changes … -/
theorem expand_value_no_percent (s : SStr) (h : Part.lit '%' ∉ s) : expandValue s [] = s := by
  simpa using expandValue_no_percent s [] h (by simp)

/-- … and every placeholder of the result was there before or has a non-empty name without `%` -/
theorem expand_value_names (s : SStr) (n : Str) (h : Part.ph n ∈ expandValue s []) :
    Part.ph n ∈ s ∨ (n ≠ [] ∧ '%' ∉ n) :=
  expandValue_names s [] n h

example : expandValue [.lit '%', .lit 'a', .lit '%', .star, .lit '%', .lit 'b'] [] =
    [.ph ['a'], .star, .lit '%', .lit 'b'] := by decide

/-! ### expand on a regular expression -/

theorem renderRun_map_lit (r : List Char) : renderRun (r.map .lit) = r := by
  induction r with
  | nil => rfl
  | cons c r ih => simp [renderRun, ih]

theorem expandRe_no_percent_aux (r acc : List Char) (hr : '%' ∉ r) (ha : '%' ∉ acc) :
    expandRe r acc = acc.reverse ++ r := by
  induction r generalizing acc with
  | nil =>
    simp only [expandRe, List.append_nil]
    rw [expand_no_percent _ (by simpa using ha), renderRun_map_lit]
  | cons c r ih =>
    have hc : '%' ≠ c := fun h => hr (List.mem_cons.2 (Or.inl h))
    have hr' : '%' ∉ r := fun h => hr (List.mem_cons.2 (Or.inr h))
    simp only [expandRe]
    split
    · rw [expand_no_percent _ (by simpa using ha), renderRun_map_lit, ih [] hr' (by simp)]
      simp
    · rw [ih (c :: acc) hr' (by simp [ha, hc])]
      simp

/-- a pattern without `%` is left exactly as written by `expand` - its backslashes, wildcard characters and
everything else included (`re|expand` on a pattern without placeholders is `re`) -/
theorem expandRe_no_percent (src : List Char) (h : '%' ∉ src) : expandRe src [] = src := by
  simpa using expandRe_no_percent_aux src [] h (by simp)

/-- the scan happens inside each run between `*` / `?`: text up to the first wildcard character without a `%`
is kept as written -/
theorem expandRe_prefix (pre rest : List Char) (c : Char) (hc : c = '*' ∨ c = '?') (h : '%' ∉ pre)
    (hw : ∀ x ∈ pre, x ≠ '*' ∧ x ≠ '?') :
    expandRe (pre ++ c :: rest) [] = pre ++ c :: expandRe rest [] := by
  suffices H : ∀ acc, '%' ∉ acc → expandRe (pre ++ c :: rest) acc = acc.reverse ++ pre ++ c :: expandRe rest [] by
    simpa using H [] (by simp)
  induction pre with
  | nil =>
    intro acc ha
    have : (c == '*' || c == '?') = true := by rcases hc with rfl | rfl <;> decide
    simp only [List.nil_append, expandRe, this, if_true]
    rw [expand_no_percent _ (by simpa using ha), renderRun_map_lit]; simp
  | cons x pre ih =>
    intro acc ha
    have hx := hw x (by simp)
    have hxp : '%' ≠ x := fun e => h (List.mem_cons.2 (Or.inl e))
    have : (x == '*' || x == '?') = false := by simp [hx.1, hx.2]
    simp only [List.cons_append, expandRe, this]
    rw [ih (fun e => h (List.mem_cons.2 (Or.inr e))) (fun y hy => hw y (List.mem_cons.2 (Or.inr hy))) (x :: acc) (by simp [ha, hxp])]
    simp

example : expandRe "foo\\\\bar%x%".toList [] = "foo\\\\bar%x%".toList := by decide
example : expandRe "a\\%b*%c d%".toList [] = "a%b*%c d%".toList := by decide

/-! ## 4. structural laws -/

theorem all_spec (env : Env) (first : Bool) (it : Item) :
    applyModifier env first "all" it = .ok { it with linkAnd := true } := rfl

theorem neq_spec (env : Env) (first : Bool) (it : Item) :
    applyModifier env first "neq" it = .ok { it with negated := true } := rfl


example : (applyModifier { w := fun _ => false } true "all" { hasField := true, vals := [.null] }).toOption.map (·.linkAnd)
    = some true := by decide

/-- an unknown modifier anywhere in the chain makes the whole chain a modifier error -/
theorem unknown_rejected (env : Env) (mods : List String) (it : Item) (m : String) (hm : m ∈ mods)
    (hu : m ∉ valueModifiers ∧ m ∉ listModifiers) :
    ∃ m', applyChain env mods it = .error (.unknown m') := by
  unfold applyChain
  cases hf : mods.find? (fun m => !(valueModifiers.contains m || listModifiers.contains m)) with
  | some m' => exact ⟨_, rfl⟩
  | none =>
    exfalso
    apply List.find?_eq_none.1 hf m hm
    simp [hu.1, hu.2]

example : "foo" ∉ valueModifiers ∧ "foo" ∉ listModifiers := by decide
example (env : Env) (it : Item) :
    applyChain env ["contains", "foo"] it = .error (.unknown "foo".toList) := rfl

/-- `cased` keeps the content -/
theorem retype_cased (env : Env) (hf first c : Bool) (s : SStr) :
    modifyValue env hf first "cased" (.str c s) = .ok [.str true s] := rfl

/-- the comparison modifiers keep the number -/
theorem retype_cmp (env : Env) (hf first : Bool) (m : String) (hm : m ∈ ["lt", "lte", "gt", "gte"]) (n : Str) :
    modifyValue env hf first m (.num n) = .ok [.cmp m.toList n] := by
  simp only [List.mem_cons, List.not_mem_nil, or_false] at hm
  rcases hm with rfl | rfl | rfl | rfl <;> rfl

/-- `exists` on a field-bound boolean as first modifier keeps the boolean -/
theorem retype_exists (env : Env) (b : Bool) :
    modifyValue env true true "exists" (.bool b) = .ok [.exists_ b] := rfl

/-- … and is a value error otherwise -/
theorem exists_misplaced (env : Env) (hf first b : Bool) (h : (hf && first) = false) :
    modifyValue env hf first "exists" (.bool b) = .error (.value "exists".toList) := by
  cases hf <;> cases first <;> first | rfl | cases h

/-- the regular-expression flag modifiers set their flag and keep the source and the other flags -/
theorem retype_flags (env : Env) (hf first : Bool) (src : Str) (a b d : Bool) :
    modifyValue env hf first "i" (.re src a b d) = .ok [.re src true b d] ∧
    modifyValue env hf first "ignorecase" (.re src a b d) = .ok [.re src true b d] ∧
    modifyValue env hf first "m" (.re src a b d) = .ok [.re src a true d] ∧
    modifyValue env hf first "multiline" (.re src a b d) = .ok [.re src a true d] ∧
    modifyValue env hf first "s" (.re src a b d) = .ok [.re src a b true] ∧
    modifyValue env hf first "dotall" (.re src a b d) = .ok [.re src a b true] :=
  ⟨rfl, rfl, rfl, rfl, rfl, rfl⟩

/-- a value modifier answers a (non-expansion) value with a type error exactly when the table
`acceptsBySpec` (which is compared with the live modifier classes) does not list the value type -/
theorem type_error_iff (env : Env) (hf first : Bool) (m : String) (hm : m ∈ valueModifiers)
    (v : Val) (hv : ∀ vs, v ≠ .expansion vs) :
    (∃ e, modifyValue env hf first m v = .error (.type e)) ↔ acceptsBySpec m (typeName v) = false := by
  have hv' : isExpansion v = false := by
    cases v <;> first | rfl | exact absurd rfl (hv _)
  rw [← isTypeErr_iff, isTypeErr_modifyValue env hf first m hm v hv']
  simp

example : acceptsBySpec "contains" "num" = false ∧ acceptsBySpec "contains" "str" = true := by decide

end SigmaVerif.Props.C03
