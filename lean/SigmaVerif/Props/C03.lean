import SigmaVerif.Spec.Mods
namespace SigmaVerif.Props.C03
open SigmaVerif.Mods SigmaVerif.SStr

/-- contains adds only the missing wildcards -/
theorem contains_idem (c : Bool) (s : SStr) :
    addStarBack (addStarFront (addStarBack (addStarFront s))) = addStarBack (addStarFront s) := by
  unfold addStarBack addStarFront
  by_cases h1 : s.head? = some Part.star <;> by_cases h2 : s.getLast? = some Part.star <;>
    simp [h1, h2, List.getLast?_cons, List.getLast?_append]
  all_goals (cases s <;> simp_all [List.getLast?_cons])

end SigmaVerif.Props.C03
