import SigmaVerif.Model.Corr
import SigmaVerif.Spec.Corr
import SigmaVerif.Lemmas.Corr
/-!
# C10 — correlation queries carry every element of the correlation rule faithfully

Property theorems only (proofs of the helper facts are in `SigmaVerif.Lemmas.Corr`).  The theorems are
about the model `Corr.convertCorr` (`Model/Corr.lean`: the phases of `convert_correlation_rule*` and
`FieldMappingTransformationBase.apply` as coded, producing the structured record the delimiter-structured
templates expose).  The referenced rules' own conversion (`Env`) and the effect of one field-mapping
item on a name (`Stage`) are parameters; the correspondence sweep `harness/c10.py` ties model and
specification to the real `Backend.convert`.

Two places where the code does not do what the property says are recorded as theorems about the model
(§6): a referenced *correlation* rule is embedded finalised whether or not the backend opts in, and
alias targets are not renamed when the rule has no group-by list.
-/
namespace SigmaVerif.Props.C10
open SigmaVerif.Corr SigmaVerif.CorrSpec SigmaVerif.CorrLemmas SigmaVerif.ConvSpec
open SigmaVerif.Conv (Op QTok)

/-! ## 1. Timespan -/

/-- every unit of the timespan grammar has a length, and the table agrees with calendar arithmetic
(minute = 60 s, hour = 60 min, day = 24 h, week = 7 d, year = 365.2425 d, month = year / 12) -/
theorem unit_table_total : ∀ u ∈ units, unitLen u = some (unitSeconds u) := by decide

/-- only the seven units are accepted -/
theorem unit_table_exact (u : Char) (n : Nat) (h : unitLen u = some n) : u ∈ units ∧ n = unitSeconds u := by
  unfold unitLen at h
  split at h <;> first | (injection h with h; subst h; exact ⟨by decide, by decide⟩) | contradiction

/-- a timespan that parses has one of the seven units (so `seconds` is defined for it) -/
theorem parsed_unit {s : Str} {t : Timespan} (h : parseTimespan s = some t) :
    t.unit ∈ units ∧ t.spec = s := by
  unfold parseTimespan at h
  split at h
  · contradiction
  · rename_i u _
    split at h
    · rename_i c n _ hu
      injection h with h; subst h
      exact ⟨(unit_table_exact u n hu).1, rfl⟩
    · contradiction

/-- **Seconds mode.**  For all counts and all units: the rendered timespan is the decimal numeral of
count × unit length. -/
theorem timespan_seconds (m : Option (List (Char × Str))) (t : Timespan) (hu : t.unit ∈ units) :
    renderTimespan true m t = natStr (t.count * unitSeconds t.unit) := by
  simp [renderTimespan, Timespan.seconds, unit_table_total t.unit hu]

/-- **Unit-mapped mode.**  Count and mapped unit; a unit the (possibly partial) mapping does not list
is passed through as written, as is everything when there is no mapping. -/
theorem timespan_mapped (m : List (Char × Str)) (t : Timespan) (u : Str) (h : m.lookup t.unit = some u) :
    renderTimespan false (some m) t = natStr t.count ++ u := by
  simp [renderTimespan, h]

theorem timespan_passthrough (m : Option (List (Char × Str))) (t : Timespan)
    (h : ∀ l, m = some l → l.lookup t.unit = none) : renderTimespan false m t = t.spec := by
  cases m with
  | none => simp [renderTimespan]
  | some l => simp [renderTimespan, h l rfl]

/-- the model's rendering is the specification's, for every configuration and parsed timespan -/
theorem timespan_eq_spec (k : Cfg) (t : Timespan) (hu : t.unit ∈ units) :
    renderTimespan k.tsSeconds k.tsMap t = specTimespan k t := by
  unfold specTimespan
  cases hs : k.tsSeconds with
  | true => simp [timespan_seconds _ t hu]
  | false =>
    cases hm : k.tsMap with
    | none => simp [renderTimespan]
    | some l => cases hl : l.lookup t.unit <;> simp [renderTimespan, hl]

example : (parseTimespan "05M".toList).map (renderTimespan true none) = some "13148730".toList := by decide
example : (parseTimespan "15m".toList).map (renderTimespan false (some [('m', "min".toList)])) = some "15min".toList := by
  decide
example : parseTimespan "5x".toList = none ∧ parseTimespan "m".toList = none ∧ parseTimespan [] = none := by decide

/-! ## 2. Sub-queries -/

/-- **Every referenced rule's queries, all of them, in reference order, tagged.**  Whenever the
conversion succeeds, with `refs` the resolved references (in the order of the `rules` list, or of
first appearance in an extended condition when the list is omitted) and `r` the rule after the
pipeline: the search phase — single- or multi-rule expression alike — and the typing phase list, for
each reference in order, each query of the referenced rule in condition order, tagged with the rule's
name-or-id, with the normalisations of the aliases naming that reference.  The embedded form is
finalised iff the backend opts in — or the referenced rule is itself a correlation rule and
`convert_correlation_rule` does not test the opt-in (`corrFinTested = false`, the code as it stands, §7). -/
theorem subqueries_faithful {k : Cfg} {env : Env} {stages : List Stage} {method : Option Str}
    {r0 : Rule} {out : Record} (h : convertCorr k env stages method r0 = .ok out) :
    ∃ (refs : List (Str × RefInfo)) (r : Rule), applyStages k.aliasAlways stages r0 = .ok r ∧
      refs.map (·.1) = refsOf r0 ∧ (∀ p ∈ refs, env p.1 = some p.2) ∧
      out.subs = refs.flatMap (fun p => p.2.queries.map (fun q =>
        { tag := p.2.tag, fin := k.finalizeSub || (p.2.isCorr && !k.corrFinTested), query := q, norms := normsFor r.aliases p.1 })) ∧
      out.typing = (if k.typing then some (refs.flatMap (fun p => p.2.queries.map (fun q =>
        { tag := p.2.tag, fin := k.finalizeSub || (p.2.isCorr && !k.corrFinTested), query := q, norms := [] }))) else none) ∧
      out.refs = (if k.refsExpr then some (refs.map (·.2.tag)) else none) := by
  obtain ⟨_, _, _, refs, r, hr, hs, hf⟩ := convertCorr_ok h
  obtain ⟨qt, qms, _, _, hp⟩ := fromTemplate_ok hf
  obtain ⟨ss, agg, cond, hss, hagg, _, hout⟩ := phases_ok hp
  obtain ⟨hn, hm⟩ := resolveRefs_ok hr
  obtain ⟨_, _, hrefs, _, _⟩ := aggregation_ok hagg
  refine ⟨refs, r, hs, hn, hm, ?_, ?_, ?_⟩
  · rw [hout]; exact (search_ok hss).1
  · rw [hout]; simp [typing, subsOf, subFin, normsFor]
  · rw [hout]; simp [hrefs, refsExpr]

/-- when no referenced rule is a correlation rule (or `convert_correlation_rule` tests the opt-in), the
sub-queries are exactly the specification's: finalised iff `finalize_correlation_subqueries` -/
theorem subqueries_eq_spec {k : Cfg} {env : Env} {stages : List Stage} {method : Option Str}
    {r0 : Rule} {out : Record} (h : convertCorr k env stages method r0 = .ok out) :
    ∃ (refs : List (Str × RefInfo)) (r : Rule), applyStages k.aliasAlways stages r0 = .ok r ∧ refs.map (·.1) = refsOf r0 ∧
      ((∀ p ∈ refs, p.2.isCorr = false ∨ k.corrFinTested = true) → out.subs = specSubs k r.aliases refs) := by
  obtain ⟨refs, r, hs, hn, _, hsub, _, _⟩ := subqueries_faithful h
  refine ⟨refs, r, hs, hn, fun hc => ?_⟩
  rw [hsub]
  unfold specSubs normsFor
  apply flatMap_congr'
  intro p hp
  rcases hc p hp with h1 | h1 <;> simp [h1]

/-- non-vacuity: a value_count rule over a two-condition rule and a one-condition rule referenced by id -/
def exEnv : Env := fun r =>
  if r = "r1".toList then some { tag := "r1".toList, queries := ["q1a".toList, "q1b".toList], fields := [], isCorr := false }
  else if r = "id2".toList then some { tag := "name2".toList, queries := ["q2".toList], fields := ["f".toList], isCorr := false }
  else none

def exCfg : Cfg :=
  { corr := true, methods := ["m".toList], defaultMethod := "m".toList, tsSeconds := true, tsMap := none,
    single := true, multi := true, typing := false, norm := true, gb := true, gbNoField := false, refsExpr := true,
    refsUsed := true, fieldsExpr := true, extRef := true, finalizeSub := false, qDefault := some ["m".toList],
    qTypes := [], aggTypes := TName.all, condTypes := TName.all, prec := [.not, .and, .or], parenthesize := false }

def exRule : Rule :=
  { type := .valueCount, rules := some ["r1".toList, "id2".toList], generate := false, timespan := "5m".toList,
    groupBy := some ["user".toList, "al".toList],
    aliases := [{ name := "al".toList, mapping := [("r1".toList, "src".toList), ("id2".toList, "ip".toList)] }],
    cond := .basic { op := .gte, count := 10, field := .one "user".toList, percentile := none }, fields := [] }

def exStages : List Stage := [[("user".toList, ["u1".toList, "u2".toList]), ("src".toList, ["source".toList])]]

example : (convertCorr exCfg exEnv [] none exRule).toOption.map (·.subs) = some
    [{ tag := "r1".toList, fin := false, query := "q1a".toList, norms := [("al".toList, "src".toList)] },
     { tag := "r1".toList, fin := false, query := "q1b".toList, norms := [("al".toList, "src".toList)] },
     { tag := "name2".toList, fin := false, query := "q2".toList, norms := [("al".toList, "ip".toList)] }] := by decide

/-! ## 3. Group-by, condition, template family -/

/-- **Group-by fields, condition operator, count, field and percentile appear as the (mapped) rule
gives them**, and the aggregation / condition template family is the one of the rule's type.
`gbOf k g` = the fields of `g`, or for no group-by the `nofield` template if the backend has one;
`condOf k c` = operator, count and field(s) of a basic condition, or the references and the rendered
tokens of an extended one (both defined in `Lemmas/Corr.lean`). -/
theorem groupby_aliases_condition_faithful {k : Cfg} {env : Env} {stages : List Stage} {method : Option Str}
    {r0 : Rule} {out : Record} (h : convertCorr k env stages method r0 = .ok out) :
    ∃ r, applyStages k.aliasAlways stages r0 = .ok r ∧
      out.gb = gbOf k r.groupBy ∧
      out.cond = condOf k r.cond ∧
      (match r.cond with
        | .basic b => out.aggField = b.field.toList ∧ out.pct = b.percentile
        | .ext _ => out.aggField = [] ∧ out.pct = none) ∧
      out.tn = (dispatch r0.type r0.cond.isExt).pyName ∧
      out.method = method.getD k.defaultMethod ∧
      out.ts = renderTs k r0.timespan := by
  obtain ⟨_, _, _, refs, r, _, hs, hf⟩ := convertCorr_ok h
  obtain ⟨qt, qms, _, _, hp⟩ := fromTemplate_ok hf
  obtain ⟨ss, agg, cond, _, hagg, hcond, hout⟩ := phases_ok hp
  obtain ⟨_, hgb, _, _, hfp⟩ := aggregation_ok hagg
  obtain ⟨_, hc⟩ := condition_ok hcond
  obtain ⟨_, hsc, hty, _, hti, _⟩ := applyStages_spec hs
  have hext : r.cond.isExt = r0.cond.isExt := specCond_isExt hsc
  refine ⟨r, hs, ?_, ?_, ?_, ?_, ?_, ?_⟩
  · rw [hout]; exact groupBy_ok hgb
  · rw [hout]; exact hc
  · rw [hout]
    cases hrc : r.cond with
    | basic b => rw [hrc] at hfp; exact ⟨hfp.1, hfp.2.1⟩
    | ext e => rw [hrc] at hfp; exact hfp
  · rw [hout, hty, hext]
  · rw [hout]
  · rw [hout, hti]

/-- one normalisation per alias naming the reference, in alias order, carrying the (mapped) target -/
theorem normalisations_exact (aliases : List Alias) (ref : Str) :
    normsFor aliases ref =
      aliases.flatMap (fun a => (a.mapping.filter (fun p => p.1 == ref)).map (fun p => (a.name, p.2))) := rfl

/-- **every (alias, referenced rule) pair of the rule has its normalisation, whatever the alias is called**:
nothing about the spelling of the alias name or of the target field is consulted — in particular the pair is
present when the (mapped) target field is spelled exactly like the alias (`f = a.name`) -/
theorem normalisation_present (aliases : List Alias) (a : Alias) (ha : a ∈ aliases) (ref f : Str)
    (h : (ref, f) ∈ a.mapping) : (a.name, f) ∈ normsFor aliases ref := by
  rw [normalisations_exact]
  simp only [List.mem_flatMap, List.mem_map, List.mem_filter]
  exact ⟨a, ha, (ref, f), ⟨h, by simp⟩, rfl⟩

/-- and nothing else: a normalisation of the query comes from an alias of that name declaring that field for the rule -/
theorem normalisation_only (aliases : List Alias) (ref n f : Str) (h : (n, f) ∈ normsFor aliases ref) :
    ∃ a ∈ aliases, a.name = n ∧ (ref, f) ∈ a.mapping := by
  rw [normalisations_exact] at h
  simp only [List.mem_flatMap, List.mem_map, List.mem_filter] at h
  obtain ⟨a, ha, p, ⟨hp, hr⟩, he⟩ := h
  have h1 : p.1 = ref := by simpa using hr
  have h2 : a.name = n ∧ p.2 = f := by simpa using he
  refine ⟨a, ha, h2.1, ?_⟩
  rw [← h1, ← h2.2]; exact hp

/-- the specification side lists the same pairs for every sub-query of the rule -/
theorem spec_normalisations_eq (k : Cfg) (aliases : List Alias) (refs : List (Str × RefInfo)) :
    ∀ s ∈ specSubs k aliases refs, ∃ p ∈ refs, s.tag = p.2.tag ∧ s.norms = normsFor aliases p.1 := by
  intro s hs
  unfold specSubs at hs
  simp only [List.mem_flatMap, List.mem_map] at hs
  obtain ⟨p, hp, q, _, rfl⟩ := hs
  exact ⟨p, hp, rfl, rfl⟩

/-- non-vacuity: alias `user` whose target for `ra` is the field `user` itself and for `rb` another field -/
example : normsFor [{ name := "user".toList, mapping := [("ra".toList, "user".toList), ("rb".toList, "TargetUserName".toList)] },
                    { name := "host".toList, mapping := [("ra".toList, "Computer".toList)] }] "ra".toList
    = [("user".toList, "user".toList), ("host".toList, "Computer".toList)] := by decide

/-- the condition field `user` is renamed to two names by `exStages`: a one-to-many image is refused -/
example : failsWith (convertCorr exCfg exEnv exStages none exRule) .config = true := by decide
def exRule2 : Rule :=
  { exRule with cond := .basic { op := .lt, count := -1, field := .one "src".toList, percentile := some 95 } }
example : (convertCorr exCfg exEnv exStages none exRule2).toOption.map (fun o => (o.gb, o.cond)) = some
    (.fields ["u1".toList, "u2".toList, "al".toList], .basic .lt (-1) ["source".toList]) := by decide
example : (convertCorr exCfg exEnv exStages none exRule2).toOption.map (fun o => (o.ts, o.pct)) = some
    ("300".toList, some 95) := by decide
example : (convertCorr exCfg exEnv exStages none exRule2).toOption.map (fun o => o.subs.map (·.norms)) = some
    [[("al".toList, "source".toList)], [("al".toList, "source".toList)], [("al".toList, "ip".toList)]] := by decide

/-! ## 4. Type dispatch -/

/-- each of the 8 types has its own template family; the extended families are used exactly for the
temporal types with an extended condition -/
theorem dispatch_injective : ∀ t ∈ CType.all, ∀ t' ∈ CType.all, ∀ b b' : Bool,
    dispatch t b = dispatch t' b' → t = t' := by decide

theorem dispatch_ext : ∀ t ∈ CType.all, ∀ b : Bool,
    (dispatch t b == .temporalExt || dispatch t b == .temporalOrderedExt) = (b && t.isTemporal) := by decide

theorem ctype_all_complete (t : CType) : t ∈ CType.all := by cases t <;> decide

/-! ## 5. Field mapping -/

/-- **The pipeline renames group-by, alias targets and the condition field by the same function it
applies everywhere** (`mapAll`: the composition of the stages' name maps — the function the referenced
rules' fields go through).  Whenever the stage-by-stage application (as coded) succeeds:

* the `fields` list is replaced by all images;
* the condition field (or each of a list of fields) is replaced by its *single* image — a one-to-many
  image makes the code raise `SigmaConfigurationError` (`mapOne`), so success implies uniqueness;
* if the rule has a group-by list (or `al`: the code maps aliases unconditionally): every alias target is
  replaced by its single image; the group-by list is replaced by all images of its entries, entries
  naming an alias being kept (hypothesis `NoCapture`: no stage maps a non-alias name onto an alias name);
* if the rule has **no** group-by list and `al = false` (the code as it stands) the aliases are left
  untouched (§7). -/
theorem mapping_consistent {al : Bool} {stages : List Stage} {r0 r : Rule} (h : applyStages al stages r0 = .ok r) :
    r.fields = r0.fields.flatMap (mapAll stages) ∧
    specCond stages r0.cond = some r.cond ∧
    ((al || r0.groupBy.isSome) = true → specAliases stages r0.aliases = some r.aliases) ∧
    (∀ gb, r0.groupBy = some gb → NoCapture stages (r0.aliases.map Alias.name) →
        r.groupBy = some (specGroupBy stages (r0.aliases.map Alias.name) gb)) ∧
    (r0.groupBy = none → r.groupBy = none ∧ (al = false → r.aliases = r0.aliases)) := by
  obtain ⟨h1, h2, _, _, _, _, _, h8, h9, h10⟩ := applyStages_spec h
  exact ⟨h1, h2, h9, h10, h8⟩

/-- a one-to-many image of an alias target or of the condition field is refused, an empty image
crashes (`mapped_field_name[0]` on an empty list) -/
theorem one_to_many_refused (t : Stage) (f : Str) :
    (mapOne t f = .error .config ↔ 2 ≤ (mapField t f).length) ∧
    (mapOne t f = .error .crash ↔ mapField t f = []) := by
  unfold mapOne
  rcases hm : mapField t f with _ | ⟨x, _ | ⟨y, l⟩⟩ <;> simp

/-! ## 6. Extended conditions -/

/-- **The emitted expression, read by the target language's precedence rules, means the condition.**
For every precedence permutation, both `parenthesize` settings and every condition tree (any depth,
any shape, n-ary nodes, nested NOTs): the emitted token list is accepted by the target language's
reader and the expression read has, under every valuation of the rule references, the truth value
of the rule's condition — and/or/not structure and precedence are preserved. -/
theorem extended_roundtrip (prec : List Op) (par : Bool) (hp : (kOf prec par).wf = true)
    (e : Ext) (he : wfExt e = true) (ix : Str → Nat) :
    ∃ e', readQ prec (renderExt prec par ix e) = some e' ∧
      ∀ ρ : Nat → Bool, e'.denote ρ = e.sem (fun r => ρ (ix r)) := by
  have hconv := render_eq_convert prec par ix e he false
  obtain ⟨e', hr, hsem⟩ := SigmaVerif.ConvLemmas.convert_sound_neg (k := kOf prec par) hp rfl false
    (toCT ix e) (wfTree_toCT ix e) _ hconv
  refine ⟨e', hr, fun ρ => ?_⟩
  have := hsem ρ
  rw [evalCT_toCT ix ρ e he] at this
  exact (Option.some.inj this).symm

/-- in the terms the correspondence check uses: the truth table read from the emitted tokens is the
truth table of the condition tree -/
theorem extended_truth_table (prec : List Op) (par : Bool) (hp : (kOf prec par).wf = true)
    (e : Ext) (he : wfExt e = true) (names : List Str) :
    readTT prec names.length (renderExt prec par (extIx names) e) = some (ttExt names e) := by
  obtain ⟨e', hr, hsem⟩ := extended_roundtrip prec par hp e he (extIx names)
  simp only [readTT, hr, Option.map_some, ttQE, ttExt]
  congr 1
  apply List.map_congr_left
  intro v _
  rw [hsem]; rfl

example : ∀ p ∈ [[Op.not, .and, .or], [.not, .or, .and], [.and, .not, .or], [.and, .or, .not],
    [.or, .not, .and], [.or, .and, .not]], ∀ b, (kOf p b).wf = true := by decide

/-- `a and not (b or a)`, as in the rule -/
def exExt : Ext := .and [.ref "a".toList, .not (.or [.ref "b".toList, .ref "a".toList])]
example : wfExt exExt = true := by decide
example : renderExt [.not, .and, .or] false (extIx exExt.refs) exExt =
    [.atom 0, .tand, .tnot, .lp, .atom 1, .tor, .atom 0, .rp] := by decide
example : readTT [.not, .and, .or] 2 (renderExt [.not, .and, .or] false (extIx exExt.refs) exExt)
    = some (ttExt exExt.refs exExt) :=
  extended_truth_table [.not, .and, .or] false (by decide) exExt (by decide) exExt.refs

/-- **Grouping is needed.**  `a and (b or c)` is emitted with parentheses; the same tokens without
them are read as `(a and b) or c`, which differs when only `c` holds. -/
theorem grouping_needed :
    let e : Ext := .and [.ref "a".toList, .or [.ref "b".toList, .ref "c".toList]]
    let q := renderExt [.not, .and, .or] false (extIx e.refs) e
    q = [.atom 0, .tand, .lp, .atom 1, .tor, .atom 2, .rp] ∧
    readTT [.not, .and, .or] 3 q = some (ttExt e.refs e) ∧
    readTT [.not, .and, .or] 3 (q.filter (fun t => t != .lp && t != .rp)) ≠ some (ttExt e.refs e) := by
  decide

/-- the references of an extended condition, in order of first appearance, are the referenced rules
when the `rules` list is omitted -/
theorem refs_of_extended (r : Rule) (e : Ext) (h1 : r.rules = none) (h2 : r.cond = .ext e) :
    refsOf r = e.leaves.eraseDups := by
  simp [refsOf, h1, h2, Ext.refs]

/-! ## 7. Where the code departed from the property before its repair (kept as witnesses on the model: the two
code shapes are model parameters `Cfg.corrFinTested` / `Cfg.aliasAlways`, read from the live source by the translator;
`Oblig/C10.lean` demands the repaired shapes) -/

/-- **Former finding C10a (repaired in /repo 396bf5b).**  With the old code shape (`corrFinTested = false`): a referenced *correlation* rule is embedded in finalised (and post-processed)
form even when the backend does not opt into sub-query finalisation: `convert_correlation_rule`
finalises unconditionally, only `convert_rule` tests `finalize_correlation_subqueries`. -/
theorem nested_correlation_always_finalised :
    ∃ (k : Cfg) (env : Env) (r : Rule) (out : Record), k.finalizeSub = false ∧
      convertCorr k env [] none r = .ok out ∧ out.subs.map (·.fin) = [true, false] ∧
      (spec k env [] none r).map (fun o => o.subs.map (·.fin)) = some [false, false] :=
  ⟨exCfg,
   fun r => if r = "inner".toList then some { tag := "inner".toList, queries := ["Q".toList], fields := [], isCorr := true }
            else exEnv r,
   { exRule with rules := some ["inner".toList, "id2".toList], aliases := [] }, _, rfl, rfl, by decide, by decide⟩

/-- **Former finding C10b (repaired in /repo 4061be4).**  With the old code shape (`aliasAlways = false`): without a group-by list the alias targets are not renamed although the pipeline
renames the field everywhere else (the mapping of aliases sits inside `if rule.group_by is not None`). -/
theorem aliases_unmapped_without_groupby :
    ∃ (k : Cfg) (env : Env) (stages : List Stage) (r : Rule) (out : Record),
      r.groupBy = none ∧ convertCorr k env stages none r = .ok out ∧
      out.subs.map (·.norms) ≠ ((spec k env stages none r).map (fun o => o.subs.map (·.norms))).getD [] :=
  ⟨{ exCfg with gbNoField := true }, exEnv, exStages,
   { exRule with groupBy := none, cond := .basic { op := .gte, count := 1, field := .one "ip".toList, percentile := none } },
   _, rfl, rfl, by decide⟩

end SigmaVerif.Props.C10
