import SigmaVerif.Lemmas.Valid
import SigmaVerif.Lemmas.CondParse
/-!
# C19 — reference and uniqueness validators, exclusions

Property theorems only; the auxiliary definitions (`Mentions`, `HasSel`, `CT.names`, `members`) and
all helper lemmas are in `SigmaVerif/Lemmas/Valid.lean`.

1. reference checks are exact (`dangling_detection_iff`, `mem_referenced_iff`,
   `dangling_selector_iff`, `dangling_selector_iff_selects`) and agree with the converter's
   post-processing (`referenced_agrees_with_resolve` and its companions)
2. uniqueness groups are exact, one per value, independent of the rule order
3. exclusions
4. the reference issues of a rule do not depend on the order of its detections
-/
namespace SigmaVerif.Props.C19
open SigmaVerif.Valid SigmaVerif.Cond SigmaVerif.CondSpec SigmaVerif.Lemmas.Valid

/-! ## 1. Reference checks are exact -/

/-- a detection is reported as unused iff no condition refers to it (by name or by a selector
that selects it) -/
theorem dangling_detection_iff (dets : List Str) (conds : List PT) (d : Str) :
    d ∈ danglingDetections dets conds ↔ d ∈ dets ∧ ∀ c ∈ conds, d ∉ referenced dets c := by
  simp [danglingDetections, List.mem_filter, List.mem_flatMap]

example : danglingDetections ["sel".toList, "flt".toList, "unused".toList]
    [.and [.id "sel".toList, .not (.id "flt".toList)]] = ["unused".toList] := by decide

/-- `referenced` lists exactly the names the tree mentions: an identifier node, or a detection of
the rule matched by the pattern of a selector node -/
theorem mem_referenced_iff (dets : List Str) (t : PT) (d : Str) :
    d ∈ referenced dets t ↔ Mentions dets t d :=
  ⟨mentions_of_mem dets d t, mem_of_mentions dets t d⟩

example : Mentions ["sel1".toList, "flt".toList] (.and [.sel .any "sel*".toList, .id "x".toList])
    "sel1".toList :=
  .and (p := .sel .any "sel*".toList) (by simp)
    (.sel .any _ _ (by simp [selMatches, starMatch]) (by simp))

/-- a selector pattern is reported iff it occurs in some condition of the rule and matches no
detection of the rule -/
theorem dangling_selector_iff (dets : List Str) (conds : List PT) (pat : Str) :
    pat ∈ danglingConditions dets conds ↔
      ∃ c ∈ conds, HasSel c pat ∧ ∀ d ∈ dets, selMatches pat d = false := by
  unfold danglingConditions
  rw [List.mem_eraseDups, List.mem_flatMap]
  constructor
  · rintro ⟨c, hc, h⟩
    exact ⟨c, hc, (mem_danglingSels_iff dets c pat).1 h⟩
  · rintro ⟨c, hc, h⟩
    exact ⟨c, hc, (mem_danglingSels_iff dets c pat).2 h⟩

example : danglingConditions ["sel1".toList, "flt".toList]
    [.and [.sel .any "sel*".toList, .not (.sel .all "filter_*".toList)]]
    = ["filter_*".toList] := by
  simp [danglingConditions, danglingSels, danglingSelsL, selMatches, starMatch, List.eraseDups_cons]

/-- the same with the specification's reading of a selector pattern (`selects`, C02): for detection
names without a line break, a selector is reported iff it selects no detection -/
theorem dangling_selector_iff_selects (dets : List Str) (hnl : ∀ d ∈ dets, '\n' ∉ d)
    (conds : List PT) (pat : Str) :
    pat ∈ danglingConditions dets conds ↔
      ∃ c ∈ conds, HasSel c pat ∧ ∀ d ∈ dets, selects pat d = false := by
  rw [dangling_selector_iff]
  constructor
  · rintro ⟨c, hc, hs, h⟩
    exact ⟨c, hc, hs, fun d hd =>
      by rw [← Lemmas.CondParse.selMatches_eq_selects pat d (hnl d hd)]; exact h d hd⟩
  · rintro ⟨c, hc, hs, h⟩
    exact ⟨c, hc, hs, fun d hd =>
      by rw [Lemmas.CondParse.selMatches_eq_selects pat d (hnl d hd)]; exact h d hd⟩

example : "nope*".toList ∈ danglingConditions ["sel".toList] [.sel .any "nope*".toList] :=
  (dangling_selector_iff_selects _ (by decide) _ _).2
    ⟨.sel .any "nope*".toList, by simp, .sel .any _, by simp [selects, globStar]⟩

/-- Agreement with the converter, by construction.  When post-processing succeeds with a tree `c`,
the detection names occurring in `c` are *literally* the list `referenced` computes (same names,
same order, same multiplicities).  Stronger than the two inclusions; needs no `Nodup`. -/
theorem referenced_agrees_with_resolve (dets : List Str) (t : PT) (c : CT)
    (h : resolve dets t = .ok (some c)) : CT.names c = referenced dets t :=
  resolve_names dets t (some c) h

example : resolve ["sel1".toList, "sel2".toList, "flt".toList]
      (.and [.sel .any "sel*".toList, .not (.id "flt".toList)])
    = .ok (some (.and [.or [.det "sel1".toList, .det "sel2".toList], .not (.det "flt".toList)])) := by
  simp [resolve, resolveList, selMatches, starMatch]

/-- when the whole condition vanishes (only selectors that match nothing), nothing is referenced -/
theorem referenced_of_resolve_none (dets : List Str) (t : PT)
    (h : resolve dets t = .ok none) : referenced dets t = [] :=
  (resolve_names dets t none h).symm

example : resolve ["sel".toList] (.sel .any "nope*".toList) = .ok none := by
  simp [resolve, selMatches, starMatch]

/-- post-processing succeeds iff everything the validator counts as referenced is a detection of
the rule; otherwise it fails on a referenced name that is not defined -/
theorem resolve_ok_iff (dets : List Str) (t : PT) :
    (∃ oc, resolve dets t = .ok oc) ↔ ∀ d ∈ referenced dets t, d ∈ dets := by
  constructor
  · rintro ⟨oc, h⟩
    exact resolve_ok_subset dets t oc h
  · intro hall
    cases hr : resolve dets t with
    | ok oc => exact ⟨oc, rfl⟩
    | undefinedDet n =>
      have := resolve_undefined dets n t hr
      exact absurd (hall n this.1) this.2

example : ¬ ∃ oc, resolve ["sel".toList] (.and [.id "sel".toList, .id "typo".toList]) = .ok oc := by
  rw [resolve_ok_iff]
  intro h
  exact absurd (h "typo".toList (by simp [referenced, referencedL])) (by decide)

theorem resolve_undefined_referenced (dets : List Str) (t : PT) (n : Str)
    (h : resolve dets t = .undefinedDet n) : n ∈ referenced dets t ∧ n ∉ dets :=
  resolve_undefined dets n t h

example : resolve ["sel".toList] (.not (.id "typo".toList)) = .undefinedDet "typo".toList := by
  simp [resolve]

/-- the point of the agreement: for a rule whose conditions all post-process to trees (`conv t` is
the tree of condition `t`), a detection is reported as unused iff it occurs in none of the condition
trees the converter uses -/
theorem dangling_detection_iff_names (dets : List Str) (conds : List PT) (conv : PT → CT)
    (hres : ∀ t ∈ conds, resolve dets t = .ok (some (conv t))) (d : Str) :
    d ∈ danglingDetections dets conds ↔ d ∈ dets ∧ ∀ t ∈ conds, d ∉ CT.names (conv t) := by
  rw [dangling_detection_iff]
  refine and_congr_right (fun _ => forall_congr' (fun t => ?_))
  constructor
  · intro hh ht; rw [referenced_agrees_with_resolve dets t _ (hres t ht)]; exact hh ht
  · intro hh ht; rw [← referenced_agrees_with_resolve dets t _ (hres t ht)]; exact hh ht

example : ∀ t ∈ [PT.id "sel".toList],
    resolve ["sel".toList, "unused".toList] t = .ok (some ((fun _ => CT.det "sel".toList) t)) := by
  simp [resolve]

/-! ## 2. Uniqueness groups are exact -/

/-- the group of a value names exactly the rules that carry it, and only values carried by at least
two rules are reported -/
theorem groups_exact (keys : List (Option Nat)) (k : Nat) (is : List Nat) :
    (k, is) ∈ groups keys ↔
      is = (List.range keys.length).filter (fun i => keys.getD i none == some k) ∧
      2 ≤ is.length :=
  mem_groups_iff keys k is

example : groups [some 7, none, some 3, some 7, some 3, some 7, some 1]
    = [(7, [0, 3, 5]), (3, [2, 4])] := by decide

/-- one issue per value -/
theorem groups_keys_nodup (keys : List (Option Nat)) : ((groups keys).map (·.1)).Nodup :=
  groups_keys_nodup_aux keys

example : ((groups [some 7, some 7, some 7, some 7]).map (·.1)) = [7] := by decide

/-- the size of a reported group is the number of rules carrying the value -/
theorem groups_size (keys : List (Option Nat)) (k : Nat) (is : List Nat)
    (h : (k, is) ∈ groups keys) : is.length = keys.count (some k) := by
  obtain ⟨his, _⟩ := (groups_exact keys k is).1 h
  subst his
  exact members_length keys k

example : (7, [0, 3, 5]) ∈ groups [some 7, none, some 3, some 7, some 3, some 7] := by decide

/-- a value is reported iff at least two rules carry it -/
theorem groups_reported_iff (keys : List (Option Nat)) (k : Nat) :
    (groups keys).any (·.1 == k) = decide (2 ≤ keys.count (some k)) :=
  groups_any keys k

example : (groups [some 7, none, none, some 3, some 7]).any (·.1 == 3) = false := by decide

/-- which values are reported, and how many rules each group has, does not depend on the order of
the rules -/
theorem groups_perm (keys keys' : List (Option Nat)) (h : keys.Perm keys') (k : Nat) :
    ((groups keys).any (·.1 == k)) = ((groups keys').any (·.1 == k)) ∧
    ((groups keys).find? (·.1 == k)).map (·.2.length)
      = ((groups keys').find? (·.1 == k)).map (·.2.length) := by
  have hc : keys.count (some k) = keys'.count (some k) := h.count_eq _
  refine ⟨by rw [groups_any, groups_any, hc], ?_⟩
  rw [groups_find, groups_find, hc]
  by_cases h2 : 2 ≤ keys'.count (some k)
  · simp [h2, members_length, hc]
  · simp [h2]

example : groups [some 3, some 7, some 7, some 3, some 7] = [(3, [0, 3]), (7, [1, 2, 4])] ∧
    groups [some 7, some 3, some 7, some 3, some 7] = [(7, [0, 2, 4]), (3, [1, 3])] := by decide

/-! ## 3. Exclusions -/

theorem runs_iff (excl : List (Option Nat × Nat)) (ruleId : Option Nat) (v : Nat) :
    runs excl ruleId v = true ↔ (ruleId, v) ∉ excl := by
  simp [runs]

example : runs [(some 4, 1)] (some 4) 1 = false ∧ runs [(some 4, 1)] (some 4) 2 = true ∧
    runs [(some 4, 1)] none 1 = true := by decide

/-- excluding `(r, v)` switches off exactly validator `v` on the rules with id `r` -/
theorem exclusion_exact (excl : List (Option Nat × Nat)) (r : Option Nat) (v : Nat) :
    ∀ r' v', runs ((r, v) :: excl) r' v' = (runs excl r' v' && !(r' == r && v' == v)) := by
  intro r' v'
  simp only [runs, List.contains_cons, Bool.not_or]
  rw [Bool.and_comm]
  rfl

example : runs ((some 4, 1) :: []) (some 4) 1 = false ∧ runs ((some 4, 1) :: []) (some 5) 1 = true :=
  by decide

/-! ## 4. The reference issues of a rule do not depend on the order of its detections -/

theorem referenced_perm (dets dets' : List Str) (t : PT) (h : dets.Perm dets') :
    (referenced dets t).Perm (referenced dets' t) :=
  referenced_perm_aux dets dets' h t

/-- `Perm` cannot be improved to equality: a selector lists its detections in the rule's order -/
example : referenced ["b".toList, "a".toList] (.sel .any "*".toList) = ["b".toList, "a".toList] ∧
    referenced ["a".toList, "b".toList] (.sel .any "*".toList) = ["a".toList, "b".toList] := by
  simp [referenced, selMatches, starMatch]

/-- unused detections: the same detections are reported, in the order the rule lists them -/
theorem dangling_perm (dets dets' : List Str) (conds : List PT) (h : dets.Perm dets') :
    (danglingDetections dets conds).Perm (danglingDetections dets' conds) := by
  unfold danglingDetections
  have hcongr : dets'.filter (fun d => !(conds.flatMap (referenced dets)).contains d)
      = dets'.filter (fun d => !(conds.flatMap (referenced dets')).contains d) := by
    apply List.filter_congr
    intro d _
    congr 1
    rw [Bool.eq_iff_iff, List.contains_iff_mem, List.contains_iff_mem, List.mem_flatMap,
      List.mem_flatMap]
    exact ⟨fun ⟨c, hc, hd⟩ => ⟨c, hc, (referenced_perm dets dets' c h).mem_iff.1 hd⟩,
      fun ⟨c, hc, hd⟩ => ⟨c, hc, (referenced_perm dets dets' c h).mem_iff.2 hd⟩⟩
  rw [← hcongr]
  exact h.filter _

example : danglingDetections ["u".toList, "a".toList] [.id "a".toList] = ["u".toList] ∧
    danglingDetections ["a".toList, "u".toList] [.id "a".toList] = ["u".toList] := by decide

/-- selectors that match nothing: the very same list is reported -/
theorem dangling_conditions_perm (dets dets' : List Str) (conds : List PT) (h : dets.Perm dets') :
    danglingConditions dets conds = danglingConditions dets' conds := by
  unfold danglingConditions
  have hf : danglingSels dets = danglingSels dets' :=
    funext (danglingSels_perm_aux dets dets' h)
  rw [hf]

example : danglingConditions ["b".toList, "a".toList] [.sel .any "c*".toList]
    = danglingConditions ["a".toList, "b".toList] [.sel .any "c*".toList] :=
  dangling_conditions_perm _ _ _ (by decide)

end SigmaVerif.Props.C19
