import SigmaVerif.Model.Valid
namespace SigmaVerif.Props.C19
open SigmaVerif.Valid SigmaVerif.Cond

/-- a detection is reported as unused iff no condition refers to it (by name or by a selector
that selects it) -/
theorem dangling_detection_iff (dets : List Str) (conds : List PT) (d : Str) :
    d ∈ danglingDetections dets conds ↔ d ∈ dets ∧ ∀ c ∈ conds, d ∉ referenced dets c := by
  simp [danglingDetections, List.mem_filter, List.mem_flatMap]

end SigmaVerif.Props.C19
