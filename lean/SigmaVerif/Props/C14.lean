import SigmaVerif.Model.Pipe
namespace SigmaVerif.Props.C14
open SigmaVerif.Pipe

theorem add_assoc (a b c : P) : (a.add b).add c = a.add (b.add c) := by
  simp [P.add, List.append_assoc]

end SigmaVerif.Props.C14
