import SigmaVerif.Lemmas.Pipe
/-!
# C14 — pipelines compose in a defined order
-/
namespace SigmaVerif.Props.C14
open SigmaVerif.Pipe

/-! ## 1. `+` is associative with the empty pipeline as identity -/

theorem add_assoc (a b c : P) : (a.add b).add c = a.add (b.add c) := by
  simp [P.add, List.append_assoc]

theorem add_empty_left (a : P) : P.empty.add a = a := by
  cases a; simp [P.add, P.empty]

theorem add_empty_right (a : P) : a.add P.empty = a := by
  cases a; simp [P.add, P.empty]

/-! ## 2. variables of the later pipeline override those of the earlier one -/

theorem vars_right_biased (a b : P) (k : Nat) :
    lookupVar (a.add b).vars k = (lookupVar b.vars k).orElse (fun _ => lookupVar a.vars k) := by
  rw [Option.orElse_eq_or]
  exact lookupVar_append a.vars b.vars k

/-! ## 3. the resolver: stable sort by (priority, name) -/

theorem sortSpecs_perm (l : List Spec) : (sortSpecs l).Perm l := sortSpecs_perm' l

theorem sortSpecs_sorted (l : List Spec) :
    (sortSpecs l).Pairwise (fun a b => Spec.le a b = true) := sortSpecs_sorted' l

/-- stability: the specifiers with one and the same (priority, name) keep their input order -/
theorem sortSpecs_stable (l : List Spec) (pr nm : Nat) :
    (sortSpecs l).filter (fun s => s.priority == pr && s.name == nm) =
      l.filter (fun s => s.priority == pr && s.name == nm) :=
  sortSpecs_filter_key pr nm l

/-- naming the same pipelines in any order (also: some of them several times) yields the same
combined pipeline, provided one (priority, name) denotes one pipeline -/
theorem resolve_perm (l1 l2 : List Spec) (hp : l1.Perm l2)
    (hkey : ∀ a ∈ l1, ∀ b ∈ l1, a.priority = b.priority → a.name = b.name → a = b) :
    resolve l1 = resolve l2 := by
  rw [resolve, resolve, sortSpecs_eq_of_perm l1 l2 hp hkey]

/-- non-vacuity of `resolve_perm` (a duplicated specifier included) … -/
example :
    let e : P := ⟨[], [], [], []⟩
    let l1 : List Spec := [⟨20, 1, e⟩, ⟨10, 2, e⟩, ⟨10, 2, e⟩, ⟨10, 1, ⟨[7], [], [], []⟩⟩]
    (∀ a ∈ l1, ∀ b ∈ l1, a.priority = b.priority → a.name = b.name → a = b) ∧
      (resolve l1).items = [7] := by decide

/-- … and the hypothesis cannot be dropped: two different pipelines under the same key are summed
in the order in which they were named -/
theorem resolve_perm_needs_key :
    ∃ l1 l2 : List Spec, l1.Perm l2 ∧ resolve l1 ≠ resolve l2 :=
  ⟨[⟨0, 0, ⟨[1], [], [], []⟩⟩, ⟨0, 0, ⟨[2], [], [], []⟩⟩],
   [⟨0, 0, ⟨[2], [], [], []⟩⟩, ⟨0, 0, ⟨[1], [], [], []⟩⟩],
   List.Perm.swap .., by decide⟩

/-- `resolve_perm` for an arbitrary sort key (a list of key components, compared like a Python
tuple): the combined pipeline does not depend on the order in which the pipelines are named,
provided the key identifies the pipeline among those named.  `resolve_perm` is the instance
`ks = stdKey = [priority, spec]` (`resolveBy_stdKey`); `Oblig/C14.lean` instantiates this at the key
regenerated from `ProcessingPipelineResolver.resolve`. -/
theorem resolveBy_perm (ks : List KeyComp) (l1 l2 : List Spec) (hp : l1.Perm l2)
    (hkey : ∀ a ∈ l1, ∀ b ∈ l1, (∀ k ∈ ks, k.get a = k.get b) → a = b) :
    resolveBy ks l1 = resolveBy ks l2 := by
  rw [resolveBy, resolveBy, sortSpecsBy_eq_of_perm ks l1 l2 hp hkey]

theorem resolveBy_stdKey (l : List Spec) : resolveBy stdKey l = resolve l := resolveBy_std l

/-- the old statement as a corollary of the generalised one -/
theorem resolve_perm_of_resolveBy (l1 l2 : List Spec) (hp : l1.Perm l2)
    (hkey : ∀ a ∈ l1, ∀ b ∈ l1, a.priority = b.priority → a.name = b.name → a = b) :
    resolve l1 = resolve l2 := by
  rw [← resolveBy_stdKey, ← resolveBy_stdKey]
  exact resolveBy_perm stdKey l1 l2 hp
    (fun a ha b hb h => hkey a ha b hb (h .priority (by decide)) (h .spec (by decide)))

/-- the key matters: with the priority alone as key, two pipelines of equal priority are summed in
the order in which they were named -/
example : resolveBy [.priority] [⟨0, 1, ⟨[1], [], [], []⟩⟩, ⟨0, 0, ⟨[2], [], [], []⟩⟩] ≠
    resolveBy [.priority] [⟨0, 0, ⟨[2], [], [], []⟩⟩, ⟨0, 1, ⟨[1], [], [], []⟩⟩] := by decide

/-! ## 4. the resolved pipeline lists the pipelines' parts in sorted order -/

theorem resolve_order (l : List Spec) :
    (resolve l).items = (sortSpecs l).flatMap (·.pipe.items) ∧
    (resolve l).post = (sortSpecs l).flatMap (·.pipe.post) ∧
    (resolve l).fins = (sortSpecs l).flatMap (·.pipe.fins) ∧
    (resolve l).vars = (sortSpecs l).flatMap (·.pipe.vars) := by
  rw [resolve_eq]
  simp [sumP, List.flatMap_map]

/-! ## 4a. priority dominates the order of naming

If every pipeline of one group has a strictly smaller priority than every pipeline of another
group, the combined pipeline is the first group's, then the second group's — whichever group was
named first, with no assumption on names or on repeated keys. -/

theorem insertSorted_append_left (x : Spec) (A B : List Spec) (h : ∀ b ∈ B, Spec.le x b = true) :
    insertSorted x (A ++ B) = insertSorted x A ++ B := by
  induction A with
  | nil =>
    cases B with
    | nil => rfl
    | cons b B => simp [insertSorted, h b (by simp)]
  | cons y A ih =>
    simp only [List.cons_append, insertSorted]
    split
    · rw [ih]; rfl
    · rfl

theorem insertSorted_append_right (y : Spec) (A B : List Spec) (h : ∀ a ∈ A, Spec.le y a = false) :
    insertSorted y (A ++ B) = A ++ insertSorted y B := by
  induction A with
  | nil => rfl
  | cons a A ih =>
    simp only [List.cons_append, insertSorted, h a (by simp)]
    rw [ih (fun a' ha' => h a' (by simp [ha']))]
    rfl

theorem sortSpecs_append_of_lt (l1 l2 : List Spec)
    (hlt : ∀ a ∈ l1, ∀ b ∈ l2, a.priority < b.priority) :
    sortSpecs (l1 ++ l2) = sortSpecs l1 ++ sortSpecs l2
    ∧ sortSpecs (l2 ++ l1) = sortSpecs l1 ++ sortSpecs l2 := by
  constructor
  · induction l1 with
    | nil => rfl
    | cons x l1 ih =>
      simp only [List.cons_append, sortSpecs]
      rw [ih (fun a ha b hb => hlt a (by simp [ha]) b hb)]
      apply insertSorted_append_left
      intro b hb
      have hb' := (sortSpecs_perm' l2).mem_iff.1 hb
      have := hlt x (by simp) b hb'
      simp [Spec.le, this]
  · induction l2 with
    | nil => simp [sortSpecs]
    | cons y l2 ih =>
      simp only [List.cons_append, sortSpecs]
      rw [ih (fun a ha b hb => hlt a ha b (by simp [hb]))]
      apply insertSorted_append_right
      intro a ha
      have ha' := (sortSpecs_perm' l1).mem_iff.1 ha
      have := hlt a ha' y (by simp)
      simp only [Spec.le, Bool.or_eq_false_iff, Bool.and_eq_false_iff, decide_eq_false_iff_not,
        beq_eq_false_iff_ne, ne_eq]
      exact ⟨by omega, Or.inl (by omega)⟩

theorem sumP_append (a b : List P) : sumP (a ++ b) = (sumP a).add (sumP b) := by
  simp [sumP, P.add]

theorem resolve_priority_dominates (l1 l2 : List Spec)
    (hlt : ∀ a ∈ l1, ∀ b ∈ l2, a.priority < b.priority) :
    resolve (l1 ++ l2) = (resolve l1).add (resolve l2)
    ∧ resolve (l2 ++ l1) = (resolve l1).add (resolve l2) := by
  obtain ⟨h1, h2⟩ := sortSpecs_append_of_lt l1 l2 hlt
  simp only [resolve_eq, h1, h2, List.map_append, sumP_append, and_self]

/-- non-vacuity: the priority-10 pipeline comes first although it was named last -/
example :
    let a : Spec := ⟨10, 5, ⟨[1], [], [], []⟩⟩
    let b : Spec := ⟨20, 0, ⟨[2], [], [], []⟩⟩
    (∀ x ∈ [a], ∀ y ∈ [b], x.priority < y.priority) ∧ (resolve ([b] ++ [a])).items = [1, 2] := by
  decide

/-! ## 5. backend pipeline, then the user's, then the output format's -/

theorem backend_order (b u f : P) :
    (initPipeline b u f).items = b.items ++ u.items ++ f.items ∧
    (initPipeline b u f).post = b.post ++ u.post ++ f.post ∧
    (initPipeline b u f).fins = b.fins ++ u.fins ++ f.fins := ⟨rfl, rfl, rfl⟩

/-- `backend_order` for an arbitrary order of the operands of `+` in `init_processing_pipeline`;
`backend_order` is the instance `order = stdInitOrder` (`initPipelineBy_stdOrder`) -/
theorem initBy_order (order : List Slot) (b u f : P) :
    (initPipelineBy order b u f).items = order.flatMap (fun s => (s.pick b u f).items) ∧
    (initPipelineBy order b u f).post = order.flatMap (fun s => (s.pick b u f).post) ∧
    (initPipelineBy order b u f).fins = order.flatMap (fun s => (s.pick b u f).fins) ∧
    (initPipelineBy order b u f).vars = order.flatMap (fun s => (s.pick b u f).vars) := by
  rw [initPipelineBy_eq]
  simp [sumP, List.flatMap_map]

theorem initPipelineBy_stdOrder (b u f : P) :
    initPipelineBy stdInitOrder b u f = initPipeline b u f := initPipelineBy_std b u f

/-- `+` with the per-argument choices of `__add__` as data; `P.add` is the instance `AddShape.std` -/
theorem addBy_stdShape : P.addBy AddShape.std = P.add := addBy_std

theorem init_vars (b u f : P) (k : Nat) :
    lookupVar (initPipeline b u f).vars k =
      match lookupVar f.vars k with
      | some v => some v
      | none => match lookupVar u.vars k with
        | some v => some v
        | none => lookupVar b.vars k := by
  show lookupVar ((b.vars ++ u.vars) ++ f.vars) k = _
  rw [lookupVar_append, lookupVar_append]
  cases lookupVar f.vars k <;> cases lookupVar u.vars k <;> simp

/-! ## 6. stage order of a conversion -/

/-- the trace is one block per rule (in rule order) followed by the finalizers; a rule's block is
its transformations in item order followed, per condition, by the conversion and the
post-processing items in item order -/
theorem trace_structure (p : P) (rules : List (Nat × Nat)) :
    trace p rules = rules.flatMap (ruleBlock p) ++ p.fins.map Ev.finalize ∧
    ∀ r, ruleBlock p r =
      p.items.map (fun i => Ev.transform i r.1) ++
        (List.range r.2).flatMap (fun c =>
          Ev.convert r.1 c :: p.post.map (fun q => Ev.postprocess q r.1 c)) :=
  ⟨rfl, fun _ => rfl⟩

/-- every event of a rule's block belongs to that rule, so with distinct rule ids the events of
a rule are exactly its block: everything before and after belongs to other rules or is a
finalizer -/
theorem trace_rule_block (p : P) (rs1 rs2 : List (Nat × Nat)) (r : Nat × Nat)
    (hr : ∀ x ∈ rs1 ++ rs2, x.1 ≠ r.1) :
    trace p (rs1 ++ r :: rs2) =
      rs1.flatMap (ruleBlock p) ++ ruleBlock p r ++
        (rs2.flatMap (ruleBlock p) ++ p.fins.map Ev.finalize) ∧
    (∀ e ∈ ruleBlock p r, e.rule? = some r.1) ∧
    (∀ e ∈ rs1.flatMap (ruleBlock p), e.rule? ≠ some r.1) ∧
    (∀ e ∈ rs2.flatMap (ruleBlock p) ++ p.fins.map Ev.finalize, e.rule? ≠ some r.1) := by
  refine ⟨by simp [trace_eq, List.append_assoc], ruleBlock_rule p r, ?_, ?_⟩
  · intro e he
    obtain ⟨x, hx, hex⟩ := List.mem_flatMap.1 he
    rw [ruleBlock_rule p x e hex]
    intro h
    exact hr x (List.mem_append_left _ hx) (Option.some.inj h)
  · intro e he
    rcases List.mem_append.1 he with he | he
    · obtain ⟨x, hx, hex⟩ := List.mem_flatMap.1 he
      rw [ruleBlock_rule p x e hex]
      intro h
      exact hr x (List.mem_append_right _ hx) (Option.some.inj h)
    · obtain ⟨q, _, rfl⟩ := List.mem_map.1 he
      simp [Ev.rule?]

/-- all transformations of a rule precede all its conversions and post-processing events -/
theorem trace_transform_before_query (p : P) (rules : List (Nat × Nat)) (r : Nat)
    (hnd : (rules.map (·.1)).Nodup) :
    (trace p rules).Pairwise
      (fun e1 e2 => ¬ (e1.isQueryOfRule r = true ∧ e2.isTransformOfRule r = true)) := by
  rw [trace_eq, List.pairwise_append]
  refine ⟨?_, ?_, ?_⟩
  · rw [List.pairwise_flatMap]
    refine ⟨fun x _ => ruleBlock_pairwise p x r, ?_⟩
    rw [List.Nodup, List.pairwise_map] at hnd
    refine hnd.imp ?_
    intro x y hxy e1 h1 e2 h2 ⟨hq, ht⟩
    have a1 := ruleBlock_rule p x e1 h1
    have a2 := ruleBlock_rule p y e2 h2
    rw [rule?_of_isQueryOfRule hq] at a1
    rw [rule?_of_isTransformOfRule ht] at a2
    exact hxy ((Option.some.inj a1).symm.trans (Option.some.inj a2))
  · apply List.pairwise_of_forall_mem_list
    intro e1 _ e2 h2
    obtain ⟨q, _, rfl⟩ := List.mem_map.1 h2
    simp [Ev.isTransformOfRule]
  · intro e1 _ e2 h2
    obtain ⟨q, _, rfl⟩ := List.mem_map.1 h2
    simp [Ev.isTransformOfRule]

/-- wherever a conversion occurs in the trace it is immediately followed by the post-processing
events of exactly that rule and condition, for all post-processing items in item order, and by
no further post-processing event -/
theorem convert_then_postprocess (p : P) (rules : List (Nat × Nat)) (xs ys : List Ev) (r c : Nat)
    (h : trace p rules = xs ++ Ev.convert r c :: ys) :
    ∃ zs, ys = p.post.map (fun q => Ev.postprocess q r c) ++ zs ∧
      ∀ e, zs.head? = some e → e.isPostprocess = false := by
  obtain ⟨zs, hz, hz'⟩ := (ConvOK.trace p rules).2 [] (fun e h => by simp at h) xs r c ys h
  exact ⟨zs, by simpa [posts] using hz, hz'⟩

/-- finalizers run once each, in order, after everything else -/
theorem trace_finalize_last (p : P) (rules : List (Nat × Nat)) :
    (trace p rules).filter Ev.isFinalize = p.fins.map Ev.finalize ∧
    p.fins.map Ev.finalize <:+ trace p rules ∧
    ∀ e ∈ rules.flatMap (ruleBlock p), e.isFinalize = false := by
  have h3 : ∀ e ∈ rules.flatMap (ruleBlock p), e.isFinalize = false := by
    intro e he
    obtain ⟨x, _, hex⟩ := List.mem_flatMap.1 he
    have := ruleBlock_rule p x e hex
    cases e <;> simp_all [Ev.rule?, Ev.isFinalize]
  refine ⟨?_, ⟨_, (trace_eq p rules).symm⟩, h3⟩
  rw [trace_eq, List.filter_append]
  have h1 : (rules.flatMap (ruleBlock p)).filter Ev.isFinalize = [] := by
    rw [List.filter_eq_nil_iff]
    intro e he; simp [h3 e he]
  have h2 : (p.fins.map Ev.finalize).filter Ev.isFinalize = p.fins.map Ev.finalize := by
    rw [List.filter_eq_self]
    intro e he
    obtain ⟨q, _, rfl⟩ := List.mem_map.1 he
    rfl
  rw [h1, h2, List.nil_append]

/-- non-vacuity of the stage-order theorems: a concrete trace -/
example :
    trace ⟨[1, 2], [8, 9], [5], []⟩ [(0, 2), (3, 1)] =
      [.transform 1 0, .transform 2 0,
       .convert 0 0, .postprocess 8 0 0, .postprocess 9 0 0,
       .convert 0 1, .postprocess 8 0 1, .postprocess 9 0 1,
       .transform 1 3, .transform 2 3,
       .convert 3 0, .postprocess 8 3 0, .postprocess 9 3 0,
       .finalize 5] ∧
    ([(0, 2), (3, 1)].map (·.1)).Nodup := by decide

/-! ## 7. converting with `a + b` -/

theorem trace_add (a b : P) (rules : List (Nat × Nat)) :
    trace (a.add b) rules =
      trace ⟨a.items ++ b.items, a.post ++ b.post, a.fins ++ b.fins, a.vars ++ b.vars⟩ rules := rfl

/-- the transformations applied to rule `r`: `a`'s items then `b`'s, once for every rule with
id `r` in the input … -/
theorem trace_add_transforms (a b : P) (rules : List (Nat × Nat)) (r : Nat) :
    (trace (a.add b) rules).filter (Ev.isTransformOfRule r) =
      (rules.filter (fun x => x.1 == r)).flatMap
        (fun _ => (a.items ++ b.items).map (fun i => Ev.transform i r)) :=
  trace_filter_transformOfRule (a.add b) rules r

/-- … in particular exactly once if the rule id occurs once -/
theorem trace_add_transforms_once (a b : P) (rules : List (Nat × Nat)) (r : Nat)
    (h1 : rules.countP (fun x => x.1 == r) = 1) :
    (trace (a.add b) rules).filter (Ev.isTransformOfRule r) =
      (a.items ++ b.items).map (fun i => Ev.transform i r) := by
  rw [trace_add_transforms]
  rw [List.countP_eq_length_filter] at h1
  generalize rules.filter (fun x => x.1 == r) = fl at h1
  match fl, h1 with
  | [x], _ => simp

example : [(4, 1), (5, 2)].countP (fun x => x.1 == 5) = 1 := by decide

end SigmaVerif.Props.C14
