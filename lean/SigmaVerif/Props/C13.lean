import SigmaVerif.Model.Gate
namespace SigmaVerif.Props.C13
open SigmaVerif.Gate

/-- an item without conditions always applies — whatever the linking and negation flags -/
theorem no_conditions_always (g : Group) (h : g.n = 0) (r : Nat → Bool) : g.eval r = true := by
  simp [Group.eval, h]

example : ({ n := 0, link := .all, neg := true } : Group).eval (fun _ => false) = true := by decide

/-- `and` linking: all conditions hold -/
theorem all_spec (n : Nat) (hn : 0 < n) (r : Nat → Bool) :
    ({ n := n, link := .all, neg := false } : Group).eval r = true ↔ ∀ i, i < n → r i = true := by
  have : (n == 0) = false := by simp; omega
  simp [Group.eval, Group.raw, this, List.all_eq_true]

/-- `or` linking: some condition holds -/
theorem any_spec (n : Nat) (hn : 0 < n) (r : Nat → Bool) :
    ({ n := n, link := .any, neg := false } : Group).eval r = true ↔ ∃ i, i < n ∧ r i = true := by
  have : (n == 0) = false := by simp; omega
  simp [Group.eval, Group.raw, this, List.any_eq_true]

/-- the negation flag flips the outcome of a non-empty group, for every linking -/
theorem negation_flips (g : Group) (hn : 0 < g.n) (r : Nat → Bool) :
    ({ g with neg := !g.neg } : Group).eval r = !(g.eval r) := by
  have : (g.n == 0) = false := by simp; omega
  simp only [Group.eval, this, Bool.false_or, Group.raw]
  cases g.neg <;> cases h : (match g.link with
    | .all => (List.range g.n).all r | .any => (List.range g.n).any r | .expr e => e.eval r) <;> simp_all

example : ({ n := 2, link := .any, neg := true } : Group).eval (fun i => i == 1) = false := by decide

/-- a condition expression means what its boolean structure says -/
theorem expr_spec (e : BX) (n : Nat) (hn : 0 < n) (r : Nat → Bool) :
    ({ n := n, link := .expr e, neg := false } : Group).eval r = e.eval r := by
  have : (n == 0) = false := by simp; omega
  simp [Group.eval, Group.raw, this]

theorem expr_demorgan (a b : BX) (r : Nat → Bool) :
    (BX.not (.and a b)).eval r = (BX.or (.not a) (.not b)).eval r := by
  simp [BX.eval, Bool.not_and]

/-- an item acts on a detection item iff all three groups hold -/
theorem onDetItem_iff (it : Item) (rr dr fr : Nat → Bool) :
    it.onDetItem rr dr fr = true ↔ it.rule.eval rr = true ∧ it.det.eval dr = true ∧ it.field.eval fr = true := by
  simp [Item.onDetItem, Bool.and_eq_true, and_assoc]

/-- conditions of item `k` observe exactly the items applied before it: the outcome of the first
`k` items does not depend on what comes after, nor on how later items' conditions evaluate -/
theorem run_prefix (items more : List Item) (conds : Nat → List Nat → Nat → Bool) (k : Nat) (applied : List Nat) :
    (run (items ++ more) conds k applied).take items.length = run items conds k applied := by
  induction items generalizing k applied with
  | nil => simp [run]
  | cons it rest ih => simp [run, ih]

theorem run_length (items : List Item) (conds : Nat → List Nat → Nat → Bool) (k : Nat) (applied : List Nat) :
    (run items conds k applied).length = items.length := by
  induction items generalizing k applied with
  | nil => simp [run]
  | cons it rest ih => simp [run, ih]

end SigmaVerif.Props.C13
