import SigmaVerif.Model.Gate
import SigmaVerif.Lemmas.C13Run
import SigmaVerif.Lemmas.C13Doc
/-!
# C13 — a pipeline item acts exactly where its conditions hold

Part 1 (`Gate`): how the truth values of individual conditions are combined (linking, negation,
expressions, the three levels, "no conditions ⇒ always", what later items observe).
Part 2 (`PipeConds`): the documented meaning of every built-in condition (`Spec/PipeConds.lean`), the
documented effect of the pre-items on what later conditions see, and the end-to-end statements
`spec_flags_eq_gate_run` / `probe_acts_iff` tying the two together.  The regular-expression match is
a parameter `m` of every statement (all theorems hold for every `m`).
-/
namespace SigmaVerif.Props.C13
open SigmaVerif.Gate

/-- an item without conditions always applies — whatever the linking and negation flags -/
theorem no_conditions_always (g : Group) (h : g.n = 0) (r : Nat → Bool) : g.eval r = true := by
  simp [Group.eval, h]

example : ({ n := 0, link := .all, neg := true } : Group).eval (fun _ => false) = true := by decide

/-- `and` linking: all conditions hold -/
theorem all_spec (n : Nat) (hn : 0 < n) (r : Nat → Bool) :
    ({ n := n, link := .all, neg := false } : Group).eval r = true ↔ ∀ i, i < n → r i = true := by
  have : (n == 0) = false := by simp; omega
  simp [Group.eval, Group.raw, this, List.all_eq_true]

/-- `or` linking: some condition holds -/
theorem any_spec (n : Nat) (hn : 0 < n) (r : Nat → Bool) :
    ({ n := n, link := .any, neg := false } : Group).eval r = true ↔ ∃ i, i < n ∧ r i = true := by
  have : (n == 0) = false := by simp; omega
  simp [Group.eval, Group.raw, this, List.any_eq_true]

/-- the negation flag flips the outcome of a non-empty group, for every linking -/
theorem negation_flips (g : Group) (hn : 0 < g.n) (r : Nat → Bool) :
    ({ g with neg := !g.neg } : Group).eval r = !(g.eval r) := by
  have : (g.n == 0) = false := by simp; omega
  simp only [Group.eval, this, Bool.false_or, Group.raw]
  cases g.neg <;> cases h : (match g.link with
    | .all => (List.range g.n).all r | .any => (List.range g.n).any r | .expr e => e.eval r) <;> simp_all

example : ({ n := 2, link := .any, neg := true } : Group).eval (fun i => i == 1) = false := by decide

/-- a condition expression means what its boolean structure says -/
theorem expr_spec (e : BX) (n : Nat) (hn : 0 < n) (r : Nat → Bool) :
    ({ n := n, link := .expr e, neg := false } : Group).eval r = e.eval r := by
  have : (n == 0) = false := by simp; omega
  simp [Group.eval, Group.raw, this]

theorem expr_demorgan (a b : BX) (r : Nat → Bool) :
    (BX.not (.and a b)).eval r = (BX.or (.not a) (.not b)).eval r := by
  simp [BX.eval, Bool.not_and]

/-- an item acts on a detection item iff all three groups hold -/
theorem onDetItem_iff (it : Item) (rr dr fr : Nat → Bool) :
    it.onDetItem rr dr fr = true ↔ it.rule.eval rr = true ∧ it.det.eval dr = true ∧ it.field.eval fr = true := by
  simp [Item.onDetItem, Bool.and_eq_true, and_assoc]

/-- conditions of item `k` observe exactly the items applied before it: the outcome of the first
`k` items does not depend on what comes after, nor on how later items' conditions evaluate -/
theorem run_prefix (items more : List Item) (conds : Nat → List Nat → Nat → Bool) (k : Nat) (applied : List Nat) :
    (run (items ++ more) conds k applied).take items.length = run items conds k applied := by
  induction items generalizing k applied with
  | nil => simp [run]
  | cons it rest ih => simp [run, ih]

theorem run_length (items : List Item) (conds : Nat → List Nat → Nat → Bool) (k : Nat) (applied : List Nat) :
    (run items conds k applied).length = items.length := by
  induction items generalizing k applied with
  | nil => simp [run]
  | cons it rest ih => simp [run, ih]

/-! ## Part 2: the meaning of the individual conditions -/
section Conds
open SigmaVerif.PipeConds SigmaVerif.Lemmas.C13
variable (m : Str → Str → Bool)

/-- on a field name, `exclude_fields` is exactly the complement of `include_fields` (both modes) -/
theorem exclude_is_complement_of_include (w : World) (fs : List Str) (re : Bool) (n : Option Str) :
    FieldCond.onName m w n (.excl fs re) = !FieldCond.onName m w n (.incl fs re) := rfl

/-- on a detection item, `exclude_fields` holds iff NOT ALL of the names in the item (its field and
the fields referenced in its values) are on the list — whereas `include_fields` holds iff SOME name
is on the list.  With a field reference they are therefore not complements: -/
theorem exclude_on_item_iff (w : World) (fs : List Str) (re : Bool) (it : DetItem) :
    FieldCond.onItem m w it (.excl fs re) =
      !(included m fs re it.field && it.refs.all fun r => included m fs re (some r)) := by
  simp [FieldCond.onItem, FieldCond.onName, Bool.not_and, List.not_all_eq_any_not]

theorem include_on_item_iff (w : World) (fs : List Str) (re : Bool) (it : DetItem) :
    FieldCond.onItem m w it (.incl fs re) =
      (included m fs re it.field || it.refs.any fun r => included m fs re (some r)) := by
  simp [FieldCond.onItem, FieldCond.onName]

/-- without field references in the item they are complements -/
theorem exclude_on_item_complement_without_refs (w : World) (fs : List Str) (re : Bool) (it : DetItem)
    (h : it.refs = []) :
    FieldCond.onItem m w it (.excl fs re) = !FieldCond.onItem m w it (.incl fs re) := by
  simp [FieldCond.onItem, FieldCond.onName, h]

/-- the witness (`refItem`): an item `a = [fieldref b]`; `include_fields [a]` holds (through the field) and
`exclude_fields [a]` holds as well (through the reference) -/
theorem exclude_on_item_not_complement_witness :
    FieldCond.onItem (fun _ _ => false) emptyWorld refItem (.incl ["a".toList] false) = true ∧
    FieldCond.onItem (fun _ _ => false) emptyWorld refItem (.excl ["a".toList] false) = true := by decide

/-- `negate` of `match_string` flips the outcome of each value, before `any`/`all`:
`all`+negate is "no value matches" = not(`any`), and `any`+negate is "some value does not match" =
not(`all`) -/
theorem match_string_negate_flips_each_value (w : World) (it : DetItem) (p : Str) :
    DetCond.eval m w it (.matchString true p true) = !DetCond.eval m w it (.matchString false p false) ∧
    DetCond.eval m w it (.matchString false p true) = !DetCond.eval m w it (.matchString true p false) := by
  have hf : matchStringVal m p true = fun v => !matchStringVal m p false v := by
    funext v; simp [matchStringVal]
  simp [DetCond.eval, quantify, hf, List.not_any_eq_all_not, List.not_all_eq_any_not]

/-- … so negate is NOT the negation of the condition: on a matching and a non-matching value,
`all` fails with and without negate (and `any` succeeds with and without) -/
theorem match_string_negate_is_not_negation_witness :
    let m : Str → Str → Bool := fun _ s => s == "x".toList
    let it : DetItem := { det := [], field := some "f".toList, values := [.str (SStr.parse "x".toList), .str (SStr.parse "y".toList)], applied := [] }
    DetCond.eval m emptyWorld it (.matchString true [] false) = false ∧
    DetCond.eval m emptyWorld it (.matchString true [] true) = false ∧
    DetCond.eval m emptyWorld it (.matchString false [] false) = true ∧
    DetCond.eval m emptyWorld it (.matchString false [] true) = true := by decide

/-- only strings can match: a number, a null, a reference never matches `match_string` (so with
negate they always "match") -/
theorem match_string_skips_non_strings (p : Str) (neg : Bool) (v : Val) (h : ∀ s, v ≠ .str s) :
    matchStringVal m p neg v = neg := by
  cases v <;> simp_all [matchStringVal]

/-- a state key that was never set matches under no relation — at all three levels -/
theorem processing_state_missing_key_false (w : World) (key : Str) (val : Scalar) (op : Op)
    (h : lookup key w.state = none) (it : DetItem) (n : Option Str) :
    RuleCond.eval w (.state ⟨key, val, op⟩) = false ∧
    DetCond.eval m w it (.state ⟨key, val, op⟩) = false ∧
    FieldCond.onName m w n (.state ⟨key, val, op⟩) = false ∧
    FieldCond.onItem m w it (.state ⟨key, val, op⟩) = false := by
  simp [RuleCond.eval, DetCond.eval, FieldCond.onName, FieldCond.onItem, StateCond.eval, h]

/-- … and `ne` is not an exception: (`ne` on a set key is the negation of `eq`) -/
theorem processing_state_ne_is_not_eq (st : List (Str × Scalar)) (key : Str) (val v : Scalar)
    (h : lookup key st = some v) :
    StateCond.eval st ⟨key, val, .ne⟩ = !StateCond.eval st ⟨key, val, .eq⟩ := by
  simp [StateCond.eval, h, Op.eval?]

/-- relations between a state value and a parameter of the same kind are the usual ones: `gte` is
`lte` flipped, `gt` is not-`lte`, `lt` is not-`gte` -/
theorem processing_state_order (st : List (Str × Scalar)) (key : Str) (val v : Scalar)
    (h : lookup key st = some v) (hd : (v.le? val).isSome ∧ (val.le? v).isSome) :
    StateCond.eval st ⟨key, val, .gt⟩ = !StateCond.eval st ⟨key, val, .lte⟩ ∧
    StateCond.eval st ⟨key, val, .lt⟩ = !StateCond.eval st ⟨key, val, .gte⟩ := by
  obtain ⟨h1, h2⟩ := hd
  obtain ⟨a, ha⟩ := Option.isSome_iff_exists.mp h1
  obtain ⟨b, hb⟩ := Option.isSome_iff_exists.mp h2
  simp [StateCond.eval, h, Op.eval?, ha, hb]

/-- a pipeline state condition depends on the pipeline state only: as rule condition, as detection-item
condition and as field-name condition (on a field name, on "no field name", on a detection item with
or without a field name and field references) it has the value of one and the same test of the state -/
theorem processing_state_same_at_all_levels (w : World) (c : StateCond) (it : DetItem) (n : Option Str) :
    RuleCond.eval w (.state c) = c.eval w.state ∧
    DetCond.eval m w it (.state c) = c.eval w.state ∧
    FieldCond.onName m w n (.state c) = c.eval w.state ∧
    FieldCond.onItem m w it (.state c) = c.eval w.state := by
  cases h : c.eval w.state <;> simp [RuleCond.eval, DetCond.eval, FieldCond.onName, FieldCond.onItem, h]

/-- a keyword item (no field name, no field references): `include_fields` never holds on it,
`exclude_fields` always does, "applied to the field name" never does — whatever the lists and mode -/
theorem keyword_item_field_conditions (w : World) (it : DetItem) (hf : it.field = none) (hr : it.refs = [])
    (fs : List Str) (re : Bool) (id : Str) :
    FieldCond.onItem m w it (.incl fs re) = false ∧
    FieldCond.onItem m w it (.excl fs re) = true ∧
    FieldCond.onName m w it.field (.itemApplied id) = false := by
  simp [FieldCond.onItem, FieldCond.onName, included, hf, hr]

/-- the value of a group depends on its conditions only through their truth values -/
theorem group_holds_congr {α : Type} (g : Group α) (l₁ l₂ : α → Bool) (h : ∀ c ∈ g.conds, l₁ c = l₂ c) :
    g.holds l₁ = g.holds l₂ := by
  have hleaf : leafAt g l₁ = leafAt g l₂ := by
    funext i
    unfold leafAt
    cases hi : g.conds[i]? with
    | none => rfl
    | some c => exact h c (List.mem_of_getElem? hi)
  rw [holds_eq_gate, holds_eq_gate, hleaf]

/-- an item whose field-name conditions are all pipeline state conditions treats every detection item
alike — field-bound items and keyword items: its field-name group has the same value on all of them
(with linking, negation flag or expression) -/
theorem state_only_field_group_uniform (p : PItem) (w : World) (it it' : DetItem)
    (h : ∀ c ∈ p.field.conds, ∃ s, c = .state s) :
    p.fieldHoldsOnItem m w it = p.fieldHoldsOnItem m w it' := by
  unfold PItem.fieldHoldsOnItem
  apply group_holds_congr
  intro c hc
  obtain ⟨s, rfl⟩ := h c hc
  rw [(processing_state_same_at_all_levels m w s it none).2.2.2, (processing_state_same_at_all_levels m w s it' none).2.2.2]

/-- non-vacuity: after `set_state k=v`, a drop probe gated by the field-name condition `k == v` acts on a
keyword item exactly as on a field-bound one; with the negation flag on neither -/
example :
    ((stateDropProbe false).probeActs noRe stateWorld kwItem, (stateDropProbe false).probeActs noRe stateWorld (docItem "sel" "fieldA" [sv "valueA"]),
     (stateDropProbe true).probeActs noRe stateWorld kwItem, (stateDropProbe true).probeActs noRe stateWorld (docItem "sel" "fieldA" [sv "valueA"]))
      = (true, true, false, false) := by decide

/-- adding a constraint to a `logsource` condition can only shrink the set of log sources it matches:
if `c'` specifies everything `c` specifies (with the same values), whatever `c'` matches `c` matches -/
theorem logsource_condition_monotone (c c' r : LogSource) (href : c.admits c' = true) (h : c'.admits r = true) :
    c.admits r = true := by
  obtain ⟨cc, cp, cs⟩ := c
  obtain ⟨dc, dp, ds⟩ := c'
  obtain ⟨rc, rp, rs⟩ := r
  simp only [LogSource.admits, Bool.and_eq_true, Bool.or_eq_true] at *
  obtain ⟨⟨h1, h2⟩, h3⟩ := href
  obtain ⟨⟨g1, g2⟩, g3⟩ := h
  refine ⟨⟨?_, ?_⟩, ?_⟩
  · cases cc <;> cases dc <;> simp_all
  · cases cp <;> cases dp <;> simp_all
  · cases cs <;> cases ds <;> simp_all

/-- "Not specified log source fields are ignored": the condition without constraints matches everything -/
theorem logsource_unconstrained_matches_all (r : LogSource) : (⟨none, none, none⟩ : LogSource).admits r = true := by
  simp [LogSource.admits]

/-- a rule that contains a detection item `field = value` contains the field -/
theorem contains_detection_item_implies_contains_field (w : World) (f : Str) (v : Scalar)
    (h : RuleCond.eval w (.containsDetItem f v) = true) : RuleCond.eval w (.containsField f) = true := by
  simp only [RuleCond.eval, List.any_eq_true, Bool.and_eq_true] at *
  obtain ⟨it, hit, hf, _⟩ := h
  exact ⟨it, hit, hf⟩

/-- `contains_detection_item` distinguishes value kinds: the number 1 is not the string "1" -/
theorem contains_detection_item_is_typed :
    (Val.num (Num.ofInt 1)).eqParam (.str "1".toList) = false ∧ (Val.str (SStr.parse "1".toList)).eqParam (.num (Num.ofInt 1)) = false ∧
    (Val.num (Num.ofInt 1)).eqParam (.num ⟨10, 1⟩) = true ∧ (Val.bool true).eqParam (.num (Num.ofInt 1)) = false := by decide

/-- the order of severity levels (and statuses, and dates) is total and antisymmetric -/
theorem level_order_total (i j : Nat) :
    (Op.gte.onNat i j = true ∨ Op.gte.onNat j i = true) ∧
    (Op.gte.onNat i j = true ∧ Op.gte.onNat j i = true → Op.eq.onNat i j = true) ∧
    Op.gt.onNat i j = !Op.lte.onNat i j ∧ Op.lt.onNat i j = !Op.gte.onNat i j ∧ Op.ne.onNat i j = !Op.eq.onNat i j := by
  simp only [Op.onNat, decide_eq_true_eq, beq_iff_eq]
  refine ⟨by omega, by omega, ?_, ?_, ?_⟩
  · by_cases h : j < i <;> simp [h] <;> omega
  · by_cases h : i < j <;> simp [h] <;> omega
  · simp [bne]

/-- on two valid level names the `rule_attribute` comparison is defined and total -/
theorem level_condition_total (s t : Str) (i j : Nat) (hs : enumIdx? levelNames s = some i) (ht : enumIdx? levelNames t = some j) :
    attrEval (.level i) (.str t) (.cmp .gte) = some true ∨ attrEval (.level j) (.str s) (.cmp .gte) = some true := by
  simp only [attrEval, hs, ht, Option.map_some]
  have := (level_order_total i j).1
  rcases this with h | h
  · left; simp [h]
  · right; simp [h]

example : attrEval (.level 3) (.str "Medium".toList) (.cmp .gte) = some true := by decide
example : attrEval (.level 3) (.str "critical".toList) (.cmp .gte) = some false := by decide
example : attrEval (.level 3) (.str "bogus".toList) (.cmp .gte) = none := by decide
example : attrEval (.str "t".toList) (.str "t".toList) (.cmp .gte) = none := by decide
example : attrEval (.num (Num.ofInt 5)) (.num (Num.ofInt 7)) (.cmp .eq) = some false := by decide
example : attrEval (.num (Num.ofInt 5)) (.str "3".toList) (.cmp .lt) = some false := by decide
example : attrEval (.date 2024 1 5) (.str "2024-01-06".toList) (.cmp .lt) = some true := by decide
example : attrEval (.list ["r1".toList]) (.str "r1".toList) .isIn = some true := by decide

/-! ## Part 3: what later conditions observe, and the end-to-end statement -/

/-- rule level: after an item, `processing_item_applied id` holds iff it held before, or the item
carries that id and its rule conditions held -/
theorem rule_item_applied_iff_tracked (p : PItem) (w : World) (id : Str) :
    RuleCond.eval (p.step m w) (.itemApplied id) =
      (RuleCond.eval w (.itemApplied id) || (p.ruleHolds w && p.id == some id)) := by
  simp only [RuleCond.eval, PItem.step]
  by_cases h : p.ruleHolds w = true
  · rw [Bool.eq_iff_iff]; simp [h, act_applied, mem_mark]
  · simp [h]

/-- the rule-level condition reads the RULE's set: marking a detection item does not make it true -/
theorem rule_item_applied_ignores_item_sets (w : World) (items : List DetItem) (id : Str) :
    RuleCond.eval { w with items := items } (.itemApplied id) = RuleCond.eval w (.itemApplied id) := rfl

/-- detection-item level: after a field-name transformation, `processing_item_applied id` holds on
the item iff it held before, or the item carries that id, its detection-item and field-name
conditions held on the item and its field or a field it refers to was mapped -/
theorem item_applied_iff_tracked (p : PItem) (w w' : World) (it : DetItem) (id : Str) :
    DetCond.eval m w' (p.mapItem m w it) (.itemApplied id) =
      (DetCond.eval m w it (.itemApplied id) ||
        (p.id == some id && (p.detHolds m w it && p.fieldHoldsOnItem m w it) && p.touches m w it)) := by
  simp only [DetCond.eval, PItem.mapItem]
  rw [Bool.eq_iff_iff]
  by_cases hg : (p.detHolds m w it && p.fieldHoldsOnItem m w it) = true
  · simp only [hg, if_true, Bool.and_true]
    by_cases hc : p.touches m w it = true
    · rw [if_pos hc, hc]; simp [mem_mark]
    · rw [if_neg hc]; simp only [Bool.not_eq_true] at hc; rw [hc]; simp
  · simp only [hg]; simp

/-- a field-name condition `processing_item_applied` on a detection item reads the same set -/
theorem field_applied_on_item_eq_det_applied (w : World) (it : DetItem) (id : Str) :
    FieldCond.onItem m w it (.itemApplied id) = DetCond.eval m w it (.itemApplied id) := rfl

/-- … which is not what the general rule for field-name conditions (the item's field or a
referenced field, asked to the name tracking) would give: item `a` renamed to `b` by item `map`
(the name tracking only follows the `fields` list and references) -/
theorem field_applied_on_item_differs_from_general_rule :
    let it : DetItem := { det := [], field := some "b".toList, values := [], applied := ["map".toList] }
    FieldCond.onItem (fun _ _ => false) emptyWorld it (.itemApplied "map".toList) = true ∧
    (FieldCond.onName (fun _ _ => false) emptyWorld it.field (.itemApplied "map".toList) ||
      it.refs.any fun r => FieldCond.onName (fun _ _ => false) emptyWorld (some r) (.itemApplied "map".toList)) = false := by
  decide

/-- `set_state`: the value is visible to the `processing_state` conditions of later items -/
theorem set_state_visible (p : PItem) (w : World) (k : Str) (v : Scalar) (ha : p.action = .setState k v)
    (hr : p.ruleHolds w = true) : StateCond.eval (p.step m w).state ⟨k, v, .eq⟩ = true := by
  simp [PItem.step, hr, PItem.act, ha, StateCond.eval, lookup, Op.eval?, scalar_eqv_refl]

/-- … and only if the item's rule conditions held -/
theorem set_state_skipped (p : PItem) (w : World) (hr : p.ruleHolds w = false) : p.step m w = w := by
  simp [PItem.step, hr]

/-- `change_logsource` replaces the log source as a whole: a later `logsource` condition sees only the new one -/
theorem change_logsource_visible (p : PItem) (w : World) (l : LogSource) (ha : p.action = .changeLogsource l)
    (hk : w.kind = .sigma) (hr : p.ruleHolds w = true) (c : LogSource) :
    RuleCond.eval (p.step m w) (.logsource c) = c.admits l := by
  simp [PItem.step, hr, PItem.act, ha, hk, RuleCond.eval]

/-- after `field_name_mapping {a: b}` the conditions of later items see `b`: the item is in the rule
under its new name, recorded as processed by the mapping; `include_fields [a]` no longer matches
it, `include_fields [b]` does; the rule contains field `b` -/
theorem premap_moves_items (pid a b : Str) (hab : a ≠ b) (w : World) (it : DetItem) (hit : it ∈ w.items)
    (hf : it.field = some a) :
    let p := plainMap pid a b
    let w' := p.step m w
    let it' := p.mapItem m w it
    it' ∈ w'.items ∧ it'.field = some b ∧
    DetCond.eval m w' it' (.itemApplied pid) = true ∧
    FieldCond.onName m w' it'.field (.incl [a] false) = false ∧
    FieldCond.onName m w' it'.field (.incl [b] false) = true ∧
    RuleCond.eval w' (.containsField b) = true ∧ RuleCond.eval w' (.itemApplied pid) = true := by
  intro p w' it'
  have hr : p.ruleHolds w = true := by simp [p, plainMap, PItem.ruleHolds, PipeConds.Group.holds]
  have hd : p.detHolds m w it = true := by simp [p, plainMap, PItem.detHolds, PipeConds.Group.holds]
  have hfi : p.fieldHoldsOnItem m w it = true := by simp [p, plainMap, PItem.fieldHoldsOnItem, PipeConds.Group.holds]
  have hmaps : p.maps m w a = true := by
    simp [p, plainMap, PItem.maps, PItem.fieldHoldsOnName, PipeConds.Group.holds, Action.target, lookup]
  have hren : p.rename m w a = b := by
    simp [PItem.rename, hmaps]; simp [p, plainMap, Action.target, lookup]
  have hitems : w'.items = w.items.map (p.mapItem m w) := by
    simp [w', PItem.step, hr, PItem.act]; simp [p, plainMap]
  have hfield : it'.field = some b := by
    simp [it', PItem.mapItem, hd, hfi, hf, hren]
  have happ : it'.applied = mark (some pid) it.applied := by
    simp [it', PItem.mapItem, hd, hfi, PItem.touches, PItem.mapsFieldOf, hf, hmaps]; simp [p, plainMap]
  have hmem : it' ∈ w'.items := by rw [hitems]; exact List.mem_map_of_mem hit
  refine ⟨hmem, hfield, ?_, ?_, ?_, ?_, ?_⟩
  · simp [DetCond.eval, happ, mem_mark]
  · simp [hfield, FieldCond.onName, included]; exact fun h => hab h.symm
  · simp [hfield, FieldCond.onName, included]
  · simp only [RuleCond.eval, List.any_eq_true]; exact ⟨it', hmem, by simp [hfield]⟩
  · have := rule_item_applied_iff_tracked m p w pid
    rw [this, hr]; simp [p, plainMap]

/-- the applied-flags of the specification's pipeline run are those of the gate model's `run`, fed
with the specification's leaf values in the world produced by the items applied so far -/
theorem spec_flags_eq_gate_run (items : List PItem) (w0 : World) :
    runFlags m items w0 = Gate.run (items.map gateItem) (gateConds m items w0) 0 [] := by
  have := runFlags_eq_gate_run_gen m w0 items [] []
  simpa [worldOf] using this

/-- the world an item sees is produced by exactly the earlier items whose rule conditions held, in order -/
theorem spec_world_is_applied_items (items : List PItem) (w0 : World) :
    runPipe m items w0 = worldOf m items w0 (idxFrom 0 (runFlags m items w0)) := by
  have := runPipe_eq_worldOf_gen m w0 items [] []
  simpa [worldOf] using this

/-- END TO END.  After the pre-items, the probe's transformation is applied to detection item `it`
iff its rule group, its detection-item group on `it` and its field-name group on `it` hold, each
group combining — by the gate model's linking / negation / expression — the specification's leaf
values in the world left by the pre-items that were applied; that world is the one of
`spec_world_is_applied_items`. -/
theorem probe_acts_iff (pre : List PItem) (probe : PItem) (w0 : World) (it : DetItem) :
    let w := runPipe m pre w0
    probe.actsOnItem m w it =
      (gateItem probe).onDetItem (leafAt probe.rule (RuleCond.eval w)) (leafAt probe.det (DetCond.eval m w it))
        (leafAt probe.field (FieldCond.onItem m w it)) ∧
    (probe.actsOnItem m w it = true ↔
      (gateOf probe.rule).eval (leafAt probe.rule (RuleCond.eval w)) = true ∧
      (gateOf probe.det).eval (leafAt probe.det (DetCond.eval m w it)) = true ∧
      (gateOf probe.field).eval (leafAt probe.field (FieldCond.onItem m w it)) = true) ∧
    w = worldOf m pre w0 (idxFrom 0 (Gate.run (pre.map gateItem) (gateConds m pre w0) 0 [])) := by
  intro w
  have h1 : probe.actsOnItem m w it =
      (gateItem probe).onDetItem (leafAt probe.rule (RuleCond.eval w)) (leafAt probe.det (DetCond.eval m w it))
        (leafAt probe.field (FieldCond.onItem m w it)) := by
    simp [PItem.actsOnItem, PItem.ruleHolds, PItem.detHolds, PItem.fieldHoldsOnItem, Gate.Item.onDetItem, gateItem, holds_eq_gate]
  refine ⟨h1, ?_, ?_⟩
  · rw [h1, onDetItem_iff]; rfl
  · rw [← spec_flags_eq_gate_run]; exact spec_world_is_applied_items m pre w0

/-- a probe without any condition acts on every detection item, whatever the pre-items did -/
theorem probe_without_conditions_acts_everywhere (pre : List PItem) (probe : PItem) (w0 : World) (it : DetItem)
    (hr : probe.rule.conds = []) (hd : probe.det.conds = []) (hf : probe.field.conds = []) :
    probe.actsOnItem m (runPipe m pre w0) it = true := by
  simp [PItem.actsOnItem, PItem.ruleHolds, PItem.detHolds, PItem.fieldHoldsOnItem, PipeConds.Group.holds, hr, hd, hf]

/-- observable of the `drop_detection_item` probe: exactly the items it acts on disappear -/
theorem drop_probe_effect (probe : PItem) (h : probe.action = .dropItem) (w : World) :
    (probe.step m w).items = w.items.filter fun it => !probe.probeActs m w it := by
  by_cases hr : probe.ruleHolds w = true
  · simp [PItem.step, hr, PItem.act, h, PItem.probeActs, PItem.actsOnItem]
  · simp only [PItem.step, hr, PItem.probeActs, h, PItem.actsOnItem]
    exact (List.filter_eq_self.mpr (by simp)).symm

/-- observable of the `field_name_suffix` probe: exactly the items whose detection-item group and
field-name group (on the item AND on its field name) hold carry the suffix afterwards -/
theorem suffix_probe_effect (probe : PItem) (s : Str) (h : probe.action = .suffix s) (w : World) :
    (probe.step m w).items.map (·.field) =
      w.items.map fun it => if probe.probeActs m w it then it.field.map (· ++ s) else it.field := by
  by_cases hr : probe.ruleHolds w = true
  · simp only [PItem.step, hr, if_true, PItem.act, h, List.map_map]
    apply List.map_congr_left
    intro it _
    simp only [Function.comp, PItem.probeActs, h, PItem.renamesFieldOf, PItem.mapsFieldOf, PItem.actsOnItem, hr, Bool.true_and, PItem.mapItem]
    by_cases hg : (probe.detHolds m w it && probe.fieldHoldsOnItem m w it) = true
    · simp only [hg, if_true, Bool.true_and]
      cases hfld : it.field with
      | none => simp
      | some f =>
        by_cases hm : probe.maps m w f = true
        · simp [hm, PItem.rename, h, Action.target]
        · simp [hm, PItem.rename]
    · simp only [hg]; simp
  · have : ∀ it, probe.probeActs m w it = false := by
      intro it; simp [PItem.probeActs, h, PItem.renamesFieldOf, PItem.actsOnItem, hr]
    simp [PItem.step, hr, this]

/-! ### Round 5: values of mixed kinds, escaped wildcard characters, field references -/

/-- `contains_detection_item` asks for MEMBERSHIP: it holds iff some detection item of that field has
some value that equals the parameter — wherever that value stands in the value list and whatever
the kinds of the values listed before it -/
theorem contains_detection_item_iff_member (w : World) (f : Str) (v : Scalar) :
    RuleCond.eval w (.containsDetItem f v) = true ↔
      ∃ it ∈ w.items, it.field = some f ∧ ∃ x ∈ it.values, x.eqParam v = true := by
  simp [RuleCond.eval, List.any_eq_true]

/-- … in particular a value that follows values of other kinds is found -/
theorem contains_detection_item_any_position (w : World) (it : DetItem) (hit : it ∈ w.items) (f : Str) (hf : it.field = some f)
    (before after : List Val) (x : Val) (hv : it.values = before ++ x :: after) (v : Scalar) (hx : x.eqParam v = true) :
    RuleCond.eval w (.containsDetItem f v) = true :=
  (contains_detection_item_iff_member w f v).mpr ⟨it, hit, hf, x, by simp [hv], hx⟩

/-- `EventID: [4624, svc]` contains the string `svc` (after a number) and the number 4624; `[svc, true, 7]` contains 7 -/
example :
    let w := { emptyWorld with items := [docItem "sel" "EventID" [.num (Num.ofInt 4624), sv "svc"], docItem "sel" "F" [sv "svc", .bool true, .num (Num.ofInt 7)]] }
    RuleCond.eval w (.containsDetItem "EventID".toList (.str "svc".toList)) = true ∧
    RuleCond.eval w (.containsDetItem "EventID".toList (.num (Num.ofInt 4624))) = true ∧
    RuleCond.eval w (.containsDetItem "F".toList (.num (Num.ofInt 7))) = true ∧
    RuleCond.eval w (.containsDetItem "F".toList (.bool true)) = true ∧
    RuleCond.eval w (.containsDetItem "EventID".toList (.str "4624".toList)) = false := by decide

/-- `contains_wildcard` on a string value answers what the TEXT of the value says: it contains an
asterisk or question mark that is not escaped by a backslash (`unescapedWildcard`, an independent
scan of the text); `\*` and `\?` are literal characters, `\\*` is a backslash followed by a wildcard -/
theorem contains_wildcard_iff_unescaped (s : Str) :
    SStr.containsSpecial (SStr.parse s) = unescapedWildcard s :=
  containsSpecial_parse_aux s.length s (Nat.le_refl _)

/-- … hence for an item whose values are the strings written `ts`, under any / all -/
theorem contains_wildcard_on_texts (w : World) (it : DetItem) (ts : List Str) (all : Bool)
    (hv : it.values = ts.map fun t => Val.str (SStr.parse t)) :
    DetCond.eval m w it (.containsWildcard all) = if all then ts.all unescapedWildcard else ts.any unescapedWildcard := by
  simp only [DetCond.eval, quantify, hv]
  cases all <;> simp [List.all_map, List.any_map, Function.comp_def, contains_wildcard_iff_unescaped]

example : unescapedWildcard "/index.php\\?id=1".toList = false ∧ unescapedWildcard "rundll32 \\*.dll".toList = false ∧
          unescapedWildcard "dir\\\\*".toList = true ∧ unescapedWildcard "a?".toList = true ∧
          unescapedWildcard "C:\\Windows\\x".toList = false := by
  simp only [← contains_wildcard_iff_unescaped]; decide
example : DetCond.eval noRe emptyWorld (docItem "sel" "f" [sv "a\\?b", sv "c"]) (.containsWildcard false) = false ∧
          DetCond.eval noRe emptyWorld (docItem "sel" "f" [sv "a\\?b", sv "c*"]) (.containsWildcard true) = false ∧
          DetCond.eval noRe emptyWorld (docItem "sel" "f" [sv "a\\\\?b", sv "c*"]) (.containsWildcard true) = true := by decide

/-- a field-name transformation on the FIELD REFERENCES of a detection item: when the item's
detection-item group and field-name group hold on the item, every referenced field is renamed by
the same decision `rename` as a field name of its own (field-name group ON THAT NAME, linking /
negation / expression included); otherwise the references stay -/
theorem field_transformation_on_references (p : PItem) (w : World) (it : DetItem) :
    (p.mapItem m w it).refs =
      if p.detHolds m w it && p.fieldHoldsOnItem m w it then it.refs.map (p.rename m w) else it.refs := by
  by_cases hg : (p.detHolds m w it && p.fieldHoldsOnItem m w it) = true
  · simp only [PItem.mapItem, hg, if_true, DetItem.refs]
    exact refs_map_rename (p.rename m w) it.values
  · simp [PItem.mapItem, hg]

/-- the decision for one name under a suffix transformation: renamed iff the field-name group holds on the name -/
theorem suffix_rename_iff (p : PItem) (s : Str) (h : p.action = .suffix s) (w : World) (f : Str) :
    p.rename m w f = if p.fieldHoldsOnName m w (some f) then f ++ s else f := by
  simp [PItem.rename, PItem.maps, h, Action.target]

/-- a negated field-name group (one or more conditions) holds on a name exactly where the un-negated group does not —
for the field of an item and for a referenced field alike, in list form and in expression form -/
theorem negated_field_group_on_name (conds : List FieldCond) (hc : conds ≠ []) (link : Gate.Link) (w : World) (n : Option Str) :
    (⟨conds, link, true⟩ : PipeConds.Group FieldCond).holds (FieldCond.onName m w n) =
      !(⟨conds, link, false⟩ : PipeConds.Group FieldCond).holds (FieldCond.onName m w n) := by
  cases conds with
  | nil => exact absurd rfl hc
  | cons c r => simp [PipeConds.Group.holds]

/-- `src|fieldref: ref` under a suffix item with `field_name_cond_expr: sel`, `field_name_cond_not: true`
where `sel = include_fields [other]`: the negated expression holds for `src` and for `ref`, both are renamed -/
example :
    let p : PItem := { id := some "probe".toList, rule := noGroup, det := noGroup,
                       field := ⟨[.incl ["other".toList] false], .expr (.id 0), true⟩, action := .suffix "_X".toList }
    let it : DetItem := { det := "sel".toList, field := some "src".toList, values := [.ref "ref".toList], applied := [] }
    (p.mapItem noRe emptyWorld it).field = some "src_X".toList ∧ (p.mapItem noRe emptyWorld it).refs = ["ref_X".toList] := by decide

end Conds

/-! ## Non-vacuity on the rule document of the harness (`harness/c13.py` `RULEDOC`) -/
section Ruledoc
open SigmaVerif.PipeConds SigmaVerif.Lemmas.C13

/-- after `state` (its condition holds) and `map`, the probe acts exactly on the renamed item `mappedB = [x*, y]` -/
example : (let w := runPipe noRe [preState "cat", preMap] ruledoc
           w.items.map (probe1.probeActs noRe w)) = [false, true, false, false, false, false, false] := by decide
/-- … and nowhere when the state item's own condition fails (the state is then not set) -/
example : (let w := runPipe noRe [preState "zzz", preMap] ruledoc
           w.items.map (probe1.probeActs noRe w)) = [false, false, false, false, false, false, false] := by decide
/-- which items were applied: `state` (condition false) no, `map` yes, the probe (state missing) no -/
example : runFlags noRe [preState "zzz", preMap, probe1] ruledoc = [false, true, false] := by decide
example : (runPipe noRe [preState "cat", preMap, preLogsource, probe1] ruledoc).items.map (·.field)
    = [some "fieldA".toList, some "mappedB_X".toList, some "fieldC".toList, some "fieldD".toList, some "fieldH".toList,
       some "fieldA".toList, some "fieldE".toList] := by decide
/-- the hypotheses of `premap_moves_items` are satisfiable on the document -/
example : ∃ i ∈ ruledoc.items, i.field = some "fieldB".toList :=
  ⟨docItem "sel" "fieldB" [sv "x*", sv "y"], by decide, rfl⟩
/-- leaf values on the document (after `map` and `change_logsource`) -/
example : (let w := runPipe noRe [preMap, preLogsource] ruledoc
           [RuleCond.eval w (.logsource ⟨some "cat".toList, none, none⟩), RuleCond.eval w (.logsource ⟨some "newcat".toList, none, none⟩),
            RuleCond.eval w (.logsource ⟨none, some "prod".toList, none⟩),
            RuleCond.eval w (.containsField "fieldB".toList), RuleCond.eval w (.containsField "mappedB".toList),
            RuleCond.eval w (.containsDetItem "fieldD".toList (.num (Num.ofInt 1))), RuleCond.eval w (.containsDetItem "fieldD".toList (.str "1".toList)),
            RuleCond.eval w (.itemApplied "map".toList), RuleCond.eval w (.itemApplied "state".toList),
            RuleCond.eval w (.attr "level".toList (.str "medium".toList) (.cmp .gte)), RuleCond.eval w (.attr "score".toList (.num (Num.ofInt 7)) (.cmp .gte)),
            RuleCond.eval w (.tag "attack.t1234".toList), RuleCond.eval w .isSigmaRule, RuleCond.eval w .isCorrelation])
    = [false, true, false, false, true, true, false, true, false, true, false, true, true, false] := by decide
example : RuleCond.raises ruledoc (.attr "level".toList (.str "low".toList) .isIn) = true ∧
          RuleCond.raises ruledoc (.attr "title".toList (.str "t".toList) (.cmp .gte)) = true ∧
          RuleCond.raises ruledoc (.attr "nosuch".toList (.str "t".toList) (.cmp .gte)) = false := by decide

end Ruledoc

end SigmaVerif.Props.C13
