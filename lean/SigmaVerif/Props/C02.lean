import SigmaVerif.Model.Cond
import SigmaVerif.Spec.Cond
namespace SigmaVerif.Props.C02
open SigmaVerif.Cond

/-- With `not` as a bare `Literal` (the tree before the fix) a detection called `notepad` is read
as `not epad`. -/
theorem literal_not_splits_name :
    parsesTo (parse literalGrammar "notepad".toList) (.not (.id "epad".toList)) = true := by decide

end SigmaVerif.Props.C02
