import SigmaVerif.Model.Cond
import SigmaVerif.Spec.Cond
import SigmaVerif.Lemmas.CondParse
/-!
# C02 — the condition grammar reads conditions as the Sigma specification says

Property theorems only; the proofs are in `SigmaVerif.Lemmas.CondParse`.  The predicates used as
hypotheses of `resolve_sound` (`idsDefined`, `selsMatch`, `nodesNonempty`) are defined there, in the
section "hypotheses of `resolve_sound`".
-/
namespace SigmaVerif.Props.C02
open SigmaVerif.Cond SigmaVerif.CondSpec SigmaVerif.Lemmas.CondParse

/-- With `not` as a bare `Literal` (the tree before the fix) a detection called `notepad` is read
as `not epad`. -/
theorem literal_not_splits_name :
    parsesTo (parse literalGrammar "notepad".toList) (.not (.id "epad".toList)) = true := by decide

/-! ## 1. Round trip -/

/-- The canonical spelling of every expression — of any size and shape — is parsed, and the parse
tree means what the expression means: NOT > AND > OR, left association, parentheses override,
names are read whole. -/
theorem parse_pp (g : Grammar) (hg : g.wf = true) (e : E) (he : e.wf g = true) :
    ∃ t, parse g (pp 2 e) = some t ∧ ∀ dets ρ, semPT dets ρ t = e.sem dets ρ :=
  parse_pp_aux (WF.of hg) e he

/-- `notepad or android and not (1 of sel* or order)` -/
def exampleE : E :=
  .or (.id "notepad".toList)
    (.and (.id "android".toList) (.not (.or (.sel .one "sel*".toList) (.id "order".toList))))

example : pp 2 exampleE = "notepad or android and not (1 of sel* or order)".toList := by decide

example : ∃ t, parse stdGrammar (pp 2 exampleE) = some t ∧
    ∀ dets ρ, semPT dets ρ t = exampleE.sem dets ρ :=
  parse_pp stdGrammar stdGrammar_wf exampleE (by decide)

/-! ## 2. Names are read whole -/

theorem name_whole_word (g : Grammar) (hg : g.wf = true) (n : Str) (hn : wfName g n = true) :
    parse g n = some (.id n) :=
  name_whole_word_aux (WF.of hg) n hn

example : parse stdGrammar "notepad".toList = some (.id "notepad".toList) :=
  name_whole_word stdGrammar stdGrammar_wf _ (by decide)
example : parse stdGrammar "not-b".toList = some (.id "not-b".toList) :=
  name_whole_word stdGrammar stdGrammar_wf _ (by decide)
example : parse stdGrammar "1st".toList = some (.id "1st".toList) :=
  name_whole_word stdGrammar stdGrammar_wf _ (by decide)
example : parse stdGrammar "allx".toList = some (.id "allx".toList) :=
  name_whole_word stdGrammar stdGrammar_wf _ (by decide)

/-! ## 3. Selector patterns are globs -/

theorem starMatch_eq_globStar (pat name : Str) (h : '\n' ∉ name) :
    starMatch pat name = globStar pat name :=
  starMatch_eq_globStar_aux pat name h

example : starMatch "sel*n".toList "selection".toList = globStar "sel*n".toList "selection".toList :=
  starMatch_eq_globStar _ _ (by decide)

theorem selMatches_eq_selects (pat name : Str) (h : '\n' ∉ name) :
    selMatches pat name = selects pat name :=
  SigmaVerif.Lemmas.CondParse.selMatches_eq_selects pat name h

example : selMatches "them".toList "selection".toList = selects "them".toList "selection".toList :=
  selMatches_eq_selects _ _ (by decide)

/-! ## 4. Post-processing resolves a parse tree to a condition with the same meaning -/

/-- If every name is a detection of the rule, every selector matches some detection and every
`and`/`or` node has an operand (`parse_nodesNonempty`: the parser builds no other), `resolve`
succeeds and the resulting condition tree means what the parse tree means. -/
theorem resolve_sound (dets : List Str) (t : PT)
    (hdef : idsDefined dets t = true) (hsel : selsMatch dets t = true)
    (hne : nodesNonempty t = true) (hnl : ∀ d ∈ dets, '\n' ∉ d) :
    ∃ c, resolve dets t = .ok (some c) ∧ ∀ ρ, c.eval ρ = semPT dets ρ t :=
  resolve_sound_aux dets hnl t hdef hsel hne

example : ∃ c, resolve ["sel1".toList, "sel2".toList, "filter".toList]
      (.and [.sel .any "sel*".toList, .not (.id "filter".toList)]) = .ok (some c) ∧
    ∀ ρ, c.eval ρ = semPT ["sel1".toList, "sel2".toList, "filter".toList] ρ
      (.and [.sel .any "sel*".toList, .not (.id "filter".toList)]) :=
  resolve_sound _ _ (by decide)
    (by simp [selsMatch, selsMatchList, selMatches, starMatch]) (by decide) (by decide)

/-- every tree the parser returns satisfies the third hypothesis of `resolve_sound` -/
theorem parse_nodesNonempty (g : Grammar) (s : Str) (t : PT) (h : parse g s = some t) :
    nodesNonempty t = true :=
  parse_inv g s t h

example : nodesNonempty (.and [.id "a".toList, .id "b".toList]) = true :=
  parse_nodesNonempty stdGrammar "a and b".toList _ (by rfl)


/-! ## 5. Round trip with free layout

`Spells g c e s` (defined in `SigmaVerif.Lemmas.CondParse`, section 7): `s` spells `e` with any
amount of extra whitespace and redundant parentheses. -/

/-- Every spelling of an expression — the canonical one with any non-empty whitespace for its
blanks, extra whitespace before any token and at the end, `(` directly after an operator word, and
redundant parentheses around any sub-expression — is parsed to a tree with the meaning of the
expression. -/
theorem parse_spells (g : Grammar) (hg : g.wf = true) (e : E) (s w : Str)
    (hs : Spells g 2 e s) (hw : blank w) :
    ∃ t, parse g (s ++ w) = some t ∧ ∀ dets ρ, semPT dets ρ t = e.sem dets ρ :=
  parse_spells_aux (WF.of hg) e s w hs hw

/-- `" a  and(b )\n"` spells `a and b` -/
example : ∃ t, parse stdGrammar " a  and(b )\n".toList = some t ∧
    ∀ dets ρ, semPT dets ρ t = (E.and (.id ['a']) (.id ['b'])).sem dets ρ := by
  have h : Spells stdGrammar 2 (.and (.id ['a']) (.id ['b']))
      (([' '] ++ ['a']) ++ ([' ', ' '] ++ (['a', 'n', 'd'] ++
        ([] ++ ('(' :: (([] ++ ['b']) ++ ([' '] ++ [')']))))))) :=
    .up12 _ _ (.and _ _ _ _ _ (.up01 _ _ (.id _ _ (by decide) (by decide))) (by decide) (by decide)
      (.paren _ _ _ _ (by decide) (.up12 _ _ (.up01 _ _ (.id _ _ (by decide) (by decide))))
        (by decide)) (by decide))
  exact parse_spells stdGrammar stdGrammar_wf _ _ ['\n'] h (by decide)

/-- the canonical spelling is one of the spellings, so `parse_pp` is the instance of
`parse_spells` at `pp 2 e` -/
theorem pp_spells (g : Grammar) (hg : g.wf = true) (e : E) (he : e.wf g = true) :
    Spells g 2 e (pp 2 e) :=
  (SigmaVerif.Lemmas.CondParse.pp_spells (WF.of hg) e he).2.2

example : Spells stdGrammar 2 exampleE (pp 2 exampleE) :=
  pp_spells stdGrammar stdGrammar_wf exampleE (by decide)

/-! ## 6. No condition text has two meanings

The parser is a function, so a text that spells two expressions forces them to mean the same:
the grammar of spellings (any whitespace, redundant parentheses) is semantically unambiguous. -/

theorem spelling_unambiguous (g : Grammar) (hg : g.wf = true) (e1 e2 : E) (s : Str)
    (h1 : Spells g 2 e1 s) (h2 : Spells g 2 e2 s) :
    ∀ dets ρ, e1.sem dets ρ = e2.sem dets ρ := by
  intro dets ρ
  obtain ⟨t1, ht1, hs1⟩ := parse_spells g hg e1 s [] h1 (by decide)
  obtain ⟨t2, ht2, hs2⟩ := parse_spells g hg e2 s [] h2 (by decide)
  rw [ht1] at ht2
  cases ht2
  rw [← hs1, ← hs2]

/-- in particular for canonical spellings: equal text, equal meaning -/
theorem pp_unambiguous (g : Grammar) (hg : g.wf = true) (e1 e2 : E) (he1 : e1.wf g = true)
    (he2 : e2.wf g = true) (h : pp 2 e1 = pp 2 e2) :
    ∀ dets ρ, e1.sem dets ρ = e2.sem dets ρ :=
  spelling_unambiguous g hg e1 e2 (pp 2 e1) (pp_spells g hg e1 he1) (h ▸ pp_spells g hg e2 he2)

/-- non-vacuity: `(a and b) and c` and `a and (b and c)` … the first is spelled `a and b and c`,
the second `a and (b and c)`: different texts; and `a and b and c` is spelled by the first. -/
example : pp 2 (E.and (.and (.id ['a']) (.id ['b'])) (.id ['c'])) = "a and b and c".toList
    ∧ pp 2 (E.and (.id ['a']) (.and (.id ['b']) (.id ['c']))) = "a and (b and c)".toList := by decide

end SigmaVerif.Props.C02
