import SigmaVerif.Spec.SStr
import SigmaVerif.Lemmas.SStr
/-!
# C05 — `SigmaString`: conversion to a target-language literal, regular-expression form, plain
form, field names

Property theorems only; helper lemmas and auxiliary definitions (`quoteTailOk`, `noPh`, `bsOk`,
`fieldWf`, `atoms`, the example configurations `stdConv`, `stdStr`) are in `SigmaVerif.Lemmas.SStr`.
-/
namespace SigmaVerif.Props.C05
open SigmaVerif.SStr SigmaVerif.SStrSpec

/-! ## 1. The emitted literal, read back by the target language, is the source -/

/-- For every Sigma string (any length) and every well-formed escaping configuration, `convert`'s
output decodes — by the target language's own token rules — to exactly the source's literal
characters and wildcard positions (minus the filtered characters). -/
theorem convert_decodes (k : Conv) (hk : convWf k = true) (s : SStr) (t : Str)
    (h : convert k s = .ok t) : decode k t = some (filtered k s) := by
  obtain ⟨e, W⟩ := wf_of_convWf hk
  exact decodeBody_convert W s t h _ (Nat.lt_succ_self _)

example : convWf stdConv = true := by decide
example (custom : Str) : convWf (regexConv custom) = true := regexConv_wf custom
example : convert stdConv [.lit 'a', .star, .lit '*', .lit '\\', .qm] = .ok "a*\\*\\\\?".toList := by
  decide
example : decode stdConv "a*\\*\\\\?".toList = some [.lit 'a', .star, .lit '*', .lit '\\', .qm] :=
  convert_decodes stdConv (by decide) [.lit 'a', .star, .lit '*', .lit '\\', .qm] _ (by decide)

/-! ## 2. "The escape character is itself escaped" is necessary -/

/-- A backend that does not list its escape character among the escaped characters (every other
conjunct of `convWf` holds: adding `\` to `addEscaped` makes the configuration well-formed) emits a
literal that reads back differently: the source `\` followed by a wildcard becomes a literal `*`. -/
theorem convert_escape_needed :
    ∃ (k : Conv) (s : SStr) (t : Str),
      k = { esc := some ['\\'], multi := some ['*'], single := some ['?'], addEscaped := ['"'],
            filter := [] } ∧
      s = [.lit '\\', .star] ∧
      convWf { k with addEscaped := '\\' :: k.addEscaped } = true ∧
      convert k s = .ok t ∧ decode k t = some [.lit '*'] ∧ decode k t ≠ some (filtered k s) :=
  ⟨_, _, ['\\', '*'], rfl, rfl, by decide, by decide, by decide, by decide⟩

/-- same defect with an ordinary character: `\a` (two source characters) reads back as `a` -/
example :
    let k : Conv := { esc := some ['\\'], multi := some ['*'], single := some ['?'],
                      addEscaped := ['"'], filter := [] }
    convert k [.lit '\\', .lit 'a'] = .ok ['\\', 'a'] ∧ decode k ['\\', 'a'] = some [.lit 'a'] := by
  decide

/-! ## 3. Quoted literals -/

/-- The quoted literal is read back exactly; in particular no source character terminates the
literal early.  `quoteTailOk` is an extra hypothesis that `quoteWf` lacks
(see `quoted_needs_tailOk`). -/
theorem quoted_decodes (c : StrCfg) (hk : convWf c.conv = true)
    (hq : quoteWf c.conv c.quote = true) (hx : quoteTailOk c.conv c.quote = true)
    (s : SStr) (t : Str) (h : convertValueStr c true s = .ok t) :
    decodeQuoted c.conv c.quote t = some (filtered c.conv s) := by
  obtain ⟨e, W⟩ := wf_of_convWf hk
  obtain ⟨qc, hqc, Q⟩ := qwf_of W hq hx
  unfold convertValueStr at h
  cases hr : convert c.conv s with
  | error err => simp [hr] at h
  | ok t' =>
    simp only [hr, if_true, Except.ok.injEq] at h
    subst h
    unfold decodeQuoted
    rw [List.append_assoc, stripPrefix_append, hqc]
    exact decodeQuotedBody_convert W Q s t' hr _ (by simp)

/-- without `quoteTailOk` the statement is false: multi token `."`, single token `.`, quote `"`
satisfy `convWf` and `quoteWf`, but the quoted form `"."` of the pattern `?` does not read back -/
theorem quoted_needs_tailOk :
    ∃ (c : StrCfg) (s : SStr) (t : Str),
      convWf c.conv = true ∧ quoteWf c.conv c.quote = true ∧
      convertValueStr c true s = .ok t ∧ decodeQuoted c.conv c.quote t ≠ some (filtered c.conv s) :=
  ⟨{ quote := ['"'], esc := some ['\\'], multi := some ['.', '"'], single := some ['.'],
     addEscaped := ['\\'], filter := [] }, [.qm], ['"', '.', '"'],
   by decide, by decide, by decide, by decide⟩

example : convWf stdStr.conv = true ∧ quoteWf stdStr.conv stdStr.quote = true ∧
    quoteTailOk stdStr.conv stdStr.quote = true := by decide
example : decodeQuoted stdStr.conv stdStr.quote "\"a\\\"b*\"".toList
    = some [.lit 'a', .lit '"', .lit 'b', .star] :=
  quoted_decodes stdStr (by decide) (by decide) (by decide) [.lit 'a', .lit '"', .lit 'b', .star] _
    (by decide)

/-! ## 4. The regular-expression form matches exactly what the wildcard pattern matches -/

/-- (`hc` holds for every `custom`, see `regexConv_wf`; it is kept for uniformity and not used.) -/
theorem toRegex_glob (custom : Str) (_hc : convWf (regexConv custom) = true) (s : SStr) (r : Str)
    (h : toRegex custom s = .ok r) (x : Str) : reMatch r x = some (glob s x) := by
  unfold reMatch
  rw [reRead_convert custom s r h _ (Nat.lt_succ_self _)]
  simp [reMatchAtoms_atoms s x (convert_noPh s r h)]

example : toRegex ['/'] [.lit 'a', .lit '.', .star, .lit '/', .qm] = .ok "a\\..*\\/.".toList := by
  decide
example (x : Str) : reMatch "a\\..*\\/.".toList x
    = some (glob [.lit 'a', .lit '.', .star, .lit '/', .qm] x) :=
  toRegex_glob ['/'] (regexConv_wf _) _ _ (by decide) x

/-! ## 5. Plain form and re-parsing -/

/-- `parse ∘ toPlain` is the identity on strings without placeholders in which no literal `\` is
immediately followed by a literal `\`, `*`, `?` or a wildcard. -/
theorem parse_toPlain_partial (s : SStr) (hph : noPh s = true) (hbs : bsOk s = true) :
    parse (toPlain s) = s :=
  (parseAux_toPlain s hph hbs).1

example : noPh [.lit 'a', .lit '\\', .lit 'b', .star, .lit '*', .lit '\\'] = true ∧
    bsOk [.lit 'a', .lit '\\', .lit 'b', .star, .lit '*', .lit '\\'] = true := by decide

/-- the full statement is false: the plain form is not injective (`\` followed by a wildcard) -/
theorem parse_toPlain_lossy : parse (toPlain [.lit '\\', .star]) ≠ [.lit '\\', .star] := by
  decide

/-- `toPlain ∘ parse` followed by `parse` is NOT the identity in general: `\\*` -/
theorem toPlain_parse_lossy :
    parse (toPlain (parse ['\\', '\\', '*'])) ≠ parse ['\\', '\\', '*'] := by
  decide

/-- … it is on the inputs whose parse has no literal `\` in front of a special part -/
theorem toPlain_parse (x : Str) (h : bsOk (parse x) = true) :
    parse (toPlain (parse x)) = parse x :=
  parse_toPlain_partial _ (parse_noPh _ _ _) h

example : bsOk (parse "a\\*b\\c*\\".toList) = true := by decide

/-! ## 6. Field names -/

/-- the rendered field name is read back exactly, provided the first character of the escape string
is itself among the escaped characters (`fieldWf`) -/
theorem field_roundtrip (c : FieldCfg) (hwf : fieldWf c = true) (quoted : Bool) (f : Str) :
    decodeField c quoted (escapeAndQuoteField c quoted f) = some f :=
  decodeField_escapeAndQuoteField c hwf quoted f

example : fieldWf { escape := some ['\\'], escapeChars := [' ', '\\'], escapeQuote := true,
                    quote := some ['`'] } = true := by decide

/-- without "the escape character is among the escaped characters" it fails -/
theorem field_escape_needed :
    ∃ (c : FieldCfg) (f : Str),
      c = { escape := some ['\\'], escapeChars := [' '], escapeQuote := false, quote := none } ∧
      decodeField c false (escapeAndQuoteField c false f) ≠ some f :=
  ⟨_, ['\\', 'a'], rfl, by decide⟩

end SigmaVerif.Props.C05
