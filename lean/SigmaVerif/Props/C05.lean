import SigmaVerif.Spec.SStr
namespace SigmaVerif.Props.C05
open SigmaVerif.SStr SigmaVerif.SStrSpec

/-- the plain form of the unchanged code is not injective: a literal backslash in front of a
wildcard is written `\*`, which reads back as a literal asterisk -/
theorem parse_toPlain_lossy : parse (toPlain [.lit '\\', .star]) ≠ [.lit '\\', .star] := by decide

end SigmaVerif.Props.C05
