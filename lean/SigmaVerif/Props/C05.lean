import SigmaVerif.Spec.SStr
import SigmaVerif.Lemmas.SStr
/-!
# C05 — `SigmaString`: conversion to a target-language literal, regular-expression form, plain
form, field names

Property theorems only; helper lemmas and auxiliary definitions (`quoteTailOk`, `noPh`, `bsOk`,
`fieldWf`, `fieldQuoteOk`, `fieldEscaped`, `atoms`, the example configurations `stdConv`, `stdStr`)
are in `SigmaVerif.Lemmas.SStr`.
-/
namespace SigmaVerif.Props.C05
open SigmaVerif.SStr SigmaVerif.SStrSpec

/-! ## 1. The emitted literal, read back by the target language, is the source -/

/-- For every Sigma string (any length) and every well-formed escaping configuration, `convert`'s
output decodes — by the target language's own token rules — to exactly the source's literal
characters and wildcard positions (minus the filtered characters). -/
theorem convert_decodes (k : Conv) (hk : convWf k = true) (s : SStr) (t : Str)
    (h : convert k s = .ok t) : decode k t = some (filtered k s) := by
  obtain ⟨e, W⟩ := wf_of_convWf hk
  exact decodeBody_convert W s t h _ (Nat.lt_succ_self _)

example : convWf stdConv = true := by decide
example (custom : Str) : convWf (regexConv custom) = true := regexConv_wf custom
example : convert stdConv [.lit 'a', .star, .lit '*', .lit '\\', .qm] = .ok "a*\\*\\\\?".toList := by
  decide
example : decode stdConv "a*\\*\\\\?".toList = some [.lit 'a', .star, .lit '*', .lit '\\', .qm] :=
  convert_decodes stdConv (by decide) [.lit 'a', .star, .lit '*', .lit '\\', .qm] _ (by decide)

/-! ## 2. "The escape character is itself escaped" is necessary -/

/-- A backend that does not list its escape character among the escaped characters (every other
conjunct of `convWf` holds: adding `\` to `addEscaped` makes the configuration well-formed) emits a
literal that reads back differently: the source `\` followed by a wildcard becomes a literal `*`. -/
theorem convert_escape_needed :
    ∃ (k : Conv) (s : SStr) (t : Str),
      k = { esc := some ['\\'], multi := some ['*'], single := some ['?'], addEscaped := ['"'],
            filter := [] } ∧
      s = [.lit '\\', .star] ∧
      convWf { k with addEscaped := '\\' :: k.addEscaped } = true ∧
      convert k s = .ok t ∧ decode k t = some [.lit '*'] ∧ decode k t ≠ some (filtered k s) :=
  ⟨_, _, ['\\', '*'], rfl, rfl, by decide, by decide, by decide, by decide⟩

/-- same defect with an ordinary character: `\a` (two source characters) reads back as `a` -/
example :
    let k : Conv := { esc := some ['\\'], multi := some ['*'], single := some ['?'],
                      addEscaped := ['"'], filter := [] }
    convert k [.lit '\\', .lit 'a'] = .ok ['\\', 'a'] ∧ decode k ['\\', 'a'] = some [.lit 'a'] := by
  decide

/-! ## 3. Quoted literals -/

/-- The quoted literal is read back exactly; in particular no source character terminates the
literal early.  `quoteTailOk` is an extra hypothesis that `quoteWf` lacks
(see `quoted_needs_tailOk`). -/
theorem quoted_decodes (c : StrCfg) (hk : convWf c.conv = true)
    (hq : quoteWf c.conv c.quote = true) (hx : quoteTailOk c.conv c.quote = true)
    (s : SStr) (t : Str) (h : convertValueStr c true s = .ok t) :
    decodeQuoted c.conv c.quote t = some (filtered c.conv s) := by
  obtain ⟨e, W⟩ := wf_of_convWf hk
  obtain ⟨qc, hqc, Q⟩ := qwf_of W hq hx
  unfold convertValueStr at h
  cases hr : convert c.conv s with
  | error err => simp [hr] at h
  | ok t' =>
    simp only [hr, if_true, Except.ok.injEq] at h
    subst h
    unfold decodeQuoted
    rw [List.append_assoc, stripPrefix_append, hqc]
    exact decodeQuotedBody_convert W Q s t' hr _ (by simp)

/-- without `quoteTailOk` the statement is false: multi token `."`, single token `.`, quote `"`
satisfy `convWf` and `quoteWf`, but the quoted form `"."` of the pattern `?` does not read back -/
theorem quoted_needs_tailOk :
    ∃ (c : StrCfg) (s : SStr) (t : Str),
      convWf c.conv = true ∧ quoteWf c.conv c.quote = true ∧
      convertValueStr c true s = .ok t ∧ decodeQuoted c.conv c.quote t ≠ some (filtered c.conv s) :=
  ⟨{ quote := ['"'], esc := some ['\\'], multi := some ['.', '"'], single := some ['.'],
     addEscaped := ['\\'], filter := [] }, [.qm], ['"', '.', '"'],
   by decide, by decide, by decide, by decide⟩

example : convWf stdStr.conv = true ∧ quoteWf stdStr.conv stdStr.quote = true ∧
    quoteTailOk stdStr.conv stdStr.quote = true := by decide
example : decodeQuoted stdStr.conv stdStr.quote "\"a\\\"b*\"".toList
    = some [.lit 'a', .lit '"', .lit 'b', .star] :=
  quoted_decodes stdStr (by decide) (by decide) (by decide) [.lit 'a', .lit '"', .lit 'b', .star] _
    (by decide)

/-! ## 3b. Literals emitted without quotes by a backend that has a string quote (conditional quoting) -/

/-- Whatever the quoting decision was: a value that `convert_value_str` emits WITHOUT quotes is read
back exactly by the target's bare-word reader, for which the quote character keeps its meaning inside
a bare word (`decodeBare`): no source character — in particular not the quote character, which the
backend adds to the escaped set whether or not it quotes — acts as a string delimiter there.
(`quoteTailOk` is not needed: nothing follows a bare word.) -/
theorem bare_decodes (c : StrCfg) (hk : convWf c.conv = true)
    (hq : quoteWf c.conv c.quote = true)
    (s : SStr) (t : Str) (h : convertValueStr c false s = .ok t) :
    decodeBare c.conv c.quote t = some (filtered c.conv s) := by
  obtain ⟨e, W⟩ := wf_of_convWf hk
  obtain ⟨qc, hqc, Q⟩ := qwf0_of W hq
  unfold convertValueStr at h
  cases hr : convert c.conv s with
  | error err => simp [hr] at h
  | ok t' =>
    simp only [hr, Bool.false_eq_true, if_false, Except.ok.injEq] at h
    subst h
    unfold decodeBare
    rw [hqc]
    simp only [List.isEmpty_cons, Bool.false_eq_true, if_false]
    exact decodeBareBody_convert W Q s t' hr _ (Nat.lt_succ_self _)

/-- a language without a string quote: the bare-word reader is the plain token reader -/
theorem bare_decodes_noquote (k : Conv) (t : Str) : decodeBare k [] t = decode k t := by
  simp [decodeBare]

example : decodeBare stdStr.conv stdStr.quote "6\\\"x4\\\"*".toList
    = some [.lit '6', .lit '"', .lit 'x', .lit '4', .lit '"', .star] :=
  bare_decodes stdStr (by decide) (by decide) [.lit '6', .lit '"', .lit 'x', .lit '4', .lit '"', .star]
    _ (by decide)

/-- escaping the quote is necessary also when the value is not quoted: the same value with its quote
characters left bare is not a bare word of the target (the reader rejects it), although the
quote-unaware token reader `decode` would accept it -/
theorem bare_quote_needed :
    decodeBare stdStr.conv stdStr.quote "6\"x4\"".toList = none ∧
    decode stdStr.conv "6\"x4\"".toList = some [.lit '6', .lit '"', .lit 'x', .lit '4', .lit '"'] := by
  decide

/-! ## 4. The regular-expression form matches exactly what the wildcard pattern matches -/

/-- (`hc` holds for every `custom`, see `regexConv_wf`; it is kept for uniformity and not used.) -/
theorem toRegex_glob (custom : Str) (_hc : convWf (regexConv custom) = true) (s : SStr) (r : Str)
    (h : toRegex custom s = .ok r) (x : Str) : reMatch r x = some (glob s x) := by
  unfold reMatch
  rw [reRead_convert custom s r h _ (Nat.lt_succ_self _)]
  simp [reMatchAtoms_atoms s x (convert_noPh s r h)]

example : toRegex ['/'] [.lit 'a', .lit '.', .star, .lit '/', .qm] = .ok "a\\..*\\/.".toList := by
  decide
example (x : Str) : reMatch "a\\..*\\/.".toList x
    = some (glob [.lit 'a', .lit '.', .star, .lit '/', .qm] x) :=
  toRegex_glob ['/'] (regexConv_wf _) _ _ (by decide) x

/-! ## 5. Plain form and re-parsing -/

/-- `parse ∘ toPlain` is the identity on strings without placeholders in which no literal `\` is
immediately followed by a literal `\`, `*`, `?` or a wildcard. -/
theorem parse_toPlain_partial (s : SStr) (hph : noPh s = true) (hbs : bsOk s = true) :
    parse (toPlain s) = s :=
  (parseAux_toPlain s hph hbs).1

example : noPh [.lit 'a', .lit '\\', .lit 'b', .star, .lit '*', .lit '\\'] = true ∧
    bsOk [.lit 'a', .lit '\\', .lit 'b', .star, .lit '*', .lit '\\'] = true := by decide

/-- the full statement is false: the plain form is not injective (`\` followed by a wildcard) -/
theorem parse_toPlain_lossy : parse (toPlain [.lit '\\', .star]) ≠ [.lit '\\', .star] := by
  decide

/-- `toPlain ∘ parse` followed by `parse` is NOT the identity in general: `\\*` -/
theorem toPlain_parse_lossy :
    parse (toPlain (parse ['\\', '\\', '*'])) ≠ parse ['\\', '\\', '*'] := by
  decide

/-- … it is on the inputs whose parse has no literal `\` in front of a special part -/
theorem toPlain_parse (x : Str) (h : bsOk (parse x) = true) :
    parse (toPlain (parse x)) = parse x :=
  parse_toPlain_partial _ (parse_noPh _ _ _) h

example : bsOk (parse "a\\*b\\c*\\".toList) = true := by decide

/-- The library's own round trip through the plain form (`replace_string`, plain-form mode, with an
expression that matches nothing: plain form, backslashes re-escaped, parsed again) hands back the
identical value for every string without placeholders in which no literal `\` stands immediately in
front of a wildcard — in particular for every run of backslashes and for a backslash in front of a
literal `*` / `?`, where the bare plain form is lossy. -/
theorem replace_identity_partial (s : SStr) (hph : noPh s = true) (hbs : bsWildOk s = true) :
    replaceIdentity s = s :=
  parseAux_reescape_toPlain s hph hbs

example : noPh [.lit '\\', .lit '\\', .lit '\\', .lit '*', .star, .lit '\\'] = true ∧
    bsWildOk [.lit '\\', .lit '\\', .lit '\\', .lit '*', .star, .lit '\\'] = true ∧
    bsOk [.lit '\\', .lit '\\', .lit '\\', .lit '*', .star, .lit '\\'] = false := by decide

/-- the full statement is false (D3): a literal `\` in front of a wildcard comes back as a literal star -/
theorem replace_identity_lossy : replaceIdentity [.lit '\\', .star] = [.lit '*'] := by
  decide

/-! ## 6. Field names

The target's reading of a quoted name (`decodeField`, `readQuotedField`) is strict: escape-aware,
and the first unescaped occurrence of the quote string ends the name. -/

/-- The rendered field name is read back exactly — in particular nothing in the name terminates a
quoted rendering early — provided (`fieldWf`) the first character of the escape string is itself
among the escaped characters and (`fieldQuoteOk`, only for a name emitted between non-empty quotes)
the quote is escaped by the configuration or does not occur in the name. -/
theorem field_roundtrip (c : FieldCfg) (hwf : fieldWf c = true) (quoted : Bool) (f : Str)
    (hq : fieldQuoteOk c quoted f = true) :
    decodeField c quoted (escapeAndQuoteField c quoted f) = some f :=
  decodeField_escapeAndQuoteField c hwf quoted f hq

/-- for a configuration that escapes its (one-character) quote, `fieldQuoteOk` holds for every
name: the round trip is unconditional in the name, as before -/
theorem field_roundtrip_quote_escaped (c : FieldCfg) (hwf : fieldWf c = true) (qc : Char)
    (hcq : c.quote = some [qc]) (hesc : fieldEscaped c qc = true) (quoted : Bool) (f : Str) :
    decodeField c quoted (escapeAndQuoteField c quoted f) = some f := by
  refine field_roundtrip c hwf quoted f ?_
  have hp := escNotQuotePrefix_single c qc
  cases quoted <;> simp [fieldQuoteOk, hcq, hp, hesc]

example : fieldWf { escape := some ['\\'], escapeChars := [' ', '\\'], escapeQuote := true,
                    quote := some ['`'] } = true := by decide
example : fieldQuoteOk { escape := some ['\\'], escapeChars := [' ', '\\'], escapeQuote := true,
                         quote := some ['`'] } true ['a', '`', 'b'] = true := by decide
/-- a configuration that does not escape its quote still round-trips names without the quote -/
example : fieldQuoteOk { escape := some ['\\'], escapeChars := ['\\'], escapeQuote := false,
                         quote := some ['"'] } true ['a', ' ', 'b'] = true := by decide

/-- A configuration that escapes its quote character TWICE OVER — the escape class contains it and
`field_escape_quote` is set — still emits exactly one escape string in front of it: the rendering is
the one of either mechanism alone, and it reads back (instance of `field_roundtrip_quote_escaped`). -/
theorem field_quote_in_class_once (e : Str) (cls : List Char) (qc : Char) (hq : qc ∈ cls) (f : Str) :
    escapeField { escape := some e, escapeChars := cls, escapeQuote := true, quote := some [qc] } f
      = escapeField { escape := some e, escapeChars := cls, escapeQuote := false, quote := some [qc] } f := by
  simp only [escapeField]
  congr 1
  funext ch
  by_cases h : ch ∈ cls
  · simp [h]
  · have hne : qc ≠ ch := by
      rintro rfl
      exact h hq
    simp [h, hne]

example :
    let c : FieldCfg := { escape := some ['\\'], escapeChars := [' ', '\\', '\''], escapeQuote := true,
                          quote := some ['\''] }
    escapeAndQuoteField c true "user's name".toList = "'user\\'s\\ name'".toList ∧
    decodeField c true "'user\\'s\\ name'".toList = some "user's name".toList ∧
    -- the quote escaped twice: `\\` is a backslash, the quote after it ends the name early
    decodeField c true "'user\\\\'s\\ name'".toList = none := by decide

/-- without "the escape character is among the escaped characters" it fails -/
theorem field_escape_needed :
    ∃ (c : FieldCfg) (f : Str),
      c = { escape := some ['\\'], escapeChars := [' '], escapeQuote := false, quote := none } ∧
      decodeField c false (escapeAndQuoteField c false f) ≠ some f :=
  ⟨_, ['\\', 'a'], rfl, by decide⟩

/-- `fieldQuoteOk` is exact for a one-character quote: when the configuration does not escape the
quote character and the name contains it, the quoted rendering is terminated early (for every
well-formed configuration and every such name) -/
theorem field_quote_needed (c : FieldCfg) (hwf : fieldWf c = true) (qc : Char)
    (hcq : c.quote = some [qc]) (f : Str) (hq : fieldQuoteOk c true f = false) :
    decodeField c true (escapeAndQuoteField c true f) = none :=
  decodeField_unescaped_quote c hwf qc hcq f hq

/-- witness: quote `"`, `field_escape_quote` false, `"` not in the escape class: the name `a"b` is
rendered `"a"b"`, which the target reads as the name `a` followed by garbage — terminated early -/
theorem field_quote_unescaped_terminates :
    ∃ (c : FieldCfg) (f : Str),
      c = { escape := some ['\\'], escapeChars := ['\\'], escapeQuote := false, quote := some ['"'] } ∧
      f = ['a', '"', 'b'] ∧ fieldWf c = true ∧
      escapeAndQuoteField c true f = ['"', 'a', '"', 'b', '"'] ∧
      decodeField c true (escapeAndQuoteField c true f) = none ∧
      decodeField c true (escapeAndQuoteField c true f) ≠ some f :=
  ⟨_, _, rfl, rfl, by decide, by decide, by decide, by decide⟩

/-- the same text emitted by a configuration that SHOULD escape the quote (what the implementation
produces when it escapes the wrong quote character) is rejected by the reader, while the correct
rendering `"a\"b"` reads back -/
example :
    let c : FieldCfg := { escape := some ['\\'], escapeChars := [' ', '\\'], escapeQuote := true,
                          quote := some ['"'] }
    decodeField c true ['"', 'a', '"', 'b', '"'] = none ∧
    decodeField c true ['"', 'a', '\\', '"', 'b', '"'] = some ['a', '"', 'b'] := by decide

end SigmaVerif.Props.C05
