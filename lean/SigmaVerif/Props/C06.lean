import SigmaVerif.Model.SStr
namespace SigmaVerif.Props.C06
open SigmaVerif.SStr

/-- the plain form of a wildcard-free, backslash-free string is the string itself and re-parses
to the identical value (the base case every dict round trip rests on; the general statement is
`Props.C05.parse_toPlain_partial`) -/
theorem plain_roundtrip_simple (s : List Char) (h : ∀ c ∈ s, c ≠ '\\' ∧ c ≠ '*' ∧ c ≠ '?') :
    toPlain (s.map .lit) = s ∧ parse (toPlain (s.map .lit)) = s.map .lit := by
  induction s with
  | nil => simp [toPlain, parse, parseAux]
  | cons c r ih =>
    have hc := h c (by simp)
    have hr : ∀ d ∈ r, d ≠ '\\' ∧ d ≠ '*' ∧ d ≠ '?' := fun d hd => h d (by simp [hd])
    obtain ⟨ih1, ih2⟩ := ih hr
    have e1 : (c == '*') = false := by simp [hc.2.1]
    have e2 : (c == '?') = false := by simp [hc.2.2]
    have e3 : (c == '\\') = false := by simp [hc.1]
    constructor
    · simp [toPlain, e1, e2, ih1]
    · simp only [List.map_cons, toPlain, e1, e2, Bool.or_self, Bool.false_eq_true, ↓reduceIte, List.singleton_append,
        parse, parseAux, e3, Bool.false_and]
      rw [ih1] at ih2
      simpa [parse, ih1] using ih2

end SigmaVerif.Props.C06
