import SigmaVerif.Model.Ser
import SigmaVerif.Lemmas.C06LogSource
import SigmaVerif.Lemmas.C06Item
import SigmaVerif.Lemmas.C06Det
import SigmaVerif.Lemmas.C06Touch
import SigmaVerif.Lemmas.C06Date
import SigmaVerif.Lemmas.C06Sem
import SigmaVerif.Lemmas.C06Alias
import SigmaVerif.Lemmas.C06SemDet
import SigmaVerif.Lemmas.C06Scalar
import SigmaVerif.Lemmas.C06Split
import SigmaVerif.Lemmas.C06Merge
/-!
# C06 — serialising a rule and loading it again preserves its meaning

Property theorems about the model `SigmaVerif.Ser` (`Model/Ser.lean`) of `from_mapping` / `to_plain`,
`from_definition` / `to_plain`, `SigmaDetections.from_dict` / `to_dict`, the effect of the
transformations on `original_value`, and the rule dates.  Helper lemmas and the side conditions
(`valsOk`, `Good`, `GoodDoc`, `plainFaithful`, `hasDisabled`) are in `Lemmas/C06*.lean`.

What is proved, for every document (no bound on sizes or nesting):
* an item, a detection, a detection section that loaded is written, and what is written loads to the
  *same object* (hence is written identically again, and means the same to any consumer of the object);
* the exact classes for which this fails in the code are excluded by hypotheses and recorded as witness
  theorems (findings D3, D62–D65 of the code; D67 for transformed rules);
* the key-merging loop: fusing non-negated items preserves the meaning, every collision of a key carrying `neq` is refused
  because fusing would change the meaning (`merge_all_preserves_meaning`,
  `merge_all_lists_preserves_meaning`, `neq_collision_refused`, `neq_merge_would_change_meaning`,
  `neq_all_collision_refused`, `neq_all_merge_would_change_meaning`);
* value transformations and one-to-many field mappings are faithful or refuse (`resync_faithful`,
  `resync_nonplain_refuses`, `split_faithful`, `split_replaced_refuses`, `and_of_detections_refused`:
  the former findings D60, D61, D68, fixed in the code);
* an item on which `disable_conversion_to_plain()` was called makes every enclosing `to_plain` fail;
* both date spellings read to the same date, the ISO spelling is a fixed point.
* the specification's reading (`Rule.itemBE` / `Rule.detBE`, `Spec/Rule.lean`) of the written document
  equals that of the original one (`item_meaning_preserved`, `detection_meaning_preserved`).
* a top-level list of definitions that are all written as bare scalars (excluded from `Good`) is
  written as the list of the scalars, which loads as ONE keyword item: another object, same meaning,
  dict fixed point iff it has at least two elements (`scalar_list_roundtrip`).
* the log source: every attribute that was given - the empty string included - is written, the written
  form loads to the same log source, and a filter meets exactly the same rules after both were written and
  loaded again (`logsource_roundtrip`, `logsource_filter_application_preserved`); writing by truthiness
  instead would change which rules a filter meets (`logsource_empty_string_matters`).
Partial: such a list *nested* inside another list of definitions is covered by witnesses only.
-/
namespace SigmaVerif.Props.C06
open SigmaVerif.SStr SigmaVerif.SStrSpec SigmaVerif.Mods SigmaVerif.Ser
open SigmaVerif.Rule (PV splitOn pvToVal)

/-- a fixed environment for the concrete witnesses -/
def env0 : Env := { w := fun _ => false }

/-! ## 0. strings -/

/-- the plain form of a wildcard-free, backslash-free string is the string itself and re-parses
to the identical value (the base case every dict round trip rests on; the general statement is
`Props.C05.parse_toPlain_partial`) -/
theorem plain_roundtrip_simple (s : List Char) (h : ∀ c ∈ s, c ≠ '\\' ∧ c ≠ '*' ∧ c ≠ '?') :
    toPlain (s.map .lit) = s ∧ parse (toPlain (s.map .lit)) = s.map .lit := by
  induction s with
  | nil => simp [toPlain, parse, parseAux]
  | cons c r ih =>
    have hc := h c (by simp)
    have hr : ∀ d ∈ r, d ≠ '\\' ∧ d ≠ '*' ∧ d ≠ '?' := fun d hd => h d (by simp [hd])
    obtain ⟨ih1, ih2⟩ := ih hr
    have e1 : (c == '*') = false := by simp [hc.2.1]
    have e2 : (c == '?') = false := by simp [hc.2.2]
    have e3 : (c == '\\') = false := by simp [hc.1]
    constructor
    · simp [toPlain, e1, e2, ih1]
    · simp only [List.map_cons, toPlain, e1, e2, Bool.or_self, Bool.false_eq_true, ↓reduceIte, List.singleton_append,
        parse, parseAux, e3, Bool.false_and]
      rw [ih1] at ih2
      simpa [parse, ih1] using ih2

/-! ## 1. one detection item -/

/-- **Item round trip.**  For every key and value that `from_mapping` accepts: `to_plain` succeeds and
writes `plainOf k v` (the field, the canonical modifier identifiers, the original values re-serialised,
a one element list as its element); loading that gives the *same object* — same field, modifier
classes, applied values, linking, negation and `original_value` — and therefore the same plain form
again (fixed point from the first write on).  The reload needs the side condition `valsOk` on string
values forced by finding D3 (no literal backslash directly before a wildcard, an escaped wildcard or a
backslash; strings under `re` are exempt because they are written raw). -/
theorem item_roundtrip (env : Env) (k : Str) (v : PVals) (it : Ser.Item)
    (h : fromMapping env k v = .ok it) :
    toPlainItem it = .ok (plainOf k v) ∧
    (valsOk k v = true →
      fromIPlain env (plainOf k v) = .ok it ∧
      ∀ it', fromIPlain env (plainOf k v) = .ok it' → toPlainItem it' = .ok (plainOf k v)) := by
  obtain ⟨h1, h2⟩ := item_plain_reload env k v it h
  refine ⟨h1, fun hv => ⟨h2 hv, ?_⟩⟩
  intro it' h'
  rw [h2 hv] at h'
  cases h'
  exact h1

example : valsOk "f|contains".toList (.many [.str "a*b".toList, .str "c\\d".toList, .num ['1']]) = true := by decide
example : ∃ it, fromMapping env0 "f|contains".toList (.one (.str "a*b".toList)) = .ok it := ⟨_, rfl⟩

/-- `x` and `[x]` load to the same object; `to_plain` writes `x`. -/
theorem one_many_same_object (env : Env) (k : Str) (x : PV) :
    fromMapping env k (.one x) = fromMapping env k (.many [x]) := rfl

/-- **Finding D3 at item level**: without the side condition the reload is another object.  The value
`a\\*` (a, backslash, backslash, star: a literal backslash followed by a wildcard) is written as `a\*`,
which loads as `a` followed by a literal star. -/
theorem item_roundtrip_fails_backslash_wildcard :
    valsOk ['f'] (.one (.str ['a', '\\', '\\', '*'])) = false ∧
    fromMapping env0 ['f'] (.one (.str ['a', '\\', '\\', '*'])) =
      .ok ⟨some ['f'], [], [.str false [.lit 'a', .lit '\\', .star]], false, false,
           some [.str false [.lit 'a', .lit '\\', .star]]⟩ ∧
    plainOf ['f'] (.one (.str ['a', '\\', '\\', '*'])) = .keyed ['f'] (.one (.str ['a', '\\', '*'])) ∧
    fromIPlain env0 (.keyed ['f'] (.one (.str ['a', '\\', '*']))) =
      .ok ⟨some ['f'], [], [.str false [.lit 'a', .lit '*']], false, false,
           some [.str false [.lit 'a', .lit '*']]⟩ :=
  ⟨by decide, rfl, by decide, rfl⟩

/-! ## 2. detections and the detection section -/

/-- **Detection round trip** (induction over the detection tree: maps, keyword lists, lists of
definitions, nested to any depth).  For every `Good` definition that loads: `to_plain` succeeds, the
written definition loads to the *same object*, and is therefore written identically again.  (`Good`:
D3 side condition on strings; no single-null keyword detection; the empty key only alone in a map;
keys distinct in canonical spelling; no list consisting only of definitions written as bare scalars.) -/
theorem detection_roundtrip (env : Env) (p : PDef) (d : Det) (hg : Good p = true)
    (h : fromDef env p = .ok d) :
    ∃ q, toPlainDet d = .ok q ∧ fromDef env q = .ok d ∧
      ∀ d', fromDef env q = .ok d' → toPlainDet d' = .ok q := by
  obtain ⟨q, h1, h2, _⟩ := det_rt env p d hg h
  refine ⟨q, h1, h2, ?_⟩
  intro d' h'
  rw [h2] at h'
  cases h'
  exact h1

example : Good (.list [.map [("f|re|i".toList, .one (.str "a.*".toList)), ("g".toList, .many [.num ['1'], .null])],
                       .list [.val (.str "kw".toList), .val (.num ['2'])],
                       .list [.list [.val (.str "x".toList)], .map [("".toList, .many [.str "k1".toList, .str "k2".toList])]]]) = true := by
  decide

/-- **Detection section round trip**: named detections and the condition list.  A single condition is
written as a scalar, several as a list; `c` and `[c]` load alike. -/
theorem detections_roundtrip (env : Env) (p : PDoc) (D : Detections) (hg : GoodDoc p = true)
    (h : loadDoc env p = .ok D) :
    ∃ p', serDoc D = .ok p' ∧ loadDoc env p' = .ok D ∧
      ∀ D', loadDoc env p' = .ok D' → serDoc D' = .ok p' := by
  obtain ⟨p', h1, h2⟩ := doc_rt env p D hg h
  refine ⟨p', h1, h2, ?_⟩
  intro D' h'
  rw [h2] at h'
  cases h'
  exact h1

/-- the condition spelling: one condition is a scalar, `[c]` is written as `c` -/
theorem single_condition_scalar (d : List (Str × Det)) (c : Str) (ps : List (Str × PDef))
    (h : mapNamed toPlainDet d = .ok ps) :
    serDoc { dets := d, conds := [c] } = .ok { dets := ps, cond := .one c } := by
  simp only [serDoc, h]

/-! ### the excluded classes, as witnesses (the model records the findings) -/

/-- D62: a map with the empty key next to another key loads, `to_plain` refuses ("mixed types") -/
theorem mixed_empty_key_refused :
    ∃ d, fromDef env0 (.map [([], .one (.str ['x'])), (['f'], .one (.str ['y']))]) = .ok d ∧
      toPlainDet d = .error .refused := ⟨_, rfl, rfl⟩

/-- D63: a single-null keyword detection loads, `to_plain` drops the `None` and fails "empty" -/
theorem null_keyword_empty :
    ∃ d, fromDef env0 (.val .null) = .ok d ∧ toPlainDet d = .error .empty := ⟨_, rfl, rfl⟩

/-- D64: two alias spellings of one key, one of them with a value list: the merge loop refuses … -/
theorem alias_keys_refused :
    ∃ d, fromDef env0 (.map [("f|re|i".toList, .many [.str ['a'], .str ['c']]),
                             ("f|re|ignorecase".toList, .one (.str ['b']))]) = .ok d ∧
      toPlainDet d = .error .refused := ⟨_, rfl, rfl⟩

/-- … with scalars the two items are fused into one `|all` item (another object, same meaning) -/
theorem alias_keys_fused :
    ∃ d, fromDef env0 (.map [("f|re|i".toList, .one (.str ['a'])),
                             ("f|re|ignorecase".toList, .one (.str ['b']))]) = .ok d ∧
      toPlainDet d = .ok (.map [("f|re|ignorecase|all".toList, .many [.str ['a'], .str ['b']])]) :=
  ⟨_, rfl, rfl⟩

/-- D65: `[[a]]` is written `[a]`, which loads as one keyword item and is written `a`: the dict form
settles only with the second write -/
theorem singleton_list_two_writes :
    ∃ d d', fromDef env0 (.list [.list [.val (.str ['a'])]]) = .ok d ∧
      toPlainDet d = .ok (.list [.val (.str ['a'])]) ∧
      fromDef env0 (.list [.val (.str ['a'])]) = .ok d' ∧
      toPlainDet d' = .ok (.val (.str ['a'])) := ⟨_, _, rfl, rfl, rfl, rfl⟩

/-- a list of single keyword definitions is written as a list of scalars: a fixed point of the dict
form, but the reload is ONE item with two values instead of two detections -/
theorem scalar_list_other_object :
    ∃ i1 i2 j, fromDef env0 (.list [.list [.val (.str ['a'])], .list [.val (.str ['b'])]])
        = .ok (.node [.node [.item i1] false, .node [.item i2] false] true) ∧
      toPlainDet (.node [.node [.item i1] false, .node [.item i2] false] true)
        = .ok (.list [.val (.str ['a']), .val (.str ['b'])]) ∧
      fromDef env0 (.list [.val (.str ['a']), .val (.str ['b'])]) = .ok (.node [.item j] false) ∧
      toPlainDet (.node [.item j] false) = .ok (.list [.val (.str ['a']), .val (.str ['b'])]) :=
  ⟨_, _, _, rfl, rfl, rfl, rfl⟩

/-- **Lists of scalar-written definitions** (the class `Good` excludes: `[[a],[b]]`, `[{"": a}, b]` …).
The list loads (`d`), is written as the list of its scalars, that list loads as one keyword item `j`
holding all values — another object, but with the same meaning (`detObjBE`) — and from two elements on
the dict form is a fixed point; with one element the second write collapses `[a]` to `a` (D65,
`singleton_list_two_writes`). -/
theorem scalar_list_roundtrip (cx : Rule.Ctx) (es : List PDef) (hnv : es.all PDef.isVal = false)
    (hs : es.all scalarish = true) (hg : GoodL es = true) :
    ∃ (d : Det) (vs : List PV) (j : Ser.Item),
      fromDef cx.env (.list es) = .ok d ∧
      toPlainDet d = .ok (.list (vs.map .val)) ∧
      fromDef cx.env (.list (vs.map .val)) = .ok (.node [.item j] false) ∧
      detObjBE cx (.node [.item j] false) = detObjBE cx d ∧
      (2 ≤ es.length → toPlainDet (.node [.item j] false) = .ok (.list (vs.map .val))) :=
  scalar_list_rt cx es hnv hs hg

example : ([PDef.list [.val (.str ['a'])], .map [([], .one (.str ['b']))]]).all PDef.isVal = false ∧
    ([PDef.list [.val (.str ['a'])], .map [([], .one (.str ['b']))]]).all scalarish = true ∧
    GoodL [PDef.list [.val (.str ['a'])], .map [([], .one (.str ['b']))]] = true := by decide

/-! ### colliding keys (many-to-one field mapping): the merging loop -/

/-- a context for the concrete witnesses -/
def cx0 : Rule.Ctx := { env := env0, nativeCidr := true }

/-- **Fusing two non-negated items under one key preserves the meaning.**  Two single-valued items with
the same field and modifiers (what `k: x` and `k: y` are after the mapping) mean the AND of the two value
conditions, and so does the fused item `k|all: [x, y]` — for every modifier chain; error outcomes agree. -/
theorem merge_all_preserves_meaning (cx : Rule.Ctx) (f : Option Str) (ms ms' : List Str) (w1 w2 : Val)
    (o1 o2 o : Option (List Val)) :
    detObjBE cx (.node [.item ⟨f, ms, [w1], false, false, o1⟩, .item ⟨f, ms, [w2], false, false, o2⟩] false)
      = objBE cx ⟨f, ms', [w1, w2], true, false, o⟩ :=
  fuse_scalars_meaning cx f ms ms' w1 w2 o1 o2 o

/-- the document level of it: after `a → c, b → c` the items `c: x`, `c: y` are written `c|all: [x, y]`,
which loads as the fused item -/
example :
    toPlainDet (.node [.item ⟨some ['c'], [], [.str false [.lit 'x']], false, false, some [.str false [.lit 'x']]⟩,
                       .item ⟨some ['c'], [], [.str false [.lit 'y']], false, false, some [.str false [.lit 'y']]⟩] false)
      = .ok (.map [("c|all".toList, .many [.str ['x'], .str ['y']])]) ∧
    fromDef env0 (.map [("c|all".toList, .many [.str ['x'], .str ['y']])])
      = .ok (.node [.item ⟨some ['c'], ["all".toList], [.str false [.lit 'x'], .str false [.lit 'y']], true, false,
                           some [.str false [.lit 'x'], .str false [.lit 'y']]⟩] false) := ⟨rfl, rfl⟩

/-- **Concatenating the value lists of two non-negated `…|all` items preserves the meaning** (same truth
value under every assignment of the atoms). -/
theorem merge_all_lists_preserves_meaning (cx : Rule.Ctx) (f : Option Str) (ms : List Str) (ws1 ws2 : List Val)
    (o1 o2 o : Option (List Val)) (es1 es2 : List Rule.BE) (h1 : ws1 ≠ []) (h2 : ws2 ≠ [])
    (he1 : Rule.mapME (Rule.valBE' cx f) ws1 = .ok es1) (he2 : Rule.mapME (Rule.valBE' cx f) ws2 = .ok es2) :
    ∃ a b, detObjBE cx (.node [.item ⟨f, ms, ws1, true, false, o1⟩, .item ⟨f, ms, ws2, true, false, o2⟩] false) = .ok a ∧
      objBE cx ⟨f, ms, ws1 ++ ws2, true, false, o⟩ = .ok b ∧ ∀ ρ, a.eval ρ = b.eval ρ :=
  fuse_all_meaning cx f ms ws1 ws2 o1 o2 o es1 es2 h1 h2 he1 he2

/-- **A collision of two negated single-valued items is refused** (fix d3c92a0 of the code) … -/
theorem neq_collision_refused :
    toPlainDet (.node [.item ⟨some ['c'], ["neq".toList], [.str false [.lit 'x']], false, true, some [.str false [.lit 'x']]⟩,
                       .item ⟨some ['c'], ["neq".toList], [.str false [.lit 'y']], false, true, some [.str false [.lit 'y']]⟩] false)
      = .error .refused := rfl

/-- … because fusing them as the non-negated ones are fused (the behaviour before the fix: `c|neq|all: [x, y]`)
would change the meaning: NOT (c=x AND c=y) instead of NOT c=x AND NOT c=y; the assignment "c=x holds,
c=y does not" tells them apart. -/
theorem neq_merge_would_change_meaning :
    ∃ a b, detObjBE cx0 (.node [.item ⟨some ['c'], ["neq".toList], [.str false [.lit 'x']], false, true, none⟩,
                               .item ⟨some ['c'], ["neq".toList], [.str false [.lit 'y']], false, true, none⟩] false) = .ok a ∧
      objBE cx0 ⟨some ['c'], ["neq".toList, "all".toList], [.str false [.lit 'x'], .str false [.lit 'y']], true, true, none⟩ = .ok b ∧
      a.eval (fun t => t == .str (some ['c']) false [.lit 'x']) = false ∧
      b.eval (fun t => t == .str (some ['c']) false [.lit 'x']) = true := ⟨_, _, rfl, rfl, rfl, rfl⟩

/-- **A collision of two negated `…|all` items is refused as well** (fix aeb74f2 of the code: the test for
`neq` sits at the key collision itself, before the `"|all" in k` branch) … -/
theorem neq_all_collision_refused :
    toPlainDet (.node [.item ⟨some ['c'], ["neq".toList, "all".toList], [.str false [.lit 'x']], true, true, some [.str false [.lit 'x']]⟩,
                       .item ⟨some ['c'], ["neq".toList, "all".toList], [.str false [.lit 'y']], true, true, some [.str false [.lit 'y']]⟩] false)
      = .error .refused := rfl

/-- … because concatenating their value lists (the behaviour before the fix, former finding D73: written
`c|neq|all: [x, y]`) would change the meaning in the same way: the item that document loads to negates the
conjunction of all values. -/
theorem neq_all_merge_would_change_meaning :
    ∃ j a b,
      fromDef env0 (.map [("c|neq|all".toList, .many [.str ['x'], .str ['y']])]) = .ok (.node [.item j] false) ∧
      detObjBE cx0 (.node [.item ⟨some ['c'], ["neq".toList, "all".toList], [.str false [.lit 'x']], true, true, none⟩,
                           .item ⟨some ['c'], ["neq".toList, "all".toList], [.str false [.lit 'y']], true, true, none⟩] false) = .ok a ∧
      detObjBE cx0 (.node [.item j] false) = .ok b ∧
      a.eval (fun t => t == .str (some ['c']) false [.lit 'x']) = false ∧
      b.eval (fun t => t == .str (some ['c']) false [.lit 'x']) = true := ⟨_, _, _, rfl, rfl, rfl, rfl, rfl⟩

/-! ## 3. items changed by a pipeline -/

/-- **A touched item refuses.**  After `disable_conversion_to_plain()` (every transformation that
returns a replaced item; value transformations on items with modifiers; field mappings that replace
the value list) `to_plain` of the item is a Sigma error whatever the new values are … -/
theorem touched_refuses (vs : List Val) (it : Ser.Item) :
    toPlainItem (disable vs it) = .error .refused :=
  toPlainItem_disabled _ rfl

/-- … and so is `to_plain` of every detection that contains such an item, at any depth: the
serialisation fails rather than emitting a dict with another meaning. -/
theorem touched_detection_refuses (d : Det) (h : hasDisabled d = true) : ∀ q, toPlainDet d ≠ .ok q :=
  toPlainDet_disabled d h

example : hasDisabled (.node [.node [.item ⟨some ['g'], [], [], false, false, some []⟩,
    .item (disable [] ⟨some ['f'], [], [], false, false, some []⟩)] true] false) = true := by decide

/-- **Untouched items are unaffected**: the plain form of an item depends on its field, modifier
classes and `original_value` only — changing `value`, linking or negation of an item that keeps its
`original_value` changes nothing in what is written (so what is written is the *original* meaning). -/
theorem untouched_unaffected (it : Ser.Item) (vs : List Val) (l n : Bool) :
    toPlainItem { it with value := vs, linkAnd := l, negated := n } = toPlainItem it := rfl

/-- A one-to-one field mapping (`rename`) keeps the item serialisable and faithful: what is written
loads to the renamed item, provided the new name can be a key (non-empty, no `|`). -/
theorem rename_faithful (env : Env) (k : Str) (v : PVals) (it : Ser.Item) (f' : Str)
    (h : fromMapping env k v = .ok it) (hfield : it.field.isSome = true)
    (hf1 : f'.isEmpty = false) (hf2 : '|' ∉ f') (hv : valsOk k v = true) :
    ∃ p, toPlainItem (rename f' it) = .ok p ∧ fromIPlain env p = .ok (rename f' it) :=
  rename_reload env k v it f' h hfield hf1 hf2 hv

/-- D67: a new name containing `|` is written as a key that is split differently on reload -/
theorem rename_bar_unfaithful :
    ∃ it it', fromMapping env0 ['f'] (.one (.str ['x'])) = .ok it ∧
      toPlainItem (rename "a|contains".toList it) = .ok (.keyed "a|contains".toList (.one (.str ['x']))) ∧
      fromMapping env0 "a|contains".toList (.one (.str ['x'])) = .ok it' ∧
      (rename "a|contains".toList it).field = some "a|contains".toList ∧ it'.field = some ['a'] ∧
      it'.value = [.str false [.star, .lit 'x', .star]] := ⟨_, _, rfl, rfl, rfl, rfl, rfl, rfl⟩

/-- A value transformation on an item without modifiers whose new values are plain strings (uncased,
no placeholder, D3 side condition), numbers, booleans or null (`valueTouch` takes the `resync` branch:
`original_value` := the new values) keeps the item serialisable and faithful. -/
theorem resync_faithful (env : Env) (it : Ser.Item) (vs : List Val) (f : Str)
    (hm : it.mods = []) (hfield : it.field = if f.isEmpty then none else some f) (hf : '|' ∉ f)
    (hl : it.linkAnd = false) (hn : it.negated = false)
    (hvs : ∀ v ∈ vs, plainFaithful v = true) :
    ∃ p, toPlainItem (valueTouch vs it) = .ok p ∧ fromIPlain env p = .ok (valueTouch vs it) := by
  rw [valueTouch_resync vs it hm hvs]
  exact resync_reload env it vs f hm hfield hf hl hn hvs

/-- A value transformation on an item WITH modifiers, or one that yields a value that is not exactly a
string / number / boolean / null (the `regex` transformation: a regular expression), disables
serialisation: `to_plain` is a Sigma error.  (Before fix a600c5a of the code such values were written as
plain strings and read back as string matches — former finding D61.) -/
theorem resync_nonplain_refuses (vs : List Val) (it : Ser.Item)
    (h : (it.mods.isEmpty && vs.all plainType) = false) :
    toPlainItem (valueTouch vs it) = .error .refused :=
  valueTouch_refuses vs it h

example : toPlainItem (valueTouch [.re "[aA]".toList false false false] ⟨some ['f'], [], [], false, false, some []⟩)
    = .error .refused := rfl
example : toPlainItem (valueTouch [.str false [.lit 'x']] ⟨some ['f'], ["contains".toList], [], false, false, some []⟩)
    = .error .refused := rfl

/-- **One-to-many field mapping is faithful** (`split`: one copy per target field inside an OR-linked
detection, each keeping the source item's `original_value`).  For a loaded item bound to a field and
target names that can be keys: the detection of the copies is written (one map, or a list of maps), what
is written loads, and the reload means what the transformed detection means.  (The reload is another
object: every map of the list becomes a detection of its own.  Before fix 572dc5e the copies took the
*modified* values as `original_value` and `f|base64: a` came back encoded twice — former finding D60.) -/
theorem split_faithful (cx : Rule.Ctx) (k : Str) (v : PVals) (it : Ser.Item) (fs : List Str)
    (h : fromMapping cx.env k v = .ok it) (hfield : it.field.isSome = true) (hv : valsOk k v = true)
    (hne : fs ≠ []) (hok : fs.all fieldOk = true) :
    ∃ q d', toPlainDet (split fs false it.value it) = .ok q ∧ fromDef cx.env q = .ok d' ∧
      detObjBE cx d' = detObjBE cx (split fs false it.value it) :=
  split_reload cx k v it fs h hfield hv hne hok

/-- the base64 instance: `f|base64: a` mapped to `g`, `h` is written with the original value -/
example : ∃ it, fromMapping env0 "f|base64".toList (.one (.str ['a'])) = .ok it ∧
    toPlainDet (split [['g'], ['h']] false it.value it) =
      .ok (.list [.map [("g|base64".toList, .one (.str ['a']))], .map [("h|base64".toList, .one (.str ['a']))]]) :=
  ⟨_, rfl, rfl⟩

/-- When the mapping replaced the value list (mapped field references) or the source was a keyword item
(wildcards were added), every copy is disabled and the detection of the copies refuses. -/
theorem split_replaced_refuses (fs : List Str) (replaced : Bool) (vs : List Val) (it : Ser.Item)
    (hne : fs ≠ []) (h : (replaced || it.field.isNone) = true) :
    ∀ q, toPlainDet (split fs replaced vs it) ≠ .ok q :=
  Ser.split_replaced_refuses fs replaced vs it hne h

/-- **Several AND-linked sub-detections are refused** (all items of a map replaced by detections): a
list would read back OR-linked; OR-linked ones are written as a list.  (Before fix c403a46 the AND-linked
ones were written as a list too — former finding D68.) -/
theorem and_of_detections_refused (a b : Det) (pa pb : PDef)
    (ha : toPlainDet a = .ok pa) (hb : toPlainDet b = .ok pb) (na : a.isItem = false) (nb : b.isItem = false)
    (hna : isNone pa = false) (hnb : isNone pb = false) :
    toPlainDet (.node [a, b] false) = .error .refused ∧
    toPlainDet (.node [a, b] true) = .ok (.list [pa, pb]) := by
  constructor <;>
  · rw [toPlainDet]
    simp [na, nb, toPlainDets, ha, hb, hna, hnb, combine]

/-! ## 4. dates -/

/-- **Date round trip.**  For every valid date in the accepted range (years 1000–3999): the ISO
spelling `yyyy-mm-dd` that `to_dict` writes reads back to the same date, … -/
theorem date_roundtrip (t : Date) (hv : t.valid = true) (h1 : 1000 ≤ t.y) (h2 : t.y ≤ 3999) :
    parseDate (printDate t) = some t :=
  parse_printDate t hv h1 h2

/-- … every `/` spelling of it (month and day zero-padded or not) reads to that same date, so after the
first write the dict form is the ISO one and stays. -/
theorem date_spellings_agree (padM padD : Bool) (t : Date) (hv : t.valid = true)
    (h1 : 1000 ≤ t.y) (h2 : t.y ≤ 3999) :
    parseDate (printSlash padM padD t) = parseDate (printDate t) := by
  rw [parse_printSlash padM padD t hv h1 h2, parse_printDate t hv h1 h2]

/-- what is written has the ISO shape -/
theorem date_written_iso (t : Date) :
    ∃ a b c d e f g h, printDate t = [dch a, dch b, dch c, dch d, '-', dch e, dch f, '-', dch g, dch h] :=
  printDate_iso t

example : parseDate "2024/1/5".toList = some ⟨2024, 1, 5⟩ ∧ printDate ⟨2024, 1, 5⟩ = "2024-01-05".toList ∧
    parseDate "2024-1-5".toList = none ∧ parseDate "2024-02-30".toList = none ∧
    parseDate "2024-02-29".toList = some ⟨2024, 2, 29⟩ := by decide

/-! ## 5. meaning -/

/-- **Meaning preservation (object level).**  Any consumer of the loaded object — the backend's
conversion is one — sees the same thing before and after a write/load cycle, because the cycle gives
back the same object: for every function `conv` of the detection object. -/
theorem same_queries {α : Type} (conv : Det → α) (env : Env) (p : PDef) (d : Det)
    (hg : Good p = true) (h : fromDef env p = .ok d) :
    ∃ q, toPlainDet d = .ok q ∧ ∀ d', fromDef env q = .ok d' → conv d' = conv d := by
  obtain ⟨q, h1, h2, _⟩ := detection_roundtrip env p d hg h
  refine ⟨q, h1, ?_⟩
  intro d' h'
  rw [h2] at h'
  cases h'
  rfl

/-- **Meaning preservation (specification level), items.**  For every loaded item (alias spellings of
modifiers included): the specification's reading (`Rule.itemBE`, `Spec/Rule.lean`) of the original
`key: value` is the meaning of the loaded object, and the specification's reading of what `to_plain`
wrote is the same. -/
theorem item_meaning_preserved (cx : Rule.Ctx) (k : Str) (v : PVals) (it : Ser.Item)
    (h : fromMapping cx.env k v = .ok it) (hv : valsOk k v = true) :
    specOf cx (plainOf k v) = Rule.itemBE cx (some k) v.toList ∧
    Rule.itemBE cx (some k) v.toList = objBE cx it := by
  refine ⟨?_, itemBE_eq_objBE_all cx k v it h⟩
  rw [specOf_plainOf cx k v it h hv, itemBE_eq_objBE_all cx k v it h]

/-- **Meaning preservation (specification level), detections.**  For every `Good` definition that
loads, at any nesting depth (`n` is the fuel of the specification's reader, any bound of the nesting
depth): the specification's reading (`Rule.detBE`) of the written definition equals that of the original
one, and both are the meaning of the loaded object (`detObjBE`: a single child stands for itself,
several are linked by `item_linking`). -/
theorem detection_meaning_preserved (cx : Rule.Ctx) (p : PDef) (d : Det) (n : Nat) (hg : Good p = true)
    (h : fromDef cx.env p = .ok d) (hn : pdepth p ≤ n) :
    ∃ q, toPlainDet d = .ok q ∧
      Rule.detBE cx n (toRuleDet q) = Rule.detBE cx n (toRuleDet p) ∧
      Rule.detBE cx n (toRuleDet p) = detObjBE cx d := by
  obtain ⟨q, h1, h2, _⟩ := det_rt cx.env p d hg h
  have hq : pdepth q ≤ n := by rw [depth_eq cx.env q d h2, ← depth_eq cx.env p d h]; exact hn
  exact ⟨q, h1, by rw [detBE_eq cx q d n h2 hq, detBE_eq cx p d n h hn], detBE_eq cx p d n h hn⟩

example : pdepth (.list [.list [.val (.str ['a']), .map [(['f'], .one (.str ['x']))]], .val (.num ['1'])]) = 2 := by decide


/-! ## The log source -/
section LogSource
open SigmaVerif.LogSource

/-- A log source that loaded (it has a category, product or service; any of the four attributes may be the
empty string) is written so that loading the written form gives back the same log source: no attribute is
lost or invented, an empty string stays an empty string. -/
theorem logsource_roundtrip (l : LS) (h : l.nonEmpty = true) : fromDict (toDict l) = some l := by
  obtain ⟨hc, hp, hs, hd⟩ := lookup_toDict l
  unfold fromDict
  simp only [hc, hp, hs, hd]
  simp only [LS.nonEmpty, Bool.not_eq_true'] at h
  simp [h]

/-- … hence the dict form is a fixed point of load-and-write. -/
theorem logsource_dict_fixed_point (l : LS) (h : l.nonEmpty = true) :
    (fromDict (toDict l)).map toDict = some (toDict l) := by
  rw [logsource_roundtrip l h]; rfl

/-- A filter meets exactly the same rules after filter and rule were both written and loaded again. -/
theorem logsource_filter_application_preserved (f r : LS) (hf : f.nonEmpty = true) (hr : r.nonEmpty = true) :
    (do let f' ← fromDict (toDict f); let r' ← fromDict (toDict r); pure (f'.contains r')) = some (f.contains r) := by
  rw [logsource_roundtrip f hf, logsource_roundtrip r hr]; rfl

example : LS.nonEmpty { category := some [], product := none, service := none, definition := none } = true := by decide

/-- An empty-string attribute is a value: a filter for category `""`, product `p` does not meet a rule of category
`c`, product `p`, but the same filter without the category does - a writer that skips empty strings changes
which rules the filter is applied to. -/
theorem logsource_empty_string_matters :
    LS.contains { category := some [], product := some ['p'], service := none, definition := none }
                { category := some ['c'], product := some ['p'], service := none, definition := none } = false ∧
    LS.contains { category := none, product := some ['p'], service := none, definition := none }
                { category := some ['c'], product := some ['p'], service := none, definition := none } = true := by
  decide

end LogSource

end SigmaVerif.Props.C06
