import SigmaVerif.Model.Cidr
namespace SigmaVerif.Props.C18
open SigmaVerif.Cidr

/-- the unchanged code misses `2001:db8::ff` for the network `2001:db8::/120` -/
theorem v6_incomplete_120_patterns :
    expand6 (0x20010db8 * 2^96) 120 = ["2001:db8::".toList] := by decide +kernel

end SigmaVerif.Props.C18
