import SigmaVerif.Model.Cidr
import SigmaVerif.Lemmas.Cidr
import SigmaVerif.Lemmas.Cidr6Inj
/-!
# C18 — CIDR expansion into wildcard patterns

IPv4: for every prefix length and every aligned network the produced patterns match exactly the
addresses of the network, and no address is matched twice.  IPv6: the unchanged code is neither
complete nor sound; concrete witnesses.
-/
namespace SigmaVerif.Props.C18
open SigmaVerif.Cidr

/-- IPv4 exactness: an address (as dotted-quad text) is matched by one of the produced patterns
iff it lies in the network — for all 33 prefix lengths, all aligned networks, all addresses. -/
theorem v4_exact (base p a : Nat) (hp : p ≤ 32) (hb : base < 2 ^ 32)
    (hal : base % 2 ^ (32 - p) = 0) (ha : a < 2 ^ 32) :
    matches4 base p a = inNet 32 base p a :=
  matches4_eq_inNet base p a hp hb hal ha

/-- non-vacuity: 192.168.0.0/22 matches 192.168.3.77 and not 192.168.4.0 -/
example : matches4 (192 * 2 ^ 24 + 168 * 2 ^ 16) 22 (192 * 2 ^ 24 + 168 * 2 ^ 16 + 3 * 2 ^ 8 + 77) = true
    ∧ matches4 (192 * 2 ^ 24 + 168 * 2 ^ 16) 22 (192 * 2 ^ 24 + 168 * 2 ^ 16 + 4 * 2 ^ 8) = false := by
  rw [v4_exact _ _ _ (by decide) (by decide) (by decide) (by decide),
    v4_exact _ _ _ (by decide) (by decide) (by decide) (by decide)]
  decide

/-- IPv4 irredundancy: no address is matched by two different produced patterns. -/
theorem v4_irredundant (base p : Nat) (hp : p ≤ 32) (hb : base < 2 ^ 32)
    (hal : base % 2 ^ (32 - p) = 0) (i j : Nat) (hij : i < j) (hj : j < (expand4 base p).length)
    (a : Nat) (ha : a < 2 ^ 32) :
    ¬ (glob (expand4 base p)[i] (render4 a) = true ∧ glob (expand4 base p)[j] (render4 a) = true) :=
  expand4_disjoint base p hp hb hal i j hij hj a ha

/-- non-vacuity: 10.0.0.0/13 produces 8 patterns, so there are 28 pairs `i < j` -/
example : (expand4 (10 * 2 ^ 24) 13).length = 8 := by decide

example (a : Nat) (ha : a < 2 ^ 32) :
    ¬ (glob ((expand4 (10 * 2 ^ 24) 13)[2]'(by decide)) (render4 a) = true
      ∧ glob ((expand4 (10 * 2 ^ 24) 13)[5]'(by decide)) (render4 a) = true) :=
  v4_irredundant _ _ (by decide) (by decide) (by decide) 2 5 (by decide) (by decide) a ha

/-- the produced IPv4 patterns are pairwise different -/
theorem v4_nodup (base p : Nat) (hp : p ≤ 32) (hb : base < 2 ^ 32)
    (hal : base % 2 ^ (32 - p) = 0) : (expand4 base p).Nodup :=
  expand4_nodup base p hp hb hal

example : (expand4 (10 * 2 ^ 24) 13).Nodup := v4_nodup _ _ (by decide) (by decide) (by decide)

/-! ## IPv6: the unchanged code is incomplete (and unsound) -/

/-- 2001:db8::/120 yields the single pattern `2001:db8::`, which misses 2001:db8::ff. -/
theorem v6_incomplete_120 :
    matches6 (0x20010db8 * 2 ^ 96) 120 (0x20010db8 * 2 ^ 96 + 255) = false := by
  rw [matches6_eq_matches6S]; decide +kernel

theorem v6_incomplete_120_inNet :
    inNet 128 (0x20010db8 * 2 ^ 96) 120 (0x20010db8 * 2 ^ 96 + 255) = true := by decide +kernel

/-- what is produced, for the record -/
example : expand6 (0x20010db8 * 2 ^ 96) 120 = ["2001:db8::".toList] := by decide +kernel

/-- 2001:db8::/64 yields the single pattern `2001:db8::`, which misses 2001:db8::1. -/
theorem v6_incomplete_64 :
    matches6 (0x20010db8 * 2 ^ 96) 64 (0x20010db8 * 2 ^ 96 + 1) = false := by
  rw [matches6_eq_matches6S]; decide +kernel

theorem v6_incomplete_64_inNet :
    inNet 128 (0x20010db8 * 2 ^ 96) 64 (0x20010db8 * 2 ^ 96 + 1) = true := by decide +kernel

example : expand6 (0x20010db8 * 2 ^ 96) 64 = ["2001:db8::".toList] := by decide +kernel

/-- The IPv6 patterns are also unsound: 2001:0:0:1::/64 yields `2001:*`, which matches
2001:1:: — an address outside the network. -/
theorem v6_unsound_64 :
    matches6 (0x2001 * 2 ^ 112 + 1 * 2 ^ 64) 64 (0x2001 * 2 ^ 112 + 1 * 2 ^ 96) = true
    ∧ inNet 128 (0x2001 * 2 ^ 112 + 1 * 2 ^ 64) 64 (0x2001 * 2 ^ 112 + 1 * 2 ^ 96) = false := by
  rw [matches6_eq_matches6S]; decide +kernel

example : expand6 (0x2001 * 2 ^ 112 + 1 * 2 ^ 64) 64 = ["2001:*".toList] := by decide +kernel

/-- 1:2:3:4:5:6:7:10/124 yields `1:2:3:4:5:6:7:1*`, which matches 1:2:3:4:5:6:7:100 — outside
the network (the wildcard is not confined to one hex digit). -/
theorem v6_unsound_124 :
    matches6 (0x0001000200030004000500060007 * 2 ^ 16 + 0x10) 124
      (0x0001000200030004000500060007 * 2 ^ 16 + 0x100) = true
    ∧ inNet 128 (0x0001000200030004000500060007 * 2 ^ 16 + 0x10) 124
      (0x0001000200030004000500060007 * 2 ^ 16 + 0x100) = false := by
  rw [matches6_eq_matches6S]; decide +kernel

example : expand6 (0x0001000200030004000500060007 * 2 ^ 16 + 0x10) 124
    = ["1:2:3:4:5:6:7:1*".toList] := by decide +kernel

/-! ## Size and boundary cases of the expansion (both families) -/

/-- The number of IPv4 patterns is `2 ^ ((8 - p % 8) % 8)`: one when the prefix ends on an octet
boundary, never more than 128, never none. -/
theorem v4_count (base p : Nat) :
    (expand4 base p).length = 2 ^ ((8 - p % 8) % 8) ∧ 1 ≤ (expand4 base p).length
      ∧ (expand4 base p).length ≤ 128 := by
  have h := length_expand4 base p
  have hd : (8 - p % 8) % 8 ≤ 7 := by omega
  have h1 : 2 ^ ((8 - p % 8) % 8) ≤ 2 ^ 7 := Nat.pow_le_pow_right (by decide) hd
  have h2 : 0 < 2 ^ ((8 - p % 8) % 8) := Nat.pow_pos (by decide)
  omega

example : (expand4 (10 * 2 ^ 24) 9).length = 128 := (v4_count _ _).1

/-- A host network (`/32`) expands to exactly the address itself, without wildcard. -/
theorem v4_host (base : Nat) : expand4 base 32 = [render4 base] := by
  simp [expand4]

/-- `/0` expands to the bare wildcard. -/
theorem v4_any (base : Nat) : expand4 base 0 = [['*']] := by
  simp [expand4]

/-- The number of IPv6 patterns is `2 ^ ((4 - p % 4) % 4)`, between 1 and 8. -/
theorem v6_count (base p : Nat) :
    (expand6 base p).length = 2 ^ ((4 - p % 4) % 4) ∧ 1 ≤ (expand6 base p).length
      ∧ (expand6 base p).length ≤ 8 := by
  have h : (expand6 base p).length = 2 ^ ((4 - p % 4) % 4) := by simp [expand6]
  have hd : (4 - p % 4) % 4 ≤ 3 := by omega
  have h1 : 2 ^ ((4 - p % 4) % 4) ≤ 2 ^ 3 := Nat.pow_le_pow_right (by decide) hd
  have h2 : 0 < 2 ^ ((4 - p % 4) % 4) := Nat.pow_pos (by decide)
  omega

example : (expand6 (0x20010db8 * 2 ^ 96) 117).length = 8 := (v6_count _ _).1

theorem firstDiff_self (s : Str) (i : Nat) : firstDiff s s i = none := by
  induction s generalizing i with
  | nil => rfl
  | cons a s ih => simp [firstDiff, ih]

/-- An IPv6 host network (`/128`) expands to exactly the text of the address — whatever the zero
compression does, since first and last address coincide — and that pattern matches the address. -/
theorem v6_host (base : Nat) :
    expand6 base 128 = [render6 base] ∧ matches6 base 128 base = true := by
  have h : expand6 base 128 = [render6 base] := by
    simp [expand6, firstDiff_self]
  refine ⟨h, ?_⟩
  simp [matches6, h, glob_self]

example : expand6 (0x20010db8 * 2 ^ 96 + 1) 128 = ["2001:db8::1".toList] := by
  rw [(v6_host _).1]; decide +kernel

/-- `str(IPv6Address(·))` is injective: two different addresses never have the same text (the
zero compression never merges two addresses). -/
theorem v6_text_injective (a b : Nat) (ha : a < 2 ^ 128) (hb : b < 2 ^ 128)
    (h : render6 a = render6 b) : a = b := render6_inj a b ha hb h

/-- IPv6 exactness for host networks: the pattern of a `/128` matches an address iff it is the
address of the network — for every address, whatever the zero compression does. -/
theorem v6_host_exact (base a : Nat) (hb : base < 2 ^ 128) (ha : a < 2 ^ 128) :
    matches6 base 128 a = inNet 128 base 128 a := by
  have hm : matches6 base 128 a = glob (render6 base) (render6 a) := by
    simp [matches6, (v6_host base).1]
  rw [hm, Bool.eq_iff_iff, glob_of_no_star _ (star_not_mem_render6 base), inNet_iff]
  simp only [Nat.sub_self, Nat.pow_zero, Nat.div_one]
  exact ⟨fun h => (render6_inj base a hb ha h).symm, fun h => by rw [h]⟩

/-- non-vacuity: `::1/128` matches `::1` and not `::2` -/
example : matches6 1 128 1 = true ∧ matches6 1 128 2 = false := by
  rw [v6_host_exact 1 1 (by decide) (by decide), v6_host_exact 1 2 (by decide) (by decide)]
  decide

/-! ## IPv6: a sufficient condition for completeness -/

/-- If the prefix length is a multiple of 16 (16 … 128) and every fixed hextet of the network
address is non-zero, then every address of the network is matched by the produced pattern. -/
theorem v6_complete_partial (base p a : Nat) (hp16 : p % 16 = 0) (hp1 : 16 ≤ p) (hp2 : p ≤ 128)
    (hal : base % 2 ^ (128 - p) = 0) (hnz : ∀ h ∈ (hextets base).take (p / 16), h ≠ 0)
    (hin : inNet 128 base p a = true) : matches6 base p a = true :=
  matches6_of_inNet base p a hp16 hp1 hp2 hal hnz hin

/-- non-vacuity: 2001:db8:1::/48 and its address 2001:db8:1::ff -/
example : matches6 (0x20010db80001 * 2 ^ 80) 48 (0x20010db80001 * 2 ^ 80 + 255) = true :=
  v6_complete_partial _ _ _ (by decide) (by decide) (by decide) (by decide +kernel)
    (by decide +kernel) (by decide +kernel)

/-- Under the same hypothesis the pattern is also sound, hence exact: an address below 2^128 is
matched iff it lies in the network. -/
theorem v6_exact_partial (base p a : Nat) (hp16 : p % 16 = 0) (hp1 : 16 ≤ p) (hp2 : p ≤ 128)
    (hb : base < 2 ^ 128) (ha : a < 2 ^ 128) (hal : base % 2 ^ (128 - p) = 0)
    (hnz : ∀ h ∈ (hextets base).take (p / 16), h ≠ 0) :
    matches6 base p a = inNet 128 base p a := by
  rw [Bool.eq_iff_iff]
  exact ⟨inNet_of_matches6 base p a hp16 hp1 hp2 hb ha hal hnz,
    matches6_of_inNet base p a hp16 hp1 hp2 hal hnz⟩

/-- non-vacuity: 2001:db8:1::/48 does not match 2001:db8:2::ff -/
example : matches6 (0x20010db80001 * 2 ^ 80) 48 (0x20010db80002 * 2 ^ 80 + 255) = false := by
  rw [v6_exact_partial _ _ _ (by decide) (by decide) (by decide) (by decide +kernel)
    (by decide +kernel) (by decide +kernel) (by decide +kernel)]
  decide +kernel

end SigmaVerif.Props.C18
