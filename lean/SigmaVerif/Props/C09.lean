import SigmaVerif.Model.Coll
import SigmaVerif.Lemmas.Coll
/-!
# C09 — rule references resolve the same way whatever the document order

`order` (`SigmaCollection._sort_by_references`) emits every rule exactly once, every referenced rule
before the rules referring to it, and otherwise keeps the document order.  Key lookup, success of
reference resolution and the output flag of a rule do not depend on the position of the documents
in the collection (for collections in which no key is carried by two documents).

Definitions used (in `Lemmas/Coll.lean`):
* `Closed n g := ∀ v, v < n → ∀ w ∈ g v, w < n`
* `Acyclic n g := ∃ r : Nat → Nat, ∀ v, v < n → ∀ w ∈ g v, r w < r v`
* `Reach g a b` — reflexive-transitive closure of "`a` refers to `b`"
* `KeysUnique docs := docs.Pairwise (fun a b => ∀ k ∈ a.keys, k ∉ b.keys)`
* `Suppressed docs d := ∃ d' ∈ docs, d'.generate = false ∧ ∃ k ∈ d'.refs, k ∈ d.keys`
* `dflt : Doc := ⟨[], [], false⟩` (the default of the model's `getD` calls)
-/
namespace SigmaVerif.Props.C09
open SigmaVerif.Coll

/-! ## The ordering -/

/-- every rule is emitted exactly once (cycles or not; the fuel `n + 1` always suffices) -/
theorem order_perm (n : Nat) (g : Nat → List Nat) (hc : Closed n g) :
    (order n g).Perm (List.range n) := by
  obtain ⟨hnd, hmem⟩ := order_spec hc
  exact (List.perm_ext_iff_of_nodup hnd List.nodup_range).2 (fun a => by simp [hmem])

theorem order_nodup (n : Nat) (g : Nat → List Nat) (hc : Closed n g) : (order n g).Nodup :=
  (order_spec hc).1

theorem order_length (n : Nat) (g : Nat → List Nat) (hc : Closed n g) :
    (order n g).length = n := by
  simpa using (order_perm n g hc).length_eq

theorem order_mem (n : Nat) (g : Nat → List Nat) (hc : Closed n g) (v : Nat) :
    v ∈ order n g ↔ v < n :=
  (order_spec hc).2 v

/-- every referenced rule comes before the rule that refers to it -/
theorem order_topological (n : Nat) (g : Nat → List Nat) (hc : Closed n g)
    (hacyc : Acyclic n g) :
    ∀ v, v < n → ∀ w ∈ g v, (order n g).idxOf w < (order n g).idxOf v := by
  obtain ⟨r, hr⟩ := hacyc
  intro v hv w hw
  exact order_topo hc hr v ((order_spec hc).2 v |>.2 hv) w hw

/-- ... also transitively -/
theorem order_topological_trans (n : Nat) (g : Nat → List Nat) (hc : Closed n g)
    (hacyc : Acyclic n g) (v w : Nat) (hv : v < n) (h : Reach g v w) :
    (order n g).idxOf w ≤ (order n g).idxOf v := by
  induction h with
  | refl => exact Nat.le_refl _
  | @step a b c hab _ ih =>
    have h1 := order_topological n g hc hacyc a hv b hab
    have h2 := ih (hc a hv b hab)
    omega

/-- `Acyclic` is meaningful: it holds exactly if no rule is (transitively) referenced by a rule
it refers to -/
theorem acyclic_iff_no_cycle (n : Nat) (g : Nat → List Nat) (hc : Closed n g) :
    Acyclic n g ↔ ∀ v, v < n → ∀ w ∈ g v, ¬ Reach g w v := by
  constructor
  · rintro ⟨r, hr⟩ v hv w hw h
    have h1 := hr v hv w hw
    have h2 := reach_rank_le hc hr h (hc v hv w hw)
    omega
  · exact acyclic_of_no_cycle

/-- without references the document order is kept -/
theorem order_stable_no_refs (n : Nat) (g : Nat → List Nat) (hg : ∀ v, v < n → g v = []) :
    order n g = List.range n := by
  unfold order
  rw [fold_noref hg n n (Nat.le_refl n)]

/-- Rules keep their relative document order unless a reference forces otherwise: a rule `v` is
emitted after every rule `u` preceding it in the collection, unless `v` is referenced
(transitively) by `u` or by a rule before `u`. -/
theorem order_stable (n : Nat) (g : Nat → List Nat) (hc : Closed n g) (u v : Nat) (huv : u < v)
    (hv : v < n) (hnr : ∀ u', u' ≤ u → ¬ Reach g u' v) :
    (order n g).idxOf u < (order n g).idxOf v :=
  order_stable_of_not_reach hc u v huv hv hnr

/-- in particular a rule nobody refers to stays behind all rules that precede it -/
theorem order_stable_unreferenced (n : Nat) (g : Nat → List Nat) (hc : Closed n g) (u v : Nat)
    (huv : u < v) (hv : v < n) (hno : ∀ x, x < n → v ∉ g x) :
    (order n g).idxOf u < (order n g).idxOf v := by
  refine order_stable n g hc u v huv hv ?_
  intro u' hu' hreach
  rcases hreach.cases_tail with rfl | ⟨b, hb, hvb⟩
  · omega
  · exact hno b (hb.lt hc (by omega)) hvb

/-! ## Resolution does not depend on the document order -/

/-- the same *document* is found for a key, whatever its position -/
theorem lookup_perm (docs docs' : List Doc) (hu : KeysUnique docs) (hp : docs.Perm docs')
    (k : Nat) :
    (lookup docs k).map (docs.getD · dflt) = (lookup docs' k).map (docs'.getD · dflt) := by
  apply Option.ext
  intro d
  rw [lookup_map_eq_some hu, lookup_map_eq_some (hu.perm hp), hp.mem_iff]

/-- the model's lookup: the *last* document carrying the key is found -/
theorem lookup_last_wins (docs : List Doc) (k i : Nat) (h : lookup docs k = some i) :
    (i < docs.length ∧ k ∈ (docs.getD i dflt).keys) ∧
    ∀ j, i < j → j < docs.length → k ∉ (docs.getD j dflt).keys :=
  ⟨lookup_some h, lookup_last h⟩

/-- uniqueness of keys is needed for `lookup_perm`: with a duplicated key the document found
depends on the document order -/
theorem lookup_perm_needs_unique :
    ∃ (docs docs' : List Doc) (k : Nat), docs.Perm docs' ∧
      (lookup docs k).map (docs.getD · dflt) ≠ (lookup docs' k).map (docs'.getD · dflt) :=
  ⟨[⟨[1], [], false⟩, ⟨[1], [], true⟩], [⟨[1], [], true⟩, ⟨[1], [], false⟩], 1,
    List.Perm.swap _ _ _, by decide⟩

/-- the references of a rule resolve to the same list of documents -/
theorem resolve_doc_perm (docs docs' : List Doc) (hu : KeysUnique docs) (hp : docs.Perm docs')
    (d : Doc) :
    (resolveDoc docs d).map (List.map (docs.getD · dflt))
      = (resolveDoc docs' d).map (List.map (docs'.getD · dflt)) := by
  unfold resolveDoc
  rw [mapM_option_map, mapM_option_map]
  congr 1
  funext k
  exact lookup_perm docs docs' hu hp k

/-- loading succeeds or fails identically (no uniqueness assumption needed) -/
theorem resolve_success_perm (docs docs' : List Doc) (hp : docs.Perm docs') :
    (resolveAll docs).isSome = (resolveAll docs').isSome := by
  rw [Bool.eq_iff_iff, resolveAll_isSome, resolveAll_isSome]
  simp only [hp.mem_iff]

/-- a reference to a rule that is not in the collection makes loading fail -/
theorem missing_ref_fails (docs : List Doc) (d : Doc) (k : Nat) (hd : d ∈ docs)
    (hk : k ∈ d.refs) (hmiss : ∀ d' ∈ docs, k ∉ d'.keys) : resolveAll docs = none := by
  cases h : resolveAll docs with
  | none => rfl
  | some graph =>
    have := resolveAll_isSome.1 (by simp [h]) d hd k hk
    obtain ⟨d', hd', hk'⟩ := this
    exact absurd hk' (hmiss d' hd')

/-- conversely, loading succeeds when every reference has a target -/
theorem resolve_succeeds_iff (docs : List Doc) :
    (resolveAll docs).isSome ↔ ∀ d ∈ docs, ∀ k ∈ d.refs, ∃ d' ∈ docs, k ∈ d'.keys :=
  resolveAll_isSome

/-- the output flag of rule `i` is off exactly if a correlation rule without `generate` refers to
one of its keys -/
theorem output_flag_exact (docs : List Doc) (graph : List (List Nat)) (i : Nat)
    (hu : KeysUnique docs) (hr : resolveAll docs = some graph) (hi : i < docs.length) :
    outputFlag docs graph i = true ↔ ¬ Suppressed docs (docs.getD i dflt) :=
  outputFlag_eq_true_iff hu hr hi

/-- ... hence it does not depend on the positions of the documents -/
theorem output_flag_perm (docs docs' : List Doc) (graph graph' : List (List Nat)) (i i' : Nat)
    (hu : KeysUnique docs) (hp : docs.Perm docs')
    (hr : resolveAll docs = some graph) (hr' : resolveAll docs' = some graph')
    (hi : i < docs.length) (hi' : i' < docs'.length)
    (hd : docs.getD i dflt = docs'.getD i' dflt) :
    outputFlag docs graph i = outputFlag docs' graph' i' := by
  rw [Bool.eq_iff_iff, output_flag_exact docs graph i hu hr hi,
    output_flag_exact docs' graph' i' (hu.perm hp) hr' hi', hd, Suppressed.perm hp]

/-! ## Non-vacuity -/

/-- the example collection: rules 0 and 2 are correlation rules (2 refers to 0), the others are
plain; it is closed and acyclic, and ordered `[1, 3, 0, 4, 2]` -/
example : Closed 5 (graphFn [[1,3],[],[0,4],[],[]]) ∧ Acyclic 5 (graphFn [[1,3],[],[0,4],[],[]]) ∧
    order 5 (graphFn [[1,3],[],[0,4],[],[]]) = [1, 3, 0, 4, 2] := by
  refine ⟨by unfold Closed; decide, ⟨fun v => if v = 0 then 1 else if v = 2 then 2 else 0, by decide⟩,
    by decide⟩

end SigmaVerif.Props.C09
