import SigmaVerif.Model.Coll
namespace SigmaVerif.Props.C09
open SigmaVerif.Coll

/-- without references the document order is kept (sanity instance; the general theorems follow) -/
theorem order_example : order 5 (graphFn [[1, 3], [], [0, 4], [], []]) = [1, 3, 0, 4, 2] := by decide

end SigmaVerif.Props.C09
