import SigmaVerif.Lemmas.Pipe
/-!
# C15 — converting a rule gives the same result whatever happened before (ownership part)

`s.visible p`: the items of pipeline object `p` whose back-pointer still points to `p`;
`s.specVisible p`: all items of `p` (what a conversion with fresh objects sees).
No well-formedness of the operation history is needed for any statement below: ids of
non-existent pipelines denote the empty item list, and a `define` that reuses item ids simply
re-points them like `+` does.
-/
namespace SigmaVerif.Props.C15
open SigmaVerif.Pipe

/-! ## 1. a freshly built pipeline object sees all its items (no side condition: shared or
duplicated item ids among the operands are fine) -/

theorem fresh_visible (s : Sys) (a b : Nat) :
    (s.add a b).1.visible (s.add a b).2 = (s.add a b).1.specVisible (s.add a b).2 := by
  rw [add_eq_push]; exact push_visible_new s _

theorem fresh_visible_define (s : Sys) (items : List Nat) :
    (s.define items).1.visible (s.define items).2 =
      (s.define items).1.specVisible (s.define items).2 := by
  rw [define_eq_push]; exact push_visible_new s _

/-! ## 2. the defect: building `p0 + p1` a second time empties the first sum -/

theorem history_dependent :
    let s := Sys.init.run [.define [1, 2], .define [3], .add 0 1, .add 0 1]
    s.visible 2 = [] ∧ s.specVisible 2 = [1, 2, 3] ∧
      s.visible 3 = [1, 2, 3] ∧ s.specVisible 3 = [1, 2, 3] := by decide

/-- before the second `+` the first sum was intact -/
theorem history_dependent_before :
    let s := Sys.init.run [.define [1, 2], .define [3], .add 0 1]
    s.visible 2 = [1, 2, 3] ∧ s.specVisible 2 = [1, 2, 3] ∧ s.visible 0 = [] ∧ s.visible 1 = [] := by
  decide

/-! ## 3. exactly the last re-pointing wins -/

theorem visible_iff (s : Sys) (p : Nat) :
    s.visible p = s.specVisible p ↔ ∀ i ∈ s.pipes.getD p [], s.ownerOf i = some p :=
  visible_iff' s p

/-- the owner of an item after one operation: the new pipeline object if the operation touches the
item, unchanged otherwise -/
theorem ownerOf_step (s : Sys) (op : Op) (i : Nat) :
    (s.step op).ownerOf i = if i ∈ op.touched s then some s.pipes.length else s.ownerOf i := by
  rw [step_eq_push]; exact ownerOf_push s _ i

/-- one more operation: an existing pipeline object stays intact iff it was intact and the
operation touches none of its items -/
theorem step_visible_iff (s : Sys) (op : Op) (p : Nat) (hp : p < s.pipes.length) :
    (s.step op).visible p = (s.step op).specVisible p ↔
      s.visible p = s.specVisible p ∧ ∀ i ∈ s.pipes.getD p [], i ∉ op.touched s := by
  rw [step_eq_push]; exact push_visible_old_iff s _ p hp

/-- any number of operations: an existing pipeline object is intact afterwards iff it was intact
and no later `define`/`+` re-pointed any of its items -/
theorem last_add_wins (s : Sys) (ops : List Op) (p : Nat) (hp : p < s.pipes.length) :
    (s.run ops).visible p = (s.run ops).specVisible p ↔
      s.visible p = s.specVisible p ∧ Undisturbed s ops p :=
  run_visible_iff s ops p hp

/-- whatever happened before, the pipeline object created by a final `a + b` sees all its items:
a backend that (re-)initialises its pipeline immediately before converting is history independent -/
theorem history_independent_partial (ops : List Op) (a b : Nat) :
    let s := Sys.init.run ops
    (s.add a b).1.visible (s.add a b).2 = (s.add a b).1.specVisible (s.add a b).2 :=
  fresh_visible _ a b

/-- the same in terms of the operation list -/
theorem history_independent_run (ops : List Op) (a b : Nat) :
    let s := Sys.init.run (ops ++ [.add a b])
    s.visible (s.pipes.length - 1) = s.specVisible (s.pipes.length - 1) := by
  intro s
  have hs : s = ((Sys.init.run ops).add a b).1 := by
    show Sys.init.run (ops ++ [.add a b]) = _
    rw [run_append]; rfl
  have := fresh_visible (Sys.init.run ops) a b
  rw [← hs] at this
  have hl : s.pipes.length - 1 = ((Sys.init.run ops).add a b).2 := by
    rw [hs, add_eq_push]; simp [push_length]
  rw [hl]; exact this

/-- … and defining any number of further pipelines does not disturb it as long as their item
objects are different from the items of the sum -/
theorem history_independent_defines (ops : List Op) (a b : Nat) (defs : List (List Nat)) :
    let s := Sys.init.run ops
    let p := (s.add a b).2
    let s' := (s.add a b).1.run (defs.map Op.define)
    (∀ d ∈ defs, ∀ i ∈ d, i ∉ s.pipes.getD a [] ++ s.pipes.getD b []) →
      s'.visible p = s'.specVisible p ∧ s'.specVisible p = s.pipes.getD a [] ++ s.pipes.getD b [] := by
  intro s p s' hfresh
  have hp : p < (s.add a b).1.pipes.length := by
    show s.pipes.length < _
    rw [add_eq_push, push_length]; omega
  have hitems : (s.add a b).1.pipes.getD p [] = s.pipes.getD a [] ++ s.pipes.getD b [] := by
    show (s.add a b).1.pipes.getD s.pipes.length [] = _
    rw [add_eq_push]; exact pipes_push_new s _
  refine ⟨?_, ?_⟩
  · refine (run_visible_iff _ _ p hp).2 ⟨fresh_visible s a b, ?_⟩
    apply undisturbed_defines _ _ _ hp
    rw [hitems]; exact hfresh
  · show s'.pipes.getD p [] = _
    rw [(run_pipes_old _ _ p hp).1, hitems]

/-- non-vacuity of `history_independent_defines` (after the history of `history_dependent`) -/
example :
    let s := Sys.init.run [.define [1, 2], .define [3], .add 0 1, .add 0 1]
    let s' := (s.add 0 1).1.run [.define [10], .define [11, 12]]
    (∀ d ∈ [[10], [11, 12]], ∀ i ∈ d, i ∉ s.pipes.getD 0 [] ++ s.pipes.getD 1 []) ∧
      s'.visible 4 = [1, 2, 3] := by decide

/-- conversely a later `define`/`+` that touches an item of an existing pipeline object always
breaks it -/
theorem disturbed_not_visible (s : Sys) (op : Op) (p i : Nat) (hp : p < s.pipes.length)
    (hi : i ∈ s.pipes.getD p []) (ht : i ∈ op.touched s) :
    (s.step op).visible p ≠ (s.step op).specVisible p := by
  intro h
  exact ((step_visible_iff s op p hp).1 h).2 i hi ht

end SigmaVerif.Props.C15
