import SigmaVerif.Lemmas.Pipe
import SigmaVerif.Model.Registry
/-!
# C15 — converting a rule gives the same result whatever happened before (ownership part)

`s.visible p`: the items of pipeline object `p` whose back-pointer still points to `p`;
`s.specVisible p`: all items of `p` (what a conversion with fresh objects sees).
No well-formedness of the operation history is needed for any statement below: ids of
non-existent pipelines denote the empty item list, and a `define` that reuses item ids simply
re-points them like `+` does.
-/
namespace SigmaVerif.Props.C15
open SigmaVerif.Pipe

/-! ## 1. a freshly built pipeline object sees all its items (no side condition: shared or
duplicated item ids among the operands are fine) -/

theorem fresh_visible (s : Sys) (a b : Nat) :
    (s.add a b).1.visible (s.add a b).2 = (s.add a b).1.specVisible (s.add a b).2 := by
  rw [add_eq_push]; exact push_visible_new s _

theorem fresh_visible_define (s : Sys) (items : List Nat) :
    (s.define items).1.visible (s.define items).2 =
      (s.define items).1.specVisible (s.define items).2 := by
  rw [define_eq_push]; exact push_visible_new s _

/-! ## 2. the defect: building `p0 + p1` a second time empties the first sum -/

theorem history_dependent :
    let s := Sys.init.run [.define [1, 2], .define [3], .add 0 1, .add 0 1]
    s.visible 2 = [] ∧ s.specVisible 2 = [1, 2, 3] ∧
      s.visible 3 = [1, 2, 3] ∧ s.specVisible 3 = [1, 2, 3] := by decide

/-- before the second `+` the first sum was intact -/
theorem history_dependent_before :
    let s := Sys.init.run [.define [1, 2], .define [3], .add 0 1]
    s.visible 2 = [1, 2, 3] ∧ s.specVisible 2 = [1, 2, 3] ∧ s.visible 0 = [] ∧ s.visible 1 = [] := by
  decide

/-! ## 3. exactly the last re-pointing wins -/

theorem visible_iff (s : Sys) (p : Nat) :
    s.visible p = s.specVisible p ↔ ∀ i ∈ s.pipes.getD p [], s.ownerOf i = some p :=
  visible_iff' s p

/-- the owner of an item after one operation: the new pipeline object if the operation touches the
item, unchanged otherwise -/
theorem ownerOf_step (s : Sys) (op : Op) (i : Nat) :
    (s.step op).ownerOf i = if i ∈ op.touched s then some s.pipes.length else s.ownerOf i := by
  rw [step_eq_push]; exact ownerOf_push s _ i

/-- one more operation: an existing pipeline object stays intact iff it was intact and the
operation touches none of its items -/
theorem step_visible_iff (s : Sys) (op : Op) (p : Nat) (hp : p < s.pipes.length) :
    (s.step op).visible p = (s.step op).specVisible p ↔
      s.visible p = s.specVisible p ∧ ∀ i ∈ s.pipes.getD p [], i ∉ op.touched s := by
  rw [step_eq_push]; exact push_visible_old_iff s _ p hp

/-- any number of operations: an existing pipeline object is intact afterwards iff it was intact
and no later `define`/`+` re-pointed any of its items -/
theorem last_add_wins (s : Sys) (ops : List Op) (p : Nat) (hp : p < s.pipes.length) :
    (s.run ops).visible p = (s.run ops).specVisible p ↔
      s.visible p = s.specVisible p ∧ Undisturbed s ops p :=
  run_visible_iff s ops p hp

/-- whatever happened before, the pipeline object created by a final `a + b` sees all its items:
a backend that (re-)initialises its pipeline immediately before converting is history independent -/
theorem history_independent_partial (ops : List Op) (a b : Nat) :
    let s := Sys.init.run ops
    (s.add a b).1.visible (s.add a b).2 = (s.add a b).1.specVisible (s.add a b).2 :=
  fresh_visible _ a b

/-- the same in terms of the operation list -/
theorem history_independent_run (ops : List Op) (a b : Nat) :
    let s := Sys.init.run (ops ++ [.add a b])
    s.visible (s.pipes.length - 1) = s.specVisible (s.pipes.length - 1) := by
  intro s
  have hs : s = ((Sys.init.run ops).add a b).1 := by
    show Sys.init.run (ops ++ [.add a b]) = _
    rw [run_append]; rfl
  have := fresh_visible (Sys.init.run ops) a b
  rw [← hs] at this
  have hl : s.pipes.length - 1 = ((Sys.init.run ops).add a b).2 := by
    rw [hs, add_eq_push]; simp [push_length]
  rw [hl]; exact this

/-- … and defining any number of further pipelines does not disturb it as long as their item
objects are different from the items of the sum -/
theorem history_independent_defines (ops : List Op) (a b : Nat) (defs : List (List Nat)) :
    let s := Sys.init.run ops
    let p := (s.add a b).2
    let s' := (s.add a b).1.run (defs.map Op.define)
    (∀ d ∈ defs, ∀ i ∈ d, i ∉ s.pipes.getD a [] ++ s.pipes.getD b []) →
      s'.visible p = s'.specVisible p ∧ s'.specVisible p = s.pipes.getD a [] ++ s.pipes.getD b [] := by
  intro s p s' hfresh
  have hp : p < (s.add a b).1.pipes.length := by
    show s.pipes.length < _
    rw [add_eq_push, push_length]; omega
  have hitems : (s.add a b).1.pipes.getD p [] = s.pipes.getD a [] ++ s.pipes.getD b [] := by
    show (s.add a b).1.pipes.getD s.pipes.length [] = _
    rw [add_eq_push]; exact pipes_push_new s _
  refine ⟨?_, ?_⟩
  · refine (run_visible_iff _ _ p hp).2 ⟨fresh_visible s a b, ?_⟩
    apply undisturbed_defines _ _ _ hp
    rw [hitems]; exact hfresh
  · show s'.pipes.getD p [] = _
    rw [(run_pipes_old _ _ p hp).1, hitems]

/-- non-vacuity of `history_independent_defines` (after the history of `history_dependent`) -/
example :
    let s := Sys.init.run [.define [1, 2], .define [3], .add 0 1, .add 0 1]
    let s' := (s.add 0 1).1.run [.define [10], .define [11, 12]]
    (∀ d ∈ [[10], [11, 12]], ∀ i ∈ d, i ∉ s.pipes.getD 0 [] ++ s.pipes.getD 1 []) ∧
      s'.visible 4 = [1, 2, 3] := by decide

/-- conversely a later `define`/`+` that touches an item of an existing pipeline object always
breaks it -/
theorem disturbed_not_visible (s : Sys) (op : Op) (p i : Nat) (hp : p < s.pipes.length)
    (hi : i ∈ s.pipes.getD p []) (ht : i ∈ op.touched s) :
    (s.step op).visible p ≠ (s.step op).specVisible p := by
  intro h
  exact ((step_visible_iff s op p hp).1 h).2 i hi ht

/-! ## 6. pipeline definitions registered through `sigma.pipelines.base.Pipeline`

What a registered handle denotes is independent of what the process registered afterwards: the object a
decoration returned keeps calling the function it decorated, an inheriting class keeps its own instance. -/
section Registry
open SigmaVerif.Registry

theorem lookup_append_some {c d : Nat} {l l' : List (Nat × Nat)} (h : lookup c l = some d) :
    lookup c (l ++ l') = some d := by
  induction l with
  | nil => simp [lookup] at h
  | cons x xs ih =>
    obtain ⟨k, v⟩ := x
    simp only [lookup, List.cons_append] at h ⊢
    split
    · rename_i hk; simpa [hk] using h
    · rename_i hk; simp only [hk, if_false] at h; exact ih h

theorem lookup_append_none {c d : Nat} {l : List (Nat × Nat)} (h : lookup c l = none) :
    lookup c (l ++ [(c, d)]) = some d := by
  induction l with
  | nil => simp [lookup]
  | cons x xs ih =>
    obtain ⟨k, v⟩ := x
    simp only [lookup, List.cons_append] at h ⊢
    split
    · rename_i hk; simp [hk] at h
    · rename_i hk; simp only [hk, if_false] at h; exact ih h

theorem step_funcs_prefix (r : Reg) (op : Registry.Op) : ∃ t, (r.step op).1.funcs = r.funcs ++ t := by
  cases op with
  | decorate d => exact ⟨[d], rfl⟩
  | instantiate c d =>
    simp only [Reg.step]; split <;> exact ⟨[], by simp⟩
  | callFunc h => exact ⟨[], by simp [Reg.step]⟩
  | callClass c => exact ⟨[], by simp [Reg.step]⟩

theorem run_funcs_prefix (r : Reg) (ops : List Registry.Op) : ∃ t, (r.run ops).1.funcs = r.funcs ++ t := by
  induction ops generalizing r with
  | nil => exact ⟨[], by simp [Reg.run]⟩
  | cons op ops ih =>
    obtain ⟨t1, h1⟩ := step_funcs_prefix r op
    obtain ⟨t2, h2⟩ := ih (r.step op).1
    refine ⟨t1 ++ t2, ?_⟩
    simp only [Reg.run]
    rw [h2, h1, List.append_assoc]

/-- whatever is decorated, instantiated or called afterwards, an existing function handle keeps its definition -/
theorem callFunc_stable (r : Reg) (ops : List Registry.Op) (h : Nat) (hh : h < r.funcs.length) :
    (r.run ops).1.funcs[h]? = r.funcs[h]? := by
  obtain ⟨t, ht⟩ := run_funcs_prefix r ops
  rw [ht, List.getElem?_append_left hh]

/-- the handle a decoration returns denotes the decorated definition at the end of every later history -/
theorem decorated_handle_denotes_its_definition (r : Reg) (d : Nat) (ops : List Registry.Op) :
    (((r.step (.decorate d)).1.run ops).1.step (.callFunc r.funcs.length)).2 = some d := by
  show ((r.step (.decorate d)).1.run ops).1.funcs[r.funcs.length]? = some d
  rw [callFunc_stable _ _ _ (by simp [Reg.step])]
  simp [Reg.step]

theorem step_lookup_stable (r : Reg) (op : Registry.Op) (c d : Nat) (h : lookup c r.insts = some d) :
    lookup c (r.step op).1.insts = some d := by
  cases op with
  | decorate d' => simpa [Reg.step] using h
  | instantiate c' d' =>
    simp only [Reg.step]; split
    · exact h
    · exact lookup_append_some h
  | callFunc h' => simpa [Reg.step] using h
  | callClass c' => simpa [Reg.step] using h

theorem run_lookup_stable (r : Reg) (ops : List Registry.Op) (c d : Nat) (h : lookup c r.insts = some d) :
    lookup c (r.run ops).1.insts = some d := by
  induction ops generalizing r with
  | nil => simpa [Reg.run] using h
  | cons op ops ih =>
    simp only [Reg.run]
    exact ih _ (step_lookup_stable r op c d h)

/-- the first instantiation of an inheriting class yields an object that builds the class's own definition, and it
keeps doing so after every later history (decorations of functions, instantiations of this or other classes) -/
theorem class_instance_denotes_its_definition (r : Reg) (c d : Nat) (hnew : lookup c r.insts = none)
    (ops : List Registry.Op) :
    (((r.step (.instantiate c d)).1.run ops).1.step (.callClass c)).2 = some d := by
  show lookup c ((r.step (.instantiate c d)).1.run ops).1.insts = some d
  apply run_lookup_stable
  simp only [Reg.step, hnew]
  exact lookup_append_none hnew

/-- non-vacuity: a registry with decorated functions and another class's instance -/
example : lookup 7 ({ funcs := [1, 2], insts := [(3, 30)] } : Reg).insts = none ∧
    (({ funcs := [1, 2], insts := [(3, 30)] } : Reg).run
      [.instantiate 7 70, .decorate 5, .instantiate 3 99, .callClass 7, .callFunc 0, .callFunc 2, .callClass 3]).2
      = [some 7, some 2, some 3, some 70, some 1, some 5, some 30] := by decide

/-- the defect repaired in `Pipeline.__new__` (one `_instance` slot shared by the decorator and every inheriting
class): the first decorated function answered with the definition decorated last, and an inheriting class
answered with a decorated function's definition -/
theorem single_slot_history_dependent :
    (Reg1.run {} [.decorate 1, .decorate 2, .callFunc 0]).2 = [some 0, some 0, some 2] ∧
    (Reg1.run {} [.decorate 1, .instantiate 7 70, .callClass 7]).2 = [some 0, some 7, some 1] := by decide

end Registry

end SigmaVerif.Props.C15
