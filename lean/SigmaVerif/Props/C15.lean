import SigmaVerif.Model.Pipe
namespace SigmaVerif.Props.C15
open SigmaVerif.Pipe

/-- the defect (finding D12): the pipeline object a backend built first loses its items as soon as
the same operands are added again (a second backend initialised from the same pipeline objects) -/
theorem history_dependent :
    let s := Sys.init.run [.define [1, 2], .define [3], .add 0 1, .add 0 1]
    s.visible 2 = [] ∧ s.specVisible 2 = [1, 2, 3] ∧ s.visible 3 = s.specVisible 3 := by decide

end SigmaVerif.Props.C15
