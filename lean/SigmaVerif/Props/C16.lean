import SigmaVerif.Lemmas.CapsFlow
import SigmaVerif.Lemmas.CapsPath
import SigmaVerif.Lemmas.CapsWitness
/-!
# C16 — a pipeline file cannot grant itself code execution, file or network access

All theorems quantify over every document tree (any nesting depth, any keys and values), every caller, every
environment, every `realpath`, and over every loader configuration `cfg : Cfg` satisfying the stated decidable
side conditions; `Oblig/C16.lean` checks those conditions for the configuration regenerated from the source and
instantiates the theorems there.  What the model covers and trusts is described in `Model/Caps.lean`.

Modelling facts worth knowing when reading the statements (all confirmed on the real code by the harness):
* the loaders first *filter* the opt-in keys out and then *overwrite* them with the caller's arguments for the
  class families that have the fields.  Either measure alone already keeps the document out (`Cfg.safe` asks for
  one of them per class and key; `safe_is_necessary` shows that without both the document wins);
* nested transformation pipelines (`type: nest`) load their items with default arguments: a caller's
  `allow_external_sources=True` does **not** reach them (`nested_sources_ignore_caller`), only the environment
  variable does — a functional limitation, on the safe side;
* nested query post-processing (`type: nest` under `postprocessing`) cannot be loaded from a document at all
  when it has items (configuration error) — also on the safe side, also a functional defect.
-/
namespace SigmaVerif.Props.C16
open SigmaVerif.Caps

/-! ## the capability values on the objects come from the caller only -/

/-- **caps_from_caller_only.**  Whatever the document contains, each of the three capability values stored on
any object of the loaded pipeline (at any nesting depth) is either the class default (off / no bases) or exactly
the argument the caller passed. -/
theorem caps_from_caller_only (cfg : Cfg) (hs : cfg.safe = true) (w : World) (c : Caller) (d : Doc) (p : PObj)
    (hp : (load cfg w c d).res = .ok p) (o : Obj) (ho : o ∈ p.all) :
    (o.atv = .bool false ∨ o.atv = .bool c.atv) ∧ (o.aes = .bool false ∨ o.aes = .bool c.aes) ∧
    (o.vap = .null ∨ o.vap = vapVal c.vap) :=
  let b := load_bits hs w c d p hp o ho
  ⟨b.atv, b.aes, b.vap⟩

/-- in particular a default caller gets objects on which everything is off -/
theorem default_caller_all_off (cfg : Cfg) (hs : cfg.safe = true) (w : World) (c : Caller) (hc1 : c.atv = false)
    (hc2 : c.aes = false) (d : Doc) (p : PObj) (hp : (load cfg w c d).res = .ok p) (o : Obj) (ho : o ∈ p.all) :
    o.atv.truthy = false ∧ o.aes.truthy = false := by
  obtain ⟨h1, h2, _⟩ := caps_from_caller_only cfg hs w c d p hp o ho
  rw [hc1] at h1; rw [hc2] at h2
  constructor
  · rcases h1 with h | h <;> simp [h, Val.truthy]
  · rcases h2 with h | h <;> simp [h, Val.truthy]

/-- **non-interference.**  Keys that the loader strips are invisible: two documents that agree after removing
the keys `KI` from every transformation / post-processing dict and the keys `KF` from every finalizer dict (at
every depth) load to the *same* result — same objects, same effects, same error. -/
theorem caps_noninterference (cfg : Cfg) (KI KF : List String) (hI : ∀ k ∈ KI, k ∈ cfg.item.strip)
    (hT : ∀ k ∈ KF, k ∈ cfg.finTop.strip) (hN : ∀ k ∈ KF, k ∈ cfg.finNested.strip)
    (w : World) (c : Caller) (d d' : Doc) (hk : d.keys = d'.keys)
    (h1 : Node.scrubL KI d.ts = Node.scrubL KI d'.ts) (h2 : Node.scrubL KI d.pps = Node.scrubL KI d'.pps)
    (h3 : Node.scrubL KF d.fs = Node.scrubL KF d'.fs) :
    load cfg w c d = load cfg w c d' := by
  unfold load
  rw [hk, ← instItems_scrub hI _ d.ts, ← instItems_scrub hI _ d.pps, ← instFins_scrub hT hN _ _ d.fs, h1, h2, h3,
    instItems_scrub hI _ d'.ts, instItems_scrub hI _ d'.pps, instFins_scrub hT hN _ _ d'.fs]

/-- writing a stripped key with any value into the dict at any position of the transformation tree changes
nothing (the same holds for the other two sections) -/
theorem inject_transformation_invisible (cfg : Cfg) (k : String) (v : Val) (hk : k ∈ cfg.item.strip)
    (w : World) (c : Caller) (d : Doc) (i : Nat) (path : List Nat) :
    load cfg w c { d with ts := Node.injectAtL k v i path d.ts } = load cfg w c d := by
  exact caps_noninterference cfg [k] [] (by simpa using hk) (by simp) (by simp) w c
    { d with ts := Node.injectAtL k v i path d.ts } d rfl (scrubL_injectAtL [k] k v (by simp) i path d.ts) rfl rfl

theorem inject_postprocessing_invisible (cfg : Cfg) (k : String) (v : Val) (hk : k ∈ cfg.item.strip)
    (w : World) (c : Caller) (d : Doc) (i : Nat) (path : List Nat) :
    load cfg w c { d with pps := Node.injectAtL k v i path d.pps } = load cfg w c d := by
  exact caps_noninterference cfg [k] [] (by simpa using hk) (by simp) (by simp) w c
    { d with pps := Node.injectAtL k v i path d.pps } d rfl rfl (scrubL_injectAtL [k] k v (by simp) i path d.pps) rfl

theorem inject_finalizer_invisible (cfg : Cfg) (k : String) (v : Val) (hT : k ∈ cfg.finTop.strip)
    (hN : k ∈ cfg.finNested.strip) (w : World) (c : Caller) (d : Doc) (i : Nat) (path : List Nat) :
    load cfg w c { d with fs := Node.injectAtL k v i path d.fs } = load cfg w c d := by
  exact caps_noninterference cfg [] [k] (by simp) (by simpa using hT) (by simpa using hN) w c
    { d with fs := Node.injectAtL k v i path d.fs } d rfl rfl rfl (scrubL_injectAtL [k] k v (by simp) i path d.fs)

/-! ## no effect without opt-in -/

/-- no vars file is executed — neither while loading nor while converting — unless the caller passed
`allow_template_vars` or the environment variable enables it -/
theorem no_exec_without_optin (cfg : Cfg) (hs : cfg.safe = true) (w : World) (c : Caller) (d : Doc)
    (hc : c.atv = false) (he : envOn cfg w.envVars = false) (p : Str) : Event.exec p ∉ events cfg w c d := by
  intro hm
  rcases mem_events hm with h | ⟨po, hpo, h⟩
  · have := (load_evs_gate hs w c d _ h).2
    rw [hc, he] at this; simp at this
  · have := (convert_evs_gate hs w c d po hpo _ h).1
    simp [Event.isExec] at this

/-- no command runs, no source file is read, no request is made unless the caller passed
`allow_external_sources` or the environment variable enables it -/
theorem no_external_without_optin (cfg : Cfg) (hs : cfg.safe = true) (w : World) (c : Caller) (d : Doc)
    (hc : c.aes = false) (he : envOn cfg w.envExt = false) (e : Event) (hm : e ∈ events cfg w c d) :
    e.isExec = true := by
  rcases mem_events hm with h | ⟨po, hpo, h⟩
  · exact (load_evs_gate hs w c d _ h).1
  · have := (convert_evs_gate hs w c d po hpo _ h).2
    rw [hc, he] at this; simp at this

/-- **default_caller_no_events.**  With default arguments and neither environment variable set to an accepted
value, loading any document and converting with it has no effect at all. -/
theorem default_caller_no_events (cfg : Cfg) (hs : cfg.safe = true) (w : World) (c : Caller) (d : Doc)
    (h1 : c.atv = false) (h2 : c.aes = false) (he1 : envOn cfg w.envVars = false) (he2 : envOn cfg w.envExt = false) :
    events cfg w c d = [] := by
  apply List.eq_nil_iff_forall_not_mem.2
  intro e hm
  have hx := no_external_without_optin cfg hs w c d h2 he2 e hm
  cases e with
  | exec p => exact no_exec_without_optin cfg hs w c d h1 he1 p hm
  | cmd _ => simp [Event.isExec] at hx
  | read _ => simp [Event.isExec] at hx
  | fetch _ => simp [Event.isExec] at hx

/-- the same through `from_yaml` (whatever `source_path`) and through the resolver, which has no opt-in arguments -/
theorem default_caller_no_events_yaml (cfg : Cfg) (hs : cfg.safe = true) (w : World) (c : Caller) (d : Doc)
    (h1 : c.atv = false) (h2 : c.aes = false) (he1 : envOn cfg w.envVars = false) (he2 : envOn cfg w.envExt = false) :
    events cfg w (c.effective cfg w) d = [] := by
  exact default_caller_no_events cfg hs w _ d (by rw [effective_atv, h1]) (by rw [effective_aes, h2]) he1 he2

theorem resolver_no_events (cfg : Cfg) (hs : cfg.safe = true) (w : World) (path : Str) (d : Doc)
    (he1 : envOn cfg w.envVars = false) (he2 : envOn cfg w.envExt = false) :
    (resolveFile cfg w path d).evs = [] := by
  have := default_caller_no_events_yaml cfg hs w { sourcePath := some path } d rfl rfl he1 he2
  unfold events at this
  unfold resolveFile fromYaml
  cases h : (load cfg w (Caller.effective cfg w { sourcePath := some path }) d).res with
  | error e => simpa [h] using this
  | ok p => simp [h] at this; exact this.1

/-! ## … and the affected item fails with the security error when first needed -/

/-- a template object naming a vars file whose gate is closed fails to construct with the security error -/
theorem template_fails_closed (cfg : Cfg) (w : World) (params : KV) (v : Val) (hv : List.lookup "vars" params = some v)
    (hn : v ≠ .null) (hg : varsAllowed cfg w params = false) : tmplInit cfg w params = Run.fail .security := by
  unfold tmplInit
  cases v <;> simp_all

/-- a template item of the document naming a vars file, loaded for a caller without `allow_template_vars` and
without the environment opt-in, is a Sigma security error — whatever else its dict contains -/
theorem template_item_security_error (cfg : Cfg) (w : World) (pp : Bool) (c : Caller) (t : String) (cls : Cls)
    (kv : KV) (hasCh : Bool) (ch : List Node) (v : Val)
    (hl : (itemReg cfg pp).lookup t = some cls) (hs : siteSafe cfg.item (itemReg cfg pp) = true)
    (ht : cls.isTemplate = true) (hnest : cls.nest = false)
    (hc : construct cls (siteParams cfg.item c cls kv) = true)
    (hv : List.lookup "vars" (siteParams cfg.item c cls kv) = some v) (hn : v ≠ .null)
    (hatv : c.atv = false) (he : envOn cfg w.envVars = false) :
    instItem cfg w pp c (.mk (some t) kv hasCh ch) = Run.fail .security := by
  have hb := bits_of_closed (c := c) (kv := kv) (closed_of_siteSafe hs hl) hc
  have hg : varsAllowed cfg w (siteParams cfg.item c cls kv) = false := by
    cases hga : varsAllowed cfg w (siteParams cfg.item c cls kv) with
    | false => rfl
    | true =>
      rcases varsAllowed_of_bits hb hga with h | h
      · rw [hatv] at h; cases h
      · rw [he] at h; cases h
  have hl' : (if pp = true then cfg.regPP else cfg.regT).lookup t = some cls := hl
  unfold instItem
  simp only [hl', hc, hnest, ht, template_fails_closed cfg w _ v hv hn hg]
  simp

/-- an external-source transformation whose gate is closed fails with the security error at its first use -/
theorem external_fails_closed (cfg : Cfg) (w : World) (t : String) (cls : Cls) (params : KV) (ch : List Obj)
    (hx : cls.isExt = true) (hn : cls.nest = false) (hg : externalAllowed cfg w params = false) :
    useItem cfg w (.mk t cls params ch) = Run.fail .security := by
  unfold useItem
  simp [hx, hn, hg]

/-- … and for a default caller without environment opt-in the gate of every loaded external-source object *is*
closed -/
theorem external_gate_closed (cfg : Cfg) (hs : cfg.safe = true) (w : World) (c : Caller) (d : Doc) (p : PObj)
    (hp : (load cfg w c d).res = .ok p) (hc : c.aes = false) (he : envOn cfg w.envExt = false) (o : Obj)
    (ho : o ∈ p.all) : externalAllowed cfg w o.params = false := by
  cases hg : externalAllowed cfg w o.params with
  | false => rfl
  | true =>
    rcases externalAllowed_of_bits (load_bits hs w c d p hp o ho) hg with h | h
    · rw [hc] at h; cases h
    · rw [he] at h; cases h

/-! ## the environment variables: exactly `.lower() in ("1", "true")` -/

theorem envOn_iff (cfg : Cfg) (v : Option Str) :
    envOn cfg v = true ↔ (if cfg.envLower then lower (v.getD []) else v.getD []) ∈ cfg.envAccepted := by
  cases v <;> simp [envOn]

example : envOn Cfg.ref none = false := by decide
example : envOn Cfg.ref (some "".toList) = false := by decide
example : envOn Cfg.ref (some "0".toList) = false := by decide
example : envOn Cfg.ref (some "1".toList) = true := by decide
example : envOn Cfg.ref (some "true".toList) = true := by decide
example : envOn Cfg.ref (some "TRUE".toList) = true := by decide
example : envOn Cfg.ref (some "True".toList) = true := by decide
example : envOn Cfg.ref (some "yes".toList) = false := by decide
example : envOn Cfg.ref (some "on".toList) = false := by decide
example : envOn Cfg.ref (some " 1".toList) = false := by decide
example : envOn Cfg.ref (some "11".toList) = false := by decide

/-! ## base directories -/

/-- **vars_outside_base_never_executed.**  Whenever the caller has base directories — and whoever enabled the
execution, argument or environment variable — every vars file executed lies in or below one of them: its
resolved path equals a resolved base or starts with it plus a separator. -/
theorem vars_outside_base_never_executed (cfg : Cfg) (hb : cfg.basesSafe = true) (hsep : cfg.pathSep = true)
    (w : World) (c : Caller) (bs : List Str) (hbs : c.vap = some bs) (d : Doc) (p : Str)
    (hm : Event.exec p ∈ events cfg w c d) :
    ∃ b ∈ bs, (w.realpath b ++ ['/']) <+: p ∨ p = w.realpath b := by
  rcases mem_events hm with h | ⟨po, _, h⟩
  · obtain ⟨p', hp', hok⟩ := load_evs_bases hb w c d _ h
    cases hp'
    exact pathOk_sound hsep (hok bs hbs)
  · have := (useItems_evs cfg w po.items _ h).1
    simp [Event.isExec] at this

/-- `from_yaml(…, source_path=sp)` without explicit bases: the directory of the (resolved) pipeline file is the
only base -/
theorem derived_base (cfg : Cfg) (hd : cfg.derivesBase = true) (w : World) (c : Caller) (sp : Str)
    (h1 : c.vap = none) (h2 : c.sourcePath = some sp) :
    (c.effective cfg w).vap = some [w.dirname (w.realpath sp)] := by
  simp [Caller.effective, h1, h2, hd]

/-- explicit bases win over the derived one -/
theorem explicit_bases_kept (cfg : Cfg) (w : World) (c : Caller) (bs : List Str) (h : c.vap = some bs) :
    (c.effective cfg w).vap = some bs := by
  simp [Caller.effective, h]

/-- a pipeline file loaded by path (resolver, or `from_yaml` with `source_path`) never executes a vars file outside
its own directory tree -/
theorem vars_outside_file_directory_never_executed (cfg : Cfg) (hb : cfg.basesSafe = true) (hsep : cfg.pathSep = true)
    (hd : cfg.derivesBase = true) (w : World) (c : Caller) (sp : Str) (h1 : c.vap = none) (h2 : c.sourcePath = some sp)
    (d : Doc) (p : Str) (hm : Event.exec p ∈ events cfg w (c.effective cfg w) d) :
    (w.realpath (w.dirname (w.realpath sp)) ++ ['/']) <+: p ∨ p = w.realpath (w.dirname (w.realpath sp)) := by
  obtain ⟨b, hb', h⟩ := vars_outside_base_never_executed cfg hb hsep w _ _ (derived_base cfg hd w c sp h1 h2) d p hm
  simp at hb'
  subst hb'
  exact h

/-- on resolved paths the string test is containment of path components (`Lemmas/CapsPath.lean`) -/
theorem containment_is_componentwise (b p : List Str) (hb : ∀ c ∈ b, Comp c) (hp : ∀ c ∈ p, Comp c) :
    contained Cfg.ref (render b) (render p) = true ↔ b <+: p := by
  rw [← contained_iff_components b p hb hp]
  simp [contained, Cfg.ref, List.isPrefixOf_iff_prefix]

/-- prefix-sharing sibling directory: `/base/dirX/v.py` is *not* inside `/base/dir` … -/
example : contained Cfg.ref "/base/dir".toList "/base/dirX/v.py".toList = false := by decide
/-- … but it would be if the separator were not appended (this is what `startswith(base)` alone does) -/
example : contained { Cfg.ref with pathSep := false } "/base/dir".toList "/base/dirX/v.py".toList = true := by decide
example : contained Cfg.ref "/base/dir".toList "/base/dir/sub/v.py".toList = true := by decide
example : contained Cfg.ref "/base/dir".toList "/base/dir".toList = true := by decide
/-- the root directory as base admits nothing but itself (`"/" + "/"` is never a prefix): on the safe side -/
example : contained Cfg.ref "/".toList "/etc/x.py".toList = false := by decide

/-! ## witnesses: the opt-ins are needed and suffice (non-vacuity both ways), on the pinned configuration -/

-- opt-in needed: default caller, nothing happens, the item fails with the security error when needed
example : events Cfg.ref {} {} (docT [cmdItem, fileItem, urlItem]) = [] := by decide
example : (outcome Cfg.ref {} {} (docT [cmdItem])) matches .error .security := by decide
example : (outcome Cfg.ref {} {} (docT [cmdItem grants, fileItem])) matches .error .security := by decide
example : (load Cfg.ref {} {} (docPP [tmplItem "/d/v.py"])).res matches .error .security := by decide
example : (load Cfg.ref {} {} (docF [nestF [nestF [tmplItem "/d/v.py"]]])).res matches .error .security := by decide
-- the document's own grants change nothing, at any level
example : events Cfg.ref {} {} (docT [cmdItem grants, nestT [cmdItem grants, nestT [cmdItem grants] grants] grants]) = [] := by decide
example : events Cfg.ref {} {} (docPP [tmplItem "/d/v.py" grants]) = [] := by decide
example : events Cfg.ref {} {} (docF [nestF [nestF [tmplItem "/d/v.py" grants]]]) = [] := by decide
example : (load Cfg.ref {} {} { keys := ["transformations", kAes], ts := [cmdItem] }).res matches .error .config := by decide
-- opt-in sufficient: the caller's argument …
example : events Cfg.ref {} { aes := true } (docT [cmdItem, fileItem]) = [.cmd "id".toList, .read "/data/v.txt".toList] := by decide
example : events Cfg.ref {} { atv := true } (docPP [tmplItem "/d/v.py"]) = [.exec "/d/v.py".toList] := by decide
example : events Cfg.ref {} { atv := true } (docF [nestF [nestF [tmplItem "/d/v.py"]]]) = [.exec "/d/v.py".toList] := by decide
-- … or the environment variable
example : events Cfg.ref { envExt := some "TRUE".toList } {} (docT [cmdItem]) = [.cmd "id".toList] := by decide
example : events Cfg.ref { envVars := some "1".toList } {} (docF [tmplItem "/d/v.py"]) = [.exec "/d/v.py".toList] := by decide
-- each opt-in opens its own capability only
example : events Cfg.ref {} { atv := true } (docT [cmdItem]) = [] := by decide
example : events Cfg.ref { envExt := some "1".toList } {} (docPP [tmplItem "/d/v.py"]) = [] := by decide
-- bases: inside is executed, outside / prefix-sharing is a security error, also when the document offers other bases
example : events Cfg.ref {} { atv := true, vap := some ["/base/dir".toList] } (docF [tmplItem "/base/dir/v.py"]) =
    [.exec "/base/dir/v.py".toList] := by decide
example : events Cfg.ref {} { atv := true, vap := some ["/base/dir".toList] } (docF [tmplItem "/base/dirX/v.py" grants]) = [] := by decide
example : (load Cfg.ref {} { atv := true, vap := some ["/base/dir".toList] } (docF [tmplItem "/base/dirX/v.py"])).res
    matches .error .security := by decide
-- a symbolic link inside the base pointing outside is judged by where it leads
example : events Cfg.ref { realpath := fun p => if p == "/base/dir/l.py".toList then "/out/v.py".toList else p }
    { atv := true, vap := some ["/base/dir".toList] } (docF [tmplItem "/base/dir/l.py"]) = [] := by decide
-- bases derived from the file's location bind even when only the environment enabled the execution
example : (fromYaml Cfg.ref { envVars := some "1".toList, dirname := fun _ => "/base/dir".toList }
    { sourcePath := some "/base/dir/p.yml".toList } (docPP [tmplItem "/out/v.py"])).res matches .error .security := by decide

/-- **nested_sources_ignore_caller** (finding, functional): the items of a nested transformation pipeline are
loaded with default arguments, so the caller's `allow_external_sources=True` does not enable them -/
example : events Cfg.ref {} { aes := true } (docT [nestT [cmdItem]]) = [] := by decide
example : events Cfg.ref { envExt := some "1".toList } {} (docT [nestT [cmdItem]]) = [.cmd "id".toList] := by decide

/-! ## the side condition is necessary -/

/-- a key that a site neither strips nor overwrites for a class accepting it reaches the constructor with the
document's value -/
theorem open_key_flows (s : Site) (c : Caller) (cls : Cls) (kv : KV) (k : String) (v : Val)
    (ho : keyOpen s cls k = true) (hk : List.lookup k kv = some v) :
    List.lookup k (siteParams s c cls kv) = some v := by
  simp only [keyOpen, Bool.and_eq_true, Bool.not_eq_true', Bool.or_eq_false_iff, Bool.and_eq_false_iff] at ho
  obtain ⟨⟨_, hstrip⟩, hT, hE⟩ := ho
  rw [lookup_siteParams]
  have h1 : ¬(cls.isExt = true ∧ k ∈ s.injExt) := by
    rintro ⟨a, b⟩
    rcases hE with h | h
    · rw [a] at h; cases h
    · have : s.injExt.contains k = true := by simpa using b
      rw [h] at this; cases this
  have h2 : ¬(cls.isTemplate = true ∧ k ∈ s.injTmpl) := by
    rintro ⟨a, b⟩
    rcases hT with h | h
    · rw [a] at h; cases h
    · have : s.injTmpl.contains k = true := by simpa using b
      rw [h] at this; cases this
  have h3 : k ∉ s.strip := by
    intro hm
    have : s.strip.contains k = true := by simpa using hm
    rw [hstrip] at this; cases this
  rw [if_neg h1, if_neg h2, if_neg h3, hk]

/-- **safe_is_necessary** (`strip_needed`): then the document grants itself the capability … -/
theorem safe_is_necessary :
    cfgNoExt.safe = false ∧ events cfgNoExt {} {} (docT [cmdItem [(kAes, .bool true)]]) = [.cmd "id".toList] ∧
    cfgNoNestedFin.safe = false ∧
    events cfgNoNestedFin {} {} (docF [nestF [tmplItem "/d/v.py" [(kAtv, .bool true)]]]) = [.exec "/d/v.py".toList] := by
  decide

/-- … whereas dropping *only* the exclusion (the overwriting assignment still in place) leaves the loader safe:
the document's value is overwritten.  (What changes is that the key is then an unexpected keyword for classes
without the field.) -/
theorem overwrite_alone_suffices :
    ({ Cfg.ref with item := { Cfg.ref.item with strip := Cfg.ref.item.strip.filter (· != kAes) } } : Cfg).safe = true ∧
    ({ Cfg.ref with finTop := { Cfg.ref.finTop with strip := [] }, finNested := { Cfg.ref.finNested with strip := [] } } : Cfg).safe = true := by
  decide

/-- without forwarding the bases together with the permission, a nested template finalizer would escape them -/
example : ({ Cfg.ref with fwdNestF := ⟨true, false, false⟩ } : Cfg).basesSafe = false ∧
    events { Cfg.ref with fwdNestF := ⟨true, false, false⟩ } {} { atv := true, vap := some ["/base/dir".toList] }
      (docF [nestF [nestF [tmplItem "/out/v.py"]]]) = [.exec "/out/v.py".toList] := by decide

/-- the pinned configuration satisfies all side conditions (so the theorems above are not vacuous) -/
theorem ref_conditions : Cfg.ref.safe = true ∧ Cfg.ref.strips = true ∧ Cfg.ref.overwrites = true ∧
    Cfg.ref.basesSafe = true := by decide

end SigmaVerif.Props.C16
