import SigmaVerif.Model.Filter
namespace SigmaVerif.Props.C11
open SigmaVerif.Filter

/-- a filter never applies to a correlation rule -/
theorem applies_not_correlation (fl : LogSource) (fr : RuleList) (r : RuleInfo) (h : r.isCorrelation = true) :
    applies fl fr r = false := by simp [applies, h]

end SigmaVerif.Props.C11
