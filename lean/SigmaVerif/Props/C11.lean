import SigmaVerif.Lemmas.Filter
/-!
# C11 — a filter is applied to the rules it is meant for, and its condition is spliced in intact

Property theorems only; the proofs are in `SigmaVerif/Lemmas/Filter.lean`.

* applicability: `applies_not_correlation`, `applies_iff`, `covers_iff` (+ `covers_refl`,
  `covers_trans`, `covers_empty`, `covers_empty_string_is_specified`)
* the token scan on the canonical spelling renames exactly the names: `rewrite_pp`
* the renamed condition means the same over the renamed detections: `rewrite_keeps_keywords`
  (+ `rewrite_keeps_keywords_open`, `rewrite_keeps_shape`), and the finding D10c
  `rewrite_them_captures_underscore`
* no capture: `rule_selector_never_captures`, `filter_selector_never_captures`, and the finding D10b
  `rule_underscore_selector_captures`
-/
namespace SigmaVerif.Props.C11
open SigmaVerif.Cond SigmaVerif.CondSpec SigmaVerif.Filter
open SigmaVerif.Lemmas.Filter (NamesOK hasOpen)

/-! ## 1. Applicability -/

/-- a filter never applies to a correlation rule -/
theorem applies_not_correlation (fl : LogSource) (fr : RuleList) (r : RuleInfo) (h : r.isCorrelation = true) :
    applies fl fr r = false := by simp [applies, h]

example : applies ⟨none, none, none⟩ .any ⟨true, ⟨some "x".toList, none, none⟩, []⟩ = false :=
  applies_not_correlation _ _ _ rfl

/-- a filter applies exactly to the non-correlation rules whose log source it covers and which it
lists (by name or id), or to all of those if it says `any` -/
theorem applies_iff (fl : LogSource) (fr : RuleList) (r : RuleInfo) :
    applies fl fr r = true ↔
      r.isCorrelation = false ∧ fl.covers r.logsource = true ∧
      (fr = .any ∨ ∃ ks, fr = .refs ks ∧ ∃ k ∈ ks, k ∈ r.keys) :=
  SigmaVerif.Lemmas.Filter.applies_iff fl fr r

example : applies ⟨some "proc".toList, none, none⟩ (.refs ["r2".toList, "r1".toList])
    ⟨false, ⟨some "proc".toList, some "win".toList, none⟩, ["r1".toList, "id1".toList]⟩ = true := by
  decide
example : applies ⟨some "proc".toList, none, none⟩ (.refs ["r2".toList])
    ⟨false, ⟨some "proc".toList, some "win".toList, none⟩, ["r1".toList, "id1".toList]⟩ = false := by
  decide

/-- the filter's log source covers the rule's iff every attribute the filter specifies has the same
value in the rule -/
theorem covers_iff (f r : LogSource) :
    f.covers r = true ↔
      (∀ c, f.category = some c → r.category = some c) ∧
      (∀ c, f.product = some c → r.product = some c) ∧
      (∀ c, f.service = some c → r.service = some c) :=
  SigmaVerif.Lemmas.Filter.covers_iff f r

example : (⟨some "proc".toList, none, none⟩ : LogSource).covers
    ⟨some "proc".toList, some "win".toList, none⟩ = true := by decide
example : (⟨some "proc".toList, some "win".toList, none⟩ : LogSource).covers
    ⟨some "proc".toList, none, none⟩ = false := by decide

theorem covers_refl (f : LogSource) : f.covers f = true :=
  SigmaVerif.Lemmas.Filter.covers_refl f

example : (⟨some "a".toList, none, some "b".toList⟩ : LogSource).covers
    ⟨some "a".toList, none, some "b".toList⟩ = true := covers_refl _

theorem covers_trans (f g r : LogSource) (h1 : f.covers g = true) (h2 : g.covers r = true) :
    f.covers r = true :=
  SigmaVerif.Lemmas.Filter.covers_trans f g r h1 h2

example : (⟨some "a".toList, none, none⟩ : LogSource).covers
    ⟨some "a".toList, some "w".toList, some "s".toList⟩ = true :=
  covers_trans _ ⟨some "a".toList, some "w".toList, none⟩ _ (by decide) (by decide)

/-- a filter without log source attributes covers every rule -/
theorem covers_empty (r : LogSource) : (⟨none, none, none⟩ : LogSource).covers r = true :=
  SigmaVerif.Lemmas.Filter.covers_empty r

example : (⟨none, none, none⟩ : LogSource).covers ⟨some "a".toList, none, none⟩ = true :=
  covers_empty _

/-- **the empty string is a specified value**: an attribute the filter gives as `""` is not "left out" — the filter
then covers only rules whose attribute is the empty string too (not rules with another value, nor rules without one) -/
theorem covers_empty_string_is_specified (f r : LogSource) (h : f.covers r = true) :
    (f.category = some [] → r.category = some []) ∧
    (f.product = some [] → r.product = some []) ∧
    (f.service = some [] → r.service = some []) := by
  obtain ⟨h1, h2, h3⟩ := (covers_iff f r).mp h
  exact ⟨h1 [], h2 [], h3 []⟩

example : (⟨some "win".toList, none, some []⟩ : LogSource).covers ⟨some "win".toList, none, some "security".toList⟩ = false ∧
    (⟨some "win".toList, none, some []⟩ : LogSource).covers ⟨some "win".toList, none, none⟩ = false ∧
    (⟨some "win".toList, none, some []⟩ : LogSource).covers ⟨some "win".toList, some "p".toList, some []⟩ = true ∧
    (⟨some "win".toList, none, none⟩ : LogSource).covers ⟨some "win".toList, none, some []⟩ = true := by decide

/-- `covers` is a partial order: two log sources that cover each other are equal … -/
theorem covers_antisymm (f g : LogSource) (h1 : f.covers g = true) (h2 : g.covers f = true) :
    f = g := by
  obtain ⟨a1, a2, a3⟩ := (covers_iff f g).mp h1
  obtain ⟨b1, b2, b3⟩ := (covers_iff g f).mp h2
  cases f with
  | mk fc fp fs =>
    cases g with
    | mk gc gp gs =>
      simp only at a1 a2 a3 b1 b2 b3
      have e1 : fc = gc := by
        cases fc with
        | none => cases gc with
          | none => rfl
          | some c => exact (b1 c rfl).symm ▸ rfl
        | some c => exact (a1 c rfl).symm
      have e2 : fp = gp := by
        cases fp with
        | none => cases gp with
          | none => rfl
          | some c => exact (b2 c rfl).symm ▸ rfl
        | some c => exact (a2 c rfl).symm
      have e3 : fs = gs := by
        cases fs with
        | none => cases gs with
          | none => rfl
          | some c => exact (b3 c rfl).symm ▸ rfl
        | some c => exact (a3 c rfl).symm
      rw [e1, e2, e3]

/-- … and narrowing is monotone: a filter that applies through a more specific log source also
applies through every log source covering that one (same rule list). -/
theorem applies_mono (f g : LogSource) (fr : RuleList) (r : RuleInfo) (hfg : f.covers g = true)
    (h : applies g fr r = true) : applies f fr r = true := by
  unfold applies at h ⊢
  simp only [Bool.and_eq_true] at h ⊢
  exact ⟨⟨h.1.1, covers_trans f g r.logsource hfg h.1.2⟩, h.2⟩

example : applies ⟨some "proc".toList, none, none⟩ .any
    ⟨false, ⟨some "proc".toList, some "win".toList, none⟩, ["r1".toList]⟩ = true :=
  applies_mono _ ⟨some "proc".toList, some "win".toList, none⟩ _ _ (by decide) (by decide)

/-! ## 2. The scan renames exactly the names

`NamesOK e` (`Lemmas/Filter.lean`): every identifier and every selector pattern of `e` is one token
of the scan (non-empty, first character in `startChars` — so not `-` —, all characters in
`bodyChars`) and is not one of the `keywords`; identifiers are moreover not `them`.  Each conjunct
is needed; the checked counterexamples are next to the definition (`-b` is read as `-` + `b`; a
detection called `all` or `1` is not renamed; a detection called `them` becomes `<prefix>_*`).
Nothing is required of the prefix: the scan never looks at its own output. -/

/-- on the canonical spelling of a condition the scan puts the prefix in front of every identifier
and every pattern (`them` becomes `<prefix>_*`) and changes nothing else -/
theorem rewrite_pp (pre : Str) (e : E) (he : NamesOK e = true) (ctx : Nat) :
    rewrite pre (pp ctx e) =
      pp ctx (e.mapNames (fun n => pre ++ '_' :: n)
        (fun p => if p = "them".toList then pre ++ "_*".toList else pre ++ '_' :: p)) :=
  SigmaVerif.Lemmas.Filter.rewrite_pp pre e he ctx

example : rewrite "_filt_abc".toList "(sel-1 or not all of f_*) and not 1 of them".toList =
    "(_filt_abc_sel-1 or not all of _filt_abc_f_*) and not 1 of _filt_abc_*".toList := by
  rw [show "(sel-1 or not all of f_*) and not 1 of them".toList = pp 2 (.and (.or (.id "sel-1".toList)
      (.not (.sel .all "f_*".toList))) (.not (.sel .one "them".toList))) from by decide,
    rewrite_pp _ _ (by decide)]
  decide

/-! ## 3. The boolean structure is untouched -/

/-- renaming keeps the boolean skeleton of the condition (`mapNames` with constant functions erases
all names) -/
theorem rewrite_keeps_shape (f g : Str → Str) (e : E) :
    (e.mapNames f g).mapNames (fun _ => []) (fun _ => []) =
      e.mapNames (fun _ => []) (fun _ => []) :=
  SigmaVerif.Lemmas.Filter.mapNames_shape f g e

example : (E.not (.id "a".toList)).mapNames (fun _ => []) (fun _ => []) = .not (.id []) := rfl

/-- the rewritten condition, evaluated over the injected (renamed) detections, means what the
filter's condition means over the filter's own detections — provided no filter detection starts
with `_` (finding D10c, below) and the prefix contains no `*` -/
theorem rewrite_keeps_keywords (pre : Str) (hstar : '*' ∉ pre) (e : E) (dets : List Str)
    (ρ ρ' : Str → Bool) (hρ : ∀ n, ρ' (pre ++ '_' :: n) = ρ n)
    (hd : ∀ d ∈ dets, d.head? ≠ some '_') :
    (e.mapNames (fun n => pre ++ '_' :: n)
        (fun p => if p = "them".toList then pre ++ "_*".toList else pre ++ '_' :: p)).sem
      (dets.map (fun d => pre ++ '_' :: d)) ρ' = e.sem dets ρ :=
  SigmaVerif.Lemmas.Filter.sem_prefixed pre hstar dets ρ ρ' hρ e (fun _ => hd)

/-- the hypotheses can be met: for every `ρ` there is a `ρ'` -/
example (ρ : Str → Bool) (e : E) :
    (e.mapNames (fun n => "_filt_abc".toList ++ '_' :: n)
        (fun p => if p = "them".toList then "_filt_abc".toList ++ "_*".toList
          else "_filt_abc".toList ++ '_' :: p)).sem
      (["sel".toList, "f_1".toList].map (fun d => "_filt_abc".toList ++ '_' :: d))
      (fun m => ρ (m.drop 10)) = e.sem ["sel".toList, "f_1".toList] ρ :=
  rewrite_keeps_keywords "_filt_abc".toList (by decide) e _ ρ _ (fun n => by simp) (by decide)

/-- sharper: the hypothesis on the detections is only needed when the condition contains the
selector pattern `them` or a pattern that starts with `*` (`hasOpen`) -/
theorem rewrite_keeps_keywords_open (pre : Str) (hstar : '*' ∉ pre) (e : E) (dets : List Str)
    (ρ ρ' : Str → Bool) (hρ : ∀ n, ρ' (pre ++ '_' :: n) = ρ n)
    (hd : hasOpen e = true → ∀ d ∈ dets, d.head? ≠ some '_') :
    (e.mapNames (fun n => pre ++ '_' :: n)
        (fun p => if p = "them".toList then pre ++ "_*".toList else pre ++ '_' :: p)).sem
      (dets.map (fun d => pre ++ '_' :: d)) ρ' = e.sem dets ρ :=
  SigmaVerif.Lemmas.Filter.sem_prefixed pre hstar dets ρ ρ' hρ e hd

example (ρ : Str → Bool) :
    ((E.and (.id "_u".toList) (.sel .all "s*".toList)).mapNames (fun n => "_f".toList ++ '_' :: n)
        (fun p => if p = "them".toList then "_f".toList ++ "_*".toList
          else "_f".toList ++ '_' :: p)).sem
      (["_u".toList, "sel".toList].map (fun d => "_f".toList ++ '_' :: d))
      (fun m => ρ (m.drop 3)) =
    (E.and (.id "_u".toList) (.sel .all "s*".toList)).sem ["_u".toList, "sel".toList] ρ :=
  rewrite_keeps_keywords_open "_f".toList (by decide) _ _ ρ _ (fun n => by simp)
    (fun h => absurd h (by decide))

/-- Finding D10c: without the hypothesis the law fails.  A filter with the detections `_u`, `sel`
and the condition `1 of them`: `them` does not stand for `_u`, but the rewritten `_filt_abc_*` does
stand for the injected `_filt_abc__u`. -/
theorem rewrite_them_captures_underscore :
    let pre := "_filt_abc".toList
    let dets := ["_u".toList, "sel".toList]
    let e := E.sel .one "them".toList
    let ρ : Str → Bool := fun n => n == "_u".toList
    let ρ' : Str → Bool := fun m => m == "_filt_abc__u".toList
    rewrite pre (pp 0 e) = "1 of _filt_abc_*".toList ∧
    (∀ n, ρ' (pre ++ '_' :: n) = ρ n) ∧
    e.sem dets ρ = false ∧
    (e.mapNames (fun n => pre ++ '_' :: n)
        (fun p => if p = "them".toList then pre ++ "_*".toList else pre ++ '_' :: p)).sem
      (dets.map (fun d => pre ++ '_' :: d)) ρ' = true := by
  refine ⟨by decide, fun n => by simp, ?_, ?_⟩
  · simp [E.sem, QW.quant, selects, globStar]
  · simp [E.mapNames, E.sem, QW.quant, selects, globStar]

/-! ## 4. No capture -/

/-- a rule's own selector (pattern not starting with `_`, so also `them`) never stands for an
injected filter detection -/
theorem rule_selector_never_captures (pat name : Str) (hp : pat.head? ≠ some '_') (pre : Str)
    (hpre : pre.head? = some '_') : selects pat (pre ++ '_' :: name) = false :=
  SigmaVerif.Lemmas.Filter.rule_selector_never_captures pat name hp pre hpre

example : selects "them".toList ("_filt_abc".toList ++ '_' :: "sel".toList) = false :=
  rule_selector_never_captures _ _ (by decide) _ (by decide)
example : selects "*".toList ("_filt_abc".toList ++ '_' :: "sel".toList) = false :=
  rule_selector_never_captures _ _ (by decide) _ (by decide)

/-- Finding D10b: a rule selector that does start with `_` can stand for an injected detection -/
theorem rule_underscore_selector_captures :
    selects "_*".toList "_filt_abc_sel".toList = true := by
  simp [selects, globStar]

/-- a rewritten filter pattern only stands for names that carry the prefix — so never for one of the
rule's own detections, unless the rule has a detection that literally starts with the drawn prefix -/
theorem filter_selector_never_captures (pre p n : Str) (hn : ¬ (pre ++ ['_']) <+: n)
    (hstar : '*' ∉ pre) : selects (pre ++ '_' :: p) n = false :=
  SigmaVerif.Lemmas.Filter.filter_selector_never_captures pre p n hn hstar

example : selects ("_filt_abc".toList ++ '_' :: "*".toList) "_filt_abd_sel".toList = false :=
  filter_selector_never_captures _ _ _ (by decide) (by decide)

end SigmaVerif.Props.C11
