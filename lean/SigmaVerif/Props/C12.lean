import SigmaVerif.Spec.Rule
namespace SigmaVerif.Props.C12
open SigmaVerif.Rule

/-- a one-to-many field mapping is an OR: the meaning of `list [d₁, d₂]` is the OR of the parts -/
theorem list_is_or (cx : Ctx) (f : Nat) (d1 d2 : Det) (e1 e2 : BE)
    (h1 : detBE cx f d1 = .ok e1) (h2 : detBE cx f d2 = .ok e2) :
    detBE cx (f + 1) (.list [d1, d2]) = .ok (.or [e1, e2]) := by
  simp [detBE, mapME, h1, h2]

end SigmaVerif.Props.C12
