import SigmaVerif.Lemmas.C12Cond
import SigmaVerif.Lemmas.C12Syn
import SigmaVerif.Lemmas.C12Append
import SigmaVerif.Lemmas.C12Kw
import SigmaVerif.Lemmas.C12Hash
/-!
# C12 — each pipeline transformation equals its documented source-level rewrite

Property theorems only; proofs of the helper lemmas are in `SigmaVerif.Lemmas.C12*`.

The documented rewrites are the total functions of `Spec/Rewrite.lean` on the rule document
(`Doc`: detections in source form `Det`, condition texts, fields list).  The theorems below say
what these rewrites *mean* under the specification semantics of `Spec/Rule.lean`
(`itemBE`/`detBE`/`condBE`/`ruleBE`, evaluation `BE.eval` under a valuation of atoms) — for **all**
documents (induction over `Det` and over the fuel of `detBE`, no size bound) and all valuations.
The correspondence with the code is the sweep of `harness/c12.py`: the query the real backend emits
through the pipeline is compared with `ruleBE` of the document rewritten by *these* functions
(driver op `rewrite.case`).

What is a hypothesis, and why:
* `GoodMap r`: the new names are field names (not empty, no `|`) — otherwise the rewritten key does
  not spell a field and modifiers;
* `RefOK r`: a field-reference item has `fieldref` as its first modifier and references plain names
  (no `\`, `*`, `?`), also after renaming — the code renames the reference *after* the modifiers,
  the document rewrite *before*; below another value modifier the two differ;
* `NameOK name`: the name of the added detection is an identifier the condition grammar reads as a
  name (`_added`, `_cond_…` are);
* identity of `replace_string` needs "no numeric value in scope": a number is turned into a string
  even when nothing matches (finding D35, recorded below as a witness).
-/
namespace SigmaVerif.Props.C12
open SigmaVerif.SStr SigmaVerif.Mods SigmaVerif.Rule SigmaVerif.Rewrite SigmaVerif.Lemmas.C12

/-- a one-to-many field mapping is an OR: the meaning of `list [d₁, d₂]` is the OR of the parts -/
theorem list_is_or (cx : Ctx) (f : Nat) (d1 d2 : Det) (e1 e2 : BE)
    (h1 : detBE cx f d1 = .ok e1) (h2 : detBE cx f d2 = .ok e2) :
    detBE cx (f + 1) (.list [d1, d2]) = .ok (.or [e1, e2]) := by
  simp [detBE, mapME, h1, h2]

/-! ## 1. Field renaming -/

/-- **One-to-one renaming, whole rule.**  For every function `r` on field names (injective or not)
the rule whose fields — in detection items, in field-reference values — were renamed by `r` means
the original rule with every atom `a` replaced by `renameAtom r a` (the field tested and the field
referenced go through `r`).  Errors are preserved as well (`Except.map`). -/
theorem rename_sem (r : Str → Str) (hr : GoodMap r) (cx : Ctx) (doc : Doc) (c : Str)
    (hok : ∀ d ∈ doc.dets, RefOKDet r d.2) :
    ruleBE cx (renameFields (fun f => [r f]) doc).dets c =
      (ruleBE cx doc.dets c).map (mapAtoms (renameAtom r)) :=
  rename1_rule hr cx doc.dets c hok

/-- the same, as a statement about truth values: the renamed rule holds under the valuation `v`
iff the original rule holds under `v ∘ renameAtom r` -/
theorem rename_sem_eval (r : Str → Str) (hr : GoodMap r) (cx : Ctx) (doc : Doc) (c : Str)
    (hok : ∀ d ∈ doc.dets, RefOKDet r d.2) (e : BE) (h : ruleBE cx doc.dets c = .ok e) :
    ∃ e', ruleBE cx (renameFields (fun f => [r f]) doc).dets c = .ok e' ∧
      ∀ v : Atom → Bool, e'.eval v = e.eval (fun a => v (renameAtom r a)) := by
  refine ⟨mapAtoms (renameAtom r) e, ?_, fun v => eval_mapAtoms _ v e⟩
  rw [rename_sem r hr cx doc c hok, h]; rfl

/-- renaming touches neither the conditions nor the names of the detections -/
theorem rename_keeps_conditions (m : Str → List Str) (doc : Doc) :
    (renameFields m doc).conds = doc.conds ∧ (renameFields m doc).dets.map (·.1) = doc.dets.map (·.1) := by
  simp [renameFields, mapDets, Function.comp_def]

/-- **One-to-many is an OR, per item.**  An item on field `f` (no field reference) mapped to the
fields `gs` (zero or several) is replaced, in its place, by the OR over `g ∈ gs` of a copy of the
whole item on `g`: the copy keeps the modifiers, so below `all` each copy is the AND of its values
(`(g₁∋x ∧ g₁∋y) ∨ (g₂∋x ∧ g₂∋y)`), never an OR per value. -/
theorem rename_one_to_many_is_or (m : Str → List Str) (cx : Ctx) (n : Nat) (k f : Str) (vs : List PV) (e : BE)
    (hf : fieldOf k = some f) (hno : hasMod k "fieldref" = false) (hlen : (m f).length ≠ 1)
    (hg : ∀ g ∈ m f, g ≠ [] ∧ '|' ∉ g) (he : itemBE cx (some k) vs = .ok e) :
    renameItem m (k, vs) = .sub (.list ((m f).map (fun g => .map [(g ++ keyRest k, vs)]))) ∧
    ∃ e', detBE cx (n + 1) (renameItem m (k, vs)).det = .ok e' ∧
      ∀ v : Atom → Bool, e'.eval v = (m f).any (fun g => e.eval (fun a => v (shiftAtom (some g) id a))) := by
  have hsyn : renameItem m (k, vs) = .sub (.list ((m f).map (fun g => .map [(g ++ keyRest k, vs)]))) := by
    have hv : renameValues m k vs = vs := by simp [renameValues, hno]
    unfold renameItem
    simp only [hf, hv]
    match hm : m f with
    | [] => rfl
    | [g] => rw [hm] at hlen; simp at hlen
    | g1 :: g2 :: gs => rfl
  refine ⟨hsyn, disj ((m f).map (fun g => mapAtoms (shiftAtom (some g) id) e)), ?_, ?_⟩
  · rw [hsyn]
    simp only [Out.det]
    rw [oneToMany_sem cx n k vs (m f) (by simp [hf]) hno hg, he]
    simp only [Except.map]
    rw [mapME_ok_map]
  · intro v
    rw [eval_disj]
    simp [List.any_map, Function.comp_def, eval_mapAtoms]

/-- **The pieces of a renamed map are AND-linked, in place.**  Whatever the mapping, the meaning of
a renamed map is the AND, in the order of the items, of the meanings of what became of each item. -/
theorem rename_map_is_and_of_pieces (m : Str → List Str) (cx : Ctx) (n : Nat) (items : List KV) :
    detBE cx (n + 1) (renameDet m (.map items)) =
      (mapME (fun kv => detBE cx n (renameItem m kv).det) items).map conj := by
  simp only [renameDet, mapDet]
  rw [detBE_assemble, mapME_map]

/-- **Field references.**  The values of a `fieldref` item are field names: each is replaced by its
image(s) under the mapping, spliced into the value list in order (so they stay OR-linked, and
AND-linked below `all`); values of other items are untouched. -/
theorem rename_fieldref_values (m : Str → List Str) (k : Str) (vs : List PV) :
    (hasMod k "fieldref" = true → renameValues m k vs = vs.flatMap (renameValue m) ∧
      ∀ t, PV.str t ∈ renameValues m k vs ↔ ∃ s, PV.str s ∈ vs ∧ t ∈ m s) ∧
    (hasMod k "fieldref" = false → renameValues m k vs = vs) := by
  refine ⟨fun h => ⟨by simp [renameValues, h], fun t => ?_⟩, fun h => by simp [renameValues, h]⟩
  simp only [renameValues, h, ↓reduceIte, List.mem_flatMap]
  constructor
  · rintro ⟨v, hv, ht⟩
    cases v with
    | str s => exact ⟨s, hv, by simpa [renameValue] using ht⟩
    | _ => simp [renameValue] at ht
  · rintro ⟨s, hs, ht⟩
    exact ⟨.str s, hs, by simpa [renameValue] using ht⟩

/-- the meaning of a renamed field-reference item is part of `rename_sem`; this is its item-level
form: both the field of the item and the referenced fields go through `r` -/
theorem rename_fieldref_item (r : Str → Str) (hr : GoodMap r) (cx : Ctx) (kv : KV) (hk : RefOK r kv) :
    itemBE cx (some (rename1KV r kv).1) (rename1KV r kv).2 =
      (itemBE cx (some kv.1) kv.2).map (mapAtoms (renameAtom r)) :=
  rename1_item hr cx kv hk

/-- **Fields list.**  Every entry of the `fields` list is replaced by its image(s), in order. -/
theorem rename_fields_list (m : Str → List Str) (doc : Doc) :
    (renameFields m doc).fields = doc.fields.flatMap m ∧
    ∀ g, g ∈ (renameFields m doc).fields ↔ ∃ f ∈ doc.fields, g ∈ m f := by
  simp [renameFields, List.mem_flatMap]

/-- a mapping restricted by field name conditions leaves a field outside the conditions alone —
in detection items, in references and in the fields list -/
theorem rename_scope_fields (sc : FScope) (m : Str → List Str) (f : Str) (h : sc (some f) = false) :
    scopedMap sc m f = [f] := by simp [scopedMap, h]

/-- prefix, suffix, table and prefix-table mappings are instances -/
theorem rename_instances (p s f : Str) (tbl : List (Str × List Str)) :
    addPrefix p f = [p ++ f] ∧ addSuffix s f = [f ++ s] ∧
    (tbl.lookup f = none → tableMap tbl f = [f]) ∧
    ((∀ e ∈ tbl, e.1.isPrefixOf f = false) → prefixMap tbl f = [f]) := by
  refine ⟨rfl, rfl, fun h => by simp [tableMap, h], fun h => ?_⟩
  have : tbl.find? (fun e => e.1.isPrefixOf f) = none := by
    simp only [List.find?_eq_none]; intro e he; simp [h e he]
  simp [prefixMap, this]

/-- **Keywords mapped to a field keep substring semantics.**  A keyword list of strings becomes the
item `field|contains: …` with the same strings; it means what the keywords meant with every atom
"some field contains the text matching `p`" turned into "`field` matches `*p*`" (`kwAtom`; a
wildcard already at an end is not doubled). -/
theorem keywordToField_is_contains (g : Str) (hne : g ≠ []) (hbar : '|' ∉ g) (cx : Ctx) (n : Nat)
    (strs : List Str) (hs : strs ≠ []) :
    keywordToFieldDet g (.values (strs.map PV.str)) = .map [(g ++ "|contains".toList, strs.map PV.str)] ∧
    detBE cx n (keywordToFieldDet g (.values (strs.map PV.str))) =
      (detBE cx n (.values (strs.map PV.str))).map (mapAtoms (kwAtom g)) := by
  have hsyn : keywordToFieldDet g (.values (strs.map PV.str)) = .map [(g ++ "|contains".toList, strs.map PV.str)] := rfl
  refine ⟨hsyn, ?_⟩
  rw [hsyn, detBE_single, detBE_values]
  exact keyword_item_sem cx g hne hbar strs hs

/-- only keyword lists are touched: a map keeps all its items -/
theorem keywordToField_keeps_maps (g : Str) (items : List KV) : keywordToFieldDet g (.map items) = .map items := by
  simp only [keywordToFieldDet, mapDet]
  exact assemble_ones id items |>.trans (by simp)

/-! ## 2. Scopes -/

/-- **Scope respected.**  An item outside the scope of a value transformation stays exactly as it
is, in its place; the item-level gate of a renaming is redundant (an item outside the field name
conditions is not changed by the scoped mapping anyway); dropping keeps exactly the items outside
the scope, in order. -/
theorem scope_respected (vt : VT) (sc : Scope) (fsc : FScope) (m : Str → List Str) (kv : KV) (items : List KV) :
    (sc kv.1 kv.2 = false → valueItem vt sc kv = .one kv) ∧
    (fieldScope fsc kv.1 kv.2 = false → renameItem (scopedMap fsc m) kv = .one kv) ∧
    renameItemGated fsc m kv = renameItem (scopedMap fsc m) kv ∧
    (∀ kept, dropDet sc (.map items) = some (.map kept) → kept = items.filter (fun kv => !sc kv.1 kv.2)) := by
  refine ⟨valueItem_out vt sc kv, fun h => ?_, renameItem_gate fsc m kv, fun kept h => ?_⟩
  · rw [← renameItem_gate]; simp [renameItemGated, h]
  · rw [dropDet_map] at h
    split at h
    · cases h
    · simpa using h.symm

/-- the positional form for whole maps: the i-th piece of a transformed map is the i-th item itself
whenever that item is outside the scope -/
theorem scope_respected_positional (vt : VT) (sc : Scope) (items : List KV) (i : Nat) (kv : KV)
    (hi : items[i]? = some kv) (hout : sc kv.1 kv.2 = false) :
    (items.map (valueItem vt sc))[i]? = some (.one kv) := by
  simp [hi, valueItem_out vt sc kv hout]

/-! ## 2b. Condition groups: linking (`field_name_cond_op`) and negation (`field_name_cond_not`) -/

/-- **One condition, no negation:** the group is the condition itself, whatever the linking - on field names and on
detection items. -/
theorem group_single (anyOf : Bool) (c : FScope) :
    groupFields anyOf false [c] = c ∧ groupItems anyOf false [c] = fieldScope c := by
  constructor
  · funext f; cases anyOf <;> simp [groupFields, groupResult, linkBools]
  · funext k vs; cases anyOf <;> simp [groupItems, groupResult, linkBools]

/-- **A group without conditions always applies**, whatever its negation flag says (a `*_cond_not` option next to no
condition of that kind is without effect). -/
theorem group_empty (anyOf neg : Bool) :
    groupFields anyOf neg [] = everything ∧ ∀ k vs, groupItems anyOf neg [] k vs = true :=
  ⟨rfl, fun _ _ => rfl⟩

/-- **Negation flag:** on a non-empty group it inverts the linked result, on every field name and on every item. -/
theorem group_negation (anyOf : Bool) (cs : List FScope) (h : cs ≠ []) :
    (∀ f, groupFields anyOf true cs f = !groupFields anyOf false cs f) ∧
    (∀ k vs, groupItems anyOf true cs k vs = !groupItems anyOf false cs k vs) := by
  have hne : ∀ {β : Type} (g : FScope → β), (cs.map g).isEmpty = false := by
    intro β g; cases cs with
    | nil => exact absurd rfl h
    | cons _ _ => rfl
  constructor
  · intro f; simp [groupFields, groupResult, hne]
  · intro k vs; simp [groupItems, groupResult, hne]

/-- … in particular a negated `include_fields` is `exclude_fields` of the same list and the other way round. -/
theorem group_not_include_exclude (anyOf : Bool) (fs : List Str) :
    groupFields anyOf true [includeFields fs] = excludeFields fs ∧
    groupFields anyOf true [excludeFields fs] = includeFields fs := by
  constructor <;> funext f <;> cases anyOf <;> simp [groupFields, groupResult, linkBools, excludeFields]

/-- **Linking:** `and` holds iff every condition holds, `or` iff some condition holds (non-empty group, no negation). -/
theorem group_linking (cs : List FScope) (h : cs ≠ []) (f : Option Str) :
    (groupFields false false cs f = true ↔ ∀ c ∈ cs, c f = true) ∧
    (groupFields true false cs f = true ↔ ∃ c ∈ cs, c f = true) := by
  cases cs with
  | nil => exact absurd rfl h
  | cons c cs => simp [groupFields, groupResult, linkBools]

/-- **Items without field references:** the group evaluated on the item is the group evaluated on its field name. -/
theorem group_items_no_ref (anyOf neg : Bool) (cs : List FScope) (k : Str) (vs : List PV) (h : refNames k vs = []) :
    groupItems anyOf neg cs k vs = groupFields anyOf neg cs (fieldOf k) := by
  simp [groupItems, groupFields, fieldScope, h, List.map_map, Function.comp_def]

/-- **Renaming behind the gate of a single condition is the ungated renaming** (the earlier theorems speak about it);
an item the gate rejects stays exactly as it is, in its place. -/
theorem renameGated_single (sc : FScope) (m : Str → List Str) (doc : Doc) :
    renameFieldsGated (fieldScope sc) (scopedMap sc m) doc = renameFields (scopedMap sc m) doc := by
  obtain ⟨dets, conds, fields⟩ := doc
  simp only [renameFieldsGated, renameFields]
  congr 1
  unfold mapDets
  refine List.map_congr_left (fun d _ => ?_)
  congr 1
  exact mapDet_congr _ _ _ _ d.2 (fun kv _ => by simpa [renameItemGated] using renameItem_gate sc m kv) (fun _ _ => rfl)

/-- **A gate that rejects every item of the rule** (e.g. a negated condition excluding no field of the rule) together
with a mapping that leaves the fields list alone leaves the document unchanged. -/
theorem renameGated_identity (gate : Scope) (m : Str → List Str) (doc : Doc)
    (hd : ∀ d ∈ doc.dets, ∀ kv ∈ detItems d.2, gate kv.1 kv.2 = false)
    (hf : ∀ f ∈ doc.fields, m f = [f]) :
    renameFieldsGated gate m doc = doc := by
  obtain ⟨dets, conds, fields⟩ := doc
  simp only [renameFieldsGated]
  have h1 : mapDets (renameDetGated gate m) dets = dets :=
    mapDets_id _ dets (fun d hdm => by
      unfold renameDetGated
      exact mapDet_id _ _ d.2 (fun kv hkv => by simp [hd d hdm kv hkv]) (fun _ _ => rfl))
  rw [h1, flatMap_singleton_id m fields hf]

example : groupFields false true [includeFields ["CommandLine".toList]] (some "Image".toList) = true ∧
    groupFields false true [includeFields ["CommandLine".toList]] (some "CommandLine".toList) = false ∧
    groupItems true false [includeFields ["a".toList], includeFields ["b".toList]] "b|contains".toList [] = true := by decide

/-! ## 3. Identity instances -/

/-- **Empty mapping / mapping without a matching key / scope matching nothing**: a renaming that
maps every field of the rule (in items, references and the fields list) to itself leaves the
document unchanged. -/
theorem identity_rename (m : Str → List Str) (doc : Doc)
    (hd : ∀ d ∈ doc.dets, ∀ kv ∈ detItems d.2, (∀ f, fieldOf kv.1 = some f → m f = [f]) ∧ ∀ s ∈ refNames kv.1 kv.2, m s = [s])
    (hf : ∀ f ∈ doc.fields, m f = [f]) :
    renameFields m doc = doc := by
  obtain ⟨dets, conds, fields⟩ := doc
  simp only [renameFields]
  rw [mapDets_id _ dets (fun d hdm => renameDet_id m d.2 (hd d hdm)), flatMap_singleton_id m fields hf]

/-- an empty `field_name_mapping`, and any mapping under a scope that matches nothing, are such renamings -/
theorem identity_rename_instances (m : Str → List Str) (doc : Doc) :
    renameFields (tableMap []) doc = doc ∧ renameFields (scopedMap (fun _ => false) m) doc = doc :=
  ⟨identity_rename _ doc (fun _ _ _ _ => ⟨fun _ _ => rfl, fun _ _ => rfl⟩) (fun _ _ => rfl),
   identity_rename _ doc (fun _ _ _ _ => ⟨fun _ _ => rfl, fun _ _ => rfl⟩) (fun _ _ => rfl)⟩

/-- **A value transformation that changes no value in scope** (scope matching nothing; `map_string`
without a matching key; `replace_string` whose substitution is the identity on the rule's values)
leaves the document unchanged. -/
theorem identity_value (vt : VT) (sc : Scope) (doc : Doc) (hs : vt.stripMods = false)
    (h : ∀ d ∈ doc.dets, ∀ kv ∈ detItems d.2, sc kv.1 kv.2 = false ∨ ∀ v ∈ kv.2, vt.f v = [v]) :
    valueTransform vt sc doc = doc := by
  obtain ⟨dets, conds, fields⟩ := doc
  simp only [valueTransform]
  rw [mapDets_id _ dets (fun d hdm => valueDet_id vt sc d.2 hs (h d hdm))]

/-- `map_string`: no value of the rule is a key of the mapping (in particular: the empty mapping) -/
theorem identity_mapString (tbl : List (Str × List Str)) (sc : Scope) (doc : Doc)
    (h : ∀ d ∈ doc.dets, ∀ kv ∈ detItems d.2, ∀ s, PV.str s ∈ kv.2 → tbl.lookup (plainText s) = none) :
    valueTransform (mapString tbl) sc doc = doc := by
  refine identity_value _ sc doc rfl (fun d hd kv hkv => Or.inr (fun v hv => ?_))
  cases v with
  | str s => simp [mapString, h d hd kv hkv s hv]
  | _ => rfl

/-- `replace_string`: the pattern matches nothing in the rule's strings — substituting in the plain
form and writing the result back gives the value as it was written (false for a value with a
literal backslash in front of a wildcard: finding D3) — **and no value in scope is a number** -/
theorem identity_replace (sub : Str → Str) (sc : Scope) (doc : Doc)
    (h : ∀ d ∈ doc.dets, ∀ kv ∈ detItems d.2, sc kv.1 kv.2 = true →
      ∀ v ∈ kv.2, (∀ s, v = .str s → replaceText sub s = s) ∧ ∀ n, v ≠ .num n) :
    valueTransform (replaceString sub) sc doc = doc := by
  refine identity_value _ sc doc rfl (fun d hd kv hkv => ?_)
  cases hsc : sc kv.1 kv.2 with
  | false => exact Or.inl rfl
  | true =>
    refine Or.inr (fun v hv => ?_)
    obtain ⟨h1, h2⟩ := h d hd kv hkv hsc v hv
    cases v with
    | str s => simp [replaceString, h1 s rfl]
    | num n => exact absurd rfl (h2 n)
    | _ => rfl

/-- **Finding D35, as a witness.**  With a numeric value in scope the identity fails: a substitution
that changes nothing still turns the number `5` into the string `"5"` (this is what the code does,
and what three upstream tests pin). -/
theorem identity_replace_fails_on_numbers :
    valueDet (replaceString id) (fun _ _ => true) (.map [("f".toList, [.num "5".toList])]) =
      .map [("f".toList, [.str "5".toList])] := by rfl

/-- **All identity instances**: an empty mapping, a mapping under a scope that matches nothing, a value
transformation under a scope that matches nothing, `map_string` with an empty mapping, an empty
nested pipeline — each returns the document it was given; hence (`identity_queries_unchanged`) the
meaning of every condition, and with it every query, is unchanged. -/
theorem identity_instances (m : Str → List Str) (vt : VT) (sc : Scope) (doc : Doc) (hs : vt.stripMods = false) :
    renameFields (tableMap []) doc = doc ∧
    renameFields (scopedMap (fun _ => false) m) doc = doc ∧
    valueTransform vt (fun _ _ => false) doc = doc ∧
    valueTransform (mapString []) sc doc = doc ∧
    (Tr.nest []).apply doc = .ok doc :=
  ⟨(identity_rename_instances m doc).1, (identity_rename_instances m doc).2,
   identity_value vt _ doc hs (fun _ _ _ _ => Or.inl rfl),
   identity_mapString [] sc doc (fun _ _ _ _ _ _ => rfl),
   by simp [Tr.apply, Tr.applyL]⟩

theorem identity_queries_unchanged (cx : Ctx) (doc doc' : Doc) (h : doc' = doc) (c : Str) :
    ruleBE cx doc'.dets c = ruleBE cx doc.dets c := by rw [h]

/-! ## 4. Dropping items -/

/-- **Dropping removes exactly the items in scope.**  Of a map that has a meaning, the items outside
the scope are kept as they are and in order, the others disappear; the original meaning is
`kept ∧ dropped`, the new meaning is `kept` — nothing else changes. -/
theorem drop_removes_exactly (sc : Scope) (cx : Ctx) (n : Nat) (items : List KV) (e : BE)
    (h : detBE cx n (.map items) = .ok e) :
    let kept := items.filter (fun kv => !sc kv.1 kv.2)
    let dropped := items.filter (fun kv => sc kv.1 kv.2)
    dropDet sc (.map items) = (if kept = [] then none else some (.map kept)) ∧
    (∀ kv, kv ∈ kept ↔ kv ∈ items ∧ sc kv.1 kv.2 = false) ∧
    ∃ ek ed, detBE cx n (.map kept) = .ok (conj ek) ∧ detBE cx n (.map dropped) = .ok (conj ed) ∧
      ∀ v : Atom → Bool, e.eval v = ((conj ek).eval v && (conj ed).eval v) := by
  intro kept dropped
  refine ⟨dropDet_map sc items, fun kv => by simp [kept, List.mem_filter], ?_⟩
  rw [detBE_map] at h
  cases hm : mapME (fun kv : KV => itemBE cx (some kv.1) kv.2) items with
  | error x => rw [hm] at h; cases h
  | ok es =>
    rw [hm] at h
    simp only [Except.map, Except.ok.injEq] at h
    obtain ⟨ek, er, h1, h2, h3⟩ := mapME_filter _ (fun kv : KV => !sc kv.1 kv.2) items es hm
    simp only [Bool.not_not] at h2
    refine ⟨ek, er, by rw [detBE_map]; simp [kept, h1, Except.map], by rw [detBE_map]; simp [dropped, h2, Except.map], fun v => ?_⟩
    rw [← h, eval_conj, eval_conj, eval_conj, h3]

/-- **Dropping every item of a detection** leaves no detection: `dropDet` answers `none`, the
document rewrite answers `emptied` for the first such detection.  (The code then lets the operand
vanish from the condition — `sel and flt` becomes `flt`, `flt and not sel` becomes `flt`, a rule
whose only detection is emptied yields no query; this is C02's subject and is not judged here.) -/
theorem drop_everything_emptied (sc : Scope) (items : List KV) (name : Str) (rest : List (Str × Det)) (doc : Doc) :
    (dropDet sc (.map items) = none ↔ ∀ kv ∈ items, sc kv.1 kv.2 = true) ∧
    ((∀ kv ∈ items, sc kv.1 kv.2 = true) →
      dropItems sc { doc with dets := (name, .map items) :: rest } = .error (.emptied name)) := by
  have hnone : dropDet sc (.map items) = none ↔ ∀ kv ∈ items, sc kv.1 kv.2 = true := by
    rw [dropDet_map]
    constructor
    · intro h
      split at h
      · rename_i hk
        intro kv hkv
        have := List.filter_eq_nil_iff.1 hk kv hkv
        simpa using this
      · cases h
    · intro h
      have : items.filter (fun kv => !sc kv.1 kv.2) = [] := List.filter_eq_nil_iff.2 (fun kv hkv => by simp [h kv hkv])
      simp [this]
  refine ⟨hnone, fun h => ?_⟩
  simp [dropItems, dropDets, hnone.2 h]

/-! ## 5. Adding a condition -/

/-- **An added condition is an AND.**  Let `name` be a fresh identifier starting with `_` and let
the new detection (the map of the configured items) mean `b`.  Then *every* condition `c` of the
rule is replaced by the text `name and (c)` (negated: `not name and (c)`), the specification reader
takes that text apart as written (proved, not assumed: `read_addCondText`), and the new rule means
`b ∧ old` (negated: `¬b ∧ old`), where `old` is what the rule meant under `c`. -/
theorem addCondition_is_and (cx : Ctx) (doc : Doc) (name : Str) (items : List KV) (neg : Bool) (b : BE)
    (hname : SigmaVerif.Lemmas.C12Read.NameOK name) (hund : name.head? = some '_') (hfresh : ∀ d ∈ doc.dets, d.1 ≠ name)
    (hnew : detBE cx 8 (.map items) = .ok b) :
    (addCondition name items neg doc).conds = doc.conds.map (addCondText name neg) ∧
    (addCondition name items neg doc).dets = doc.dets ++ [(name, .map items)] ∧
    ∀ c ∈ doc.conds, ∀ (e : CondSpec.E) (old : BE), CondSpec.read c = some e →
      (∀ p ∈ patterns e, p.head? ≠ some '_') → ruleBE cx doc.dets c = .ok old →
      ∃ e', ruleBE cx (addCondition name items neg doc).dets (addCondText name neg c) = .ok e' ∧
        ∀ v : Atom → Bool, e'.eval v = ((if neg then !b.eval v else b.eval v) && old.eval v) := by
  refine ⟨rfl, rfl, fun c _ e old hread hpat hold => ?_⟩
  refine ⟨.and [if neg then .not b else b, old], ?_, fun v => ?_⟩
  · exact ruleBE_addCond cx doc.dets c _ name items neg e old b hread
      (read_addCondText name c neg e hname hread) hold hnew hfresh
      (fun p hp => selects_underscore p name hund (hpat p hp))
  · cases neg <;> simp [BE.eval, BE.evalAll]

/-- the reader lemma on its own: `name and (c)` reads as the AND of `name` and what `c` reads as -/
theorem addCondition_text_reads (name c : Str) (neg : Bool) (e : CondSpec.E) (h : SigmaVerif.Lemmas.C12Read.NameOK name)
    (hc : CondSpec.read c = some e) :
    CondSpec.read (addCondText name neg c) = some (wrapE name neg e) :=
  read_addCondText name c neg e h hc

/-- a templated condition is the condition with its string values substituted -/
theorem addCondition_template (vars : List (Str × Str)) (name : Str) (items : List KV) (neg : Bool) (doc : Doc) :
    addConditionTemplate vars name items neg doc = addCondition name (tplItems vars items) neg doc := rfl

/-! ## 6. Nested pipelines -/

/-- **A nested pipeline is the composition of its items, in order**: nothing for no item, the item
itself for one, first the head then the rest; nesting is associative (a pipeline of two nested
pipelines is the pipeline of all their items). -/
theorem nest_is_composition (t : Tr) (ts a b : List Tr) (doc : Doc) :
    (Tr.nest []).apply doc = .ok doc ∧
    (Tr.nest [t]).apply doc = t.apply doc ∧
    (Tr.nest (t :: ts)).apply doc = (match t.apply doc with | .ok d => (Tr.nest ts).apply d | .error e => .error e) ∧
    (Tr.nest (a ++ b)).apply doc = (match (Tr.nest a).apply doc with | .ok d => (Tr.nest b).apply d | .error e => .error e) ∧
    (Tr.nest [Tr.nest a, Tr.nest b]).apply doc = (Tr.nest (a ++ b)).apply doc := by
  refine ⟨by simp [Tr.apply, Tr.applyL], ?_, ?_, by simp only [Tr.apply]; exact applyL_append a b doc, ?_⟩
  · simp only [Tr.apply, Tr.applyL]; cases t.apply doc <;> rfl
  · simp only [Tr.apply, Tr.applyL]; cases t.apply doc <;> rfl
  · simp only [Tr.apply, Tr.applyL, applyL_append]
    cases Tr.applyL a doc with
    | error e => rfl
    | ok d => simp only []; cases Tr.applyL b d <;> rfl

/-- `add_field`, `remove_field`, `set_field` change the fields list and nothing else: detections and
conditions — hence every query — stay as they are -/
theorem fields_list_only (g : Doc → Doc) (fs : List Str) (f : Str) (doc : Doc) :
    (∃ d', (Tr.fieldsList g).apply doc = .ok d' ∧ d'.dets = doc.dets ∧ d'.conds = doc.conds ∧ d'.fields = (g doc).fields) ∧
    (addFields fs doc).fields = doc.fields ++ fs ∧ (setFields fs doc).fields = fs ∧
    (removeFields [f] doc).fields = doc.fields.erase f ∧ (f ∉ doc.fields → (removeFields [f] doc).fields = doc.fields) := by
  refine ⟨⟨_, rfl, rfl, rfl, rfl⟩, rfl, rfl, rfl, fun h => ?_⟩
  simp [removeFields, List.erase_of_not_mem h]

/-! ## 7. Value transformations -/

/-- **`set_value` replaces value and type.**  An item in scope becomes the item on the same field
with *no value modifier* left (only `all`/`neq`, which say how values are linked) and every value
replaced by the configured one; whatever the old values and their types were, it means what the
item with the single configured value means. -/
theorem setValue_replaces_type (v0 : PV) (sc : Scope) (cx : Ctx) (k : Str) (vs : List PV) (e0 : BE)
    (hin : sc k vs = true) (hne : vs ≠ []) (h0 : itemBE cx (some (stripKey k)) [v0] = .ok e0) :
    valueItem (setValue v0) sc (k, vs) = .one (stripKey k, vs.map (fun _ => v0)) ∧
    fieldOf (stripKey k) = fieldOf k ∧ (∀ m ∈ keyMods (stripKey k), m ∈ listMods) ∧
    ∃ e, itemBE cx (some (stripKey k)) (vs.map (fun _ => v0)) = .ok e ∧ ∀ v : Atom → Bool, e.eval v = e0.eval v := by
  refine ⟨setValue_item v0 sc (k, vs) hin, (stripKey_spec k).1, fun m hm => ?_, ?_⟩
  · rw [(stripKey_spec k).2] at hm
    simpa using (List.mem_filter.1 hm).2
  · cases vs with
    | nil => exact absurd rfl hne
    | cons x xs =>
      have : (x :: xs).map (fun _ => v0) = List.replicate (xs.length + 1) v0 := by
        simp [List.replicate_succ, List.map_const']
      rw [this]
      exact item_replicate cx (stripKey k) v0 e0 h0 xs.length

/-- **`case` is idempotent**: applying it twice is applying it once — for every case mapping that is
idempotent on characters and every scope that does not depend on the values themselves. -/
theorem case_idempotent (cf : Char → Char) (hcf : ∀ c, cf (cf c) = cf c) (sc : Scope)
    (hsc : ScopeStable sc (casePV cf)) (d : Det) :
    valueDet (caseString cf) sc (valueDet (caseString cf) sc d) = valueDet (caseString cf) sc d :=
  valueDet_idem (caseString cf) (casePV cf) (caseString_f cf) rfl (casePV_idem cf hcf) sc hsc d

/-- the two built-in case mappings under field name conditions are instances -/
theorem case_idempotent_lower_upper (fsc : FScope) (d : Det) :
    valueDet caseLower (fieldScope fsc) (valueDet caseLower (fieldScope fsc) d) = valueDet caseLower (fieldScope fsc) d ∧
    valueDet caseUpper (fieldScope fsc) (valueDet caseUpper (fieldScope fsc) d) = valueDet caseUpper (fieldScope fsc) d :=
  ⟨case_idempotent Char.toLower toLower_idem _ (fieldScope_stable fsc _) d,
   case_idempotent Char.toUpper toUpper_idem _ (fieldScope_stable fsc _) d⟩

/-- **`map_string` one-to-many is an OR of alternatives.**  In an OR-linked item (no `all`, no `neq`)
every value is replaced by its images, spliced in place, and the item means: some value has some
image that matches (`es a` = the meaning of the item with the single value `a`). -/
theorem mapString_one_to_many_is_or (tbl : List (Str × List Str)) (sc : Scope) (cx : Ctx) (k : Str) (vs : List PV)
    (es : PV → BE) (hin : sc k vs = true) (hre : hasMod k "re" = false) (href : hasMod k "fieldref" = false)
    (hall : hasMod k "all" = false) (hneq : hasMod k "neq" = false)
    (hne : (vs.map (mapString tbl).f).flatten ≠ [])
    (hes : ∀ a ∈ (vs.map (mapString tbl).f).flatten, itemBE cx (some k) [a] = .ok (es a)) :
    valueItem (mapString tbl) sc (k, vs) = .one (k, (vs.map (mapString tbl).f).flatten) ∧
    ∃ e, itemBE cx (some k) (vs.map (mapString tbl).f).flatten = .ok e ∧
      ∀ v : Atom → Bool, e.eval v = vs.any (fun x => ((mapString tbl).f x).any (fun a => (es a).eval v)) := by
  have hs : (mapString tbl).stripMods = false := rfl
  refine ⟨by simp [valueItem, hin, hre, href, hall, hs], ?_⟩
  obtain ⟨e, h1, h2⟩ := item_or_of_singles cx k hall hneq es _ hne hes
  refine ⟨e, h1, fun v => ?_⟩
  rw [h2 v]
  simp [List.any_flatten, List.any_map, Function.comp_def]

/-- **…also below `all`: the OR is per value.**  If the values are AND-linked and some value has
several images, the item becomes the AND, value by value, of an OR-linked item over the images of
that value — never the AND of all images. -/
theorem mapString_below_all (tbl : List (Str × List Str)) (sc : Scope) (cx : Ctx) (n : Nat) (k : Str) (vs : List PV)
    (hin : sc k vs = true) (hre : hasMod k "re" = false) (href : hasMod k "fieldref" = false)
    (hall : hasMod k "all" = true) (hmany : (vs.map (mapString tbl).f).any (fun a => decide (1 < a.length)) = true) :
    valueItem (mapString tbl) sc (k, vs) =
      .sub (.all ((vs.map (mapString tbl).f).map (fun a => .map [(dropAllKey k, a)]))) ∧
    hasMod (dropAllKey k) "all" = false ∧
    detBE cx (n + 1) (valueItem (mapString tbl) sc (k, vs)).det =
      (mapME (fun a => itemBE cx (some (dropAllKey k)) a) (vs.map (mapString tbl).f)).map conj := by
  have hsyn : valueItem (mapString tbl) sc (k, vs) =
      .sub (.all ((vs.map (mapString tbl).f).map (fun a => .map [(dropAllKey k, a)]))) := by
    have hs : (mapString tbl).stripMods = false := rfl
    simp [valueItem, hin, hre, href, hall, hmany, hs]
  refine ⟨hsyn, ?_, ?_⟩
  · simp [hasMod, (dropAllKey_spec k).2]
  · rw [hsyn]
    simp only [Out.det]
    rw [detBE_all, mapME_map]
    congr 1
    exact mapME_congr _ _ _ (fun a _ => detBE_single cx n (dropAllKey k, a))

/-! ## 8. Keywords mapped to several fields; hash-field splitting -/

/-- **Keywords mapped to one field of a list** are keywords mapped to that field (section 1) -/
theorem keywordToFields_single (g : Str) (doc : Doc) : keywordToFields [g] doc = keywordToField g doc := by
  have : keywordItems [g] = keywordItem g := funext (fun _ => rfl)
  simp only [keywordToFields, keywordToField, keywordToFieldsDet, keywordToFieldDet, this]

/-- **Keywords mapped to several fields are an OR of substring items**: each alternative is the `contains` item
`keywordToField_is_contains` speaks about, and the list of them means their OR. -/
theorem keywordToFields_is_or (g1 g2 : Str) (cx : Ctx) (n : Nat) (vs : List PV) (e1 e2 : BE)
    (h1 : detBE cx n (keywordToFieldDet g1 (.values vs)) = .ok e1)
    (h2 : detBE cx n (keywordToFieldDet g2 (.values vs)) = .ok e2) :
    keywordToFieldsDet [g1, g2] (.values vs) = .list [keywordToFieldDet g1 (.values vs), keywordToFieldDet g2 (.values vs)] ∧
    detBE cx (n + 1) (keywordToFieldsDet [g1, g2] (.values vs)) = .ok (.or [e1, e2]) := by
  have hsyn : keywordToFieldsDet [g1, g2] (.values vs) =
      .list [keywordToFieldDet g1 (.values vs), keywordToFieldDet g2 (.values vs)] := rfl
  exact ⟨hsyn, by rw [hsyn]; exact list_is_or cx n _ _ e1 e2 h1 h2⟩

/-- **The algorithm of a hash entry does not depend on its spelling**: two names that agree up to case name the same
algorithm, so their entries get the same target field - in particular the upper-case form of a name stands for the name. -/
theorem hash_algo_spelling (cfg : HashCfg) (a b v : Str) (h : a.map Char.toUpper = b.map Char.toUpper) :
    normAlgo a = normAlgo b ∧ hashEntryParts cfg [a, v] = hashEntryParts cfg [b, v] ∧
    normAlgo (a.map Char.toUpper) = normAlgo a := by
  refine ⟨by simp only [normAlgo, h], by simp only [hashEntryParts, normAlgo, h], ?_⟩
  simp only [normAlgo, List.map_map]
  congr 2
  funext c
  exact toUpper_idem c

/-- **Only configured algorithms get a field**: an entry is kept iff its algorithm is one of `valid_hash_algos`, and the
target field is the prefix followed by that configured name (or the prefix alone). -/
theorem hash_entry_valid (cfg : HashCfg) (s a v : Str) (h : hashEntry cfg s = some (a, v)) :
    a ∈ cfg.algos ∧ a ≠ [] ∧ hashField cfg a = cfg.pfx ++ (if cfg.dropAlgo then [] else a) := by
  unfold hashEntry at h
  generalize hashEntryParts cfg (hashParts s) = e at h
  simp only [] at h
  split at h
  · rename_i hc
    simp only [Bool.and_eq_true, Bool.not_eq_true', List.contains_eq_mem, decide_eq_true_eq] at hc
    cases h
    refine ⟨hc.2, ?_, rfl⟩
    intro hnil
    rw [hnil] at hc
    exact absurd hc.1 (by simp)
  · cases h

/-- **Splitting neither loses nor invents an entry, and every field gets ONE item**: value `x` stands under field `f`
after grouping iff some entry of an algorithm with target field `f` has the hash `x`; the fields of the groups are
pairwise different (entries of one algorithm, however spelled, are collected in one item). -/
theorem hash_groups_exact (cfg : HashCfg) (es : List (Str × Str)) :
    (∀ f x, InGroups (hashGroups cfg es) f x ↔ ∃ e ∈ es, hashField cfg e.1 = f ∧ e.2 = x) ∧
    (groupKeys (hashGroups cfg es)).Nodup := by
  refine ⟨fun f x => ?_, groupAll_nodup _ [] List.nodup_nil⟩
  unfold hashGroups
  rw [inGroups_groupAll]
  constructor
  · rintro (h | h)
    · exact absurd h (inGroups_nil f x)
    · obtain ⟨e, he, heq⟩ := List.mem_map.mp h
      cases heq
      exact ⟨e, he, rfl, rfl⟩
  · rintro ⟨e, he, h1, h2⟩
    exact .inr (List.mem_map.mpr ⟨e, he, by rw [h1, h2]⟩)

/-- **The split item is the OR of its field items.**  The item becomes the list (OR) of one single-item map per group, in
order of first appearance; nothing else of the map is touched (`scope_respected_positional` has the positional form). -/
theorem hash_item_is_or (cfg : HashCfg) (gate : Scope) (kv : KV) (h : (gate kv.1 kv.2 && hashApplies cfg kv) = true) :
    (hashItemGated cfg gate kv).det =
      .list ((hashGroups cfg (hashEntries cfg kv.2)).map (fun g => .map [(g.1, g.2.map .str)])) := by
  simp [hashItemGated, h, hashItem, Out.det]

/-- **An item that is not a hash list in scope stays** (another field, a non-string value, outside the field name
conditions), and a rule without such an item is left unchanged - the identity instance of `hashes_fields`. -/
theorem hashes_identity (cfg : HashCfg) (gate : Scope) (doc : Doc)
    (hd : ∀ d ∈ doc.dets, ∀ kv ∈ detItems d.2, (gate kv.1 kv.2 && hashApplies cfg kv) = false) :
    hashesFields cfg gate doc = doc ∧ (Tr.hashes cfg gate).apply doc = .ok doc := by
  have hid : hashesFields cfg gate doc = doc := by
    obtain ⟨dets, conds, fields⟩ := doc
    simp only [hashesFields]
    have h1 : mapDets (hashDet cfg gate) dets = dets :=
      mapDets_id _ dets (fun d hdm => by
        unfold hashDet
        exact mapDet_id _ _ d.2 (fun kv hkv => by simp [hashItemGated, hd d hdm kv hkv]) (fun _ _ => rfl))
    rw [h1]
  refine ⟨hid, ?_⟩
  have he : doc.dets.all (fun d => hashCheck cfg gate hashItemExpressible d.2) = true := by
    simp only [List.all_eq_true, hashCheck]
    intro d hdm kv hkv
    simp [hashItemExpressible, hd d hdm kv hkv]
  have hv : doc.dets.all (fun d => hashCheck cfg gate hashItemValid d.2) = true := by
    simp only [List.all_eq_true, hashCheck]
    intro d hdm kv hkv
    simp [hashItemValid, hd d hdm kv hkv]
  simp [Tr.apply, he, hv, hid]

/-- a field that is not in `field_to_parse` and a keyword list are never hash lists -/
theorem hash_not_applicable (cfg : HashCfg) (k : Str) (vs : List PV)
    (h : ∀ f, fieldOf k = some f → f ∉ cfg.fields) : hashApplies cfg (k, vs) = false := by
  unfold hashApplies
  cases hf : fieldOf k with
  | none => simp
  | some f => simp [h f hf]

/-! ## 9. Non-vacuity: the hypotheses are satisfiable and the conclusions are about real rules -/

section Examples

def cx0 : Ctx := { env := { w := fun _ => false }, nativeCidr := true }

/-- `sel: {fieldA|contains: x, fieldB|fieldref: fieldA}`, `flt: {win.user: [a, b]}`, condition `sel and not flt` -/
def exDoc : Doc :=
  { dets := [("sel".toList, .map [("fieldA|contains".toList, [.str "x".toList]), ("fieldB|fieldref".toList, [.str "fieldA".toList])]),
             ("flt".toList, .map [("win.user".toList, [.str "a".toList, .str "b".toList])])],
    conds := ["sel and not flt".toList],
    fields := ["fieldA".toList, "other".toList] }

def exPrefix : Str → Str := fun f => "p.".toList ++ f

example : GoodMap exPrefix := by
  intro f hne hbar
  refine ⟨by simp [exPrefix], ?_⟩
  simp only [exPrefix, List.mem_append, not_or]
  exact ⟨by decide, hbar⟩

example : ∀ d ∈ exDoc.dets, RefOKDet exPrefix d.2 := by
  intro d hd kv hkv href
  simp only [exDoc, List.mem_cons, List.not_mem_nil, or_false] at hd
  rcases hd with rfl | rfl
  · simp only [detItems, List.mem_cons, List.not_mem_nil, or_false] at hkv
    rcases hkv with rfl | rfl
    · exact absurd href (by decide)
    · refine ⟨⟨[], by decide⟩, fun v hv s hs => ?_⟩
      simp only [List.mem_cons, List.not_mem_nil, or_false] at hv
      subst hv; cases hs
      exact ⟨by unfold PlainName; decide, by unfold PlainName exPrefix; decide⟩
  · simp only [detItems, List.mem_cons, List.not_mem_nil, or_false] at hkv
    subst hkv
    exact absurd href (by decide)

/-- the renamed document: keys, the referenced field and the fields list carry the prefix -/
example : renameFields (fun f => [exPrefix f]) exDoc =
    { dets := [("sel".toList, .map [("p.fieldA|contains".toList, [.str "x".toList]), ("p.fieldB|fieldref".toList, [.str "p.fieldA".toList])]),
               ("flt".toList, .map [("p.win.user".toList, [.str "a".toList, .str "b".toList])])],
      conds := ["sel and not flt".toList],
      fields := ["p.fieldA".toList, "p.other".toList] } := by rfl

/-- and what it means -/
example : ruleBE cx0 (renameFields (fun f => [exPrefix f]) exDoc).dets "sel and not flt".toList =
    .ok (.and [.and [.atom (.str (some "p.fieldA".toList) false [.star, .lit 'x', .star]),
                     .atom (.ref (some "p.fieldB".toList) "p.fieldA".toList false false)],
               .not (.or [.atom (.str (some "p.win.user".toList) false [.lit 'a']),
                          .atom (.str (some "p.win.user".toList) false [.lit 'b'])])]) := by rfl

/-- one-to-many: `fieldA ↦ [m1, m2]` turns the map into the AND of an OR and the untouched item -/
example : renameDet (tableMap [("fieldA".toList, ["m1".toList, "m2".toList])])
      (.map [("fieldA|contains|all".toList, [.str "x".toList, .str "y".toList]), ("fieldB".toList, [.num "5".toList])]) =
    .all [.list [.map [("m1|contains|all".toList, [.str "x".toList, .str "y".toList])],
                 .map [("m2|contains|all".toList, [.str "x".toList, .str "y".toList])]],
          .map [("fieldB".toList, [.num "5".toList])]] := by rfl

example : SigmaVerif.Lemmas.C12Read.NameOK "_added".toList := by
  refine ⟨by decide, by decide, by decide, by decide⟩

/-- an added, negated condition on the example rule: `¬(idx = excluded) ∧ (sel ∧ ¬flt)` -/
example : ruleBE cx0 (addCondition "_added".toList [("idx".toList, [.str "excluded".toList])] true exDoc).dets
      (addCondText "_added".toList true "sel and not flt".toList) =
    .ok (.and [.not (.atom (.str (some "idx".toList) false [.lit 'e', .lit 'x', .lit 'c', .lit 'l', .lit 'u', .lit 'd', .lit 'e', .lit 'd'])),
               .and [.and [.atom (.str (some "fieldA".toList) false [.star, .lit 'x', .star]),
                           .atom (.ref (some "fieldB".toList) "fieldA".toList false false)],
                     .not (.or [.atom (.str (some "win.user".toList) false [.lit 'a']),
                                .atom (.str (some "win.user".toList) false [.lit 'b'])])]]) := by rfl

/-- dropping `fieldB` (through the reference as well): the `fieldref` item goes, `flt` stays -/
example : dropItems (fieldScope (includeFields ["fieldB".toList])) exDoc =
    .ok { exDoc with dets := [("sel".toList, .map [("fieldA|contains".toList, [.str "x".toList])]),
                              ("flt".toList, .map [("win.user".toList, [.str "a".toList, .str "b".toList])])] } := by rfl

/-- `set_value` below `contains`: the modifier is void, the type is the configured one -/
example : valueDet (setValue (.num "7".toList)) (fun _ _ => true) (.map [("f|contains|all".toList, [.str "a".toList, .str "b".toList])]) =
    .map [("f|all".toList, [.num "7".toList, .num "7".toList])] := by rfl

/-- `map_string` one-to-many below `all`: the OR is per value -/
example : valueDet (mapString [("abc".toList, ["m1".toList, "m2".toList])]) (fun _ _ => true)
      (.map [("f|all".toList, [.str "abc".toList, .str "y".toList])]) =
    .all [.all [.map [("f".toList, [.str "m1".toList, .str "m2".toList])], .map [("f".toList, [.str "y".toList])]]] := by rfl

/-- a nested pipeline: first map, then suffix -/
example : (Tr.nest [.rename (tableMap [("fieldA".toList, ["mappedA".toList])]), .rename (addSuffix ".s".toList)]).apply
      { dets := [("sel".toList, .map [("fieldA".toList, [.str "x".toList])])], conds := ["sel".toList] } =
    .ok { dets := [("sel".toList, .map [("mappedA.s".toList, [.str "x".toList])])], conds := ["sel".toList] } := by rfl

/-- the template of an added condition -/
example : tplSubst [("category".toList, "cat".toList), ("product".toList, "prod".toList)] "$category-${product}$$x$nope".toList =
    "cat-prod$x$nope".toList := by decide

/-- hash-field splitting: spellings of one algorithm share a field, wildcards and separators are void, an entry of no
valid algorithm is left out, a bare digest is recognised by its length -/
def exHash : HashCfg := { algos := ["MD5".toList, "SHA256".toList], pfx := "File".toList, byLength := [(4, "MD5".toList)] }

example : hashDet exHash (fun _ _ => true)
      (.map [("Hashes|contains".toList, [.str "sha256=AB".toList, .str "MD5=CD".toList, .str "*Sha256|EF*".toList, .str "CRC32=00".toList, .str "0123".toList]),
             ("fieldA".toList, [.str "x".toList])]) =
    .all [.list [.map [("FileSHA256".toList, [.str "AB".toList, .str "EF".toList])],
                 .map [("FileMD5".toList, [.str "CD".toList, .str "0123".toList])]],
          .map [("fieldA".toList, [.str "x".toList])]] := by rfl

example : normAlgo "sha256".toList = "SHA256".toList ∧ normAlgo "*Md5".toList = "MD5".toList := by decide

/-- … and what it means: the OR over the fields of the ORs over their hashes -/
example : ruleBE cx0 (hashesFields exHash (fun _ _ => true)
      { dets := [("sel".toList, .map [("Hashes".toList, [.str "sha256=AB".toList, .str "md5=CD".toList])])], conds := ["sel".toList] }).dets "sel".toList =
    .ok (.or [.atom (.str (some "FileSHA256".toList) false [.lit 'A', .lit 'B']),
              .atom (.str (some "FileMD5".toList) false [.lit 'C', .lit 'D'])]) := by rfl

/-- an item without an entry of a valid algorithm is the documented failure -/
example : (Tr.hashes exHash (fun _ _ => true)).apply
      { dets := [("sel".toList, .map [("Hashes".toList, [.str "CRC32=00".toList])])], conds := ["sel".toList] } matches .error .noValidHash := by rfl

/-- keywords to two fields -/
example : keywordToFieldsDet ["msg".toList, "raw".toList] (.values [.str "a?".toList]) =
    .list [.map [("msg|contains".toList, [.str "a?".toList])], .map [("raw|contains".toList, [.str "a?".toList])]] := by rfl

end Examples

end SigmaVerif.Props.C12
