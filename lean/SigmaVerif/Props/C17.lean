import SigmaVerif.Spec.Placeholder
namespace SigmaVerif.Props.C17
open SigmaVerif.SStr SigmaVerif.Placeholder

/-- configuration order, first placeholder most significant -/
theorem replaceAll_order (repl : Str → Option (List SStr)) (n : Str) (r : SStr) (alts : List SStr)
    (h : repl n = some alts) :
    replaceAll repl (.ph n :: r) = alts.flatMap (fun a => (replaceAll repl r).map (a ++ ·)) := by
  simp [replaceAll, h]

end SigmaVerif.Props.C17
