import SigmaVerif.Lemmas.Placeholder
/-!
# C17 — placeholders in values: expansion by pipelines, complete or failing

Property theorems only.  Helper lemmas, the auxiliary definitions (`Choice`, `subst`, `altCount`)
and the example configurations (`exRepl`, `exVal`, `exVal2`, `exVars`, `exCtx`, `exConv`) are in
`SigmaVerif.Lemmas.Placeholder`.
-/
namespace SigmaVerif.Props.C17
open SigmaVerif.SStr SigmaVerif.Mods SigmaVerif.Placeholder SigmaVerif.Rule

/-! ## 1. The cross product is complete and exact -/

/-- The number of results is the product, over the placeholder occurrences of the value, of the
number of alternatives of each handled placeholder (an unhandled placeholder counts 1). -/
theorem replaceAll_count (repl : Str → Option (List SStr)) (s : SStr) :
    (replaceAll repl s).length =
      ((phNames s).map (fun n => match repl n with | some a => a.length | none => 1)).prod :=
  replaceAll_count_aux repl s

example : (replaceAll exRepl exVal).length = 6 := by decide
example : (phNames exVal).map (fun n => match exRepl n with | some a => a.length | none => 1)
    = [2, 3, 1] := by decide

/-- The results are exactly the combinations of one alternative per handled placeholder; unhandled
placeholders and every other part are untouched. -/
theorem replaceAll_mem (repl : Str → Option (List SStr)) (s t : SStr) :
    t ∈ replaceAll repl s ↔ Choice repl s t :=
  replaceAll_mem_aux repl s t

example : Choice exRepl exVal [.lit 'p', .lit '2', .lit '-', .lit 'y', .ph ['c']] :=
  (replaceAll_mem _ _ _).1 (by decide)
example : ¬ Choice exRepl exVal [.lit 'p', .lit '2', .lit '-', .lit 'y'] :=
  fun h => absurd ((replaceAll_mem _ _ _).2 h) (by decide)

/-- Ordering law: configuration order, the first placeholder is the most significant. -/
theorem replaceAll_order (repl : Str → Option (List SStr)) (n : Str) (alts : List SStr) (r : SStr)
    (h : repl n = some alts) :
    replaceAll repl (.ph n :: r) = alts.flatMap (fun a => (replaceAll repl r).map (a ++ ·)) :=
  replaceAll_ph_some h r

example : replaceAll exRepl [.ph ['a'], .ph ['b']] =
    [[.lit '1', .lit 'x'], [.lit '1', .lit 'y'], [.lit '1', .lit 'z'],
     [.lit '2', .lit 'x'], [.lit '2', .lit 'y'], [.lit '2', .lit 'z']] := by decide

/-- A value with exactly one placeholder gives one result per alternative, in configuration
order, with the text before and after the placeholder unchanged. -/
theorem replaceAll_single (repl : Str → Option (List SStr)) (pre post : SStr) (n : Str)
    (alts : List SStr) (hr : repl n = some alts) (h1 : noPh pre = true) (h2 : noPh post = true) :
    replaceAll repl (pre ++ [.ph n] ++ post) = alts.map (fun a => pre ++ a ++ post) :=
  replaceAll_single_aux repl pre post n alts hr h1 h2

example : replaceAll exRepl ([.lit 'p'] ++ [.ph ['b']] ++ [.star]) =
    [[.lit 'p', .lit 'x', .star], [.lit 'p', .lit 'y', .star], [.lit 'p', .lit 'z', .star]] :=
  replaceAll_single exRepl [.lit 'p'] [.star] ['b'] _ rfl rfl rfl

/-! ## 2. Complete expansion or failure -/

/-- If every placeholder of the value is handled by placeholder-free replacements, no result
contains a placeholder. -/
theorem replaceAll_noPh (repl : Str → Option (List SStr)) (s : SStr)
    (hall : ∀ n ∈ phNames s, ∃ alts, repl n = some alts ∧ ∀ a ∈ alts, noPh a = true) :
    ∀ t ∈ replaceAll repl s, noPh t = true :=
  fun t ht => ((replaceAll_mem_aux repl s t).1 ht).noPh hall

example : ∀ t ∈ replaceAll exRepl exVal2, noPh t = true :=
  replaceAll_noPh exRepl exVal2 (by decide)

/-- An unhandled placeholder survives in every result. -/
theorem replaceAll_keeps_unhandled (repl : Str → Option (List SStr)) (s : SStr) (n : Str)
    (hn : n ∈ phNames s) (h : repl n = none) : ∀ t ∈ replaceAll repl s, n ∈ phNames t :=
  fun t ht => ((replaceAll_mem_aux repl s t).1 ht).keeps n hn h

example : ∀ t ∈ replaceAll exRepl exVal, ['c'] ∈ phNames t :=
  replaceAll_keeps_unhandled exRepl exVal ['c'] (by decide) (by decide)

/-- A rendered string never comes from a value that still has a placeholder. -/
theorem convert_ok_noPh (k : Conv) (s : SStr) (t : Str) (h : convert k s = .ok t) :
    noPh s = true :=
  convert_ok_noPh_aux k s t h

theorem toRegex_ok_noPh (custom : Str) (s : SStr) (t : Str) (h : toRegex custom s = .ok t) :
    noPh s = true :=
  convert_ok_noPh_aux _ s t h

example : convert exConv [.lit 'a', .star] = .ok ['a', '*'] := rfl
example : toRegex [] [.lit 'a', .star] = .ok ['a', '.', '*'] := rfl

/-- Conversely: a value with a placeholder cannot be converted. -/
theorem convert_ph_error (k : Conv) (s : SStr) (n : Str) (h : n ∈ phNames s) :
    ∃ e, convert k s = .error e := by
  cases hc : convert k s with
  | error e => exact ⟨e, rfl⟩
  | ok t =>
    have := (noPh_iff s).1 (convert_ok_noPh_aux k s t hc)
    rw [this] at h; cases h

theorem toRegex_ph_error (custom : Str) (s : SStr) (n : Str) (h : n ∈ phNames s) :
    ∃ e, toRegex custom s = .error e :=
  convert_ph_error _ s n h

/-- The error names the first placeholder, provided everything before it can be rendered (no
wildcard the configuration has no token for). -/
theorem convert_ph_first (k : Conv) (pre post : SStr) (n : Str) (hpre : noPh pre = true)
    (hm : k.multi = none → Part.star ∉ pre) (hs : k.single = none → Part.qm ∉ pre) :
    convert k (pre ++ .ph n :: post) = .error (.placeholder n) :=
  convert_ph_first_aux k pre post n hpre hm hs

/-- For a configuration with both wildcard tokens the error is always the first placeholder. -/
theorem convert_ph_first' (k : Conv) (hm : k.multi ≠ none) (hs : k.single ≠ none) (s : SStr)
    (m : Str) (ms : List Str) (h : phNames s = m :: ms) :
    convert k s = .error (.placeholder m) := by
  obtain ⟨pre, post, rfl, hp⟩ := split_first_ph s m ms h
  exact convert_ph_first_aux k pre post m hp (fun h => absurd h hm) (fun h => absurd h hs)

theorem toRegex_ph_first (custom : Str) (s : SStr) (m : Str) (ms : List Str)
    (h : phNames s = m :: ms) : toRegex custom s = .error (.placeholder m) :=
  convert_ph_first' _ (by simp [regexConv]) (by simp [regexConv]) s m ms h

example : convert exConv exVal = .error (.placeholder ['a']) :=
  convert_ph_first' exConv (by decide) (by decide) exVal ['a'] [['b'], ['c']] rfl
/-- the side condition is needed: a wildcard without token before the placeholder wins -/
example : convert { exConv with multi := none } [.star, .ph ['a']] = .error .noMulti := rfl

/-- `strBE`: if, after all placeholder items have run, some alternative still has a placeholder,
the value is an error naming a placeholder of one of the alternatives. -/
theorem strBE_unresolved (cx : Ctx) (field : Option Str) (c : Bool) (s : SStr) (vs : List SStr)
    (hs : noPh s = false) (hrun : phRun cx cx.phItems (.alts [s]) = .ok (.alts vs))
    (hex : ∃ v ∈ vs, noPh v = false) :
    ∃ v n, v ∈ vs ∧ n ∈ phNames v ∧ strBE cx field c s = .error (.unresolved n) :=
  strBE_unresolved_aux cx field c s vs hs hrun hex

example : phRun (exCtx [⟨.value, some [['a']], none⟩]) (exCtx [⟨.value, some [['a']], none⟩]).phItems
      (.alts [exVal2]) =
    .ok (.alts [[.lit 'p', .lit '1', .lit '-', .ph ['b']],
                [.lit 'p', .lit '2', .star, .lit '-', .ph ['b']]]) := rfl

example : ∃ n, strBE (exCtx [⟨.value, some [['a']], none⟩]) (some ['f']) true exVal2 =
    .error (.unresolved n) :=
  let ⟨_, n, _, _, h⟩ := strBE_unresolved (exCtx [⟨.value, some [['a']], none⟩]) (some ['f']) true
    exVal2 [[.lit 'p', .lit '1', .lit '-', .ph ['b']], [.lit 'p', .lit '2', .star, .lit '-', .ph ['b']]]
    rfl rfl ⟨[.lit 'p', .lit '1', .lit '-', .ph ['b']], by simp, rfl⟩
  ⟨n, h⟩

/-- `strBE`: every atom of a successful result is placeholder-free (or a query expression). -/
theorem strBE_ok_atoms (cx : Ctx) (field : Option Str) (c : Bool) (s : SStr) (e : BE)
    (h : strBE cx field c s = .ok e) :
    ∀ a ∈ e.atoms, (∃ p, a = .str field c p ∧ noPh p = true) ∨ (∃ ex i, a = .qx field ex i) :=
  strBE_ok_atoms_aux cx field c s e h

example : strBE (exCtx [⟨.value, none, none⟩]) (some ['f']) false exVal2 =
    .ok (.or [.atom (.str (some ['f']) false [.lit 'p', .lit '1', .lit '-', .lit 'x']),
              .atom (.str (some ['f']) false [.lit 'p', .lit '2', .star, .lit '-', .lit 'x'])]) := by
  rfl

/-- `strBE`: a placeholder that no item of the pipeline handles makes the value an error, whatever
the items do with the other placeholders. -/
theorem strBE_unhandled_fails (cx : Ctx) (field : Option Str) (c : Bool) (s : SStr) (n : Str)
    (hn : n ∈ phNames s) (hh : ∀ it ∈ cx.phItems, handled it n = false) :
    ∃ e, strBE cx field c s = .error e :=
  strBE_unhandled_aux cx field c s n hn hh

example : strBE (exCtx [⟨.value, some [['a']], none⟩, ⟨.wildcard, none, some [['c']]⟩]) none false exVal =
    .error (.unresolved ['c']) := by rfl

/-! ## 3. What one item does -/

theorem handled_spec (it : PhItem) (n : Str) :
    handled it n = true ↔
      (it.incl = none ∧ it.excl = none) ∨ (∃ l, it.incl = some l ∧ n ∈ l) ∨
      (it.incl = none ∧ ∃ l, it.excl = some l ∧ n ∉ l) := by
  unfold handled
  cases hi : it.incl <;> cases he : it.excl <;> simp

example : handled ⟨.value, some [['a']], some [['a']]⟩ ['a'] = true := by decide
example : handled ⟨.value, none, some [['a']]⟩ ['a'] = false := by decide

/-- A value-list or wildcard item leaves a value alone when it handles none of its placeholders. -/
theorem applyItem_same_if_no_handled (vars : List (Str × List VarVal)) (it : PhItem) (s : SStr)
    (h : ∀ n ∈ phNames s, handled it n = false) (hk : it.kind = .value ∨ it.kind = .wildcard) :
    applyItem vars it s = .same := by
  have := any_handled_false it _ h
  unfold applyItem
  rcases hk with hk | hk <;> simp [hk, this]

example : applyItem exVars ⟨.value, some [['z']], none⟩ exVal = .same :=
  applyItem_same_if_no_handled _ _ _ (by decide) (.inl rfl)

/-- the restriction to value-list / wildcard items is needed: a query-expression item rejects a
mixed value even when it handles none of its placeholders -/
example : applyItem [] ⟨.query ['q'] [], some [], none⟩ [.lit 'x', .ph ['a']] = .err .mixed := rfl

/-- A wildcard item that handles some placeholder of the value gives exactly one result: the
value with every handled placeholder replaced by `*`. -/
theorem wildcard_result (vars : List (Str × List VarVal)) (it : PhItem) (s : SStr)
    (hk : it.kind = .wildcard) (h : ∃ n ∈ phNames s, handled it n = true) :
    applyItem vars it s = .alts [subst it s] := by
  have := any_handled_true it _ h
  unfold applyItem
  simp [hk, this, replaceAll_wild]

example : applyItem [] ⟨.wildcard, none, some [['c']]⟩ exVal =
    .alts [[.lit 'p', .star, .lit '-', .star, .ph ['c']]] :=
  wildcard_result _ _ _ rfl (by decide)

/-- A handled placeholder without a variable is an error, never a silent pass-through. -/
theorem value_missing_var (vars : List (Str × List VarVal)) (it : PhItem) (s : SStr) (n : Str)
    (hk : it.kind = .value) (hn : n ∈ phNames s) (hh : handled it n = true)
    (hv : vars.find? (·.1 == n) = none) : ∃ e, applyItem vars it s = .err e := by
  have hany := any_handled_true it _ ⟨n, hn, hh⟩
  have hl : lookupVar vars n = .error (.missingVar n) := by unfold lookupVar; rw [hv]
  obtain ⟨e, he⟩ := firstVarErr_some vars it _ n hn hh _ hl
  exact ⟨e, by unfold applyItem; simp [hk, hany, he]⟩

example : ∃ e, applyItem exVars ⟨.value, none, none⟩ exVal = .err e :=
  value_missing_var _ _ _ ['c'] rfl (by decide) (by decide) (by decide)

/-- A query-expression item accepts only a value that is one placeholder and nothing else. -/
theorem query_only_whole (vars : List (Str × List VarVal)) (it : PhItem) (expr : Str)
    (mapping : List (Str × Str)) (s : SStr) (hk : it.kind = .query expr mapping)
    (h1 : phNames s ≠ []) (h2 : ∀ n, s ≠ [.ph n]) : applyItem vars it s = .err .mixed := by
  have hne : (phNames s).isEmpty = false := by
    cases hp : phNames s with
    | nil => exact absurd hp h1
    | cons _ _ => rfl
  unfold applyItem
  simp only [hk, hne]
  match s, h2 with
  | [], _ => rfl
  | [.ph n], h2 => exact absurd rfl (h2 n)
  | [.lit _], _ => rfl
  | [.star], _ => rfl
  | [.qm], _ => rfl
  | _ :: _ :: _, _ => rfl

example : applyItem [] ⟨.query ['q'] [], none, none⟩ exVal = .err .mixed :=
  query_only_whole _ _ ['q'] [] _ rfl (by decide) (fun _ h => by cases h)

end SigmaVerif.Props.C17
