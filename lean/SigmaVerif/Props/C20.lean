import SigmaVerif.Lemmas.C20Sets
import SigmaVerif.Lemmas.C20Track
import SigmaVerif.Lemmas.C20Names
/-!
# C20 — output is byte-identical across processes, hash seeds and random draws

Property theorems only; proofs in `Lemmas/C20Sets.lean`, `Lemmas/C20Track.lean`,
`Lemmas/C20Names.lean`, model in `Model/Det.lean`.

* **Hash order.**  A Python set is a list in an arbitrary enumeration order; every renderer that
  consumes a set gives the same text for any two enumerations (`List.Perm`) *because the code sorts*
  (`render_perm_invariant`, `msg_*_perm_invariant`, `flags_perm_invariant`,
  `dangling_issues_perm_invariant`, `identifier_perm_invariant`), and does not when it does not sort
  (`unsorted_render_depends`, `unsorted_flags_depend`, `unsorted_unmapped_depends`,
  `validator_enumeration_matters`).  Field-mapping tracking reaches the same state set-wise for every
  enumeration (`tracking_perm_invariant`, `tracking_merge_perm`); the code before fix `2178638` did
  not (`leaky_reverse_mapping_depends_on_enumeration`).
* **Random draws.**  The condition tree the backend converts has detection *contents* in its leaves:
  it is the same for every fresh name of an added condition (`added_condition_parse_uniform`,
  `added_condition_name_irrelevant`, `drawn_condition_name_irrelevant`) and for every fresh filter
  prefix (`filter_prefix_irrelevant`); names cannot occur in it (`internal_names_not_in_output`,
  `undefined_error_names_no_detection`).  The freshness side conditions are exact enough to have
  witnesses when violated (`name_collision_changes_tree`, `selector_capture_distinguishes_draws`),
  and one genuine leak is recorded: `filter_undefined_identifier_names_prefix` (finding D39).

Partial by nature: CPython's hash order, `random`, `hashlib` are not modelled (parameters); that the
modelled sites are *all* sites is the obligation `Oblig/C20.lean` over the regenerated site table,
and the subprocess sweep of `harness/c20.py`.
-/
namespace SigmaVerif.Props.C20
open SigmaVerif.Cond SigmaVerif.CondSpec SigmaVerif.Det SigmaVerif.Lemmas.C20

/-! ## 1. Sets rendered into text -/

/-- `sep.join(sorted(s))` does not depend on the enumeration order of the set `s` -/
theorem render_perm_invariant (sep : Str) (l₁ l₂ : List Str) (h : l₁.Perm l₂) :
    renderSorted sep l₁ = renderSorted sep l₂ := renderSorted_perm sep h

example : renderSorted commaSep ["foo".toList, "bar".toList, "baz".toList] =
    renderSorted commaSep ["baz".toList, "foo".toList, "bar".toList] :=
  render_perm_invariant _ _ _ (by decide)
example : renderSorted commaSep ["foo".toList, "bar".toList, "baz".toList] = "bar, baz, foo".toList := by
  decide

/-- sorting is needed: the plain join of a two-element set depends on the enumeration -/
theorem unsorted_render_depends :
    ["foo".toList, "bar".toList].Perm ["bar".toList, "foo".toList] ∧
    renderUnsorted commaSep ["foo".toList, "bar".toList] ≠
      renderUnsorted commaSep ["bar".toList, "foo".toList] := by decide

/-- `SigmaCorrelationCondition.from_dict`: "… contains invalid items: a, b, c" -/
theorem msg_unknown_keys_perm_invariant (l₁ l₂ : List Str) (h : l₁.Perm l₂) :
    msgUnknownKeys l₁ = msgUnknownKeys l₂ := msgUnknownKeys_perm h

example : msgUnknownKeys ["foo".toList, "bar".toList] = msgUnknownKeys ["bar".toList, "foo".toList] :=
  msg_unknown_keys_perm_invariant _ _ (by decide)

/-- `_resolve_condition_expression`: "… contains unreferenced condition items: …" -/
theorem msg_unreferenced_perm_invariant (name : Str) (l₁ l₂ : List Str) (h : l₁.Perm l₂) :
    msgUnreferenced name l₁ = msgUnreferenced name l₂ := msgUnreferenced_perm name h

example : msgUnreferenced "Rule condition".toList ["c2".toList, "c4".toList, "c3".toList] =
    msgUnreferenced "Rule condition".toList ["c4".toList, "c2".toList, "c3".toList] :=
  msg_unreferenced_perm_invariant _ _ _ (by decide)

/-- `StrictFieldMappingFailure`: "The following fields are not mapped: …" -/
theorem msg_unmapped_perm_invariant (isMapped : Str → Bool) (l₁ l₂ : List Str) (h : l₁.Perm l₂) :
    msgUnmapped isMapped l₁ = msgUnmapped isMapped l₂ := msgUnmapped_perm isMapped h

example : msgUnmapped (· == "a".toList) ["foo".toList, "a".toList, "bar".toList] =
    msgUnmapped (· == "a".toList) ["bar".toList, "foo".toList, "a".toList] :=
  msg_unmapped_perm_invariant _ _ _ (by decide)

/-- without `sorted` the loop over the field set reveals the enumeration -/
theorem unsorted_unmapped_depends :
    msgUnmappedUnsorted (fun _ => false) ["foo".toList, "bar".toList] ≠
      msgUnmappedUnsorted (fun _ => false) ["bar".toList, "foo".toList] := by decide

/-- `SigmaValidator.from_dict`: "… from validator set ['a', 'b']." -/
theorem msg_remove_validator_perm_invariant (vn : Str) (l₁ l₂ : List Str) (h : l₁.Perm l₂) :
    msgRemoveValidator vn l₁ = msgRemoveValidator vn l₂ := msgRemoveValidator_perm vn h

example : msgRemoveValidator "x".toList ["b".toList, "a".toList] =
    msgRemoveValidator "x".toList ["a".toList, "b".toList] :=
  msg_remove_validator_perm_invariant _ _ _ (by decide)

/-- the dangling-detection / dangling-condition issue list does not depend on the enumeration of the
name set nor of the referenced set -/
theorem dangling_issues_perm_invariant (n₁ n₂ r₁ r₂ : List Str) (hn : n₁.Perm n₂) (hr : r₁.Perm r₂) :
    danglingIssues n₁ r₁ = danglingIssues n₂ r₂ := danglingIssues_perm hn hr

example : danglingIssues ["sel".toList, "u2".toList, "u1".toList] ["sel".toList] =
    danglingIssues ["u1".toList, "sel".toList, "u2".toList] ["sel".toList] :=
  dangling_issues_perm_invariant _ _ _ _ (by decide) (List.Perm.refl _)
example : danglingIssues ["sel".toList, "u2".toList, "u1".toList] ["sel".toList] =
    ["u1".toList, "u2".toList] := by decide

/-- the `(?ims)` prefix of a regular expression does not depend on the enumeration of the flag set -/
theorem flags_perm_invariant (f₁ f₂ : List Flag) (h : f₁.Perm f₂) : renderFlags f₁ = renderFlags f₂ :=
  renderFlags_perm h

example : renderFlags [.s, .i, .m] = renderFlags [.m, .s, .i] := flags_perm_invariant _ _ (by decide)
example : renderFlags [.s, .i, .m] = "(?ims)".toList := by decide
example : renderFlags [] = [] := by decide

/-- without `sorted` it does (mutation (i) of the harness) -/
theorem unsorted_flags_depend :
    [Flag.s, Flag.i].Perm [Flag.i, Flag.s] ∧
    renderFlagsUnsorted [.s, .i] ≠ renderFlagsUnsorted [.i, .s] := by decide

/-! ## 2. The validator collection -/

/-- the issue list is a function of the validator *sequence*: iterating a set of validator objects
(arbitrary enumeration) gives different lists for different enumerations — which is why `validators`
is a list in configuration order since fix `406aa56` -/
theorem validator_enumeration_matters :
    validateRules (fun (v : Nat) (_ : Nat) => [v]) (fun _ => []) [1, 2] 1 ≠
      validateRules (fun (v : Nat) (_ : Nat) => [v]) (fun _ => []) [2, 1] 1 := by decide

/-- `dict.fromkeys(validators)` keeps exactly the members -/
theorem validators_dedup_mem (l : List Nat) (v : Nat) : v ∈ dedupKeepFirst l ↔ v ∈ l := by
  simp [dedupKeepFirst, List.mem_eraseDups]

example : dedupKeepFirst [3, 1, 3, 2, 1] = [3, 1, 2] := by decide

/-! ## 3. Field mapping tracking -/

/-- **`add_mapping` sequences.**  Two call sequences that differ only in the enumeration order of
the target collections, started from states that are equal as dicts of sets, end in states that are
equal as dicts of sets (same keys in the same order, same sets). -/
theorem tracking_perm_invariant (ops ops' : List (Key × List Key)) (S T : Track)
    (ho : OpsRel ops ops') (h : S.Equiv T) : (runOps S ops).Equiv (runOps T ops') :=
  runOps_congr ho h

/-- targets given in permuted order -/
theorem add_mapping_perm_invariant (S : Track) (src : Key) (t t' : List Key) (h : t.Perm t') :
    (addMapping S src t).Equiv (addMapping S src t') :=
  addMapping_congr (Track.Equiv.refl S) src (SetEq.of_perm h)

example : (addMapping Track.empty (some "a".toList) [some "b".toList, some "c".toList]).Equiv
    (addMapping Track.empty (some "a".toList) [some "c".toList, some "b".toList]) :=
  add_mapping_perm_invariant _ _ _ _ (by decide)

/-- **`merge`.**  Merging a nested pipeline's tracking object gives the same state set-wise whatever
enumeration order the sets of either object have. -/
theorem tracking_merge_perm (S T O O' : Track) (h : S.Equiv T) (ho : O.Equiv O') :
    (merge S O).Equiv (merge T O') := merge_congr h ho

/-- the state after `{a: c, b: c}`, `{c: d}`, `{d: e}`: both sources end at `e` -/
def chain : List (Key × List Key) :=
  [(some "a".toList, [some "c".toList]), (some "b".toList, [some "c".toList]),
   (some "c".toList, [some "d".toList]), (some "d".toList, [some "e".toList])]

example : (runOps Track.empty chain).render =
    [(some "a".toList, [some "e".toList]), (some "b".toList, [some "e".toList]),
     (some "c".toList, [some "e".toList]), (some "d".toList, [some "e".toList])] := by decide

/-- the hypotheses of `tracking_merge_perm` are satisfiable with genuinely different enumerations -/
example : let S := runOps Track.empty (chain.take 2)
    S.Equiv { S with rpairs := S.rpairs.reverse } :=
  ⟨rfl, SetEq.refl _, SetEq.refl _, SetEq.of_perm (List.reverse_perm _).symm⟩

/-- **The defect fixed by `2178638`.**  With the loop variable leaking out of the `for` over
`target_fields[source]`, two representations of the SAME state (`S` and `S` with the reverse set of
`c` enumerated in the other order) lead to different final mappings: `a ↦ {d}` vs `a ↦ {e}`. -/
theorem leaky_reverse_mapping_depends_on_enumeration :
    let S := runOps Track.empty (chain.take 2)
    let S' : Track := { S with rpairs := S.rpairs.reverse }
    (runOpsLeaky S (chain.drop 2)).render ≠ (runOpsLeaky S' (chain.drop 2)).render := by decide

/-! ## 4. `_generate_identifier` -/

/-- the hashed text does not depend on the enumeration order of the transformation's attribute dict
(it is sorted by attribute name; names are unique) -/
theorem identifier_perm_invariant (hash : Str → Str) (cls : Str) (conds : List Str)
    (items₁ items₂ : List (Str × Str)) (hk : (items₁.map (·.1)).Nodup) (h : items₁.Perm items₂) :
    generateIdentifier hash cls items₁ conds = generateIdentifier hash cls items₂ conds := by
  unfold generateIdentifier
  rw [identifierContent_perm cls conds hk h]

example (hash : Str → Str) :
    generateIdentifier hash "X".toList [("b".toList, "1".toList), ("a".toList, "2".toList)] [] =
      generateIdentifier hash "X".toList [("a".toList, "2".toList), ("b".toList, "1".toList)] [] :=
  identifier_perm_invariant _ _ _ _ _ (by decide) (by decide)

/-- …but for `AddConditionTransformation` the attribute dict contains the drawn `name`, so the text
that is hashed — hence the auto-generated identifier, which only lives in the applied-items tracking
sets — differs between draws (recorded as a note by the harness, not a violation: the identifier
reaches no query and no error record) -/
theorem identifier_depends_on_drawn_name :
    identifierContent "AddConditionTransformation".toList
        [("name".toList, "'_cond_aaaaaaaaaa'".toList)] [] ≠
      identifierContent "AddConditionTransformation".toList
        [("name".toList, "'_cond_bbbbbbbbbb'".toList)] [] := by decide

/-! ## 5. Random names: added conditions -/

/-- **Uniform parse.**  Fix the rule's condition text `c` (any string), the `negated` flag and a name
length.  There is one context `K` such that for EVERY name `m` of that length the grammar can spell,
`m and (c)` (resp. `not m and (c)`, or just `m` for an empty `c`) parses to the operand `m` in that
context, or fails for every such name. -/
theorem added_condition_parse_uniform (g : Grammar) (hg : g.wf = true) (neg : Bool) (c : Str) (L : Nat) :
    ∃ K : Option (List PT × List PT), ∀ m, wfName g m = true → m.length = L →
      parse g (addCondText neg m c) = K.map (fun ao => fillHead ao.1 ao.2 (headLeaf neg m)) := by
  obtain ⟨K, hK⟩ := addCond_parse_uniform (Lemmas.CondParse.WF.of hg) neg c L
  exact ⟨K, fun m hm hL => hK m (Lemmas.CondParse.WFName.of hm) hL⟩

example : parsesTo (parse stdGrammar (addCondText false "_cond_abcdefghij".toList "sel or 1 of f*".toList))
    (fillHead [.or [.id "sel".toList, .sel .any "f*".toList]] [] (.id "_cond_abcdefghij".toList)) = true := by
  decide

/-- **The drawn name of an added condition is irrelevant.**  Let `T` be the parse of the rewritten
condition for the name `n`.  If `n` and `n'` have the same length, are not names of the rule's own
detections, are not mentioned by the rule's own condition (`T.ids.tail`: everything but the head
operand), and no selector pattern of the condition tells them apart, then the rewritten condition for
`n'` parses too and the resolved trees — what the backend converts — are EQUAL. -/
theorem added_condition_name_irrelevant (g : Grammar) (hg : g.wf = true) (renv : Env δ) (d : δ)
    (neg : Bool) (c n n' : Str) (T : PT)
    (hn : wfName g n = true) (hn' : wfName g n' = true) (hlen : n'.length = n.length)
    (hT : parse g (addCondText neg n c) = some T)
    (hk : n ∉ renv.keys) (hk' : n' ∉ renv.keys)
    (hi : n ∉ (PT.ids T).tail) (hi' : n' ∉ (PT.ids T).tail)
    (hp : ∀ p ∈ PT.pats T, selMatches p n' = selMatches p n) :
    ∃ T', parse g (addCondText neg n' c) = some T' ∧
      resolveC (renv.set n' d) T' = resolveC (renv.set n d) T := by
  obtain ⟨K, hK⟩ := added_condition_parse_uniform g hg neg c n.length
  have h1 := hK n hn rfl
  have h2 := hK n' hn' hlen
  rw [hT] at h1
  cases K with
  | none => simp at h1
  | some ao =>
    obtain ⟨a, o⟩ := ao
    simp only [Option.map_some, Option.some.injEq] at h1 h2
    subst h1
    rw [ids_fillHead_list, ids_headLeaf] at hi hi'
    rw [pats_fillHead_list, pats_headLeaf] at hp
    exact ⟨_, h2, resolveC_addCond_fresh renv d neg a o n n' hk hk' (by simpa using hi)
      (by simpa using hi') (by simpa using hp)⟩

/-- …and if the rewritten condition does not parse for one name it does not parse for the other -/
theorem added_condition_parse_fails_alike (g : Grammar) (hg : g.wf = true) (neg : Bool) (c n n' : Str)
    (hn : wfName g n = true) (hn' : wfName g n' = true) (hlen : n'.length = n.length)
    (hT : parse g (addCondText neg n c) = none) : parse g (addCondText neg n' c) = none := by
  obtain ⟨K, hK⟩ := added_condition_parse_uniform g hg neg c n.length
  have h1 := hK n hn rfl
  rw [hT] at h1
  cases K with
  | none => simpa using hK n' hn' hlen
  | some ao => simp at h1

/-- **Corollary for the names the generator can draw** (`_cond_` + 10 letters): two draws give equal
resolved trees as soon as neither name is a detection of the rule or mentioned in its condition and
no selector pattern of the condition starts with an underscore (`them`, `sel*`, `*` … never select a
name that starts with `_`). -/
theorem drawn_condition_name_irrelevant (renv : Env δ) (d : δ) (neg : Bool) (c n n' : Str) (T : PT)
    (hn : isDrawn condPrefix lowercase drawLen n) (hn' : isDrawn condPrefix lowercase drawLen n')
    (hT : parse stdGrammar (addCondText neg n c) = some T)
    (hk : n ∉ renv.keys) (hk' : n' ∉ renv.keys)
    (hi : n ∉ (PT.ids T).tail) (hi' : n' ∉ (PT.ids T).tail)
    (hp : ∀ p ∈ PT.pats T, p.head? ≠ some '_') :
    ∃ T', parse stdGrammar (addCondText neg n' c) = some T' ∧
      resolveC (renv.set n' d) T' = resolveC (renv.set n d) T := by
  obtain ⟨w1, l1, u1⟩ := drawn_wfName n hn
  obtain ⟨w2, l2, u2⟩ := drawn_wfName n' hn'
  refine added_condition_name_irrelevant stdGrammar Lemmas.CondParse.stdGrammar_wf renv d neg c n n' T
    w1 w2 (by rw [l1, l2]) hT hk hk' hi hi' ?_
  intro p hpm
  rw [selMatches_underscore p n' (hp p hpm) u2, selMatches_underscore p n (hp p hpm) u1]

example : isDrawn condPrefix lowercase drawLen "_cond_abcdefghij".toList :=
  ⟨"abcdefghij".toList, rfl, rfl, by decide⟩

/-! ## 6. Random names: filter prefixes -/

/-- **The drawn filter prefix is irrelevant.**  `R` / `F` are the parse trees of the rule's and the
filter's condition, `renv` / `fenv` their detections (dict keys unique).  If neither prefix contains
`*`, nothing the rule says starts with `<prefix>_`, the filter's condition only names detections the
filter defines, and no selector pattern of the rule tells the injected names of the two draws apart,
then the detections dict after injection is `renv ++ (prefixed fenv)` for both draws and the resolved
trees are EQUAL. -/
theorem filter_prefix_irrelevant (pre pre' : Str) (renv fenv : Env δ) (R F : PT)
    (hs : '*' ∉ pre) (hs' : '*' ∉ pre') (hnd : fenv.keys.Nodup)
    (hkeys : ∀ k ∈ renv.keys, Fresh pre pre' k)
    (hids : ∀ a ∈ PT.ids R, Fresh pre pre' a)
    (hpats : ∀ p ∈ PT.pats R, Fresh pre pre' p)
    (hdef : ∀ y ∈ PT.ids F, y ∈ fenv.keys)
    (hR : ∀ p ∈ PT.pats R, ∀ j ∈ fenv.keys,
      selMatches p (pre' ++ '_' :: j) = selMatches p (pre ++ '_' :: j)) :
    resolveC (filteredEnv pre' renv fenv) (filteredTree pre' R F) =
      resolveC (filteredEnv pre renv fenv) (filteredTree pre R F) := by
  have e1 : filteredEnv pre renv fenv = renv ++ prefixEnv pre fenv :=
    filteredEnv_append pre fenv renv (fun k _ hm => (hkeys _ hm).1 ⟨k, by simp⟩) hnd
  have e2 : filteredEnv pre' renv fenv = renv ++ prefixEnv pre' fenv :=
    filteredEnv_append pre' fenv renv (fun k _ hm => (hkeys _ hm).2 ⟨k, by simp⟩) hnd
  rw [e1, e2]
  exact resolveC_filter_fresh pre pre' renv fenv R F hs hs' hkeys hids hpats hdef hR

/-- the rule-side hypothesis holds whenever the rule's patterns do not start with `_` and the drawn
prefixes do -/
theorem rule_patterns_cannot_tell (pre pre' p j : Str) (hp : p.head? ≠ some '_')
    (h : pre.head? = some '_') (h' : pre'.head? = some '_') :
    selMatches p (pre' ++ '_' :: j) = selMatches p (pre ++ '_' :: j) := by
  rw [selMatches_underscore p _ hp (by cases pre' <;> simp_all),
    selMatches_underscore p _ hp (by cases pre <;> simp_all)]

/-- non-vacuity: a rule `sel and not 1 of f*`, a filter `1 of them` with two detections -/
example :
    resolveC (filteredEnv "_filt_aaaaaaaaaa".toList [("sel".toList, 1), ("f1".toList, 2)]
        [("x".toList, 3), ("y".toList, 4)])
      (filteredTree "_filt_aaaaaaaaaa".toList
        (.and [.id "sel".toList, .not (.sel .any "f*".toList)]) (.sel .any "them".toList)) =
    resolveC (filteredEnv "_filt_bbbbbbbbbb".toList [("sel".toList, 1), ("f1".toList, 2)]
        [("x".toList, 3), ("y".toList, 4)])
      (filteredTree "_filt_bbbbbbbbbb".toList
        (.and [.id "sel".toList, .not (.sel .any "f*".toList)]) (.sel .any "them".toList)) := by
  refine filter_prefix_irrelevant _ _ _ _ _ _ (by decide) (by decide) (by decide) ?_ ?_ ?_ ?_ ?_
  · intro k hk
    simp only [Env.keys, List.map_cons, List.map_nil, List.mem_cons, List.not_mem_nil, or_false] at hk
    rcases hk with rfl | rfl <;> exact ⟨by decide, by decide⟩
  · intro a ha
    simp only [PT.ids, PT.idsList, List.append_nil, List.mem_singleton] at ha
    subst ha; exact ⟨by decide, by decide⟩
  · intro p hp
    simp only [PT.pats, PT.patsList, List.append_nil, List.nil_append, List.mem_singleton] at hp
    subst hp; exact ⟨by decide, by decide⟩
  · intro y hy; simp [PT.ids] at hy
  · intro p hp j _
    simp only [PT.pats, PT.patsList, List.append_nil, List.nil_append, List.mem_singleton] at hp
    subst hp
    exact (rule_patterns_cannot_tell _ _ _ j (by decide) (by decide) (by decide)).symm

/-! ## 7. Internal names cannot reach a query; which error can name what -/

def leavesOf : Res (Option (DT Nat)) → Option (List Nat)
  | .ok (some t) => some (DT.leaves t)
  | _ => none

def errorOf : Res (Option (DT Nat)) → Option Str
  | .undefinedDet n => some n
  | _ => none



/-- **No name in the output.**  Every leaf of the tree the backend converts is the *content* of one
of the rule's detections — the type of resolved trees has no place for a detection name, so neither
a drawn `_cond_…` name nor a `_filt_…` prefix can reach a query through the condition. -/
theorem internal_names_not_in_output (env : Env δ) (P : PT) (t : DT δ)
    (h : resolveC env P = .ok (some t)) : ∀ d ∈ DT.leaves t, d ∈ env.map (·.2) :=
  resolveC_leaves env P t h

example : ∀ d ∈ DT.leaves (DT.and [.det 7, .det 1]), d ∈ [("_cond_abcdefghij".toList, 7), ("sel".toList, 1)].map (·.2) :=
  internal_names_not_in_output [("_cond_abcdefghij".toList, 7), ("sel".toList, 1)]
    (.and [.id "_cond_abcdefghij".toList, .id "sel".toList]) _ (by rfl)

/-- the only error of resolution names an identifier of the condition that is NOT a detection — so
never the drawn name of an added condition (which is a detection by then) -/
theorem undefined_error_names_no_detection (env : Env δ) (P : PT) (a : Str)
    (h : resolveC env P = .undefinedDet a) : a ∈ PT.ids P ∧ a ∉ env.keys :=
  resolveC_undefined env P a h

theorem added_condition_error_never_names_it (renv : Env δ) (n : Str) (d : δ) (P : PT) :
    resolveC (renv.set n d) P ≠ .undefinedDet n := by
  intro h
  have := (resolveC_undefined _ P n h).2
  apply this
  unfold Env.set
  by_cases hc : renv.keys.contains n = true
  · rw [if_pos hc]
    have hm : n ∈ renv.keys := by simpa using hc
    simp only [Env.keys, List.map_map, List.mem_map, Function.comp_apply] at hm ⊢
    obtain ⟨e, he, rfl⟩ := hm
    exact ⟨e, he, by simp⟩
  · rw [if_neg hc]; simp [Env.keys]

example : errorOf (resolveC (Env.set [("sel".toList, 1)] "_cond_abcdefghij".toList 7)
    (.and [.id "_cond_abcdefghij".toList, .id "nope".toList])) = some "nope".toList := by decide

/-- `resolveC` is the C02 model `Cond.resolve` when every detection's content is its own name -/
theorem resolveC_generalises_resolve (names : List Str) (P : PT) :
    resolveC (diagEnv names) P = mapRes (Option.map ctToDT) (resolve names P) :=
  resolveC_diag names P

example : resolveC (diagEnv ["a".toList]) (.id "a".toList) = .ok (some (.det "a".toList)) := by rfl

/-! ## 8. The side conditions are needed -/

/-- **Collision.**  If the drawn name IS a detection of the rule, the assignment
`detections[name] = …` overwrites that detection: for the rule `{_cond_aaaaaaaaaa: 1, condition:
_cond_aaaaaaaaaa}` the draw `_cond_aaaaaaaaaa` converts the added content twice, any other draw the
added content and the rule's. -/
theorem name_collision_changes_tree :
    let renv : Env Nat := [("_cond_aaaaaaaaaa".toList, 1)]
    let tail := [PT.id "_cond_aaaaaaaaaa".toList]
    leavesOf (resolveC (renv.set "_cond_aaaaaaaaaa".toList 7) (fillHead tail [] (.id "_cond_aaaaaaaaaa".toList))) =
      some [7, 7] ∧
    leavesOf (resolveC (renv.set "_cond_bbbbbbbbbb".toList 7) (fillHead tail [] (.id "_cond_bbbbbbbbbb".toList))) =
      some [7, 1] := by decide

/-- **Capture** (cf. finding D10b of C11).  A selector pattern of the rule that starts with an
underscore can tell two draws apart: with `1 of _cond_a*` the draw `_cond_aaaaaaaaaa` is selected, the
draw `_cond_bbbbbbbbbb` is not. -/
theorem selector_capture_distinguishes_draws :
    let renv : Env Nat := [("sel".toList, 1)]
    let tail := [PT.sel .any "_cond_a*".toList]
    leavesOf (resolveC (renv.set "_cond_aaaaaaaaaa".toList 7) (fillHead tail [] (.id "_cond_aaaaaaaaaa".toList))) =
      some [7, 7] ∧
    leavesOf (resolveC (renv.set "_cond_bbbbbbbbbb".toList 7) (fillHead tail [] (.id "_cond_bbbbbbbbbb".toList))) =
      some [7] := by
  refine ⟨?_, ?_⟩ <;>
    simp [leavesOf, resolveC, resolveCList, fillHead, Env.set, Env.keys, Env.lookup, selMatches, starMatch,
      DT.leaves, DT.leavesList]

/-- **Finding D39.**  A filter condition that names an identifier the filter does not define: the
"not defined" error carries the identifier WITH the drawn prefix, so the error record differs between
draws (confirmed on the real code: `Detection '_filt_dwtgmlquca_nope' not defined in detections`). -/
theorem filter_undefined_identifier_names_prefix :
    let renv : Env Nat := [("sel".toList, 1)]
    let fenv : Env Nat := [("sel".toList, 2)]
    let F := PT.and [.id "sel".toList, .id "nope".toList]
    errorOf (resolveC (filteredEnv "_filt_aaaaaaaaaa".toList renv fenv)
        (filteredTree "_filt_aaaaaaaaaa".toList (.id "sel".toList) F)) = some "_filt_aaaaaaaaaa_nope".toList ∧
    errorOf (resolveC (filteredEnv "_filt_bbbbbbbbbb".toList renv fenv)
        (filteredTree "_filt_bbbbbbbbbb".toList (.id "sel".toList) F)) = some "_filt_bbbbbbbbbb_nope".toList := by
  decide

end SigmaVerif.Props.C20
