import SigmaVerif.Model.B64
namespace SigmaVerif.Props.C04
open SigmaVerif.B64

/-- the tables of the pinned tree satisfy the soundness condition -/
theorem stdTables_sound : stdTables.sound = true := by decide

end SigmaVerif.Props.C04
