import SigmaVerif.Model.B64
import SigmaVerif.Lemmas.B64
/-!
# C04 — encoding modifiers (`base64offset`, `base64`, `wide`/`utf16le`/`utf16be`)

Property theorems only; helper lemmas are in `SigmaVerif.Lemmas.B64`.
-/
namespace SigmaVerif.Props.C04
open SigmaVerif.B64

/-! ## 1. Completeness of `base64offset` -/

/-- For every prefix, payload and suffix (any lengths, any values) the value produced for alignment
`|p| % 3` occurs in the Base64 text of the whole byte string — for every sound table. -/
theorem b64offset_complete (T : Tables) (hT : T.sound = true) (p v s : List Byte) :
    (b64offsetAt T v.length v (p.length % 3)) <:+: b64 (p ++ v ++ s) := by
  unfold b64offsetAt
  rw [slice_eq_window T hT p v s (List.replicate (p.length % 3) 32) (p.length % 3) rfl
    List.length_replicate]
  exact (List.drop_suffix _ _).isInfix.trans (List.take_prefix _ _).isInfix

example : stdTables.sound = true := by decide
example : b64offsetAt stdTables 3 [77, 97, 110] 1 = "1hb".toList := by decide
example : b64offsetAt stdTables 3 [77, 97, 110] (([1] : List Byte).length % 3)
    <:+: b64 ([1] ++ [77, 97, 110] ++ [5, 6]) :=
  b64offset_complete stdTables (by decide) [1] [77, 97, 110] [5, 6]

/-- the standard tables are the least sound ones -/
theorem stdTables_minimal (T : Tables) (hT : T.sound = true) (i : Nat) (hi : i < 3) :
    stdTables.starts.getD i 0 ≤ T.starts.getD i 0 ∧ stdTables.cuts.getD i 0 ≤ T.cuts.getD i 0 := by
  simp only [Tables.sound, Bool.and_eq_true, decide_eq_true_eq] at hT
  obtain ⟨⟨⟨⟨⟨⟨_, s0⟩, s1⟩, s2⟩, c0⟩, c1⟩, c2⟩ := hT
  have h3 : i = 0 ∨ i = 1 ∨ i = 2 := by omega
  rcases h3 with rfl | rfl | rfl
  · exact ⟨s0, c0⟩
  · exact ⟨s1, c1⟩
  · exact ⟨s2, c2⟩

example : (⟨[1, 2, 4], [3, 3, 5]⟩ : Tables).sound = true := by decide

/-! ## 2. The value is made of payload bits only -/

/-- no padding sign is ever emitted -/
theorem b64offset_payload_only (T : Tables) (hT : T.sound = true) (v : List Byte) (i : Nat)
    (hi : i < 3) : '=' ∉ b64offsetAt T v.length v i := by
  intro hmem
  obtain ⟨k, hk⟩ := List.mem_iff_getElem?.mp hmem
  unfold b64offsetAt at hk
  rw [getElem?_slice_b64] at hk
  have hs := T.sound_starts hT i hi
  have hc := T.sound_cuts hT i v.length
  simp only [List.length_append, List.length_replicate] at hk
  split at hk
  · rename_i hlt
    have hd := in_data i v.length 0 0 (T.starts.getD i 0 + k) (by omega)
    have hd' : T.starts.getD i 0 + k < dataChars (List.replicate i 32 ++ v).length := by
      simpa using hd
    simp only [b64char, hd', ↓reduceIte, Option.some.injEq] at hk
    exact alphabet_getD_ne_pad _ hk
  · cases hk

example : '=' ∈ b64 (List.replicate 1 32 ++ [77]) ∧ '=' ∉ b64offsetAt stdTables 1 [77] 1 := by
  decide

/-- The characters kept do not depend on the bytes in front: any `i` bytes (not only the spaces
the code uses) give the same value.  No `Bytes` hypothesis is needed. -/
theorem b64offset_prefix_irrelevant (T : Tables) (hT : T.sound = true) (v q : List Byte) (i : Nat)
    (hi : i < 3) (hq : q.length = i) :
    slice (b64 (q ++ v)) (T.starts.getD i 0) (T.cuts.getD ((v.length + i) % 3) 0)
      = b64offsetAt T v.length v i := by
  have hi' : i = q.length % 3 := by omega
  unfold b64offsetAt
  rw [slice_eq_window T hT q v [] q i hi' hq,
    slice_eq_window T hT q v [] (List.replicate i 32) i hi' List.length_replicate]

example : slice (b64 ([255, 255] ++ [77, 97])) 3 3 = b64offsetAt stdTables 2 [77, 97] 2 := by
  decide

/-- soundness of the table is needed for that: with `starts[1] = 1` the first kept character
carries two bits of the byte in front -/
theorem b64offset_prefix_relevant_if_unsound :
    ∃ q v : List Byte, q.length = 1 ∧
      slice (b64 (q ++ v)) 1 2 ≠ b64offsetAt ⟨[0, 1, 3], [0, 3, 2]⟩ v.length v 1 :=
  ⟨[255], [255], rfl, by decide⟩

/-! ## 3. The position-wise definition is RFC 4648 -/

/-- holds for arbitrary `Nat` lists, in particular for byte strings (`Bytes x` is not needed) -/
theorem b64_eq_spec (x : List Byte) : b64 x = b64Spec x := by
  fun_induction b64Spec x
  case case1 => rfl
  case case2 a =>
    simp [b64, encLen, List.range_succ_eq_map, b64char, dataChars, sextet, byteAt]
  case case3 a b =>
    simp [b64, encLen, List.range_succ_eq_map, b64char, dataChars, sextet, byteAt]
  case case4 a b c rest ih => rw [b64_step, ih]

example : b64Spec [77, 97, 110, 33] = "TWFuIQ==".toList := by decide

/-! ## 4. Every non-trivial table bound is necessary

(`0 ≤ starts[0]` and `0 ≤ cuts[0]` cannot be violated.)  Each table below differs from
`stdTables` in exactly one entry, lowered by one. -/

theorem starts1_needed :
    ∃ p v s : List Byte, ¬ (b64offsetAt ⟨[0, 1, 3], [0, 3, 2]⟩ v.length v (p.length % 3)
      <:+: b64 (p ++ v ++ s)) :=
  ⟨[255], [255], [], by decide⟩

theorem starts2_needed :
    ∃ p v s : List Byte, ¬ (b64offsetAt ⟨[0, 2, 2], [0, 3, 2]⟩ v.length v (p.length % 3)
      <:+: b64 (p ++ v ++ s)) :=
  ⟨[255, 255], [255], [], by decide⟩

theorem cuts1_needed :
    ∃ p v s : List Byte, ¬ (b64offsetAt ⟨[0, 2, 3], [0, 2, 2]⟩ v.length v (p.length % 3)
      <:+: b64 (p ++ v ++ s)) :=
  ⟨[], [0], [255], by decide⟩

theorem cuts2_needed :
    ∃ p v s : List Byte, ¬ (b64offsetAt ⟨[0, 2, 3], [0, 3, 1]⟩ v.length v (p.length % 3)
      <:+: b64 (p ++ v ++ s)) :=
  ⟨[], [0, 0], [255], by decide⟩

example : (⟨[0, 1, 3], [0, 3, 2]⟩ : Tables).sound = false ∧
    (⟨[0, 2, 2], [0, 3, 2]⟩ : Tables).sound = false ∧
    (⟨[0, 2, 3], [0, 2, 2]⟩ : Tables).sound = false ∧
    (⟨[0, 2, 3], [0, 3, 1]⟩ : Tables).sound = false := by decide

/-! ## 5. The wide / utf16 trick -/

/-- the strict decoder is inverted by the encoder: whatever decodes re-encodes to the same bytes -/
theorem utf8enc_dec (b : List Byte) (t : List CP) (h : utf8dec b = some t) :
    utf8enc t = some b :=
  utf8enc_dec_aux b t h

example : utf8dec [0x61, 0xC3, 0xA4, 0xE2, 0x82, 0xAC, 0xF0, 0x9F, 0x98, 0x80]
    = some [0x61, 0xE4, 0x20AC, 0x1F600] := by decide

/-- the modifier either rejects or yields a string whose UTF-8 bytes are the UTF-16 encoding of
the payload -/
theorem wide_bytes (be : Bool) (s t : List CP) (h : wideTrick be s = some t) :
    ∃ b, utf16 be s = some b ∧ utf8enc t = some b := by
  unfold wideTrick at h
  split at h
  · rename_i b hb
    exact ⟨b, hb, utf8enc_dec b t h⟩
  · cases h

example : wideTrick false [0x41] = some [0x41, 0] := by decide
-- a non-ASCII payload that is accepted: U+A4C3 ↦ C3 A4 ↦ "ä"; and one that is rejected: "ä"
example : wideTrick false [0xA4C3] = some [0xE4] := by decide
example : wideTrick false [0xE4] = none := by decide

/-- every ASCII string is accepted and gets a NUL after (LE) / before (BE) each character -/
theorem wide_ascii (be : Bool) (s : List CP) (h : ∀ c ∈ s, c < 128) :
    wideTrick be s = some (s.flatMap (fun c => if be then [0, c] else [c, 0])) := by
  unfold wideTrick
  rw [utf16_ascii be s h]
  apply utf8dec_ascii
  intro b hb
  rw [List.mem_flatMap] at hb
  obtain ⟨c, hc, hbc⟩ := hb
  have h' : ∀ c : Nat, c ∈ s → c < 128 := h
  have := h' c hc
  cases be <;> simp at hbc <;> omega

example : wideTrick true [0x63, 0x6D, 0x64] = some [0, 0x63, 0, 0x6D, 0, 0x64] := by decide

/-! ## 6. The character count is not a substitute for the byte count -/

/-- payload "aä": 2 characters, 3 bytes; picking the cut by the character count breaks
completeness (and emits padding) -/
theorem b64offset_unsound_with_char_len :
    ¬ (b64offsetAt stdTables 2 [97, 195, 164] 1 <:+: b64 ([0] ++ [97, 195, 164] ++ [0])) ∧
    '=' ∈ b64offsetAt stdTables 2 [97, 195, 164] 1 := by
  decide

example : b64offsetAt stdTables 3 [97, 195, 164] 1 <:+: b64 ([0] ++ [97, 195, 164] ++ [0]) := by
  decide

/-! ## 7. Value lists: every payload of the list is found -/

/-- A detection item with a list of payloads finds each of them: for every element `v` of the list
and every byte string that contains `v` (any prefix, any suffix) at least one of the values produced
for the list occurs in the Base64 text — no element may be left out, whatever the other elements are
(equal up to letter case, prefixes of each other, …). -/
theorem b64offset_list_complete (T : Tables) (hT : T.sound = true) (vs : List (List Byte))
    (v : List Byte) (hv : v ∈ vs) (p s : List Byte) :
    ∃ x ∈ b64offsetList T vs, x <:+: b64 (p ++ v ++ s) := by
  refine ⟨b64offsetAt T v.length v (p.length % 3), ?_, b64offset_complete T hT p v s⟩
  unfold b64offsetList
  rw [List.mem_flatMap]
  refine ⟨v, hv, ?_⟩
  unfold b64offset
  exact List.mem_map.mpr ⟨p.length % 3, List.mem_range.mpr (Nat.mod_lt _ (by decide)), rfl⟩

example : ∃ x ∈ b64offsetList stdTables [[73, 69, 88], [105, 101, 120]],
    x <:+: b64 ([7] ++ [105, 101, 120] ++ [9, 9]) :=
  b64offset_list_complete stdTables (by decide) _ [105, 101, 120] (by decide) [7] [9, 9]

/-- … and every element is needed: the values of "IEX" alone do not find "iex" (Base64 is
case-sensitive although Sigma string matching is not), so a list may not be reduced to its
elements up to letter case before the modifier runs -/
theorem b64offset_list_needs_every_payload :
    ¬ ∃ x ∈ b64offsetList stdTables [[73, 69, 88]], x <:+: b64 ([] ++ [105, 101, 120] ++ []) := by
  decide

end SigmaVerif.Props.C04
