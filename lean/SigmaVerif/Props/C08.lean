import SigmaVerif.Model.Coll
import SigmaVerif.Lemmas.Coll
/-!
# C08 — a failing rule never changes other rules' output; every query is accounted for

`convertAll` models `Backend.convert` over the ordered collection.  `conv i avail` is the conversion
of rule `i` given the rules that already have a conversion result; nothing is assumed about it.

Specification functions (in `Lemmas/Coll.lean`):
```
def accounting (output : Nat → Bool) (conv : Nat → List Nat → Except E (List Q)) :
    List Nat → List Nat → List Q × List (Nat × E)
  | [], _ => ([], [])
  | i :: rest, avail =>
    match conv i avail with
    | .ok r =>
      ((if output i then r else []) ++ (accounting output conv rest (i :: avail)).1,
       (accounting output conv rest (i :: avail)).2)
    | .error e =>
      ((accounting output conv rest avail).1, (i, e) :: (accounting output conv rest avail).2)

def availAfter (conv : Nat → List Nat → Except E (List Q)) : List Nat → List Nat → List Nat
  | [], avail => avail
  | i :: rest, avail =>
    match conv i avail with
    | .ok _ => availAfter conv rest (i :: avail)
    | .error _ => availAfter conv rest avail
```
i.e. a rule whose conversion succeeds contributes its queries iff its output flag is set and becomes
available; a failing rule contributes no query, exactly one error record, and does not become
available.  `availAfter conv pre avail` = the rules with a result after going through `pre`.
-/
namespace SigmaVerif.Props.C08
open SigmaVerif.Coll

variable {Q E : Type}

/-- with error collection the outcome is exactly the accounting of queries and errors -/
theorem convertAll_collect_accounting (output : Nat → Bool)
    (conv : Nat → List Nat → Except E (List Q)) (rules avail : List Nat) (qs : List Q)
    (es : List (Nat × E)) :
    convertAll true output conv rules avail qs es
      = .ok (qs ++ (accounting output conv rules avail).1)
            (es ++ (accounting output conv rules avail).2) :=
  convertAll_true_eq output conv rules avail qs es

/-- with error collection nothing is ever raised -/
theorem collect_never_raises (output : Nat → Bool) (conv : Nat → List Nat → Except E (List Q))
    (rules avail : List Nat) (qs : List Q) (es : List (Nat × E)) (i : Nat) (e : E) :
    convertAll true output conv rules avail qs es ≠ .raised i e := by
  rw [convertAll_collect_accounting]
  intro h; cases h

/-- the error list has exactly one entry per failing rule, in collection order: position `p`
contributes `(rules[p], e)` iff converting `rules[p]`, given the rules before it that were converted
successfully, fails with `e` -/
theorem errors_one_per_failing_rule (output : Nat → Bool)
    (conv : Nat → List Nat → Except E (List Q)) (rules avail : List Nat) :
    (accounting output conv rules avail).2
      = (List.range rules.length).filterMap (fun p =>
          match conv (rules.getD p 0) (availAfter conv (rules.take p) avail) with
          | .error e => some (rules.getD p 0, e)
          | .ok _ => none) :=
  accounting_errors_positions output conv rules avail

/-- every rule ends up either with a conversion result or with exactly one error record -/
theorem every_rule_accounted (output : Nat → Bool) (conv : Nat → List Nat → Except E (List Q))
    (rules avail : List Nat) :
    (accounting output conv rules avail).2.length + (availAfter conv rules avail).length
      = rules.length + avail.length :=
  accounting_total output conv rules avail

/-- For rules whose conversion does not depend on other rules' results (plain detection rules),
the queries are exactly what converting each rule alone yields, and the errors exactly the errors
of the failing rules: failing rules change nothing else. -/
theorem independent_rules_unaffected (output : Nat → Bool)
    (conv : Nat → List Nat → Except E (List Q)) (rules avail : List Nat) (qs : List Q)
    (es : List (Nat × E)) (hind : ∀ i ∈ rules, ∀ a b, conv i a = conv i b) :
    convertAll true output conv rules avail qs es
      = .ok (qs ++ (rules.filter output).flatMap
                      (fun i => match conv i [] with | .ok r => r | .error _ => []))
            (es ++ rules.filterMap
                      (fun i => match conv i [] with | .ok _ => none | .error e => some (i, e))) := by
  rw [convertAll_collect_accounting]
  obtain ⟨h1, h2⟩ := accounting_independent output conv rules avail hind
  rw [h1, h2]
  rfl

/-- without error collection the first error that collection would have recorded is raised; if
there is none the queries are the same as with collection -/
theorem first_error_raised (output : Nat → Bool) (conv : Nat → List Nat → Except E (List Q))
    (rules avail : List Nat) (qs : List Q) (es : List (Nat × E)) :
    convertAll false output conv rules avail qs es
      = match (accounting output conv rules avail).2 with
        | [] => .ok (qs ++ (accounting output conv rules avail).1) es
        | (i, e) :: _ => .raised i e :=
  convertAll_false_eq output conv rules avail qs es

/-- `.raised i e` is the outcome exactly if `i` is the first rule (in order) whose conversion
fails, with `e`, given the successfully converted rules before it -/
theorem raised_iff_first_failure (output : Nat → Bool)
    (conv : Nat → List Nat → Except E (List Q)) (rules avail : List Nat) (qs : List Q)
    (es : List (Nat × E)) (i : Nat) (e : E) :
    convertAll false output conv rules avail qs es = .raised i e ↔
    ∃ pre post, rules = pre ++ i :: post ∧ (accounting output conv pre avail).2 = [] ∧
      conv i (availAfter conv pre avail) = .error e := by
  rw [← accounting_errors_cons_iff, first_error_raised]
  cases h : (accounting output conv rules avail).2 with
  | nil => simp
  | cons x tl =>
    obtain ⟨j, e'⟩ := x
    simp only [Outcome.raised.injEq, List.cons.injEq, Prod.mk.injEq, exists_and_left,
      exists_eq', and_true]

/-- Link to C09: if a rule's conversion succeeds whenever all rules it refers to have a result
(so plain rules always succeed), then converting in the order produced by `order` never fails
with "conversion result not available" — in either mode there is no error. -/
theorem corr_needs_refs (n : Nat) (g : Nat → List Nat) (hc : Closed n g) (hacyc : Acyclic n g)
    (output : Nat → Bool) (conv : Nat → List Nat → Except E (List Q))
    (hconv : ∀ v avail, (∀ w ∈ g v, w ∈ avail) → ∃ r, conv v avail = .ok r) (collect : Bool) :
    convertAll collect output conv (order n g) [] [] []
      = .ok (accounting output conv (order n g) []).1 [] := by
  obtain ⟨r, hr⟩ := hacyc
  have hnd := (order_spec hc).1
  have htopo := order_topo hc hr
  have hE : (accounting output conv (order n g) []).2 = [] := by
    apply accounting_no_errors output conv g hconv
    intro pre v post heq w hw
    exact .inl (htopo.split hnd heq w hw)
  cases collect with
  | true => rw [convertAll_collect_accounting, hE]; simp
  | false => rw [first_error_raised, hE]; simp

/-- positions form: in `order n g` every rule occurs after all rules it refers to -/
theorem refs_before (n : Nat) (g : Nat → List Nat) (hc : Closed n g) (hacyc : Acyclic n g)
    (pre post : List Nat) (v : Nat) (heq : order n g = pre ++ v :: post) : ∀ w ∈ g v, w ∈ pre := by
  obtain ⟨r, hr⟩ := hacyc
  exact (order_topo hc hr).split (order_spec hc).1 heq

/-! ## The property at full strength: a failing rule can be deleted without any other effect

No assumption on `conv` (correlation rules included): `conv j avail` sees only which rules already
have a result, and a failing rule never becomes one of them. -/

theorem accounting_append (output : Nat → Bool) (conv : Nat → List Nat → Except E (List Q))
    (pre post avail : List Nat) :
    accounting output conv (pre ++ post) avail
      = ((accounting output conv pre avail).1
            ++ (accounting output conv post (availAfter conv pre avail)).1,
         (accounting output conv pre avail).2
            ++ (accounting output conv post (availAfter conv pre avail)).2) := by
  induction pre generalizing avail with
  | nil => simp [accounting, availAfter]
  | cons i pre ih =>
    simp only [List.cons_append, accounting, availAfter]
    cases h : conv i avail with
    | ok r => simp [ih, List.append_assoc]
    | error e => simp [ih]

/-- If rule `i` fails where it stands, then with error collection the queries are exactly those
of the collection without rule `i`, and the errors are those of the collection without rule `i`
plus the one record `(i, e)` at its position: nothing else changes. -/
theorem failing_rule_removable (output : Nat → Bool)
    (conv : Nat → List Nat → Except E (List Q)) (pre post avail : List Nat) (i : Nat) (e : E)
    (hfail : conv i (availAfter conv pre avail) = .error e) :
    (accounting output conv (pre ++ i :: post) avail).1
        = (accounting output conv (pre ++ post) avail).1
    ∧ (accounting output conv (pre ++ i :: post) avail).2
        = (accounting output conv pre avail).2 ++ (i, e) ::
            (accounting output conv post (availAfter conv pre avail)).2
    ∧ (accounting output conv (pre ++ post) avail).2
        = (accounting output conv pre avail).2 ++
            (accounting output conv post (availAfter conv pre avail)).2 := by
  rw [accounting_append, accounting_append]
  simp [accounting, hfail]

/-- the same at the level of `convertAll`: the outcome with the failing rule is the outcome without
it, with one more error record -/
theorem failing_rule_removable_convert (output : Nat → Bool)
    (conv : Nat → List Nat → Except E (List Q)) (pre post : List Nat) (i : Nat) (e : E)
    (hfail : conv i (availAfter conv pre []) = .error e) :
    ∃ qs es1 es2,
      convertAll true output conv (pre ++ post) [] [] [] = .ok qs (es1 ++ es2)
      ∧ convertAll true output conv (pre ++ i :: post) [] [] [] = .ok qs (es1 ++ (i, e) :: es2) := by
  obtain ⟨h1, h2, h3⟩ := failing_rule_removable output conv pre post [] i e hfail
  refine ⟨(accounting output conv (pre ++ post) []).1, (accounting output conv pre []).2,
    (accounting output conv post (availAfter conv pre [])).2, ?_, ?_⟩
  · rw [convertAll_collect_accounting, h3]; simp
  · rw [convertAll_collect_accounting, h1, h2]; simp

/-! ## Non-vacuity: rule 1 fails, rule 3 (a correlation over 1 and 2) therefore too; rules 0 and 2
are unaffected; rule 2 has its output flag off -/
example :
    let conv : Nat → List Nat → Except String (List String) := fun i avail =>
      if i = 1 then .error "unsupported"
      else if i = 3 then (if avail.contains 1 && avail.contains 2 then .ok ["corr"] else .error "not available")
      else .ok [s!"q{i}"]
    convertAll true (fun i => i != 2) conv [0, 1, 2, 3] [] [] []
        = .ok ["q0"] [(1, "unsupported"), (3, "not available")] ∧
    convertAll false (fun i => i != 2) conv [0, 1, 2, 3] [] [] [] = .raised 1 "unsupported" := by
  exact ⟨rfl, rfl⟩

/-- non-vacuity of `failing_rule_removable_convert`: deleting the failing rule 1 of the example
leaves `["q0"]` and the error of rule 3 -/
example :
    let conv : Nat → List Nat → Except String (List String) := fun i avail =>
      if i = 1 then .error "unsupported"
      else if i = 3 then (if avail.contains 1 && avail.contains 2 then .ok ["corr"] else .error "not available")
      else .ok [s!"q{i}"]
    conv 1 (availAfter conv [0] []) = .error "unsupported" ∧
    convertAll true (fun i => i != 2) conv ([0] ++ [2, 3]) [] [] []
        = .ok ["q0"] [(3, "not available")] := by
  exact ⟨rfl, rfl⟩

end SigmaVerif.Props.C08
