import SigmaVerif.Model.Coll
namespace SigmaVerif.Props.C08
open SigmaVerif.Coll

/-- with error collection the conversion of a collection never raises -/
theorem collect_never_raises {Q E : Type} (output : Nat → Bool) (conv : Nat → List Nat → Except E (List Q))
    (rules avail : List Nat) (qs : List Q) (es : List (Nat × E)) :
    ∃ q e, convertAll true output conv rules avail qs es = .ok q e := by
  induction rules generalizing avail qs es with
  | nil => exact ⟨qs, es, rfl⟩
  | cons i rest ih =>
    unfold convertAll
    cases h : conv i avail with
    | ok r => simpa [h] using ih _ _ _
    | error e => simpa [h] using ih _ _ _

end SigmaVerif.Props.C08
