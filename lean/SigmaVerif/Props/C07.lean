namespace SigmaVerif.Props.C07
/-- placeholder until the loader outcome model is built -/
theorem trivial_c07 : True := trivial
end SigmaVerif.Props.C07
