import SigmaVerif.Lemmas.C07Coll
import SigmaVerif.Lemmas.C07Spec
import SigmaVerif.Model.LoadDomain
/-!
# C07 — malformed documents raise Sigma errors only; collecting mode never raises

Statements about the loader model `SigmaVerif.Load` (Model/Load.lean), which is written over partial
Python primitives (`obj[key]`, `.items()`, `.upper()`, `UUID()`, `int()`, slicing, hashing …, each
raising the Python exception class CPython raises on a wrong operand type) and mirrors the
`isinstance` guards and `try/except` clauses of the loaders.  All theorems quantify over every
YAML value `d : Y` (any nesting, any scalar keys) — no `inDomain` hypothesis.

* `*_never_py`: no non-Sigma exception escapes, in either mode (dynamic type safety of the loaders).
* `*_collect_never_raises`: collecting mode returns — for every kind of document.  For correlation
  rules (and collections containing them) this holds since the repair of finding D8i:
  `SigmaCorrelationRule.__post_init__(collect_errors)` catches the Sigma error of its cross-field
  validation (`_validate`) and, in collecting mode, appends it to the error list after the errors
  `from_dict` collected (`corr_collect_errors` says exactly which list is returned; the former
  witness document `d8i` is kept: `corr_collect_d8i`, `collection_collect_d8i`, `corr_first_error_d8i`).
* `*_strict_iff_collect` / `corr_first_error`: strict loading succeeds iff nothing is collected, and
  the exception strict loading raises is the first collected error.

The model is tied to the implementation by the correspondence sweep of harness/c07.py (strict outcome
class, collecting outcome, ordered list of collected error classes on every generated document that is
`inDomain`) and by the obligations of Oblig/C07.lean over the tables extracted from the source.
-/
namespace SigmaVerif.Props.C07
open SigmaVerif.Load

/-! ## no Python exception escapes -/

/-- Loading any YAML value as a rule raises no exception outside the Sigma hierarchy, strictly or
with error collection. -/
theorem rule_never_py (d : Y) (c : PyCls) : strict .rule d ≠ .error (.py c) ∧ collect .rule d ≠ .error (.py c) := by
  constructor
  · simp only [strict, load, rule_strict_eq]; unfold strictOf; split <;> simp [Except.map]
  · simp [collect, load, rule_collect_eq]

/-- Loading any YAML value as a filter raises no exception outside the Sigma hierarchy. -/
theorem filter_never_py (d : Y) (c : PyCls) : strict .filter d ≠ .error (.py c) ∧ collect .filter d ≠ .error (.py c) := by
  constructor
  · simp only [strict, load, filter_strict_eq]; unfold strictOf; split <;> simp [Except.map]
  · simp [collect, load, filter_collect_eq]

/-- Loading any YAML value as a correlation rule raises no exception outside the Sigma hierarchy —
including the constructor's cross-field validation (rule references reaching it are strings). -/
theorem corr_never_py (d : Y) (c : PyCls) : strict .corr d ≠ .error (.py c) ∧ collect .corr d ≠ .error (.py c) := by
  have hg := good_corr d
  exact ⟨map_ne_py _ (hg.noPy false) c, fun h => absurd (hg.noPy true c h) (by simp)⟩

/-- Loading any YAML value (a list of documents, or one document) as a collection — dispatch on
`action`, global/repeat merging, per-document loading, name registration — raises no exception
outside the Sigma hierarchy. -/
theorem collection_never_py (d : Y) (c : PyCls) :
    strict .collection d ≠ .error (.py c) ∧ collect .collection d ≠ .error (.py c) := by
  exact ⟨map_ne_py _ (collFromDicts_noPy false _) c, fun h => absurd (collFromDicts_noPy true _ c h) (by simp)⟩

/-- The same with reference resolution (`resolve_references=True`, the default): looking up the
references of every correlation rule by identifier or name raises `SigmaRuleNotFoundError` only. -/
theorem collection_refs_never_py (d : Y) (c : PyCls) :
    strict .collectionRef d ≠ .error (.py c) ∧ collect .collectionRef d ≠ .error (.py c) := by
  exact ⟨map_ne_py _ (collFromDictsRef_noPy false _) c, fun h => absurd (collFromDictsRef_noPy true _ c h) (by simp)⟩

/-! ## collecting mode never raises -/

/-- Loading a rule with error collection returns for every YAML value. -/
theorem rule_collect_never_raises (d : Y) : ∃ errs, collect .rule d = .ok errs :=
  ⟨_, rule_collect_eq d⟩

/-- Loading a filter with error collection returns for every YAML value. -/
theorem filter_collect_never_raises (d : Y) : ∃ errs, collect .filter d = .ok errs :=
  ⟨_, filter_collect_eq d⟩

/-- Loading a correlation rule with error collection returns for every YAML value: a rejection by the
constructor's cross-field validation is collected like every other error. -/
theorem corr_collect_never_raises (d : Y) : ∃ errs, collect .corr d = .ok errs :=
  ⟨_, corr_collect_eq d⟩

/-- … and the list it returns is: the errors `from_dict` collects (`corrErrs`), followed by the error of
the constructor's validation of the values built from the document (placeholders for the parts that
failed) exactly when that validation fails. -/
theorem corr_collect_errors (d : Y) :
    (corrPost d = .ok () → collect .corr d = .ok (corrErrs d)) ∧
    (∀ c, corrPost d = .error (.sigma c) → collect .corr d = .ok (corrErrs d ++ [c])) ∧
    (postInitFails d → ∃ c, corrPost d = .error (.sigma c)) := by
  simp only [collect, load, corr_collect_eq, corrAllErrs, postErrs]
  refine ⟨fun h => by simp [h, sigmaErrOf], fun c h => by simp [h, sigmaErrOf], fun h => ?_⟩
  cases hp : corrPost d with
  | ok u => exact absurd hp h
  | error e =>
    cases e with
    | sigma c => exact ⟨c, rfl⟩
    | py c => exact absurd (corrPost_noPy d c hp) (by simp)

/-- the example of former finding D8i: a `value_count` rule whose condition has no `field` -/
def d8i : Y := .map [(.str (S "title"), .str (S "C2")),
  (.str (S "correlation"), .map [(.str (S "type"), .str (S "value_count")), (.str (S "rules"), .list [.str (S "r1")]),
    (.str (S "timespan"), .str (S "1h")), (.str (S "condition"), .map [(.str (S "lt"), .int 3)])])]

/-- the same rule without title and with a condition that is neither a map nor a string -/
def d8iWithErrors : Y := .map [(.str (S "correlation"), .map [(.str (S "type"), .str (S "value_count")), (.str (S "rules"), .str (S "r1")),
  (.str (S "timespan"), .str (S "1h")), (.str (S "condition"), .int 5)])]

/-- D8i repaired: collecting mode returns the error of the constructor's validation on the witness document. -/
theorem corr_collect_d8i : collect .corr d8i = .ok [.correlationRuleError] := by decide

/-- … and when the document has other errors (`title` missing, condition of a wrong type), the
validation of the placeholder condition adds its error after the collected ones. -/
theorem corr_collect_d8i_with_errors :
    collect .corr d8iWithErrors = .ok [.titleError, .correlationRuleError, .correlationRuleError] ∧
    strict .corr d8iWithErrors = .error (.sigma .titleError) := by decide

/-- Loading a collection (any list of documents, or one document) with error collection returns. -/
theorem collection_collect_never_raises (d : Y) : ∃ errs, collect .collection d = .ok errs := by
  obtain ⟨st', h1, h2, _⟩ := collLoop_collect (collDocs d) {} inv_init
  exact ⟨st'.errs, by simp [collect, load, collFromDicts, h1, collPostInit_ok st' h2]⟩

/-- With reference resolution, collecting mode returns as well (an unresolvable reference is collected). -/
theorem collection_refs_collect_never_raises (d : Y) : ∃ errs, collect .collectionRef d = .ok errs := by
  obtain ⟨st', h1, h2, _⟩ := collLoop_collect (collDocs d) {} inv_init
  obtain ⟨more, hm, _⟩ := collRef_collect_tail st'
  simp only [pure_eq] at hm
  exact ⟨st'.errs ++ more, by simp [collect, load, collFromDictsRef, h1, collPostInit_ok st' h2, hm]⟩

/-- D8i repaired, through a collection (with and without reference resolution; `r1` is not in the collection). -/
theorem collection_collect_d8i :
    collect .collection (.list [d8i]) = .ok [.correlationRuleError] ∧
    strict .collection (.list [d8i]) = .error (.sigma .correlationRuleError) ∧
    collect .collectionRef (.list [d8i]) = .ok [.correlationRuleError, .ruleNotFoundError] ∧
    strict .collectionRef (.list [d8i]) = .error (.sigma .correlationRuleError) := by decide

/-! ## strict loading against collecting loading -/

/-- Rules: strict loading succeeds exactly when collecting mode collects nothing, and an exception
raised by strict loading is the first collected error. -/
theorem rule_strict_iff_collect (d : Y) :
    (strict .rule d = .ok () ↔ collect .rule d = .ok []) ∧
    ∀ e, strict .rule d = .error e → ∃ c rest, e = .sigma c ∧ collect .rule d = .ok (c :: rest) := by
  have h := strictOf_facts (ruleErrs d)
  simp only [strict, collect, load, rule_strict_eq, rule_collect_eq]
  refine ⟨by simpa using h.1, fun e he => ?_⟩
  obtain ⟨c, rest, h1, h2⟩ := h.2 e he
  exact ⟨c, rest, h1, by rw [h2]⟩

/-- Filters: strict loading succeeds exactly when collecting mode collects nothing, and an exception
raised by strict loading is the first collected error. -/
theorem filter_strict_iff_collect (d : Y) :
    (strict .filter d = .ok () ↔ collect .filter d = .ok []) ∧
    ∀ e, strict .filter d = .error e → ∃ c rest, e = .sigma c ∧ collect .filter d = .ok (c :: rest) := by
  have h := strictOf_facts (filterErrs d)
  simp only [strict, collect, load, filter_strict_eq, filter_collect_eq]
  refine ⟨by simpa using h.1, fun e he => ?_⟩
  obtain ⟨c, rest, h1, h2⟩ := h.2 e he
  exact ⟨c, rest, h1, by rw [h2]⟩

/-- Correlation rules: strict loading succeeds exactly when collecting mode returns an empty error list. -/
theorem corr_strict_ok_iff (d : Y) : strict .corr d = .ok () ↔ collect .corr d = .ok [] := by
  have h := strictOf_facts (corrAllErrs d)
  simp only [strict, collect, load, corr_strict_eq, corr_collect_eq]
  simpa using h.1

/-- Correlation rules: the exception strict loading raises is the first collected error — also when
it is the error of the constructor's cross-field validation (then it is the only collected error). -/
theorem corr_first_error (d : Y) :
    ∀ e, strict .corr d = .error e → ∃ c rest, e = .sigma c ∧ collect .corr d = .ok (c :: rest) := by
  have h := strictOf_facts (corrAllErrs d)
  simp only [strict, collect, load, corr_strict_eq, corr_collect_eq]
  intro e he
  obtain ⟨c, rest, h1, h2⟩ := h.2 e he
  exact ⟨c, rest, h1, by rw [h2]⟩

/-- Correlation rules, both parts together (the form of `rule_strict_iff_collect`). -/
theorem corr_strict_iff_collect (d : Y) :
    (strict .corr d = .ok () ↔ collect .corr d = .ok []) ∧
    ∀ e, strict .corr d = .error e → ∃ c rest, e = .sigma c ∧ collect .corr d = .ok (c :: rest) :=
  ⟨corr_strict_ok_iff d, corr_first_error d⟩

/-- Where the error strict loading raises comes from: it is the first error `from_dict` collects, or —
when there is none — the error of the constructor's validation. -/
theorem corr_strict_error (d : Y) (e : Exc) (h : strict .corr d = .error e) :
    (∃ c rest, e = .sigma c ∧ corrErrs d = c :: rest) ∨ (corrErrs d = [] ∧ corrPost d = .error e) := by
  simp only [strict, load, corr_strict_eq, corrAllErrs] at h
  cases he : corrErrs d with
  | nil =>
    right
    simp only [he, List.nil_append, postErrs] at h
    cases hp : corrPost d with
    | ok u => simp [hp, sigmaErrOf, strictOf, Except.map] at h
    | error e' =>
      cases e' with
      | sigma c => simp [hp, sigmaErrOf, strictOf, Except.map] at h; exact ⟨rfl, by rw [h]⟩
      | py c => exact absurd (corrPost_noPy d c hp) (by simp)
  | cons c rest =>
    left
    simp [he, strictOf, Except.map] at h
    exact ⟨c, rest, h.symm, rfl⟩

/-- D8i repaired: on the witness document strict loading raises the error collecting mode returns. -/
theorem corr_first_error_d8i :
    strict .corr d8i = .error (.sigma .correlationRuleError) ∧ collect .corr d8i = .ok [.correlationRuleError] :=
  ⟨by decide, corr_collect_d8i⟩

/-- Collections (any list of documents): strict loading succeeds exactly when nothing is collected,
and the exception it raises is the first collected error (errors of the documents in document order,
merged with the collection's own errors). -/
theorem collection_strict_iff_collect (d : Y) :
    (strict .collection d = .ok () ↔ collect .collection d = .ok []) ∧
    ∀ e, strict .collection d = .error e → ∃ c rest, e = .sigma c ∧ collect .collection d = .ok (c :: rest) := by
  obtain ⟨hm1, hm2⟩ := collLoop_modes (collDocs d) {} inv_init
  obtain ⟨hn1, hn2⟩ := collLoop_noPy false (collDocs d) {} inv_init
  simp only [strict, collect, load, collFromDicts]
  cases hl : collLoop false {} (collDocs d) with
  | ok st' =>
    obtain ⟨h1, h2⟩ := hm1 st' hl
    have hi := hn2 st' hl
    simp only [h1, ok_bind, collPostInit_ok st' hi, pure_eq, Except.map]
    have : st'.errs = [] := by simpa using h2
    simp [this]
  | error e =>
    cases e with
    | py c => exact absurd (hn1 c hl) (by simp)
    | sigma c =>
      obtain ⟨st'', rest, h1, h2, h3⟩ := hm2 c hl
      simp only [h1, ok_bind, collPostInit_ok st'' h2, pure_eq, error_bind, Except.map]
      have : st''.errs = c :: rest := by simpa using h3
      simp [this]

/-- The same with reference resolution — strict loading raises `SigmaRuleNotFoundError` for an
unresolvable reference exactly when collecting mode returns it as (then only) error. -/
theorem collection_refs_strict_iff_collect (d : Y) :
    (strict .collectionRef d = .ok () ↔ collect .collectionRef d = .ok []) ∧
    ∀ e, strict .collectionRef d = .error e → ∃ c rest, e = .sigma c ∧ collect .collectionRef d = .ok (c :: rest) := by
  obtain ⟨hm1, hm2⟩ := collLoop_modes (collDocs d) {} inv_init
  obtain ⟨hn1, hn2⟩ := collLoop_noPy false (collDocs d) {} inv_init
  simp only [strict, collect, load, collFromDictsRef]
  cases hl : collLoop false {} (collDocs d) with
  | ok st' =>
    obtain ⟨h1, h2⟩ := hm1 st' hl
    have hi := hn2 st' hl
    have he : st'.errs = [] := by simpa using h2
    simp only [h1, ok_bind, collPostInit_ok st' hi, if_true, Bool.false_eq_true, if_false, he, List.nil_append]
    have hr := collResolve_sig st'.objs
    cases hres : collResolve st'.objs with
    | ok u => simp [Except.map]
    | error e =>
      cases e with
      | sigma c => simp [Except.map]
      | py c => exact absurd (hr.1 c hres) (by simp)
  | error e =>
    cases e with
    | py c => exact absurd (hn1 c hl) (by simp)
    | sigma c =>
      obtain ⟨st'', rest, h1, h2, h3⟩ := hm2 c hl
      have : st''.errs = c :: rest := by simpa using h3
      have hr := collResolve_sig st''.objs
      cases hres : collResolve st''.objs with
      | ok u => simp [h1, collPostInit_ok st'' h2, hres, this, Except.map]
      | error e =>
        cases e with
        | sigma c2 => simp [h1, collPostInit_ok st'' h2, hres, this, Except.map]
        | py c2 => exact absurd (hr.1 c2 hres) (by simp)

/-! ## the model against a declarative specification -/

/-- Strict loading of a rule succeeds exactly on the documents `Spec/Load.lean` calls well formed (a
map; optional attributes absent or of the right shape; a log source map naming category, product or
service; a detection map with a condition and at least one well-formed detection) — for every YAML
value, so the exception-driven control flow of the model computes this declarative predicate. -/
theorem rule_loads_iff (d : Y) : strict .rule d = .ok () ↔ SigmaVerif.LoadSpec.wellFormedRule d = true := by
  rw [← ruleErrs_nil_iff]
  simp only [strict, load, rule_strict_eq]
  cases ruleErrs d <;> simp [strictOf, Except.map]

/-- … and error collection returns the empty list exactly on those documents. -/
theorem rule_collects_nothing_iff (d : Y) : collect .rule d = .ok [] ↔ SigmaVerif.LoadSpec.wellFormedRule d = true := by
  rw [← rule_loads_iff]; exact (rule_strict_iff_collect d).1.symm

/-! ## non-vacuity: the base documents of harness/c07.py load, and malformed ones are classified -/
def uuid1 : Str := S "929a690e-bef0-4204-a928-ef5e620d6fcc"

/-- a valid rule with the optional attributes, a modifier, a regular expression and keyword lists -/
def baseRule : Y := .map [
  (.str (S "title"), .str (S "T")), (.str (S "id"), .str uuid1), (.str (S "name"), .str (S "nm")),
  (.str (S "status"), .str (S "test")), (.str (S "level"), .str (S "high")), (.str (S "date"), .str (S "2024-01-31")),
  (.str (S "modified"), .str (S "2024/02/01")), (.str (S "tags"), .list [.str (S "attack.t1059")]),
  (.str (S "related"), .list [.map [(.str (S "id"), .str uuid1), (.str (S "type"), .str (S "derived"))]]),
  (.str (S "logsource"), .map [(.str (S "category"), .str (S "c")), (.str (S "product"), .str (S "p"))]),
  (.str (S "detection"), .map [
    (.str (S "sel"), .map [(.str (S "f|contains"), .list [.str (S "a"), .str (S "b")]), (.str (S "g"), .int 1)]),
    (.str (S "flt"), .list [.map [(.str (S "h"), .str (S "x"))], .map [(.str (S "i|re"), .str (S "y+"))]]),
    (.str (S "kw"), .list [.str (S "k1"), .str (S "k2")]),
    (.str (S "condition"), .list [.str (S "sel and not flt"), .str (S "1 of them")])])]

example : strict .rule baseRule = .ok () := by decide
example : collect .rule baseRule = .ok [] := by decide
example : inDomain .rule baseRule = true := by decide
example : SigmaVerif.LoadSpec.wellFormedRule baseRule = true := by decide

/-- several errors are collected in program order; strict loading raises the first -/
def badRule : Y := .map [
  (.str (S "title"), .int 5), (.str (S "name"), .str []), (.str (S "tags"), .list [.str (S "x"), .int 3]),
  (.str (S "date"), .str (S "2024-02-30")),
  (.str (S "detection"), .map [(.str (S "s"), .map [(.str (S "f|contains"), .int 1)]), (.str (S "condition"), .str (S "s"))])]

example : collect .rule badRule =
    .ok [.nameError, .valueError, .tagError, .dateError, .titleError, .logsourceError, .typeError] := by decide
example : strict .rule badRule = .error (.sigma .nameError) := by decide
example : SigmaVerif.LoadSpec.wellFormedRule badRule = false := by decide
example : strict .rule (.int 5) = .error (.sigma .typeError) := by decide
example : collect .rule (.list []) = .ok [.typeError, .titleError, .logsourceError, .detectionError] := by decide

def baseCorr : Y := .map [(.str (S "title"), .str (S "C")),
  (.str (S "correlation"), .map [(.str (S "type"), .str (S "event_count")), (.str (S "rules"), .list [.str (S "r1"), .str (S "r2")]),
    (.str (S "group-by"), .list [.str (S "u")]), (.str (S "timespan"), .str (S "5m")),
    (.str (S "condition"), .map [(.str (S "gte"), .int 10)]), (.str (S "generate"), .bool true),
    (.str (S "aliases"), .map [(.str (S "u"), .map [(.str (S "r1"), .str (S "user"))])])])]

def extCorr : Y := .map [(.str (S "title"), .str (S "C4")),
  (.str (S "correlation"), .map [(.str (S "type"), .str (S "temporal_ordered")), (.str (S "rules"), .list [.str (S "r1"), .str (S "r2")]),
    (.str (S "timespan"), .str (S "2w")), (.str (S "condition"), .str (S "r1 and (not r2 or r1)"))])]

example : strict .corr baseCorr = .ok () := by decide
example : ¬ postInitFails baseCorr := by decide
example : strict .corr extCorr = .ok () := by decide
example : ¬ postInitFails extCorr := by decide
example : postInitFails d8i := by decide

def baseFilter : Y := .map [(.str (S "title"), .str (S "F")), (.str (S "logsource"), .map [(.str (S "category"), .str (S "c"))]),
  (.str (S "filter"), .map [(.str (S "rules"), .list [.str (S "r1")]), (.str (S "flt"), .map [(.str (S "f"), .str (S "a"))]),
    (.str (S "condition"), .str (S "not flt"))])]

example : strict .filter baseFilter = .ok () := by decide
example : collect .filter (.map [(.str (S "title"), .str (S "F")), (.str (S "filter"), .int 5)]) =
    .ok [.logsourceError, .filterError] := by decide

/-- a global document merged into a rule, an unknown action and a non-map entry -/
example : collect .collection (.list [
    .map [(.str (S "action"), .str (S "global")), (.str (S "title"), .str (S "g"))],
    .map [(.str (S "logsource"), .map [(.str (S "category"), .str (S "c"))]),
          (.str (S "detection"), .map [(.str (S "s"), .map [(.str (S "f"), .int 1)]), (.str (S "condition"), .str (S "s"))])],
    .map [(.str (S "action"), .str (S "bogus"))], .int 5]) = .ok [.collectionError, .collectionError] := by decide
example : strict .collection (.list [baseRule, baseCorr, baseFilter]) = .ok () := by decide

/-- references by name and by identifier (any UUID spelling) resolve; a missing one is raised strictly
and collected otherwise -/
def namedRule : Y := .map [(.str (S "title"), .str (S "T")), (.str (S "name"), .str (S "r1")), (.str (S "id"), .str uuid1),
  (.str (S "logsource"), .map [(.str (S "category"), .str (S "c"))]),
  (.str (S "detection"), .map [(.str (S "s"), .map [(.str (S "f"), .int 1)]), (.str (S "condition"), .str (S "s"))])]
def corrOver (refs : List Str) : Y := .map [(.str (S "title"), .str (S "C")),
  (.str (S "correlation"), .map [(.str (S "type"), .str (S "event_count")), (.str (S "rules"), .list (refs.map .str)),
    (.str (S "timespan"), .str (S "5m")), (.str (S "condition"), .map [(.str (S "gte"), .int 1)])])]

example : strict .collectionRef (.list [namedRule, corrOver [S "r1", S "{929A690E-BEF0-4204-A928-EF5E620D6FCC}"]]) = .ok () := by decide
example : strict .collectionRef (.list [namedRule, corrOver [S "r1", S "r2"]]) = .error (.sigma .ruleNotFoundError) := by decide
example : collect .collectionRef (.list [namedRule, corrOver [S "r1", S "r2"]]) = .ok [.ruleNotFoundError] := by decide
example : collect .collectionRef (.list [.int 5, corrOver [S "r1"]]) = .ok [.collectionError, .ruleNotFoundError] := by decide

end SigmaVerif.Props.C07
