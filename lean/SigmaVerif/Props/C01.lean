import SigmaVerif.Spec.Conv
import SigmaVerif.Lemmas.Conv
/-!
# C01 — condition tree → query: grouping by precedence is sound

Property theorems only; helper lemmas and auxiliary definitions (`wfTree`, `stripParens`, the example
atom descriptors `strF1` …, `cfg`) are in `SigmaVerif.Lemmas.Conv`.
-/
namespace SigmaVerif.Props.C01
open SigmaVerif.Conv SigmaVerif.ConvSpec SigmaVerif.ConvLemmas

/-! ## 1. The emitted query, read by the target language's precedence rules, means the tree -/

/-- For every precedence permutation, both `parenthesize` settings, all in-list knob settings and
every well-formed condition tree (any size/shape, vanished operands, expanded values, CIDR values
without native expression, negative existence tests rendered as NOT from inside the atom
conversion, nested NOTs):
the emitted token list is accepted by the target language's reader and the expression it reads has
exactly the meaning of the condition tree. -/
theorem convert_sound (k : Cfg) (hk : k.wf = true) (hn : k.notAsNotEq = false) (c : CT)
    (hc : wfTree c = true) (q : List QTok) (h : convert k false c = some q) :
    ∃ e, readQ k.prec q = some e ∧ ∀ ρ, evalCT ρ c = some (e.denote ρ) :=
  convert_sound_neg hk hn false c hc q h

/-- A query is emitted iff the tree did not vanish (any configuration, well-formed or not). -/
theorem convert_vanish (k : Cfg) (c : CT) (hc : wfTree c = true) :
    (convert k false c = none) ↔ (∀ ρ, evalCT ρ c = none) :=
  convert_none_iff k false c hc

/-- all six precedence permutations (and nothing else) are well-formed configurations -/
example : ∀ p ∈ [[Op.not, .and, .or], [.not, .or, .and], [.and, .not, .or], [.and, .or, .not],
    [.or, .not, .and], [.or, .and, .not]], ∀ b, (cfg p b).wf = true := by decide
example : (cfg [.and, .and, .or]).wf = false := by decide
example : wfTree (.and [.atom 1 strF1, .not (.or [.atom 2 strF1, .not (.atom 3 strF1), .none,
    .and [.none], .exp [(4, strF1), (5, strF2)]])]) = true := by decide
example : wfTree (.and [.atom 1 strF1, .nex 2 exF1, .not (.nex 3 exF1)]) = true := by decide
/-- a concrete instance through the theorem, for a non-default precedence (OR binds tightest) with
`parenthesize`, a vanished operand, an expanded value and NOT inside NOT -/
example : ∃ q e, convert (cfg [.or, .not, .and] true) false
      (.and [.atom 1 strF1, .not (.or [.atom 2 strF1, .not (.atom 3 strF1), .none, .and [.none],
        .exp [(4, strF1), (5, strF2)]])]) = some q ∧
    readQ [.or, .not, .and] q = some e ∧ q.length = 17 := by
  have hq : convert (cfg [.or, .not, .and] true) false
      (.and [.atom 1 strF1, .not (.or [.atom 2 strF1, .not (.atom 3 strF1), .none, .and [.none],
        .exp [(4, strF1), (5, strF2)]])]) = some [.atom 1, .tand, .lp, .tnot, .lp, .atom 2, .tor,
          .lp, .tnot, .atom 3, .rp, .tor, .atom 4, .tor, .atom 5, .rp, .rp] := by decide
  obtain ⟨e, he, _⟩ := convert_sound _ (by decide) rfl _ (by decide) _ hq
  exact ⟨_, e, hq, he, rfl⟩
example : convert (cfg defaultPrec) false (.and [.none, .or [.none, .not .none]]) = none := by decide

/-- A negative existence test in a backend without a not-exists expression (`CT.nex`) is emitted as
`NOT exists` from inside the atom conversion.  `compare_precedence` gives it the class of NOT: it
is grouped exactly where NOT binds looser than the enclosing operator, not by `parenthesize`
(it is a field/value expression), and a NOT in front of it is not grouped (`NOT NOT exists`) —
all of which `convert_sound` covers. -/
example : convert (cfg [.and, .not, .or]) false (.and [.atom 1 strF1, .nex 2 exF1])
      = some [.atom 1, .tand, .lp, .tnot, .atom 2, .rp] ∧
    convert (cfg defaultPrec true) false (.and [.atom 1 strF1, .nex 2 exF1])
      = some [.atom 1, .tand, .tnot, .atom 2] ∧
    convert (cfg [.and, .not, .or]) false (.and [.atom 1 strF1, .not (.nex 2 exF1)])
      = some [.atom 1, .tand, .lp, .tnot, .tnot, .atom 2, .rp] := by decide
/-- … and the grouping of `nex` is needed: without it `a AND NOT b` is not even a sentence of a
language in which AND binds tighter than NOT -/
example : readQ [.and, .not, .or] [.atom 1, .tand, .tnot, .atom 2] = none ∧
    readQ [.and, .not, .or] [.atom 1, .tand, .lp, .tnot, .atom 2, .rp]
      = some (.and (.atom 1) (.not (.atom 2))) := by decide

/-! ## 2. Each side condition of `wfTree` is needed -/

/-- an expanded value without alternatives vanishes in the query but not in the tree:
`a AND <empty expansion>` is emitted as `a`, but means `false` -/
example : convert (cfg defaultPrec) false (.and [.atom 1 strF1, .exp []]) = some [.atom 1] ∧
    evalCT (fun _ => true) (.and [.atom 1 strF1, .exp []]) = some false := by decide
example : convert (cfg defaultPrec) false (.not (.cidr [])) = none ∧
    evalCT (fun _ => true) (.not (.cidr [])) = some true := by decide
/-- a CIDR value whose patterns are not in-list eligible (here: two fields; likewise `inOk = false`
or no field), in a backend with `orAsIn` and `inAllowWild` (`cidrAsOr = false`), is emitted as an
ungrouped OR although `compare_precedence` treats it as atomic -/
example : convert (cfg defaultPrec false true false true) false
      (.and [.atom 1 strF1, .cidr [(2, wildF1), (3, { wildF1 with field := some 2 })]])
      = some [.atom 1, .tand, .atom 2, .tor, .atom 3] ∧
    readQ defaultPrec [.atom 1, .tand, .atom 2, .tor, .atom 3]
      = some (.or (.and (.atom 1) (.atom 2)) (.atom 3)) := by decide
example : convert (cfg defaultPrec false true false true) false
      (.and [.atom 1 strF1, .cidr [(2, wildF1), (3, { wildF1 with inOk := false })]])
      = some [.atom 1, .tand, .atom 2, .tor, .atom 3] := by decide
example : convert (cfg defaultPrec false true false true) false
      (.and [.atom 1 strF1, .cidr [(2, { wildF1 with field := none }), (3, { wildF1 with field := none })]])
      = some [.atom 1, .tand, .atom 2, .tor, .atom 3] := by decide
/-- with the side condition the same backend emits an in-list -/
example : convert (cfg defaultPrec false true false true) false
      (.and [.atom 1 strF1, .cidr [(2, wildF1), (3, wildF1)]])
      = some [.atom 1, .tand, .inList true [2, 3]] := by decide

/-! ## 3. Not-equals mode is not covered: De Morgan is not applied -/

/-- In not-equals mode (`notAsNotEq`, i.e. the backend has no NOT token and negation is pushed into
the negated twin expressions) `not (a and b)` is emitted as `(a≠ and b≠)`. -/
theorem not_as_not_eq_unsound :
    ∃ k c q, k.wf = true ∧ k.notAsNotEq = true ∧ convert k false c = some q ∧
      ∃ e ρ, readQ k.prec q = some e ∧ evalCT ρ c ≠ some (e.denote ρ) :=
  ⟨cfg defaultPrec false false false false true,
   .not (.and [.atom 1 strF1, .atom 2 strF1]),
   [.lp, .natom 1, .tand, .natom 2, .rp], by decide, by decide, by decide,
   .and (.natom 1) (.natom 2), fun n => n == 1, by decide, by decide⟩

/-- In not-equals mode the NOT around a value without a negated twin (a number) is dropped. -/
theorem not_as_not_eq_drops_not :
    ∃ k c q, k.wf = true ∧ k.notAsNotEq = true ∧ convert k false c = some q ∧
      ∃ e, readQ k.prec q = some e ∧ ∀ ρ, evalCT ρ c ≠ some (e.denote ρ) :=
  ⟨cfg defaultPrec false false false false true, .not (.atom 1 numF1), [.atom 1],
   by decide, by decide, by decide, .atom 1, by decide, fun ρ => by cases h : ρ 1 <;> simp [evalCT, QE.denote, h]⟩

/-- In not-equals mode the alternatives of an expanded value below a NOT are rendered through the
negated twins (they are converted inside the dynamic extent of the context manager entered for the
item itself) but stay OR-linked: `not (a or b)` is emitted as `(a≠ or b≠)`. -/
theorem not_as_not_eq_expansion_unsound :
    ∃ k c q, k.wf = true ∧ k.notAsNotEq = true ∧ convert k false c = some q ∧
      ∃ e ρ, readQ k.prec q = some e ∧ evalCT ρ c ≠ some (e.denote ρ) :=
  ⟨cfg defaultPrec false false false false true,
   .not (.exp [(1, strF1), (2, strF1)]),
   [.lp, .natom 1, .tor, .natom 2, .rp], by decide, by decide, by decide,
   .or (.natom 1) (.natom 2), fun n => n == 1, by decide, by decide⟩

/-! ## 4. The in-list shortcut never changes the meaning -/

theorem in_list_sound (k : Cfg) (isOr : Bool) (cs : List CT) (h : decideIn k isOr cs = true) :
    (∀ c ∈ cs, ∃ a i, c = .atom a i) ∧
    ∀ ρ, evalCT ρ (if isOr then .or cs else .and cs)
      = some ((QE.inList isOr (atomIds cs)).denote ρ) :=
  in_list_sound' k isOr cs h

example : decideIn (cfg defaultPrec false true) true [.atom 1 strF1, .atom 2 strF1] = true := by decide
example : decideIn (cfg defaultPrec false true) true [.atom 1 strF1, .atom 2 strF2] = false := by decide
example : decideIn (cfg defaultPrec false true) true [.atom 1 strF1, .atom 2 wildF1] = false := by decide
example : decideIn (cfg defaultPrec false true true true) false [.atom 1 strF1, .atom 2 wildF1] = true := by decide

/-! ## 5. Grouping is necessary -/

/-- `compare_precedence` is not vacuous: for the default precedence `a AND (b OR c)` is emitted
with parentheses, and the same token list without them reads back with a different meaning. -/
theorem grouping_needed :
    ∃ k c q, k.wf = true ∧ k.prec = defaultPrec ∧ k.parenthesize = false ∧ k.notAsNotEq = false ∧
      wfTree c = true ∧ convert k false c = some q ∧
      stripParens q = [.atom 1, .tand, .atom 2, .tor, .atom 3] ∧ stripParens q ≠ q ∧
      ∃ e ρ, readQ k.prec (stripParens q) = some e ∧ evalCT ρ c ≠ some (e.denote ρ) :=
  ⟨cfg defaultPrec, .and [.atom 1 strF1, .or [.atom 2 strF1, .atom 3 strF1]],
   [.atom 1, .tand, .lp, .atom 2, .tor, .atom 3, .rp],
   by decide, by decide, by decide, by decide, by decide, by decide, by decide, by decide,
   .or (.and (.atom 1) (.atom 2)) (.atom 3), fun n => n == 3, by decide, by decide⟩

end SigmaVerif.Props.C01
