import Lean
/-! `#audit_module M` prints, for every theorem declared in module `M`, one line
`AUDIT <name> :: <axioms, comma separated>` (what `#print axioms` would report). -/
open Lean Elab Command

elab "#audit_module " id:ident : command => do
  let env ← getEnv
  let modName := id.getId
  let some idx := env.getModuleIdx? modName
    | throwError "module {modName} not imported"
  let names := env.constants.fold (init := #[]) fun acc n ci =>
    match ci with
    | .thmInfo _ =>
      if env.getModuleIdxFor? n == some idx && !n.isInternal then acc.push n else acc
    | _ => acc
  let names := names.qsort (fun a b => a.toString < b.toString)
  for n in names do
    let axs ← liftCoreM (collectAxioms n)
    let axs := axs.qsort (fun a b => a.toString < b.toString)
    logInfo m!"AUDIT {n} :: {", ".intercalate (axs.toList.map toString)}"
