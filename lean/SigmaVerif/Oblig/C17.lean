import SigmaVerif.Gen.Ph
import SigmaVerif.Gen.Mods
import SigmaVerif.Spec.Rewrite
import SigmaVerif.Props.C17
/-!
# C17 obligations over the observations regenerated from the live code (`Gen/Ph.lean`)

The specification (`Spec/Placeholder.lean`) was written from the documentation and from
`placeholder.py`; its code-shaped choices — which transformations expand placeholders and of which
kind they are, the include/exclude test, which variable values the value-list item accepts (strings
and numbers, *not* the empty list), the cross-product order of `replace_placeholders`, which
exception is raised when — are re-observed on the live objects by the translator on every run and
compared here, row by row, with what the specification computes (`by decide`).  A change of the code
that moves one of them breaks the corresponding obligation; the general theorems of `Props/C17.lean`
are instantiated at the regenerated probe table.
-/
namespace SigmaVerif.Oblig.C17
open SigmaVerif.SStr SigmaVerif.Mods SigmaVerif.Placeholder SigmaVerif.Gen.Ph

/-! ## Which transformations expand placeholders -/

/-- the registered transformations that handle placeholders: the three the specification covers, by
kind, and the three that fetch their values from outside (file / HTTP / command: not specified at
source level).  A new one breaks this until it is classified. -/
theorem gen_placeholder_transformations :
    registry =
      [("command_placeholders", "CommandPlaceholderTransformation", "external"),
       ("file_placeholders", "FilePlaceholderTransformation", "external"),
       ("http_placeholders", "HTTPPlaceholderTransformation", "external"),
       ("query_expression_placeholders", "QueryExpressionPlaceholderTransformation", "query"),
       ("value_placeholders", "ValueListPlaceholderTransformation", "value"),
       ("wildcard_placeholders", "WildcardPlaceholderTransformation", "wildcard")] := by decide

/-- they are the identifiers C12 leaves to the rule semantics, and the external ones are among those
C12 lists as not covered -/
theorem gen_agrees_with_rewrite_classification :
    ((registry.filter (fun r => r.2.2 != "external")).map (·.1)).all Rewrite.coveredBySemantics.contains = true ∧
    Rewrite.coveredBySemantics.all ((registry.filter (fun r => r.2.2 != "external")).map (·.1)).contains = true ∧
    ((registry.filter (fun r => r.2.2 == "external")).map (·.1)).all Rewrite.notCovered.contains = true := by
  decide

/-! ## include / exclude -/

/-- `is_handled_placeholder` of the live classes is `handled` -/
theorem gen_handled_agrees : handledRows.all (fun r => handled r.1 r.2.1 == r.2.2) = true := by decide +kernel

theorem gen_handled_rows_nonempty : handledRows.length = 42 := by decide

/-- an item with both lists cannot be constructed (so `handled` need not say what it would do): a
Sigma configuration error for all three kinds -/
theorem gen_both_lists_rejected :
    bothRejected = [("query", "SigmaConfigurationError", true), ("value", "SigmaConfigurationError", true),
                    ("wildcard", "SigmaConfigurationError", true)] := by decide

/-! ## Variables of the value-list item -/

/-- the specification's `lookupVar` agrees with the live item on every probed variable value: strings
and numbers (booleans included) are accepted and parsed as Sigma strings; the empty list, `None`,
nested lists, dicts, tuples, bytes are a `SigmaValueError` -/
theorem gen_lookupVar_agrees :
    varRows.all (fun r =>
      match lookupVar [(['n'], r.1.map toVarVal)] ['n'], r.2 with
      | .ok vs, (some vs', _, _) => vs == vs'
      | .error (.badVar m), (none, cls, k) => m == ['n'] && cls == "SigmaValueError" && k == 1
      | _, _ => false) = true := by decide +kernel

/-- the empty list is among the probes and is refused (it would silently delete the value) -/
theorem gen_empty_list_refused : varRows.contains ([], none, "SigmaValueError", 1) = true := by decide +kernel

/-- a handled placeholder without a variable is a `SigmaValueError` naming it -/
theorem gen_missing_var :
    missingVar = ("SigmaValueError", 0, ['n']) ∧
    (match lookupVar [] ['n'] with | .error (.missingVar m) => m == missingVar.2.2 | _ => false) = true := by
  decide

/-- the `isinstance` test as written names exactly the accepted types (`bool` rides on `int`) -/
theorem gen_accepted_types :
    acceptedTypesWritten = ["float", "int", "str"] ∧
    acceptedTypesWritten.all acceptedVarTypes.contains = true := by decide

/-! ## The cross product -/

/-- the callback of the probe: the regenerated table, anything else is left in place -/
def probeRepl : Str → Option (List SStr) := fun n => (probeTable.find? (fun kv => kv.1 == n)).map (·.2)

/-- `SigmaString.replace_placeholders` of the live code is `replaceAll`: same strings, same order
(first placeholder most significant), unhandled placeholders left in place -/
theorem gen_replaceAll_agrees : replaceRows.all (fun r => replaceAll probeRepl r.1 == r.2) = true := by
  decide +kernel

theorem gen_replace_rows_nontrivial :
    replaceRows.length = 9 ∧ (replaceRows.map (fun r => r.2.length)).contains 6 = true := by decide +kernel

/-- instantiation of `replaceAll_count` / `replaceAll_mem` at the regenerated table -/
theorem gen_replaceAll_count (s : SStr) :
    (replaceAll probeRepl s).length =
      ((phNames s).map (fun n => match probeRepl n with | some a => a.length | none => 1)).prod :=
  Props.C17.replaceAll_count probeRepl s

theorem gen_replaceAll_mem (s t : SStr) : t ∈ replaceAll probeRepl s ↔ Choice probeRepl s t :=
  Props.C17.replaceAll_mem probeRepl s t

/-! ## One item on one value -/

def probeVars : List (Str × List VarVal) := itemVars.map (fun kv => (kv.1, kv.2.map toVarVal))

/-- `apply_value` of the live items is `applyItem`: unchanged / the alternatives / the query
expression / the error (class and which variable), for value-list, wildcard and query-expression
items with and without include / exclude lists -/
theorem gen_applyItem_agrees :
    applyRows.all (fun r => (applyItem probeVars r.1 r.2.1).obs == r.2.2) = true := by decide +kernel

theorem gen_apply_rows_cover :
    applyRows.length = 99 ∧
    applyRows.any (fun r => match r.2.2 with | .same => true | _ => false) = true ∧
    applyRows.any (fun r => match r.2.2 with | .alts _ => true | _ => false) = true ∧
    applyRows.any (fun r => match r.2.2 with | .qexpr _ _ => true | _ => false) = true ∧
    applyRows.any (fun r => match r.2.2 with | .err _ 0 _ => true | _ => false) = true ∧
    applyRows.any (fun r => match r.2.2 with | .err _ 1 _ => true | _ => false) = true ∧
    applyRows.any (fun r => match r.2.2 with | .err _ 2 _ => true | _ => false) = true := by decide +kernel

/-! ## A placeholder that is left -/

/-- rendering a string / regular expression that still contains a placeholder raises
`SigmaPlaceholderError`, a Sigma error (`convert_ph_error`, `toRegex_ph_error`) -/
theorem gen_left_placeholder_errors :
    leftErrors = [("SigmaString.convert", "SigmaPlaceholderError", true),
                  ("SigmaString.to_regex", "SigmaPlaceholderError", true),
                  ("SigmaRegularExpression.escape", "SigmaPlaceholderError", true)] := by decide

/-- the text form of a placeholder (`insert_placeholders`): `%name%` not preceded by a backslash -/
theorem gen_placeholder_regex : SigmaVerif.Gen.Mods.placeholderRegex = "(?<!\\\\)%(?P<name>[^%]+)%" := by decide

end SigmaVerif.Oblig.C17
