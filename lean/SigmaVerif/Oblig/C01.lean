import SigmaVerif.Gen.Conv
import SigmaVerif.Props.C01
/-! Obligations tying `TextQueryBackend` as it is *now* to the C01 theorems. -/
namespace SigmaVerif.Oblig.C01
open SigmaVerif.Conv SigmaVerif.ConvSpec SigmaVerif.ConvLemmas

/-- the default precedence tuple names each of NOT, AND, OR exactly once -/
theorem gen_prec_wf :
    ({ prec := SigmaVerif.Gen.Conv.defaultPrec, parenthesize := false, orAsIn := false, andAsIn := false,
       inAllowWild := false, notAsNotEq := false } : Cfg).wf = true := by decide

/-- no value class is tested after one of its superclasses in the field/value dispatch (a cased
string is rendered case-sensitively, a timestamp part as such) -/
theorem gen_dispatch_no_shadow : SigmaVerif.Gen.Conv.shadowed = [] := by decide

/-- every class attribute the not-equals context manager swaps is restored on every exit path -/
theorem gen_swapped_restored :
    SigmaVerif.Gen.Conv.swapped.all SigmaVerif.Gen.Conv.restored.contains = true := by decide

/-! ## Code-shaped constants of the model (the decisions `Model/Conv.lean` hard-codes), as the translator reads them
from the live source.  A change of one of these tests breaks the obligation; the drift comparison
(`conv.run`, harness/c01.py) then shows on which inputs the model and the code disagree. -/

/-- `decideIn`: the five `return False` guards of `decide_convert_condition_as_in_expression`, in
order — knob of the operator (`orAsIn`/`andAsIn`), all operands field/value expressions (`.atom`),
one field (`field`), value classes (`inOk`), wildcards (`inAllowWild`/`special`) -/
theorem gen_in_guards : SigmaVerif.Gen.Conv.inGuards =
    ["not self.convert_or_as_in and isinstance(cond, ConditionOR) or (not self.convert_and_as_in and isinstance(cond, ConditionAND))",
     "not all((isinstance(arg, ConditionFieldEqualsValueExpression) for arg in cond.args))",
     "len(fields) != 1",
     "not all([isinstance(arg.value, (SigmaString, SigmaNumber)) and (not isinstance(arg.value, (SigmaCasedString, SigmaTimestampPart))) for arg in args])",
     "not self.in_expressions_allow_wildcards and any([arg.value.contains_special() for arg in args if isinstance(arg.value, SigmaString)])"] := rfl

/-- `AtomInfo.inOk` / `AtomInfo.special` are computed by the harness from exactly these class names -/
theorem gen_in_classes : SigmaVerif.Gen.Conv.inValueClasses = ["SigmaString", "SigmaNumber"] ∧
    SigmaVerif.Gen.Conv.inExcluded = ["SigmaCasedString", "SigmaTimestampPart"] ∧
    SigmaVerif.Gen.Conv.inSpecialClasses = ["SigmaString"] := ⟨rfl, rfl, rfl⟩

/-- `cidrAsOr`: a CIDR value counts as an OR iff there is no native CIDR expression (then it is a
`CT.cidr` node) and not (`orAsIn` and `inAllowWild`) -/
theorem gen_cidr_or_guard : SigmaVerif.Gen.Conv.cidrOrGuard =
    "isinstance(value, SigmaCIDRExpression) and self.cidr_expression is None and (not (self.convert_or_as_in and self.in_expressions_allow_wildcards))" := rfl

/-- `convert` on `.not c`: the operand is grouped iff its class is in the precedence tuple
(NOT/AND/OR) or it is an expansion / a CIDR value counting as OR -/
theorem gen_not_group_guard : SigmaVerif.Gen.Conv.notGroupGuard =
    ["arg.__class__ in self.precedence or (isinstance(arg, (ConditionFieldEqualsValueExpression, ConditionValueExpression)) and (isinstance(arg.value, SigmaExpansion) or self._cidr_converts_to_or(arg.value)))"] := rfl

/-- `comparePrec` / `innerIdx` / `isAtomLike`: parenthesize groups everything but field/value
expressions; expansions and OR-CIDR values have the class of OR, a negative existence test without
a not-exists expression (`CT.nex`) the class of NOT; the result is `idx_inner ≤ idx_outer` -/
theorem gen_compare_precedence :
    SigmaVerif.Gen.Conv.precParenGuard =
      ["self.parenthesize and (not isinstance(inner, (ConditionFieldEqualsValueExpression, ConditionValueExpression, SigmaRuleReference)))"] ∧
    SigmaVerif.Gen.Conv.precInnerChain =
      ["isinstance(inner, SigmaRuleReference)",
       "isinstance(inner, (ConditionFieldEqualsValueExpression, ConditionValueExpression)) and (isinstance(inner.value, SigmaExpansion) or self._cidr_converts_to_or(inner.value))",
       "isinstance(inner, ConditionFieldEqualsValueExpression) and isinstance(inner.value, SigmaExists) and (not inner.value) and (not self.explicit_not_exists_expression)"] ∧
    SigmaVerif.Gen.Conv.precReturn = ["idx_inner <= self.precedence.index(outer_class)"] := ⟨rfl, rfl, rfl⟩

/-- C01 grouping soundness instantiated at the live default precedence, for both `parenthesize`
settings and all in-list knobs -/
theorem gen_convert_sound (par oi ai aw : Bool) (c : SigmaVerif.Conv.CT) (hc : wfTree c = true) (q : List SigmaVerif.Conv.QTok)
    (h : convert { prec := SigmaVerif.Gen.Conv.defaultPrec, parenthesize := par, orAsIn := oi, andAsIn := ai,
                   inAllowWild := aw, notAsNotEq := false } false c = some q) :
    ∃ e, readQ SigmaVerif.Gen.Conv.defaultPrec q = some e ∧ ∀ ρ, evalCT ρ c = some (e.denote ρ) :=
  SigmaVerif.Props.C01.convert_sound
    { prec := SigmaVerif.Gen.Conv.defaultPrec, parenthesize := par, orAsIn := oi, andAsIn := ai,
      inAllowWild := aw, notAsNotEq := false }
    (by cases par <;> cases oi <;> cases ai <;> cases aw <;> decide) rfl c hc q h

end SigmaVerif.Oblig.C01
