import SigmaVerif.Gen.Conv
import SigmaVerif.Props.C01
/-! Obligations tying `TextQueryBackend` as it is *now* to the C01 theorems. -/
namespace SigmaVerif.Oblig.C01
open SigmaVerif.Conv SigmaVerif.ConvSpec SigmaVerif.ConvLemmas

/-- the default precedence tuple names each of NOT, AND, OR exactly once -/
theorem gen_prec_wf :
    ({ prec := SigmaVerif.Gen.Conv.defaultPrec, parenthesize := false, orAsIn := false, andAsIn := false,
       inAllowWild := false, notAsNotEq := false } : Cfg).wf = true := by decide

/-- no value class is tested after one of its superclasses in the field/value dispatch (a cased
string is rendered case-sensitively, a timestamp part as such) -/
theorem gen_dispatch_no_shadow : SigmaVerif.Gen.Conv.shadowed = [] := by decide

/-- every class attribute the not-equals context manager swaps is restored on every exit path -/
theorem gen_swapped_restored :
    SigmaVerif.Gen.Conv.swapped.all SigmaVerif.Gen.Conv.restored.contains = true := by decide

/-- C01 grouping soundness instantiated at the live default precedence, for both `parenthesize`
settings and all in-list knobs -/
theorem gen_convert_sound (par oi ai aw : Bool) (c : SigmaVerif.Conv.CT) (hc : wfTree c = true) (q : List SigmaVerif.Conv.QTok)
    (h : convert { prec := SigmaVerif.Gen.Conv.defaultPrec, parenthesize := par, orAsIn := oi, andAsIn := ai,
                   inAllowWild := aw, notAsNotEq := false } false c = some q) :
    ∃ e, readQ SigmaVerif.Gen.Conv.defaultPrec q = some e ∧ ∀ ρ, evalCT ρ c = some (e.denote ρ) :=
  SigmaVerif.Props.C01.convert_sound
    { prec := SigmaVerif.Gen.Conv.defaultPrec, parenthesize := par, orAsIn := oi, andAsIn := ai,
      inAllowWild := aw, notAsNotEq := false }
    (by cases par <;> cases oi <;> cases ai <;> cases aw <;> decide) rfl c hc q h

end SigmaVerif.Oblig.C01
