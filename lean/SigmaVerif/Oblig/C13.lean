import SigmaVerif.Gen.PipeCond
import SigmaVerif.Model.Cond
/-! Obligations for C13: the condition-expression grammar of processing items as it is *now*. -/
namespace SigmaVerif.Oblig.C13
open SigmaVerif.Cond

/-- operators are keywords whose identifier characters cover those of condition identifiers, so
an identifier that starts with `not`/`and`/`or` is read whole (same reason as C02) -/
theorem gen_expr_ops_keyword :
    SigmaVerif.Gen.PipeCond.grammar.opKeyword = true ∧
    SigmaVerif.Gen.PipeCond.grammar.identChars.all SigmaVerif.Gen.PipeCond.grammar.opKwChars.contains = true := by decide

/-- it is the rule-condition grammar minus selectors -/
theorem gen_expr_grammar_is_cond_minus_selectors :
    ({ SigmaVerif.Gen.PipeCond.grammar with quants := stdGrammar.quants, patChars := stdGrammar.patChars }).equiv stdGrammar = true := by decide

end SigmaVerif.Oblig.C13
