import SigmaVerif.Gen.PipeCond
import SigmaVerif.Model.Cond
import SigmaVerif.Gen.PipeCondKinds
import SigmaVerif.Gen.LoadGuards
import SigmaVerif.Spec.PipeConds
/-! Obligations for C13: the condition-expression grammar of processing items as it is *now*. -/
namespace SigmaVerif.Oblig.C13
open SigmaVerif.Cond

/-- operators are keywords whose identifier characters cover those of condition identifiers, so
an identifier that starts with `not`/`and`/`or` is read whole (same reason as C02) -/
theorem gen_expr_ops_keyword :
    SigmaVerif.Gen.PipeCond.grammar.opKeyword = true ∧
    SigmaVerif.Gen.PipeCond.grammar.identChars.all SigmaVerif.Gen.PipeCond.grammar.opKwChars.contains = true := by decide

/-- it is the rule-condition grammar minus selectors -/
theorem gen_expr_grammar_is_cond_minus_selectors :
    ({ SigmaVerif.Gen.PipeCond.grammar with quants := stdGrammar.quants, patChars := stdGrammar.patChars }).equiv stdGrammar = true := by decide

/-! ### the registry of condition types as it is *now* against `Spec/PipeConds.lean` -/
open SigmaVerif.PipeConds in
/-- every registered condition identifier (with the parameters of its class) has a clause in the
specification, or is explicitly listed as not modelled: a newly registered condition type, or a new
parameter of an existing one, breaks this until it is classified -/
theorem gen_every_condition_kind_classified :
    (SigmaVerif.Gen.PipeCondKinds.rule.all fun k => ruleKinds.contains k || notModelled.contains ("rule:" ++ k.1)) = true ∧
    (SigmaVerif.Gen.PipeCondKinds.det.all fun k => detKinds.contains k || notModelled.contains ("det:" ++ k.1)) = true ∧
    (SigmaVerif.Gen.PipeCondKinds.field.all fun k => fieldKinds.contains k || notModelled.contains ("field:" ++ k.1)) = true := by
  decide

open SigmaVerif.PipeConds in
/-- … and the specification has no clause for an identifier the code no longer registers -/
theorem gen_no_stale_condition_kind :
    (ruleKinds.all SigmaVerif.Gen.PipeCondKinds.rule.contains) = true ∧
    (detKinds.all SigmaVerif.Gen.PipeCondKinds.det.contains) = true ∧
    (fieldKinds.all SigmaVerif.Gen.PipeCondKinds.field.contains) = true := by decide

open SigmaVerif.PipeConds in
/-- the ordered enumerations `rule_attribute` compares in are those of the code, in its order -/
theorem gen_level_and_status_order :
    SigmaVerif.Gen.LoadGuards.levels.map (fun s => s.toList.map asciiLower) = levelNames ∧
    SigmaVerif.Gen.LoadGuards.statuses.map (fun s => s.toList.map asciiLower) = statusNames := by decide

end SigmaVerif.Oblig.C13
