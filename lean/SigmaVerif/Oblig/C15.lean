import SigmaVerif.Gen.Pipe
import SigmaVerif.Gen.Conv
/-! Obligations for C15 (shared with C08): everything `ProcessingPipeline` keeps per rule is reset before the
first item of the next rule runs. -/
namespace SigmaVerif.Oblig.C15

/-- every per-invocation field (`init=False`) is re-initialised at the top of `apply` -/
theorem gen_reset_covers_state :
    SigmaVerif.Gen.Pipe.perRuleFields.all SigmaVerif.Gen.Pipe.resetFields.contains = true := by decide

/-- every class attribute the not-equals context manager swaps is restored on every exit path
(the restore is in a `finally` block), so a conversion that fails inside the negated rendering
leaves the backend class as it was -/
theorem gen_swapped_restored :
    SigmaVerif.Gen.Conv.swapped.all SigmaVerif.Gen.Conv.restored.contains = true := by decide

end SigmaVerif.Oblig.C15
