import SigmaVerif.Gen.Valid
import SigmaVerif.Props.C19
/-!
# C19 obligations over the tables regenerated from the source (`Gen/Valid.lean`)

* the live validator registry is partitioned into modelled / not modelled: a validator added to the
  code breaks `gen_validators_classified` until it is classified in `Model/Valid.lean`;
* **validation only observes**, as a static fact about *every* registered validator class and its
  base classes: no method assigns to, deletes from, or calls a mutating container method on the rule
  (or detection, detection item, value …) it is handed, or on anything reached from it;
* the shapes the model of the reference and uniqueness validators depends on: the condition walk
  resolves selectors with `resolve_referenced_detections` (the selector semantics shared with C02) on
  the *raw* parse tree (`parse(False)`), issues are reported in `sorted` order, groups are keyed by
  id / title / file name and reported from two members on;
* `SigmaValidator`: exclusion lookup by rule id and validator class, validators run in list order.
-/
namespace SigmaVerif.Oblig.C19
open SigmaVerif.Valid SigmaVerif.Gen.Valid

/-! ## The registry -/

/-- every registered validator is classified -/
theorem gen_validators_classified :
    (registry.map (·.1)).all (fun i => modelled.contains i || notModelled.contains i) = true := by decide

/-- nothing is classified twice, nothing is classified that is not registered -/
theorem gen_classification_exact :
    (modelled ++ notModelled).all (registry.map (·.1)).contains = true ∧ (modelled ++ notModelled).Nodup := by
  decide

/-- the modelled validators are the classes the model was written from -/
theorem gen_modelled_classes :
    (registry.filter (fun r => modelled.contains r.1)).map (fun r => (r.1, r.2.1, r.2.2)) =
      [("dangling_condition", "DanglingConditionValidator", "condition"),
       ("dangling_detection", "DanglingDetectionValidator", "condition"),
       ("duplicate_filename", "DuplicateFilenameValidator", "metadata"),
       ("duplicate_title", "DuplicateTitleValidator", "metadata"),
       ("identifier_uniqueness", "IdentifierUniquenessValidator", "metadata")] := by decide

/-! ## Validation only observes -/

/-- no method of any validator class mutates what it is handed -/
theorem gen_validators_only_observe : mutations = [] := by decide

/-- the scan looked at something: all registered classes (and their bases) were scanned -/
theorem gen_scan_covers_registry :
    (registry.map (·.2.1)).all scannedClasses.contains = true ∧ registry.length ≤ scannedMethods := by decide

/-- every method the validators call on observed objects is a reviewed pure observer -/
theorem gen_called_methods_reviewed : calledOnObserved.all knownObservers.contains = true := by decide

/-! ## Reference validators -/

/-- both walk the raw parse tree (`parse(False)`: no post-processing, the tree `PT` of the model),
resolve a selector node with `resolve_referenced_detections` and nothing else, and report their issues
in sorted order -/
theorem gen_reference_validators :
    refValidators =
      [("DanglingDetectionValidator", ["ConditionIdentifier", "ConditionSelector", "ConditionItem"],
        ["resolve_referenced_detections"], ["sorted"], ["False"]),
       ("DanglingConditionValidator", ["ConditionSelector", "ConditionItem"],
        ["resolve_referenced_detections"], ["sorted"], ["False"])] := by decide

/-- selector and identifier nodes are condition items themselves, so the order of the tests of the walk
matters: the specific node kinds are tested before the generic one -/
theorem gen_specific_tests_first :
    selectorIsItem = true ∧ identifierIsItem = true ∧
    refValidators.all (fun r => r.2.1.getLast? == some "ConditionItem") = true := by decide

/-- instantiation of `dangling_detection_iff` / `dangling_selector_iff` (the model the facts above tie
to the two classes) -/
theorem gen_dangling_exact (dets : List Cond.Str) (conds : List Cond.PT) :
    (∀ d, d ∈ danglingDetections dets conds ↔ d ∈ dets ∧ ∀ c ∈ conds, d ∉ referenced dets c) ∧
    (∀ pat, pat ∈ danglingConditions dets conds ↔
      ∃ c ∈ conds, Lemmas.Valid.HasSel c pat ∧ ∀ d ∈ dets, Cond.selMatches pat d = false) :=
  ⟨Props.C19.dangling_detection_iff dets conds, Props.C19.dangling_selector_iff dets conds⟩

/-! ## Uniqueness validators -/

/-- grouped by id / title / file name (rules without the value are skipped), a group is reported
when it has more than one member, one issue per group -/
theorem gen_uniqueness_validators :
    uniqueness =
      [("IdentifierUniquenessValidator", ["RULE.id"], "RULE.id is not None", ["> 1"], ["items"]),
       ("DuplicateTitleValidator", ["RULE.title"], "RULE.title is not None", ["> 1"], ["items"]),
       ("DuplicateFilenameValidator", ["RULE.source.path.name"], "RULE.source is not None", ["> 1"], ["items"])] := by
  decide

/-- instantiation of `groups_exact` with the regenerated threshold: "more than 1" is the model's
`2 ≤` -/
theorem gen_groups_exact (keys : List (Option Nat)) (k : Nat) (is : List Nat) :
    (k, is) ∈ groups keys ↔
      is = (List.range keys.length).filter (fun i => keys.getD i none == some k) ∧ is.length > 1 :=
  Props.C19.groups_exact keys k is

/-! ## `SigmaValidator` -/

/-- a validator is skipped for a rule iff its class is in the exclusion set stored under the rule's id -/
theorem gen_exclusion_test :
    exclusionTest = "VALIDATOR.__class__ not in SELF.exclusions[RULE.id]" ∧
    runsCall = ["VALIDATOR.validate(RULE)"] := by decide

/-- validators run, and are finalised, in the order of the configured list (deduplicated keeping the
first occurrence); all rules are validated before anything is finalised -/
theorem gen_validator_order :
    validatorsIter = "SELF.validators" ∧ finalizeIter = ["SELF.validators"] ∧
    validatorsBuilt = ["dict.fromkeys(ARG)"] ∧ validateRulesOrder = ["validate_rule", "finalize"] := by decide

/-- instantiation of `runs_iff` -/
theorem gen_runs_iff (excl : List (Option Nat × Nat)) (ruleId : Option Nat) (v : Nat) :
    runs excl ruleId v = true ↔ (ruleId, v) ∉ excl := Props.C19.runs_iff excl ruleId v

end SigmaVerif.Oblig.C19
