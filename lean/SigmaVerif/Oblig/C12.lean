import SigmaVerif.Gen.Transf
import SigmaVerif.Spec.Rewrite
/-! Obligations for C12: the transformations registered *now* are all classified, and the covered
ones have only parameters the descriptions sent to the Lean rewrite know about.  A transformation
or a parameter added to the code breaks one of these until it is classified in `Spec/Rewrite.lean`. -/
namespace SigmaVerif.Oblig.C12
open SigmaVerif.Rewrite

/-- every registered identifier is covered by a Lean rewrite, by the rule semantics (placeholders),
or listed in `notCovered` -/
theorem gen_transformations_classified : classified SigmaVerif.Gen.Transf.ids = true := by decide

/-- no identifier is classified twice and nothing is classified that is not registered -/
theorem gen_classification_exact :
    (covered ++ coveredBySemantics ++ notCovered).all SigmaVerif.Gen.Transf.ids.contains = true ∧
    (covered ++ coveredBySemantics ++ notCovered).Nodup := by decide

/-- the covered transformations have no parameter the rewrites do not know -/
theorem gen_params_known : paramsKnown SigmaVerif.Gen.Transf.params = true := by decide

end SigmaVerif.Oblig.C12
