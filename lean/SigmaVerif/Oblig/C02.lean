import SigmaVerif.Gen.Cond
import SigmaVerif.Model.Cond
import SigmaVerif.Props.C02
/-! Obligations tying what `sigma/conditions.py` says *now* (regenerated `Gen.Cond`) to the
hypotheses of the C02 theorems. -/
namespace SigmaVerif.Oblig.C02
open SigmaVerif.Cond SigmaVerif.CondSpec

/-- the grammar read from the live source satisfies the decidable well-formedness predicate the
theorems assume: operators are keywords whose identifier characters cover those of names, … -/
theorem gen_grammar_wf : SigmaVerif.Gen.Cond.grammar.wf = true := by decide

/-- pyparsing skips exactly the whitespace characters the model skips -/
theorem gen_white_chars : sameChars SigmaVerif.Gen.Cond.whiteChars wsChars = true := by decide

/-- the character sets are the ones the specification reader (`CondSpec.read`) uses -/
theorem gen_grammar_equiv_std : SigmaVerif.Gen.Cond.grammar.equiv stdGrammar = true := by decide

/-- C02 instantiated at the grammar the code has *now*: every canonical spelling is parsed to
the meaning it spells -/
theorem gen_parse_pp (e : E) (he : e.wf SigmaVerif.Gen.Cond.grammar = true) :
    ∃ t, parse SigmaVerif.Gen.Cond.grammar (pp 2 e) = some t ∧ ∀ dets ρ, semPT dets ρ t = e.sem dets ρ :=
  SigmaVerif.Props.C02.parse_pp _ gen_grammar_wf e he

/-- … and every detection name is read as a whole word -/
theorem gen_name_whole_word (n : Str) (hn : wfName SigmaVerif.Gen.Cond.grammar n = true) :
    parse SigmaVerif.Gen.Cond.grammar n = some (.id n) :=
  SigmaVerif.Props.C02.name_whole_word _ gen_grammar_wf n hn

end SigmaVerif.Oblig.C02
