import SigmaVerif.Gen.Cond
import SigmaVerif.Model.Cond
/-! Obligations tying what `sigma/conditions.py` says *now* (regenerated `Gen.Cond`) to the
hypotheses of the C02 theorems. -/
namespace SigmaVerif.Oblig.C02
open SigmaVerif.Cond

/-- the grammar read from the live source is the one the theorems are proved for -/
theorem gen_grammar_equiv_std : SigmaVerif.Gen.Cond.grammar.equiv stdGrammar = true := by decide

/-- pyparsing skips exactly the whitespace characters the model skips -/
theorem gen_white_chars : sameChars SigmaVerif.Gen.Cond.whiteChars wsChars = true := by decide

end SigmaVerif.Oblig.C02
