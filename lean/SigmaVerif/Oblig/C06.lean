import SigmaVerif.Gen.Ser
import SigmaVerif.Props.C06
/-! Obligations tying the serialisation code as it is *now* to the C06 model:
the identifiers modifier classes are written with, the places where transformations touch
`original_value`, and the behaviour of `from_mapping`/`to_plain`, `from_definition`/`to_plain` and of
the date reader/writer on fixed batteries evaluated by the live code at translation time. -/
namespace SigmaVerif.Oblig.C06
open SigmaVerif SigmaVerif.Ser SigmaVerif.Mods SigmaVerif.SStrSpec SigmaVerif.Props.C06

/-- `canon` is `reverse_modifier_mapping ∘ modifier_mapping`, and the model knows exactly the live identifiers -/
theorem gen_canon_ok :
    Gen.Ser.canonTable.all (fun r => canon r.1.toList == r.2.toList && known r.1.toList) = true := by decide
theorem gen_canon_complete :
    (valueModifiers ++ listModifiers).all (fun m => Gen.Ser.canonTable.any (fun r => r.1 == m)) = true := by decide

/-- the classification behind `disable` / `valueTouch` / `rename` / `split` of the model: these, and
only these, places of the transformations package call `disable_conversion_to_plain()` or assign
`original_value`, under these conditions -/
theorem gen_touch_sites : Gen.Ser.touchSites = [
    ("base", "DetectionItemTransformation", "apply_detection", "disable", "isinstance(r, SigmaDetectionItem)"),
    ("base", "FieldMappingTransformationBase", "apply_detection", "disable",
      "isinstance(r, SigmaDetectionItem) and r.value is not value_before"),
    ("base", "FieldMappingTransformationBase", "apply_detection_item", "disable",
      "not (isinstance(mapping, str)) && detection_item.original_value is None or fieldref_match or detection_item.field is None"),
    ("base", "FieldMappingTransformationBase", "apply_detection_item", "original_value = detection_item.original_value.copy()",
      "not (isinstance(mapping, str)) && not (detection_item.original_value is None or fieldref_match or detection_item.field is None)"),
    ("base", "ValueTransformation", "apply_detection", "disable",
      "isinstance(r, SigmaDetectionItem) && r.modifiers or not all((type(v) in (SigmaString, SigmaNumber, SigmaBool, SigmaNull) for v in r.value))"),
    ("base", "ValueTransformation", "apply_detection", "original_value = r.value.copy()",
      "isinstance(r, SigmaDetectionItem) && not (r.modifiers or not all((type(v) in (SigmaString, SigmaNumber, SigmaBool, SigmaNull) for v in r.value)))")] := by rfl

/-- the loops that replace detection items: the three base classes, and `drop_detection_item`, which
goes through the inherited loop -/
theorem gen_walkers : Gen.Ser.detectionWalkers = [
    ("DetectionItemTransformation", false), ("FieldMappingTransformationBase", false),
    ("ValueTransformation", false), ("DropDetectionItemTransformation", true)] := by decide

def itemRowOk (r : List Char × PVals × IPlain) : Bool :=
  match fromMapping env0 r.1 r.2.1 with
  | .ok it => (match toPlainItem it with | .ok p => p == r.2.2 | .error _ => false)
  | .error _ => false

/-- the model writes what the live `to_plain` writes, on the item battery … -/
theorem gen_items_ok : Gen.Ser.itemRows.all itemRowOk = true := by decide
/-- … whose rows satisfy the side condition of `item_roundtrip`, so that the theorem applies to them -/
theorem gen_items_in_domain : Gen.Ser.itemRows.all (fun r => valsOk r.1 r.2.1) = true := by decide

def detRowOk (r : PDef × (PDef ⊕ Err)) : Bool :=
  match fromDef env0 r.1 with
  | .error _ => false
  | .ok d =>
    match toPlainDet d, r.2 with
    | .ok q, .inl e => q.beq e
    | .error x, .inr c => x == c
    | _, _ => false

/-- … and on the detection battery (merging of alias keys, mixed and null detections, nesting,
one-element lists) -/
theorem gen_dets_ok : Gen.Ser.detRows.all detRowOk = true := by decide

def mergeRowOk (r : List (List Char × PVals) × (PDef ⊕ Err)) : Bool :=
  match mapE (fun kv => fromMapping env0 kv.1 kv.2) r.1 with
  | .error _ => false
  | .ok its =>
    match toPlainDet (.node (its.map .item) false), r.2 with
    | .ok q, .inl e => q.beq e
    | .error x, .inr c => x == c
    | _, _ => false

/-- … and on detections whose items are written under colliding keys (the key-merging loop: fusion into
`|all`, refusal of value lists and of negated items) -/
theorem gen_merge_ok : Gen.Ser.mergeRows.all mergeRowOk = true := by decide

/-- the two accepted date spellings -/
theorem gen_date_regexps : Gen.Ser.dateRegexps =
    ["([1-3][0-9][0-9][0-9])-([01][0-9])-([0-3][0-9])", "([1-3][0-9][0-9][0-9])/([01]?[0-9])/([0-3]?[0-9])"] := by decide

/-- reading and writing dates: accepted texts are written in ISO spelling, the others are rejected -/
theorem gen_dates_ok : Gen.Ser.dateRows.all (fun r => (parseDate r.1).map printDate == r.2) = true := by decide

end SigmaVerif.Oblig.C06
