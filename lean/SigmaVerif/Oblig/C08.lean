import SigmaVerif.Gen.Pipe
/-! Obligations for C08/C15: everything `ProcessingPipeline` keeps per rule is reset before the
first item of the next rule runs. -/
namespace SigmaVerif.Oblig.C08

/-- every per-invocation field (`init=False`) is re-initialised at the top of `apply` -/
theorem gen_reset_covers_state :
    SigmaVerif.Gen.Pipe.perRuleFields.all SigmaVerif.Gen.Pipe.resetFields.contains = true := by decide

end SigmaVerif.Oblig.C08
