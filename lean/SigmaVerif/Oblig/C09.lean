import SigmaVerif.Gen.Coll
import SigmaVerif.Props.C09
/-!
# C09 obligations over the shapes regenerated from the source (`Gen/Coll.lean`)

The model (`Model/Coll.lean`) is a hand translation of `SigmaCollection._sort_by_references`,
`SigmaCollection.__getitem__/__post_init__/resolve_rule_references/load_ruleset` and
`SigmaCorrelationRule.resolve_rule_references`.  What it takes from the code — which attribute the
ordering walks, that it is the attribute reference resolution fills and resolves, the shape of the
visit, the guard under which output is disabled, the lookup tables and their order — is read from the
source on every run; a change there breaks one of the facts below.  The graph `g` of the ordering
theorems is the one these facts describe: `g v` = the rules `referenced_rules` of rule `v` resolve to.
-/
namespace SigmaVerif.Oblig.C09
open SigmaVerif.Coll SigmaVerif.Gen.Coll

/-! ## The ordering -/

/-- the visit is the model's: guard, mark, recurse, emit (post-order; marking before the recursion
is what makes it terminate on cycles) -/
theorem gen_visit_shape : visitSteps = visitShape := by decide

/-- the visited set holds object identities, and the guard tests what the mark stores (the model
uses document positions, i.e. identity, not equality of rules) -/
theorem gen_visited_by_identity : guardKey = "id(RULE)" ∧ visitedKey = guardKey := by decide

/-- the edges the ordering follows are the *resolved* references: the attribute walked by the
ordering is the one `resolve_rule_references` iterates, assigns on every path, and resolves; an
element leads to its rule through `.rule`, which `SigmaRuleReference.resolve` sets from the
collection lookup -/
theorem gen_sort_walks_resolved_references :
    sortEdges = resolveIterates ∧ resolveAssigns.contains resolveIterates = true ∧ allPathsAssign = true ∧
    sortDeref = "rule" ∧ resolveFacts.contains "REF.resolve(COLL)" = true ∧
    refResolve = ["rule = COLL[SELF.reference]"] := by decide

theorem gen_sort_edges : sortEdges = "referenced_rules" := by decide

/-- every rule of the list is a root of the walk, in list order -/
theorem gen_sort_outer_loop : sortOuterLoop = true := by decide

/-- sorting is the last stage of `resolve_rule_references`, after all references are resolved -/
theorem gen_resolve_stages :
    resolveStages.head? = some "resolve" ∧ resolveStages.getLast? = some "sort" ∧
    resolveStages.all (fun s => s == "resolve" || s == "filters" || s == "sort") = true := by decide

/-- instantiation of `order_topological` for the graph the facts above describe: for every closed
acyclic reference graph, each referenced rule precedes the rules referring to it -/
theorem gen_order_topological (n : Nat) (graph : List (List Nat)) (hc : Closed n (graphFn graph))
    (hacyc : Acyclic n (graphFn graph)) :
    ∀ v, v < n → ∀ w ∈ graphFn graph v, (order n (graphFn graph)).idxOf w < (order n (graphFn graph)).idxOf v :=
  Props.C09.order_topological n (graphFn graph) hc hacyc

/-! ## Lookup -/

/-- a string key is tried as an id first and as a name only if it is not UUID-shaped; a UUID key is
looked up in the id table (the model keeps names and ids in disjoint key spaces) -/
theorem gen_lookup_order :
    strLookup = ["ids_to_rules[UUID(key)]", "names_to_rules[key]"] ∧ strFallback = "ValueError" ∧
    uuidLookup = ["ids_to_rules[key]"] := by decide

/-- a miss is a `SigmaRuleNotFoundError` (`resolveDoc = none`) -/
theorem gen_lookup_miss :
    notFound = ["IndexError->SigmaRuleNotFoundError", "KeyError->SigmaRuleNotFoundError"] := by decide

/-- the tables are filled by plain item assignment in document order — a later document with the
same key replaces an earlier one (`lookup` takes the last) — and resolution starts only after all
documents are registered (`resolveAll` resolves against the whole list) -/
theorem gen_registration :
    registrations = [("ids_to_rules", "id"), ("names_to_rules", "name")] ∧ resolveAfterRegistration = true := by
  decide

/-- `load_ruleset` loads every file and merges without resolving, then resolves once -/
theorem gen_load_ruleset_single_pass :
    loadRulesetKeywords = [("from_yaml", "False"), ("merge", "False")] ∧
    loadRulesetFinalGuard = ["resolve_references"] := by decide

/-! ## The output flag -/

/-- `_output` starts as `true` and the only assignment in the whole package sets it to `False`
(`disable_output`): the flag only ever goes off -/
theorem gen_output_monotone :
    outputDefault = true ∧
    outputWrites = [("sigma/rule/base.py", "SigmaRuleBase.disable_output", "False")] := by decide

/-- the only caller of `disable_output` is reference resolution, on the referenced rule, guarded by
`not self.generate` -/
theorem gen_output_disabled_only_by_references :
    disableCalls = [("sigma/correlations.py", "SigmaCorrelationRule.resolve_rule_references")] ∧
    disableFacts = ["REF.rule.disable_output() if not generate"] := by decide

/-- the guard as data: output is disabled by a referring rule whose `generate` is … -/
def genDisableWhen : Bool := !disableFacts.contains "REF.rule.disable_output() if not generate"

theorem gen_disable_when : genDisableWhen = false := by decide

theorem outputFlagBy_false (docs : List Doc) (graph : List (List Nat)) (i : Nat) :
    outputFlagBy false docs graph i = outputFlag docs graph i := by
  unfold outputFlagBy outputFlag
  congr 2
  funext j
  cases (docs.getD j ⟨[], [], false⟩).generate <;> rfl

/-- instantiation of `output_flag_exact` at the regenerated guard -/
theorem gen_output_flag_exact (docs : List Doc) (graph : List (List Nat)) (i : Nat)
    (hu : KeysUnique docs) (hr : resolveAll docs = some graph) (hi : i < docs.length) :
    outputFlagBy genDisableWhen docs graph i = true ↔ ¬ Suppressed docs (docs.getD i dflt) := by
  rw [gen_disable_when, outputFlagBy_false]
  exact Props.C09.output_flag_exact docs graph i hu hr hi

end SigmaVerif.Oblig.C09
