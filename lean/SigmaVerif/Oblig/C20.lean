import SigmaVerif.Gen.Det
import SigmaVerif.Props.C20
/-!
# C20 obligations over the tables regenerated from the source (`Gen/Det.lean`)

A change of the code that makes a set reach text or a list in enumeration order, that changes the
random-name generators, or that makes `_generate_identifier` depend on object identity, breaks one of
these `by decide` facts.
-/
namespace SigmaVerif.Oblig.C20
open SigmaVerif.Cond SigmaVerif.Det SigmaVerif.Gen.Det

/-- Order-revealing consumptions of a set that were reviewed and are order-insensitive although the
syntactic criterion cannot see it (file, function, kind of consumption):

* `correlations.py` `SigmaCorrelationCondition.from_dict`: `for op in …operators(): if op in d: … break`
  — the preceding test `len(d_keys.intersection(ops)) != 1` guarantees exactly one operator key, so
  exactly one iteration passes the guard whatever the order.
* `tracking.py` `FieldMappingTracking.merge`: `list(target_set)` is handed to `add_mapping`, which
  only performs set updates with it (`tracking_merge_perm` / `addMapping_congr` prove that the
  resulting state does not depend on the order). -/
def reviewed : List (String × String × String) := [
  ("sigma/correlations.py", "SigmaCorrelationCondition.from_dict", "for"),
  ("sigma/processing/tracking.py", "FieldMappingTracking.merge", "list")
]

/-- sites still waiting for a decision (fix or finding); must stay empty -/
def pending : List (String × String × String) := []

/-- **Every order-revealing consumption of a set goes through `sorted`** (or is a reviewed,
order-insensitive one). -/
theorem every_ordered_site_sorted :
    sites.all (fun s => !s.ordered || s.sorted || reviewed.contains s.key || pending.contains s.key) = true := by
  decide

theorem nothing_pending : pending = [] := rfl

/-- the reviewed exceptions still exist in the source (no stale entry) -/
theorem reviewed_sites_exist : reviewed.all (fun k => sites.any (fun s => s.key == k)) = true := by decide

/-- no `for` variable over a set is read after its loop (the shape of the defect fixed in `2178638`) -/
theorem no_loop_variable_escapes : sites.all (fun s => !s.loopVarEscapes) = true := by decide

/-- nothing the inference could not classify is left unreviewed -/
theorem nothing_unclassified : unclassified = [] := by decide

/-- the sites the model renders (`Model/Det.lean`) are in the table and sorted: regular expression
flags, unknown correlation keys, unreferenced pipeline conditions, unmapped fields, dangling
detections / conditions -/
theorem modelled_sites_sorted :
    [("sigma/types.py", "SigmaRegularExpression.escape"),
     ("sigma/correlations.py", "SigmaCorrelationCondition.from_dict"),
     ("sigma/processing/pipeline.py", "ProcessingItemBase._resolve_condition_expression"),
     ("sigma/processing/transformations/failure.py", "StrictFieldMappingFailure.apply"),
     ("sigma/validators/core/condition.py", "DanglingDetectionValidator.validate"),
     ("sigma/validators/core/condition.py", "DanglingConditionValidator.validate")].all
      (fun k => sites.any (fun s => s.file == k.1 && s.func == k.2 && s.sorted)) = true := by decide

/-- the two generators of internal names are the modelled ones: prefix, alphabet, length -/
theorem random_names_as_modelled :
    randNames.map (fun r => (r.func, r.pfx.toList, r.alphabet.toList, r.length)) =
      [("SigmaFilter.apply_on_rule", filtPrefix, lowercase, drawLen),
       ("AddConditionTransformation", condPrefix, lowercase, drawLen)] := by decide

/-- there is no other use of a random source in the package -/
theorem no_other_random_source : otherRandom = [] := by decide

/-- drawn names are spellable detection names of the regenerated condition grammar's shape (letters
of the alphabet and the prefix characters are identifier characters), start with an underscore and
contain no `*` -/
theorem random_names_are_identifiers :
    randNames.all (fun r =>
      (r.pfx.toList ++ r.alphabet.toList).all (fun c => stdGrammar.identChars.contains c && c != '*') &&
      r.pfx.toList.head? == some '_') = true := by decide

/-- `_generate_identifier` calls neither `id` nor `hash` nor `repr` outside its unreachable-in-practice
fallback (`str(id(self))` when there is nothing to hash), and renders the attribute dict sorted -/
theorem generate_identifier_identity_free : genIdIdentityCalls = [] ∧ genIdSortsDictItems = true := by decide

/-- instantiation of the general theorem at the generated generator: any two names the
`AddConditionTransformation` generator can draw satisfy the hypotheses of
`drawn_condition_name_irrelevant` about the names themselves -/
theorem drawn_names_wf (n : Str)
    (h : isDrawn "_cond_".toList "abcdefghijklmnopqrstuvwxyz".toList 10 n) :
    SigmaVerif.CondSpec.wfName stdGrammar n = true ∧ n.length = 16 ∧ n.head? = some '_' :=
  SigmaVerif.Lemmas.C20.drawn_wfName n h

end SigmaVerif.Oblig.C20
