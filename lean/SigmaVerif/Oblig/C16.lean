import SigmaVerif.Gen.Caps
import SigmaVerif.Props.C16
/-!
# Obligations for C16 over the configuration regenerated from the source (`Gen/Caps.lean`)

The decidable side conditions of the theorems of `Props/C16.lean` are checked by `decide` for the loader as it is
*now*, and the theorems are instantiated there.  A change of the strip sets, of the overwriting assignments, of
the forwarded arguments, of the environment test or of the containment test breaks the corresponding line.
Reordering keys, adding classes without capability fields or adding further stripped keys does not.
-/
namespace SigmaVerif.Oblig.C16
open SigmaVerif.Caps SigmaVerif.Props.C16

abbrev G : Cfg := SigmaVerif.Gen.Caps.cfg

/-- no opt-in key of a document reaches a constructor: at every site, for every registered class, every opt-in key
the class accepts is stripped or overwritten with the caller's value -/
theorem gen_safe : G.safe = true := by decide

/-- first line of defence, as the code comments state it ("Strip untrusted YAML value"): every site strips every
opt-in key that a class of its registry accepts -/
theorem gen_strips : G.strips = true := by decide

/-- second line of defence: the caller's values are assigned after the filter, for template classes at all three
sites and for external-source classes at the item site -/
theorem gen_overwrites : G.overwrites = true := by decide

/-- the base directories travel with the permission wherever a template class can be instantiated -/
theorem gen_basesSafe : G.basesSafe = true := by decide

/-- the caller's opt-ins reach the top-level items of each section and every level of nested finalizers -/
theorem gen_optin_reaches : G.fwdT.aes = true ∧ G.fwdPP.atv = true ∧ G.fwdPP.vap = true ∧ G.fwdFin.atv = true ∧
    G.fwdFin.vap = true ∧ G.fwdTopNestF.atv = true ∧ G.fwdTopNestF.vap = true ∧ G.fwdNestF.atv = true ∧
    G.fwdNestF.vap = true := by decide

/-- the environment gates: value lower-cased, accepted exactly "1" and "true" -/
theorem gen_env : G.envLower = true ∧ (∀ v, v ∈ G.envAccepted ↔ v = "1".toList ∨ v = "true".toList) := by
  refine ⟨by decide, fun v => ?_⟩
  have : G.envAccepted = ["1".toList, "true".toList] := by decide
  rw [this]; simp

/-- the containment test appends the separator and admits the base itself -/
theorem gen_path : G.pathSep = true ∧ G.pathEq = true := by decide

/-- `from_yaml` derives the base from `source_path`; the resolver passes `source_path` and nothing else -/
theorem gen_derives : G.derivesBase = true ∧ SigmaVerif.Gen.Caps.resolverKeywords = ["source_path"] := by decide

theorem gen_env_names : SigmaVerif.Gen.Caps.envNames = ["PYSIGMA_ALLOW_VARS_EXECUTION", "PYSIGMA_ALLOW_EXTERNAL_SOURCES"] := by
  decide

/-- finalizer loops assign nothing for external-source classes (shape assumption of the model) -/
theorem gen_fin_sites : G.finTop.injExt = [] ∧ G.finNested.injExt = [] := by decide

/-! ### the theorems at the generated configuration -/

/-- stored capability values on every object of a pipeline loaded by the real registries and sites come from the
caller only -/
theorem gen_caps_from_caller_only (w : World) (c : Caller) (d : Doc) (p : PObj) (hp : (load G w c d).res = .ok p)
    (o : Obj) (ho : o ∈ p.all) :
    (o.atv = .bool false ∨ o.atv = .bool c.atv) ∧ (o.aes = .bool false ∨ o.aes = .bool c.aes) ∧
    (o.vap = .null ∨ o.vap = vapVal c.vap) :=
  caps_from_caller_only G gen_safe w c d p hp o ho

/-- default arguments, environment variables unset / "0" / anything but 1 or true: no effect, for every document -/
theorem gen_default_caller_no_events (w : World) (c : Caller) (d : Doc) (h1 : c.atv = false) (h2 : c.aes = false)
    (he1 : envOn G w.envVars = false) (he2 : envOn G w.envExt = false) : events G w c d = [] :=
  default_caller_no_events G gen_safe w c d h1 h2 he1 he2

theorem gen_resolver_no_events (w : World) (path : Str) (d : Doc) (he1 : envOn G w.envVars = false)
    (he2 : envOn G w.envExt = false) : (resolveFile G w path d).evs = [] :=
  resolver_no_events G gen_safe w path d he1 he2

/-- the three opt-in keys are invisible in transformation and post-processing dicts at every depth, the two
template keys in finalizer dicts at every depth -/
theorem gen_noninterference (w : World) (c : Caller) (d d' : Doc) (hk : d.keys = d'.keys)
    (h1 : Node.scrubL optInKeys d.ts = Node.scrubL optInKeys d'.ts)
    (h2 : Node.scrubL optInKeys d.pps = Node.scrubL optInKeys d'.pps)
    (h3 : Node.scrubL [kAtv, kVap] d.fs = Node.scrubL [kAtv, kVap] d'.fs) : load G w c d = load G w c d' :=
  caps_noninterference G optInKeys [kAtv, kVap] (by decide) (by decide) (by decide) w c d d' hk h1 h2 h3

/-- with bases in force no vars file outside them is executed -/
theorem gen_vars_outside_base_never_executed (w : World) (c : Caller) (bs : List Str) (hbs : c.vap = some bs)
    (d : Doc) (p : Str) (hm : Event.exec p ∈ events G w c d) :
    ∃ b ∈ bs, (w.realpath b ++ ['/']) <+: p ∨ p = w.realpath b :=
  vars_outside_base_never_executed G gen_basesSafe gen_path.1 w c bs hbs d p hm

theorem gen_vars_outside_file_directory_never_executed (w : World) (c : Caller) (sp : Str) (h1 : c.vap = none)
    (h2 : c.sourcePath = some sp) (d : Doc) (p : Str) (hm : Event.exec p ∈ events G w (c.effective G w) d) :
    (w.realpath (w.dirname (w.realpath sp)) ++ ['/']) <+: p ∨ p = w.realpath (w.dirname (w.realpath sp)) :=
  vars_outside_file_directory_never_executed G gen_basesSafe gen_path.1 gen_derives.1 w c sp h1 h2 d p hm

/-- the environment truth table on the generated gate -/
theorem gen_env_table :
    envOn G none = false ∧ envOn G (some "0".toList) = false ∧ envOn G (some "yes".toList) = false ∧
    envOn G (some "".toList) = false ∧ envOn G (some "1".toList) = true ∧ envOn G (some "true".toList) = true ∧
    envOn G (some "TRUE".toList) = true := by decide

/-- prefix-sharing sibling directory is outside, on the generated containment test -/
theorem gen_prefix_sharing_rejected :
    contained G "/base/dir".toList "/base/dirX/v.py".toList = false ∧
    contained G "/base/dir".toList "/base/dir/v.py".toList = true := by decide

end SigmaVerif.Oblig.C16
