import SigmaVerif.Gen.Mods
import SigmaVerif.Spec.Mods
/-! Obligations tying `modifier_mapping` and the modifiers' type hints as they are *now* to the
C03 specification. -/
namespace SigmaVerif.Oblig.C03
open SigmaVerif.Mods

/-- every modifier identifier of the live table is specified, with the same kind (value/list)
and the same accepted value types, and every specified modifier exists -/
theorem gen_table_ok : tableOk SigmaVerif.Gen.Mods.table = true := by decide

/-- windash: the dash alternatives and their order -/
theorem gen_dashes : SigmaVerif.Gen.Mods.dashes = dashes := by decide

/-- the regular expressions whose semantics `windashMarks` / `expandRunF` implement -/
theorem gen_windash_regex : SigmaVerif.Gen.Mods.windashRegex = "\\B[-/]\\b" := by decide
theorem gen_placeholder_regex : SigmaVerif.Gen.Mods.placeholderRegex = "(?<!\\\\)%(?P<name>[^%]+)%" := by decide

end SigmaVerif.Oblig.C03
