import SigmaVerif.Gen.Compose
import SigmaVerif.Props.C14
/-!
# C14 obligations over the tables regenerated from the source (`Gen/Compose.lean`)

The model of pipeline composition (`Model/Pipe.lean`) bakes in four code-shaped choices: what `+`
does with each constructor argument, the resolver's sort key, the order of the three pipelines a
backend combines, and where a conversion re-initialises the combined pipeline.  The translator reads
them from `ProcessingPipeline.__add__/__radd__`, `ProcessingPipelineResolver.resolve` and
`Backend.init_processing_pipeline/convert/convert_rule` on every run; a change of the code there
breaks one of the `by decide` facts below, and the general theorems of `Props/C14.lean` are
instantiated at the regenerated values (`genKey`, `genShape`, `genOrder`).
-/
namespace SigmaVerif.Oblig.C14
open SigmaVerif.Pipe SigmaVerif.Gen.Compose

/-- the regenerated values, with a harmless default where the shape was not recognised (the
`gen_*_recognised` obligations then fail) -/
def genKey : List KeyComp := sortKey.getD []
def genShape : AddShape :=
  ⟨itemsSelfFirst.getD false, postSelfFirst.getD false, finsSelfFirst.getD false, varsOtherWins.getD false⟩
def genOrder : List Slot := initOrder.getD []

/-! ## `+` -/

/-- every constructor argument `+` passes is computed in a recognised way: the three lists are the
left operand's followed by the right operand's, `vars` is `{**left, **right}` -/
theorem gen_add_fields :
    addFields = [("items", "concat", ["self", "other"]), ("postprocessing_items", "concat", ["self", "other"]),
                 ("finalizers", "concat", ["self", "other"]), ("vars", "merge", ["self", "other"])] := by decide

/-- `+` passes nothing else: the remaining constructor arguments (priority, name, allowed backends)
take their defaults, the model's `P` has exactly the four components -/
theorem gen_add_passes_only_modelled :
    (addFields.map (·.1)).all initFields.contains = true ∧
    initFields.filter (fun f => !(addFields.map (·.1)).contains f) = ["priority", "name", "allowed_backends"] := by
  decide

theorem gen_add_shape_recognised :
    itemsSelfFirst.isSome && postSelfFirst.isSome && finsSelfFirst.isSome && varsOtherWins.isSome = true := by decide

/-- the regenerated shape is the one `P.add` implements -/
theorem gen_add_shape : genShape = AddShape.std := by decide

/-- `+` of the code, as data, is the model's `P.add` -/
theorem gen_add_is_model : P.addBy genShape = P.add := by
  rw [gen_add_shape]; exact Props.C14.addBy_stdShape

/-- `sum` over pipelines starts from nothing and adds from the left: `0 + p = p`, `p + None = p` -/
theorem gen_sum_identity : raddZeroSelf = true ∧ noneReturnsSelf = true := by decide

/-- instantiation: variables of the right operand override those of the left one -/
theorem gen_vars_right_biased (a b : P) (k : Nat) :
    lookupVar (P.addBy genShape a b).vars k = (lookupVar b.vars k).orElse (fun _ => lookupVar a.vars k) := by
  rw [gen_add_is_model]; exact Props.C14.vars_right_biased a b k

/-- instantiation: `+` of the code is associative -/
theorem gen_add_assoc (a b c : P) :
    P.addBy genShape (P.addBy genShape a b) c = P.addBy genShape a (P.addBy genShape b c) := by
  rw [gen_add_is_model]; exact Props.C14.add_assoc a b c

/-! ## The resolver -/

theorem gen_sort_key_recognised : sortKey.isSome = true := by decide

/-- the sort key is (priority of the summed pipeline, specifier string), ascending -/
theorem gen_sort_key : sortKeyRaw = ["priority", "spec"] ∧ genKey = stdKey ∧ sortReverse = false := by decide

/-- what is summed is the pipeline field of the sorted records; no pipeline at all gives the empty one -/
theorem gen_sum_of_sorted : summedField = "pipeline" ∧ emptyDefault = true := by decide

/-- the resolver of the code, as data, is the model's `resolve` -/
theorem gen_resolve_is_model (l : List Spec) : resolveBy genKey l = resolve l := by
  rw [gen_sort_key.2.1]; exact Props.C14.resolveBy_stdKey l

/-- instantiation of `resolveBy_perm` at the regenerated key -/
theorem gen_resolve_perm (l1 l2 : List Spec) (hp : l1.Perm l2)
    (hkey : ∀ a ∈ l1, ∀ b ∈ l1, (∀ k ∈ genKey, k.get a = k.get b) → a = b) :
    resolveBy genKey l1 = resolveBy genKey l2 :=
  Props.C14.resolveBy_perm genKey l1 l2 hp hkey

/-- … whose hypothesis, at the regenerated key, is the one of `resolve_perm`: one (priority,
specifier) denotes one pipeline -/
theorem gen_resolve_perm_hyp (l1 : List Spec)
    (hkey : ∀ a ∈ l1, ∀ b ∈ l1, a.priority = b.priority → a.name = b.name → a = b) :
    ∀ a ∈ l1, ∀ b ∈ l1, (∀ k ∈ genKey, k.get a = k.get b) → a = b :=
  fun a ha b hb h => hkey a ha b hb (h .priority (by decide)) (h .spec (by decide))

/-! ## Backend, user, output format -/

theorem gen_init_order_recognised : initOrder.isSome = true := by decide

theorem gen_init_order :
    initOrderRaw = ["backend_processing_pipeline", "processing_pipeline", "output_format_processing_pipeline"] ∧
    genOrder = stdInitOrder := by decide

/-- instantiation of `backend_order` at the regenerated order -/
theorem gen_backend_order (b u f : P) :
    (initPipelineBy genOrder b u f).items = b.items ++ u.items ++ f.items ∧
    (initPipelineBy genOrder b u f).post = b.post ++ u.post ++ f.post ∧
    (initPipelineBy genOrder b u f).fins = b.fins ++ u.fins ++ f.fins := by
  rw [gen_init_order.2, Props.C14.initPipelineBy_stdOrder]; exact Props.C14.backend_order b u f

/-- the variables the backend writes after summing (its name, the output format, its options): for
these keys `init_vars` does not apply, they override all three pipelines -/
theorem gen_init_var_overrides : initVarOverrides = ["backend", "backend_*", "output_format"] := by decide

/-- `convert` re-initialises the combined pipeline unconditionally before the first rule;
`convert_rule` only when there is none yet -/
theorem gen_init_calls : initCalls = [("convert", false), ("convert_rule", true)] := by decide

/-- stage order: initialise, then rule by rule (transformations, then conversion, then query
finalisation which ends with the post-processing items), then the finalizers -/
theorem gen_stage_order :
    convertCalls = ["init_processing_pipeline", "convert_rule", "finalize"] ∧
    convertRuleCalls = ["apply", "convert_condition", "finalize_query"] ∧
    finalizeQueryCalls = ["postprocess_query"] ∧ finalizeRunsFinalizers = true := by decide

end SigmaVerif.Oblig.C14
