import SigmaVerif.Gen.FilterTok
import SigmaVerif.Model.Filter
/-! Obligations for C11: the constants of the filter condition rewriting as they are *now*. -/
namespace SigmaVerif.Oblig.C11
open SigmaVerif.Filter

/-- the keyword set left unprefixed is the modelled one -/
theorem gen_keywords :
    (SigmaVerif.Gen.FilterTok.keywords.map String.toList).all keywords.contains = true ∧
    keywords.all (SigmaVerif.Gen.FilterTok.keywords.map String.toList).contains = true := by decide

/-- the token pattern is the one `rewriteF` implements (start: alphanumerics, `_`, `*`; body adds `-`) -/
theorem gen_token_regex : SigmaVerif.Gen.FilterTok.tokenRegex = "[a-zA-Z0-9_*][a-zA-Z0-9*_-]*" := by decide

/-- keywords are compared case-sensitively, and injected names start with an underscore -/
theorem gen_keyword_test_case_sensitive : SigmaVerif.Gen.FilterTok.keywordTestLowercases = false := by decide
theorem gen_prefix_underscore : SigmaVerif.Gen.FilterTok.prefixHead.toList.head? = some '_' := by decide

end SigmaVerif.Oblig.C11
