import SigmaVerif.Gen.Cidr
import SigmaVerif.Props.C18
/-!
# C18 obligations over the constants regenerated from the source (`Gen/Cidr.lean`)

`Model/Cidr.lean` fixes the alignment step of `SigmaCIDRExpression.expand` (8 bits = one decimal
group for IPv4, 4 bits = one hexadecimal digit for IPv6), the number of IPv4 groups, the separator,
the wildcard and what the pieces of a pattern are computed from.  The translator reads them from the
function body on every run (local variables are inlined, the loop variables are renamed, so renaming
them changes nothing); the theorems of `Props/C18.lean` are instantiated for the expansion with the
regenerated constants (`expand4S shape4`, `expand6By shape6`).
-/
namespace SigmaVerif.Oblig.C18
open SigmaVerif.Cidr SigmaVerif.Gen.Cidr

/-! ## IPv4 -/

/-- alignment to the next multiple of 8 bits, group index = prefix length div 8, four groups,
separated by '.', wildcard '*' -/
theorem gen_v4_shape : shape4 = Shape4.std := by decide

/-- all three constants of the alignment expression and the group divisor are one and the same step -/
theorem gen_v4_step_consistent :
    shape4.alignSub = shape4.alignMod ∧ shape4.alignMod = shape4.alignWrap ∧ shape4.alignWrap = shape4.groupDiv ∧
    shape4.groupDiv * shape4.groups = 32 ∧ zeroTest4 = 0 := by decide

/-- the three cases append: the wildcard alone; the first `g` groups of the subnet's address, the
separator and the wildcard; the whole address -/
theorem gen_v4_pieces :
    pieces4 = ["WILD", "'.'.join(str(SUB.network_address).split('.')[:SUB.prefixlen // D]) + '.' + WILD",
               "str(SUB.network_address)"] := by decide

/-- the expansion with the regenerated constants is the modelled one -/
theorem gen_v4_expand_is_model (base p : Nat) : expand4S shape4 base p = expand4 base p := by
  rw [gen_v4_shape]; exact expand4S_std base p

/-- instantiation of `v4_exact` -/
theorem gen_v4_exact (base p a : Nat) (hp : p ≤ 32) (hb : base < 2 ^ 32)
    (hal : base % 2 ^ (32 - p) = 0) (ha : a < 2 ^ 32) :
    matches4S shape4 base p a = inNet 32 base p a := by
  rw [gen_v4_shape, matches4S_std]; exact Props.C18.v4_exact base p a hp hb hal ha

/-- instantiation of `v4_nodup` -/
theorem gen_v4_nodup (base p : Nat) (hp : p ≤ 32) (hb : base < 2 ^ 32)
    (hal : base % 2 ^ (32 - p) = 0) : (expand4S shape4 base p).Nodup := by
  rw [gen_v4_expand_is_model]; exact Props.C18.v4_nodup base p hp hb hal

/-- the step matters: with 4 instead of 8 (and nothing else changed) 10.0.0.0/12 would be expanded
to the single pattern `10.*`, which matches 10.16.0.0 — outside the network -/
theorem v4_step_4_unsound :
    matches4S { Shape4.std with alignSub := 4, alignMod := 4, alignWrap := 4 } (10 * 2 ^ 24) 12
      (10 * 2 ^ 24 + 16 * 2 ^ 16) = true ∧ inNet 32 (10 * 2 ^ 24) 12 (10 * 2 ^ 24 + 16 * 2 ^ 16) = false := by
  simp only [matches4S, glob_eq_globS]
  decide +kernel

/-! ## IPv6 -/

theorem gen_v6_shape : shape6 = Shape6.std := by decide

/-- the pattern is cut at the first character in which the texts of the first and the last address of
the subnet differ (scan over the first text, stop at the first hit); no difference = a single
address, which is emitted whole -/
theorem gen_v6_cut :
    scanOver6 = "range(len(str(SUB.network_address)))" ∧
    scanTest6 = "str(SUB.network_address)[IDX] != str(SUB.broadcast_address)[IDX]" ∧
    scanBreaks6 = true ∧ flagOk6 = true ∧
    withWildcard6 = "str(SUB)[:IDX] + WILD" ∧ withoutWildcard6 = "str(SUB.network_address)" := by decide

theorem gen_v6_expand_is_model (base p : Nat) : expand6By shape6 base p = expand6 base p := by
  rw [gen_v6_shape]; exact expand6By_std base p

/-- instantiation of the recorded IPv6 defect: the expansion with the regenerated constants misses
2001:db8::ff in 2001:db8::/120 -/
theorem gen_v6_incomplete_120 :
    (expand6By shape6 (0x20010db8 * 2 ^ 96) 120).any
      (fun pat => glob pat (render6 (0x20010db8 * 2 ^ 96 + 255))) = false := by
  rw [gen_v6_expand_is_model]; exact Props.C18.v6_incomplete_120

/-! ## Parsing and the native template -/

/-- the network is what `ipaddress.ip_network` makes of the text (strict: host bits are an error),
and its `ValueError` becomes a Sigma type error -/
theorem gen_network_from : networkFrom = ["ip_network(SELF.cidr)"] ∧ reject = ["ValueError->SigmaTypeError"] := by
  decide

/-- the native template receives the *normalised* network: `{value}` is `str(network)`, `{network}`,
`{prefixlen}`, `{netmask}` are attributes of the same network object; `{field}` is the condition's
field -/
theorem gen_template_args :
    template = [("field", "COND.field"), ("value", "str(COND.value.network)"),
                ("network", "COND.value.network.network_address"),
                ("prefixlen", "COND.value.network.prefixlen"), ("netmask", "COND.value.network.netmask")] := by
  decide

/-- without a template the backend expands with the default wildcard (no argument) -/
theorem gen_expand_default_wildcard : expandCall = ["COND.value.expand()"] := by decide

end SigmaVerif.Oblig.C18
