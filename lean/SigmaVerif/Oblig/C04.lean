import SigmaVerif.Gen.B64
import SigmaVerif.Model.B64
import SigmaVerif.Props.C04
/-! Obligations tying `SigmaBase64OffsetModifier` as it is *now* to the hypotheses of the C04
theorems. -/
namespace SigmaVerif.Oblig.C04
open SigmaVerif.B64

/-- the offset tables read from the live class are sound (at least as conservative as the
minimal ones) -/
theorem gen_tables_sound : SigmaVerif.Gen.B64.tables.sound = true := by decide

/-- the cut-off is selected by the byte length of the value (the theorems use `v.length` of the
byte string) -/
theorem gen_len_is_bytes : SigmaVerif.Gen.B64.lenIsBytes = true := by decide

/-- the filler in front of the payload is a single byte (any byte works: `b64offset_payload_only`) -/
theorem gen_pad_single : SigmaVerif.Gen.B64.pad.length = 1 := by decide

/-- C04 completeness instantiated at the tables the code has *now* -/
theorem gen_b64offset_complete (p v s : List Byte) :
    (b64offsetAt SigmaVerif.Gen.B64.tables v.length v (p.length % 3)) <:+: b64 (p ++ v ++ s) :=
  SigmaVerif.Props.C04.b64offset_complete _ gen_tables_sound p v s

/-- … and the produced values consist of payload bits only -/
theorem gen_b64offset_payload_only (v : List Byte) (i : Nat) (hi : i < 3) :
    '=' ∉ b64offsetAt SigmaVerif.Gen.B64.tables v.length v i :=
  SigmaVerif.Props.C04.b64offset_payload_only _ gen_tables_sound v i hi

/-- … and every payload of a value list is found, at the tables the code has *now* -/
theorem gen_b64offset_list_complete (vs : List (List Byte)) (v : List Byte) (hv : v ∈ vs) (p s : List Byte) :
    ∃ x ∈ b64offsetList SigmaVerif.Gen.B64.tables vs, x <:+: b64 (p ++ v ++ s) :=
  SigmaVerif.Props.C04.b64offset_list_complete _ gen_tables_sound vs v hv p s

end SigmaVerif.Oblig.C04
