import SigmaVerif.Gen.SStr
import SigmaVerif.Spec.SStr
/-! Obligations tying the constants of `sigma/types.py` as they are *now* to the C05 theorems. -/
namespace SigmaVerif.Oblig.C05
open SigmaVerif.SStr SigmaVerif.SStrSpec

/-- the escape and wildcard characters of the source syntax are the ones `parse` models -/
theorem gen_source_chars :
    SigmaVerif.Gen.SStr.escapeChar = '\\' ∧ SigmaVerif.Gen.SStr.multiChar = '*' ∧
    SigmaVerif.Gen.SStr.singleChar = '?' := by decide

/-- `to_regex` uses the configuration the model's `regexConv` states -/
theorem gen_regex_conv : SigmaVerif.Gen.SStr.regexConv = regexConv [] := by decide

/-- … it is uniquely decodable … -/
theorem gen_regex_conv_wf : convWf SigmaVerif.Gen.SStr.regexConv = true := by decide

/-- … and every regular-expression metacharacter is in its escaped set -/
theorem gen_regex_meta_escaped :
    reMeta.all SigmaVerif.Gen.SStr.regexConv.escapedSet.contains = true := by decide

end SigmaVerif.Oblig.C05
