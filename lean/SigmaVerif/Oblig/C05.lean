import SigmaVerif.Gen.SStr
import SigmaVerif.Spec.SStr
import SigmaVerif.Props.C05
/-! Obligations tying the constants of `sigma/types.py` as they are *now* to the C05 theorems. -/
namespace SigmaVerif.Oblig.C05
open SigmaVerif.SStr SigmaVerif.SStrSpec

/-- the escape and wildcard characters of the source syntax are the ones `parse` models -/
theorem gen_source_chars :
    SigmaVerif.Gen.SStr.escapeChar = '\\' ∧ SigmaVerif.Gen.SStr.multiChar = '*' ∧
    SigmaVerif.Gen.SStr.singleChar = '?' := by decide

/-- `to_regex` uses the configuration the model's `regexConv` states -/
theorem gen_regex_conv : SigmaVerif.Gen.SStr.regexConv = regexConv [] := by decide

/-- … it is uniquely decodable … -/
theorem gen_regex_conv_wf : convWf SigmaVerif.Gen.SStr.regexConv = true := by decide

/-- … and every regular-expression metacharacter is in its escaped set -/
theorem gen_regex_meta_escaped :
    reMeta.all SigmaVerif.Gen.SStr.regexConv.escapedSet.contains = true := by decide

/-- C05 instantiated at the `to_regex` configuration the code has *now*: the regular-expression
form matches exactly the strings the wildcard pattern matches -/
theorem gen_toRegex_glob (s : SStr) (r : Str) (h : convert SigmaVerif.Gen.SStr.regexConv s = .ok r) (x : Str) :
    reMatch r x = some (glob s x) := by
  rw [gen_regex_conv] at h
  exact SigmaVerif.Props.C05.toRegex_glob [] (by decide) s r h x

/-- … and its text is read back to exactly the source characters and wildcards -/
theorem gen_regex_decodes (s : SStr) (t : Str) (h : convert SigmaVerif.Gen.SStr.regexConv s = .ok t) :
    decode SigmaVerif.Gen.SStr.regexConv t = some (filtered SigmaVerif.Gen.SStr.regexConv s) :=
  SigmaVerif.Props.C05.convert_decodes _ gen_regex_conv_wf s t h

end SigmaVerif.Oblig.C05
