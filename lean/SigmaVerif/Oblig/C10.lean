import SigmaVerif.Gen.Corr
import SigmaVerif.Gen.Conv
import SigmaVerif.Props.C10
import SigmaVerif.Props.C02
/-! Obligations tying `sigma/correlations.py`, the correlation part of `sigma/conversion/base.py` and
`FieldMappingTransformationBase.apply` as they are *now* (regenerated `Gen.Corr`) to what the C10
model assumes, and the C10 theorems instantiated at the live tables. -/
namespace SigmaVerif.Oblig.C10
open SigmaVerif.Corr SigmaVerif.CorrSpec SigmaVerif.CorrLemmas SigmaVerif.ConvSpec
open SigmaVerif.Conv (Op QTok)
open SigmaVerif.Gen.Corr (types ops opMap suffixes templateAttrs tsCount tsUnit tsModes extInit extBody extOps
  extKwChars extGrammar precMap extTokens finalizeTestedIn finalizeDefault aliasMappingUnderGroupBy corrDispatchFn)

/-! ## Types and dispatch -/

/-- the correlation types are exactly the 8 of the model, in the same order -/
theorem gen_types : types = CType.all.map CType.pyName := by decide

def lookupDispatch (t : String) (b : Bool) : Option String :=
  (SigmaVerif.Gen.Corr.dispatch.find? (fun x => x.1 == t && x.2.1 == b)).map (·.2.2)

/-- type → conversion method → template name, as read from the source, is the model's `dispatch`;
total over the 8 types and both kinds of condition -/
theorem gen_dispatch : ∀ t ∈ CType.all, ∀ b : Bool,
    lookupDispatch t.pyName b = some (dispatch t b).pyName := by decide

theorem gen_dispatch_size : SigmaVerif.Gen.Corr.dispatch.length = 2 * CType.all.length := by decide

/-- the three `getattr` look-ups, and every template family has its three class attributes -/
theorem gen_suffixes : suffixes = ["_correlation_query", "_aggregation_expression", "_condition_expression"] := by
  decide

theorem gen_template_attrs : ∀ tn ∈ TName.all, ∀ sfx ∈ suffixes, templateAttrs.contains (tn.pyName ++ sfx) = true := by
  decide

/-! ## Condition operators -/

theorem gen_ops : ops = CondOp.all.map CondOp.pyName := by decide

/-- the default operator mapping is total over the six operators and injective (the operator can be
read back from the query) -/
theorem gen_op_map : opMap.map (·.1) = ops ∧ (opMap.map (·.2)).eraseDups.length = 6 := by decide

/-! ## Timespan -/

/-- the unit letters the code accepts, and their lengths, are the model's table -/
theorem gen_units :
    SigmaVerif.Gen.Corr.units.all (fun p => unitLen p.1 == some p.2) = true ∧
    units.all (fun u => (SigmaVerif.Gen.Corr.units.lookup u).isSome) = true ∧
    SigmaVerif.Gen.Corr.units.length = units.length := by decide

/-- … and therefore the lengths calendar arithmetic gives -/
theorem gen_units_calendar : ∀ p ∈ SigmaVerif.Gen.Corr.units, p.2 = unitSeconds p.1 := by decide

/-- count = the integer before the last character, unit = the last character; `convert_timespan`
tries seconds, then the mapping, then returns the specification as written -/
theorem gen_timespan_shape :
    tsCount = "int(self.spec[:-1])" ∧ tsUnit = "self.spec[-1]" ∧
    tsModes = ["str(timespan.seconds)", "str(timespan.count) + self.timespan_mapping[timespan.unit]", "timespan.spec"] := by
  decide

/-- `timespan_seconds` at the live table: for every count and every unit the code accepts, the rendered
seconds are count × the live unit length -/
theorem gen_timespan_seconds (m : Option (List (Char × Str))) (t : Timespan)
    (p : Char × Nat) (hp : p ∈ SigmaVerif.Gen.Corr.units) (hu : t.unit = p.1) :
    renderTimespan true m t = natStr (t.count * p.2) := by
  have hall := gen_units.1
  rw [List.all_eq_true] at hall
  have hlen : unitLen p.1 = some p.2 := by simpa using hall p hp
  have hmem := (SigmaVerif.Props.C10.unit_table_exact p.1 p.2 hlen)
  rw [SigmaVerif.Props.C10.timespan_seconds m t (hu ▸ hmem.1), hu, hmem.2]

/-! ## Extended conditions -/

/-- `not` (prefix) binds tighter than `and`, which binds tighter than `or`; all three are keywords -/
theorem gen_ext_ops : extOps = [("not", 1, "RIGHT", true), ("and", 2, "LEFT", true), ("or", 2, "LEFT", true)] := by
  decide

/-- the keywords' identifier characters cover the characters of rule identifiers (an identifier that
starts with `not`/`and`/`or` is read whole); identifiers start with a letter or `_`; blanks and
parentheses are not identifier characters -/
theorem gen_ext_names_whole :
    extBody.all extKwChars.contains = true ∧ extInit.all extBody.contains = true ∧
    (SigmaVerif.Cond.wsChars ++ ['(', ')']).all (fun c => !extBody.contains c) = true := by decide

/-- with the selector keywords of the rule-condition grammar added, the extended-condition grammar
satisfies the well-formedness the C02 theorems assume … -/
theorem gen_ext_grammar_wf :
    ({ extGrammar with quants := SigmaVerif.Cond.stdGrammar.quants } : SigmaVerif.Cond.Grammar).wf = true := by decide

/-- … so C02's round trip holds for it: the canonical spelling of every selector-free expression over
well-formed names is parsed to a tree with its meaning.  (Trusted gap: the theorem is about the grammar
*with* the selector alternatives, which differ from the live grammar only on texts containing
`1|any|all of …`; and the model admits identifiers starting with a digit, which the live grammar
rejects — the correspondence sweep only uses identifiers starting with a letter or `_`.) -/
theorem gen_ext_parse_pp (e : SigmaVerif.CondSpec.E)
    (he : e.wf { extGrammar with quants := SigmaVerif.Cond.stdGrammar.quants } = true) :
    ∃ t, SigmaVerif.Cond.parse { extGrammar with quants := SigmaVerif.Cond.stdGrammar.quants }
        (SigmaVerif.CondSpec.pp 2 e) = some t ∧
      ∀ dets ρ, SigmaVerif.CondSpec.semPT dets ρ t = e.sem dets ρ :=
  SigmaVerif.Props.C02.parse_pp _ gen_ext_grammar_wf e he

/-- `compare_precedence` ranks NOT/AND/OR of correlation conditions like those of rule conditions, and
each renderer uses its own token -/
theorem gen_prec_map :
    precMap = [("CorrelationConditionNOT", "ConditionNOT"), ("CorrelationConditionAND", "ConditionAND"),
               ("CorrelationConditionOR", "ConditionOR")] ∧
    extTokens = [("and", ["and_token"]), ("or", ["or_token"]), ("not", ["not_token"])] := by decide

/-- `extended_roundtrip` at the live default precedence, for both `parenthesize` settings -/
theorem gen_extended_roundtrip (par : Bool) (e : Ext) (he : wfExt e = true) (names : List Str) :
    readTT SigmaVerif.Gen.Conv.defaultPrec names.length
      (renderExt SigmaVerif.Gen.Conv.defaultPrec par (extIx names) e) = some (ttExt names e) :=
  SigmaVerif.Props.C10.extended_truth_table _ par (by cases par <;> decide) e he names

/-! ## Where the model follows the code against the property -/

/-- `convert_rule` tests `finalize_correlation_subqueries` (default off).  The method that converts and
finalises a correlation rule (`corrDispatchFn`) either does not (the code as it stands: a referenced
correlation rule is embedded finalised regardless — former finding C10a, repaired in /repo 396bf5b,
`Props.C10.nested_correlation_always_finalised`) or does (after a fix).  The harness passes which one
holds to the model as `Cfg.corrFinTested`, so both shapes are followed. -/
theorem gen_finalize_sites : finalizeTestedIn.contains "convert_rule" = true ∧ finalizeDefault = false := by decide

/-- the model's flag for the live code -/
def liveCorrFinTested : Bool := finalizeTestedIn.contains corrDispatchFn
/-- alias targets are mapped inside `if rule.group_by is not None` (former finding C10b) or unconditionally (after
the repair 4061be4); passed to the model as `Cfg.aliasAlways` -/
def liveAliasAlways : Bool := !aliasMappingUnderGroupBy

/-- the live code has the repaired shapes: sub-query finalisation is tested where correlation rules are converted, and
alias targets are mapped whether or not there is a group-by list (a regression to either old shape breaks this) -/
theorem gen_repaired_shapes : liveCorrFinTested = true ∧ liveAliasAlways = true := by decide

/-- at the live code shape: every sub-query of a referenced *detection* rule is embedded finalised iff the
backend opts in; of a referenced correlation rule iff it opts in or the live `convert_correlation_rule`
lacks the test -/
theorem gen_subquery_finalisation (k : Cfg) (hk : k.corrFinTested = liveCorrFinTested) (i : RefInfo) :
    subFin k i = (k.finalizeSub || (i.isCorr && !liveCorrFinTested)) := by
  simp [subFin, hk]

end SigmaVerif.Oblig.C10
