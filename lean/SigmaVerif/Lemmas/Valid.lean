import SigmaVerif.Model.Valid
/-!
# Helper lemmas and auxiliary definitions for the C19 property theorems

1. `Mentions`, `HasSel`: what a parse tree refers to, stated as inductive predicates on the nodes of
   the tree (independent of the recursion scheme of `referenced` / `danglingSels`)
2. `CT.names` and the agreement of `referenced` with `resolve`
3. invariance of `referenced` / `danglingSels` under reordering of the detections
4. `groups`: members, sizes (`List.count`), `find?`, `any`
5. `runs`
-/

namespace SigmaVerif.Cond

mutual
/-- detection names occurring in a post-processed condition tree, left to right -/
def CT.names : CT → List Str
  | .det n => [n]
  | .not c => CT.names c
  | .and cs => CT.namesL cs
  | .or cs => CT.namesL cs
def CT.namesL : List CT → List Str
  | [] => []
  | c :: cs => CT.names c ++ CT.namesL cs
end

end SigmaVerif.Cond

namespace SigmaVerif.Lemmas.Valid
open SigmaVerif.Cond SigmaVerif.Valid

/-! ## 1. `Mentions` and `HasSel` -/

/-- `Mentions dets t d`: some identifier node of `t` is `d`, or some selector node of `t` has a
pattern that matches `d` and `d` is a detection of the rule -/
inductive Mentions (dets : List Str) : PT → Str → Prop
  | id (n : Str) : Mentions dets (.id n) n
  | sel (q : Quant) (pat d : Str) : selMatches pat d = true → d ∈ dets → Mentions dets (.sel q pat) d
  | not {p : PT} {d : Str} : Mentions dets p d → Mentions dets (.not p) d
  | and {ps : List PT} {p : PT} {d : Str} : p ∈ ps → Mentions dets p d → Mentions dets (.and ps) d
  | or {ps : List PT} {p : PT} {d : Str} : p ∈ ps → Mentions dets p d → Mentions dets (.or ps) d

/-- `HasSel t pat`: some selector node of `t` has pattern `pat` -/
inductive HasSel : PT → Str → Prop
  | sel (q : Quant) (pat : Str) : HasSel (.sel q pat) pat
  | not {p : PT} {pat : Str} : HasSel p pat → HasSel (.not p) pat
  | and {ps : List PT} {p : PT} {pat : Str} : p ∈ ps → HasSel p pat → HasSel (.and ps) pat
  | or {ps : List PT} {p : PT} {pat : Str} : p ∈ ps → HasSel p pat → HasSel (.or ps) pat

theorem mem_referencedL (dets : List Str) (d : Str) (ps : List PT) :
    d ∈ referencedL dets ps ↔ ∃ p ∈ ps, d ∈ referenced dets p := by
  induction ps with
  | nil => simp [referencedL]
  | cons p ps ih => simp [referencedL, ih]

theorem mem_danglingSelsL (dets : List Str) (pat : Str) (ps : List PT) :
    pat ∈ danglingSelsL dets ps ↔ ∃ p ∈ ps, pat ∈ danglingSels dets p := by
  induction ps with
  | nil => simp [danglingSelsL]
  | cons p ps ih => simp [danglingSelsL, ih]

mutual
theorem mentions_of_mem (dets : List Str) (d : Str) :
    (t : PT) → d ∈ referenced dets t → Mentions dets t d
  | .id n, h => by
    have : d = n := by simpa [referenced] using h
    subst this; exact .id d
  | .sel q pat, h => by
    have h' : d ∈ dets ∧ selMatches pat d = true := by simpa [referenced, List.mem_filter] using h
    exact .sel q pat d h'.2 h'.1
  | .not p, h => .not (mentions_of_mem dets d p (by simpa [referenced] using h))
  | .and ps, h => by
    obtain ⟨p, hp, hm⟩ := mentionsL_of_mem dets d ps (by simpa [referenced] using h)
    exact .and hp hm
  | .or ps, h => by
    obtain ⟨p, hp, hm⟩ := mentionsL_of_mem dets d ps (by simpa [referenced] using h)
    exact .or hp hm
theorem mentionsL_of_mem (dets : List Str) (d : Str) :
    (ps : List PT) → d ∈ referencedL dets ps → ∃ p ∈ ps, Mentions dets p d
  | [], h => by simp [referencedL] at h
  | p :: ps, h => by
    have h' : d ∈ referenced dets p ∨ d ∈ referencedL dets ps := by simpa [referencedL] using h
    rcases h' with h' | h'
    · exact ⟨p, by simp, mentions_of_mem dets d p h'⟩
    · obtain ⟨q, hq, hm⟩ := mentionsL_of_mem dets d ps h'
      exact ⟨q, by simp [hq], hm⟩
end

theorem mem_of_mentions (dets : List Str) (t : PT) (d : Str) (h : Mentions dets t d) :
    d ∈ referenced dets t := by
  induction h with
  | id n => simp [referenced]
  | sel q pat d hm hd => simp [referenced, List.mem_filter, hm, hd]
  | not _ ih => simpa [referenced] using ih
  | and hp _ ih => simpa [referenced] using (mem_referencedL dets _ _).2 ⟨_, hp, ih⟩
  | or hp _ ih => simpa [referenced] using (mem_referencedL dets _ _).2 ⟨_, hp, ih⟩

theorem filter_isEmpty_iff (dets : List Str) (pat : Str) :
    (dets.filter (selMatches pat)).isEmpty = true ↔ ∀ d ∈ dets, selMatches pat d = false := by
  simp [List.isEmpty_iff, List.filter_eq_nil_iff]

mutual
theorem hasSel_of_mem (dets : List Str) (pat : Str) :
    (t : PT) → pat ∈ danglingSels dets t →
      HasSel t pat ∧ ∀ d ∈ dets, selMatches pat d = false
  | .id n, h => by simp [danglingSels] at h
  | .sel q pat', h => by
    by_cases he : (dets.filter (selMatches pat')).isEmpty = true
    · have : pat = pat' := by simpa [danglingSels, he] using h
      subst this
      exact ⟨.sel q pat, (filter_isEmpty_iff dets pat).1 he⟩
    · simp [danglingSels, he] at h
  | .not p, h => by
    obtain ⟨hs, hn⟩ := hasSel_of_mem dets pat p (by simpa [danglingSels] using h)
    exact ⟨.not hs, hn⟩
  | .and ps, h => by
    obtain ⟨p, hp, hs, hn⟩ := hasSelL_of_mem dets pat ps (by simpa [danglingSels] using h)
    exact ⟨.and hp hs, hn⟩
  | .or ps, h => by
    obtain ⟨p, hp, hs, hn⟩ := hasSelL_of_mem dets pat ps (by simpa [danglingSels] using h)
    exact ⟨.or hp hs, hn⟩
theorem hasSelL_of_mem (dets : List Str) (pat : Str) :
    (ps : List PT) → pat ∈ danglingSelsL dets ps →
      ∃ p ∈ ps, HasSel p pat ∧ ∀ d ∈ dets, selMatches pat d = false
  | [], h => by simp [danglingSelsL] at h
  | p :: ps, h => by
    have h' : pat ∈ danglingSels dets p ∨ pat ∈ danglingSelsL dets ps := by
      simpa [danglingSelsL] using h
    rcases h' with h' | h'
    · exact ⟨p, by simp, hasSel_of_mem dets pat p h'⟩
    · obtain ⟨q, hq, hm⟩ := hasSelL_of_mem dets pat ps h'
      exact ⟨q, by simp [hq], hm⟩
end

theorem mem_of_hasSel (dets : List Str) (t : PT) (pat : Str) (h : HasSel t pat)
    (hn : ∀ d ∈ dets, selMatches pat d = false) : pat ∈ danglingSels dets t := by
  induction h with
  | sel q pat => simp [danglingSels, (filter_isEmpty_iff dets pat).2 hn]
  | not _ ih => simpa [danglingSels] using ih hn
  | and hp _ ih => simpa [danglingSels] using (mem_danglingSelsL dets _ _).2 ⟨_, hp, ih hn⟩
  | or hp _ ih => simpa [danglingSels] using (mem_danglingSelsL dets _ _).2 ⟨_, hp, ih hn⟩

theorem mem_danglingSels_iff (dets : List Str) (t : PT) (pat : Str) :
    pat ∈ danglingSels dets t ↔ HasSel t pat ∧ ∀ d ∈ dets, selMatches pat d = false :=
  ⟨hasSel_of_mem dets pat t, fun h => mem_of_hasSel dets t pat h.1 h.2⟩

/-! ## 2. `resolve` and `referenced` -/

/-- names of an optional condition tree (`none` = the node vanished) -/
def onames : Option CT → List Str
  | some c => c.names
  | none => []

theorem namesL_map_det (ms : List Str) : CT.namesL (ms.map .det) = ms := by
  induction ms with
  | nil => simp [CT.namesL]
  | cons m ms ih => simp [CT.namesL, CT.names, ih]

mutual
/-- whatever post-processing returns, it carries exactly the names `referenced` lists, in the same
order and with the same multiplicities -/
theorem resolve_names (dets : List Str) :
    (t : PT) → (oc : Option CT) → resolve dets t = .ok oc → onames oc = referenced dets t
  | .id n, oc, h => by
    by_cases hc : n ∈ dets
    · simp [resolve, hc] at h
      subst h; simp [onames, CT.names, referenced]
    · simp [resolve, hc] at h
  | .sel q pat, oc, h => by
    cases hms : dets.filter (selMatches pat) with
    | nil =>
      simp [resolve, hms] at h
      subst h; simp [onames, referenced, hms]
    | cons m ms =>
      cases ms with
      | nil =>
        simp [resolve, hms] at h
        subst h; simp [onames, CT.names, referenced, hms]
      | cons m2 ms =>
        cases q with
        | any =>
          simp [resolve, hms] at h
          subst h
          have := namesL_map_det (m :: m2 :: ms)
          simpa [onames, CT.names, referenced, hms] using this
        | all =>
          simp [resolve, hms] at h
          subst h
          have := namesL_map_det (m :: m2 :: ms)
          simpa [onames, CT.names, referenced, hms] using this
  | .not p, oc, h => by
    cases hr : resolve dets p with
    | undefinedDet n => simp [resolve, hr] at h
    | ok oc' =>
      have ih := resolve_names dets p oc' hr
      cases oc' with
      | none =>
        simp [resolve, hr] at h
        subst h; simpa [onames, referenced] using ih
      | some c =>
        simp [resolve, hr] at h
        subst h; simpa [onames, CT.names, referenced] using ih
  | .and ps, oc, h => by
    cases hr : resolveList dets ps with
    | undefinedDet n => simp [resolve, hr] at h
    | ok cs =>
      have ih := resolveList_names dets ps cs hr
      match cs, hr, ih with
      | [], hr, ih =>
        simp [resolve, hr] at h
        subst h; simpa [onames, referenced, CT.namesL] using ih
      | [c], hr, ih =>
        simp [resolve, hr] at h
        subst h; simpa [onames, referenced, CT.namesL] using ih
      | c :: c2 :: cs, hr, ih =>
        simp [resolve, hr] at h
        subst h; simpa [onames, referenced, CT.names] using ih
  | .or ps, oc, h => by
    cases hr : resolveList dets ps with
    | undefinedDet n => simp [resolve, hr] at h
    | ok cs =>
      have ih := resolveList_names dets ps cs hr
      match cs, hr, ih with
      | [], hr, ih =>
        simp [resolve, hr] at h
        subst h; simpa [onames, referenced, CT.namesL] using ih
      | [c], hr, ih =>
        simp [resolve, hr] at h
        subst h; simpa [onames, referenced, CT.namesL] using ih
      | c :: c2 :: cs, hr, ih =>
        simp [resolve, hr] at h
        subst h; simpa [onames, referenced, CT.names] using ih
theorem resolveList_names (dets : List Str) :
    (ps : List PT) → (cs : List CT) → resolveList dets ps = .ok cs →
      CT.namesL cs = referencedL dets ps
  | [], cs, h => by
    simp [resolveList] at h
    subst h; simp [CT.namesL, referencedL]
  | p :: ps, cs, h => by
    cases hr : resolve dets p with
    | undefinedDet n => simp [resolveList, hr] at h
    | ok oc =>
      cases hrl : resolveList dets ps with
      | undefinedDet n => simp [resolveList, hr, hrl] at h
      | ok cs' =>
        have ih1 := resolve_names dets p oc hr
        have ih2 := resolveList_names dets ps cs' hrl
        simp [resolveList, hr, hrl] at h
        subst h
        cases oc with
        | none => simpa [referencedL, onames, ← ih2] using ih1
        | some c => simp [referencedL, CT.namesL, ← ih1, ← ih2, onames]
end

mutual
/-- post-processing fails exactly on an identifier the rule does not define, and the validator
counts that identifier as referenced -/
theorem resolve_undefined (dets : List Str) (n : Str) :
    (t : PT) → resolve dets t = .undefinedDet n → n ∈ referenced dets t ∧ n ∉ dets
  | .id m, h => by
    by_cases hc : m ∈ dets
    · simp [resolve, hc] at h
    · simp [resolve, hc] at h
      subst h
      exact ⟨by simp [referenced], hc⟩
  | .sel q pat, h => by
    cases hms : dets.filter (selMatches pat) with
    | nil => simp [resolve, hms] at h
    | cons m ms =>
      cases ms with
      | nil => simp [resolve, hms] at h
      | cons m2 ms => simp [resolve, hms] at h
  | .not p, h => by
    cases hr : resolve dets p with
    | undefinedDet m =>
      simp [resolve, hr] at h
      subst h
      simpa [referenced] using resolve_undefined dets m p hr
    | ok oc' => cases oc' <;> simp [resolve, hr] at h
  | .and ps, h => by
    cases hr : resolveList dets ps with
    | undefinedDet m =>
      simp [resolve, hr] at h
      subst h
      simpa [referenced] using resolveList_undefined dets m ps hr
    | ok cs =>
      match cs, hr with
      | [], hr => simp [resolve, hr] at h
      | [c], hr => simp [resolve, hr] at h
      | c :: c2 :: cs, hr => simp [resolve, hr] at h
  | .or ps, h => by
    cases hr : resolveList dets ps with
    | undefinedDet m =>
      simp [resolve, hr] at h
      subst h
      simpa [referenced] using resolveList_undefined dets m ps hr
    | ok cs =>
      match cs, hr with
      | [], hr => simp [resolve, hr] at h
      | [c], hr => simp [resolve, hr] at h
      | c :: c2 :: cs, hr => simp [resolve, hr] at h
theorem resolveList_undefined (dets : List Str) (n : Str) :
    (ps : List PT) → resolveList dets ps = .undefinedDet n → n ∈ referencedL dets ps ∧ n ∉ dets
  | [], h => by simp [resolveList] at h
  | p :: ps, h => by
    cases hr : resolve dets p with
    | undefinedDet m =>
      simp [resolveList, hr] at h
      subst h
      have := resolve_undefined dets m p hr
      exact ⟨by simp [referencedL, this.1], this.2⟩
    | ok oc =>
      cases hrl : resolveList dets ps with
      | undefinedDet m =>
        simp [resolveList, hr, hrl] at h
        subst h
        have := resolveList_undefined dets m ps hrl
        exact ⟨by simp [referencedL, this.1], this.2⟩
      | ok cs' => simp [resolveList, hr, hrl] at h
end

mutual
/-- when post-processing succeeds, everything `referenced` lists is a detection of the rule -/
theorem resolve_ok_subset (dets : List Str) :
    (t : PT) → (oc : Option CT) → resolve dets t = .ok oc → ∀ d ∈ referenced dets t, d ∈ dets
  | .id n, oc, h => by
    by_cases hc : n ∈ dets
    · intro d hd
      have : d = n := by simpa [referenced] using hd
      subst this; exact hc
    · simp [resolve, hc] at h
  | .sel q pat, oc, h => by
    intro d hd
    have : d ∈ dets ∧ selMatches pat d = true := by simpa [referenced, List.mem_filter] using hd
    exact this.1
  | .not p, oc, h => by
    cases hr : resolve dets p with
    | undefinedDet n => simp [resolve, hr] at h
    | ok oc' =>
      intro d hd
      exact resolve_ok_subset dets p oc' hr d (by simpa [referenced] using hd)
  | .and ps, oc, h => by
    cases hr : resolveList dets ps with
    | undefinedDet n => simp [resolve, hr] at h
    | ok cs =>
      intro d hd
      exact resolveList_ok_subset dets ps cs hr d (by simpa [referenced] using hd)
  | .or ps, oc, h => by
    cases hr : resolveList dets ps with
    | undefinedDet n => simp [resolve, hr] at h
    | ok cs =>
      intro d hd
      exact resolveList_ok_subset dets ps cs hr d (by simpa [referenced] using hd)
theorem resolveList_ok_subset (dets : List Str) :
    (ps : List PT) → (cs : List CT) → resolveList dets ps = .ok cs →
      ∀ d ∈ referencedL dets ps, d ∈ dets
  | [], cs, h => by simp [referencedL]
  | p :: ps, cs, h => by
    cases hr : resolve dets p with
    | undefinedDet n => simp [resolveList, hr] at h
    | ok oc =>
      cases hrl : resolveList dets ps with
      | undefinedDet n => simp [resolveList, hr, hrl] at h
      | ok cs' =>
        intro d hd
        have hd' : d ∈ referenced dets p ∨ d ∈ referencedL dets ps := by
          simpa [referencedL] using hd
        rcases hd' with hd' | hd'
        · exact resolve_ok_subset dets p oc hr d hd'
        · exact resolveList_ok_subset dets ps cs' hrl d hd'
end

/-! ## 3. Reordering the detections of a rule -/

mutual
theorem referenced_perm_aux (dets dets' : List Str) (h : dets.Perm dets') :
    (t : PT) → (referenced dets t).Perm (referenced dets' t)
  | .id n => by simp [referenced]
  | .sel q pat => by simpa [referenced] using h.filter (selMatches pat)
  | .not p => by simpa [referenced] using referenced_perm_aux dets dets' h p
  | .and ps => by simpa [referenced] using referencedL_perm_aux dets dets' h ps
  | .or ps => by simpa [referenced] using referencedL_perm_aux dets dets' h ps
theorem referencedL_perm_aux (dets dets' : List Str) (h : dets.Perm dets') :
    (ps : List PT) → (referencedL dets ps).Perm (referencedL dets' ps)
  | [] => by simp [referencedL]
  | p :: ps => by
    simpa [referencedL] using
      (referenced_perm_aux dets dets' h p).append (referencedL_perm_aux dets dets' h ps)
end

theorem filter_isEmpty_perm (dets dets' : List Str) (h : dets.Perm dets') (pat : Str) :
    (dets.filter (selMatches pat)).isEmpty = (dets'.filter (selMatches pat)).isEmpty := by
  rw [Bool.eq_iff_iff, filter_isEmpty_iff, filter_isEmpty_iff]
  exact ⟨fun hh d hd => hh d (h.mem_iff.2 hd), fun hh d hd => hh d (h.mem_iff.1 hd)⟩

mutual
theorem danglingSels_perm_aux (dets dets' : List Str) (h : dets.Perm dets') :
    (t : PT) → danglingSels dets t = danglingSels dets' t
  | .id n => by simp [danglingSels]
  | .sel q pat => by simp [danglingSels, filter_isEmpty_perm dets dets' h pat]
  | .not p => by simpa [danglingSels] using danglingSels_perm_aux dets dets' h p
  | .and ps => by simpa [danglingSels] using danglingSelsL_perm_aux dets dets' h ps
  | .or ps => by simpa [danglingSels] using danglingSelsL_perm_aux dets dets' h ps
theorem danglingSelsL_perm_aux (dets dets' : List Str) (h : dets.Perm dets') :
    (ps : List PT) → danglingSelsL dets ps = danglingSelsL dets' ps
  | [] => by simp [danglingSelsL]
  | p :: ps => by
    simp [danglingSelsL, danglingSels_perm_aux dets dets' h p, danglingSelsL_perm_aux dets dets' h ps]
end

/-! ## 4. `groups` -/

/-- the positions of the rules whose key is `k` -/
def members (keys : List (Option Nat)) (k : Nat) : List Nat :=
  (List.range keys.length).filter (fun i => keys.getD i none == some k)

theorem members_length (keys : List (Option Nat)) (k : Nat) :
    (members keys k).length = keys.count (some k) := by
  unfold members
  induction keys with
  | nil => simp
  | cons a keys ih =>
    have hcomp : ((fun i => (a :: keys).getD i none == some k) ∘ Nat.succ)
        = (fun i => keys.getD i none == some k) := by
      funext i; simp
    rw [List.length_cons, List.range_succ_eq_map, List.filter_cons, List.filter_map, hcomp,
      List.count_cons]
    by_cases ha : a = some k
    · simpa [ha] using ih
    · have : (some k == a) = false := by
        simpa using fun h => ha h.symm
      simpa [ha, this] using ih

theorem mem_present (keys : List (Option Nat)) (k : Nat) :
    k ∈ (keys.filterMap id).eraseDups ↔ some k ∈ keys := by
  simp [List.mem_eraseDups, List.mem_filterMap]

theorem groups_eq (keys : List (Option Nat)) :
    groups keys = (((keys.filterMap id).eraseDups).map (fun k => (k, members keys k))).filter
      (fun g => g.2.length > 1) := rfl

theorem mem_groups_iff (keys : List (Option Nat)) (k : Nat) (is : List Nat) :
    (k, is) ∈ groups keys ↔ is = members keys k ∧ 2 ≤ is.length := by
  rw [groups_eq, List.mem_filter, List.mem_map]
  constructor
  · rintro ⟨⟨k', _, heq⟩, hlen⟩
    have h1 : k' = k := congrArg Prod.fst heq
    have h2 : members keys k' = is := congrArg Prod.snd heq
    subst h1
    exact ⟨h2.symm, by simp at hlen; omega⟩
  · rintro ⟨his, hlen⟩
    subst his
    refine ⟨⟨k, ?_, rfl⟩, by simp; omega⟩
    rw [mem_present, ← List.count_pos_iff, ← members_length]
    omega

theorem nodup_eraseDups : (l : List Nat) → l.eraseDups.Nodup
  | [] => by simp
  | a :: as => by
    rw [List.eraseDups_cons, List.nodup_cons]
    refine ⟨?_, nodup_eraseDups (as.filter (fun b => !b == a))⟩
    simp [List.mem_eraseDups, List.mem_filter]
termination_by l => l.length
decreasing_by
  simp only [List.length_cons]
  exact Nat.lt_succ_of_le (List.length_filter_le _ _)

theorem groups_keys_nodup_aux (keys : List (Option Nat)) : ((groups keys).map (·.1)).Nodup := by
  rw [groups_eq]
  have hsub : (((((keys.filterMap id).eraseDups).map (fun k => (k, members keys k))).filter
      (fun g => g.2.length > 1)).map (·.1)).Sublist
      ((((keys.filterMap id).eraseDups).map (fun k => (k, members keys k))).map (·.1)) :=
    (List.filter_sublist).map _
  have hmap : ((((keys.filterMap id).eraseDups).map (fun k => (k, members keys k))).map (·.1))
      = (keys.filterMap id).eraseDups := by
    simp [List.map_map, Function.comp_def]
  rw [hmap] at hsub
  exact (nodup_eraseDups _).sublist hsub

/-- the group of value `k`, if it is reported -/
theorem groups_find (keys : List (Option Nat)) (k : Nat) :
    (groups keys).find? (·.1 == k)
      = if 2 ≤ keys.count (some k) then some (k, members keys k) else none := by
  cases hf : (groups keys).find? (·.1 == k) with
  | none =>
    have hn := List.find?_eq_none.1 hf
    by_cases hc : 2 ≤ keys.count (some k)
    · have hm : (k, members keys k) ∈ groups keys :=
        (mem_groups_iff keys k _).2 ⟨rfl, by rw [members_length]; exact hc⟩
      exact absurd (by simp) (hn _ hm)
    · simp [hc]
  | some g =>
    have hm : g ∈ groups keys := List.mem_of_find?_eq_some hf
    have hp := List.find?_some hf
    have hk : g.1 = k := by simpa using hp
    obtain ⟨k', is⟩ := g
    simp only at hk
    subst hk
    obtain ⟨his, hlen⟩ := (mem_groups_iff keys k' is).1 hm
    subst his
    rw [members_length] at hlen
    simp [hlen]

theorem groups_any (keys : List (Option Nat)) (k : Nat) :
    (groups keys).any (·.1 == k) = decide (2 ≤ keys.count (some k)) := by
  rw [Bool.eq_iff_iff, List.any_eq_true, decide_eq_true_iff]
  constructor
  · rintro ⟨⟨k', is⟩, hm, hp⟩
    have hk : k' = k := by simpa using hp
    subst hk
    obtain ⟨his, hlen⟩ := (mem_groups_iff keys k' is).1 hm
    subst his
    rwa [members_length] at hlen
  · intro hc
    exact ⟨(k, members keys k),
      (mem_groups_iff keys k _).2 ⟨rfl, by rw [members_length]; exact hc⟩, by simp⟩

end SigmaVerif.Lemmas.Valid
