import SigmaVerif.Lemmas.C12Rename
/-! Helper lemmas for C12: what the modifier chain does with field references.
* a chain without the `fieldref` modifier never produces a field reference;
* on field references every modifier commutes with renaming the referenced field. -/
namespace SigmaVerif.Lemmas.C12
open SigmaVerif.SStr SigmaVerif.Mods SigmaVerif.Rule SigmaVerif.Rewrite

def outsAll (P : Val → Bool) : Except MErr (List Val) → Bool
  | .ok out => out.all P
  | .error _ => true

theorem noRefL_map_str (c : Bool) (l : List SStr) : noRefL (l.map (Val.str c)) = true := by
  rw [noRefL_iff]; intro v hv; simp at hv; obtain ⟨s, _, rfl⟩ := hv; rfl

theorem noRefL_map_str' (c : Bool) {α : Type} (k : α → SStr) (l : List α) :
    noRefL (l.map (fun t => Val.str c (k t))) = true := by
  rw [noRefL_iff]; intro v hv; simp at hv; obtain ⟨s, _, rfl⟩ := hv; rfl

local macro "nr_simp" : tactic =>
  `(tactic| (simp [outsAll, noRef, noRefL, noRefL_map_str, noRefL_map_str']; done))

local macro "nr_one" : tactic => `(tactic| first
  | rfl
  | ((conv => lhs; arg 2; whnf); (repeat' split) <;> first
      | rfl
      | nr_simp
      | (generalize instDecidableEqBool _ _ = d; cases d <;> first | rfl | nr_simp)
      | (generalize instDecidableNot = d; cases d <;> first | rfl | nr_simp)))

/-- only the `fieldref` modifier makes a field reference -/
theorem modifyValue_noRef (env : Env) (hf first : Bool) (m : String) (hm : m ∈ valueModifiers) (hne : m ≠ "fieldref")
    (v : Val) (hv : noRef v = true) : outsAll noRef (modifyValue env hf first m v) = true := by
  simp only [valueModifiers, List.mem_cons, List.not_mem_nil, or_false] at hm
  rcases hm with rfl | rfl | rfl | rfl | rfl | rfl | rfl | rfl | rfl | rfl | rfl | rfl | rfl | rfl | rfl | rfl |
    rfl | rfl | rfl | rfl | rfl | rfl | rfl | rfl | rfl | rfl | rfl | rfl | rfl | rfl | rfl
  all_goals
    cases v with
    | fieldref x sw ew => first | (exact absurd rfl hne) | (simp [noRef] at hv)
    | _ => first | (exact absurd rfl hne) | nr_one

/-- renaming the field a field reference points to -/
def renVal (r : Str → Str) : Val → Val
  | .fieldref x sw ew => .fieldref (r x) sw ew
  | v => v

def isRef : Val → Bool
  | .fieldref .. => true
  | _ => false

/-- on a field reference every modifier commutes with renaming, and yields field references -/
theorem modifyValue_ref (env : Env) (hf first : Bool) (m : String) (hm : m ∈ valueModifiers) (r : Str → Str)
    (x : Str) (sw ew : Bool) :
    modifyValue env hf first m (.fieldref (r x) sw ew) = (modifyValue env hf first m (.fieldref x sw ew)).map (List.map (renVal r)) ∧
    outsAll isRef (modifyValue env hf first m (.fieldref x sw ew)) = true := by
  simp only [valueModifiers, List.mem_cons, List.not_mem_nil, or_false] at hm
  rcases hm with rfl | rfl | rfl | rfl | rfl | rfl | rfl | rfl | rfl | rfl | rfl | rfl | rfl | rfl | rfl | rfl |
    rfl | rfl | rfl | rfl | rfl | rfl | rfl | rfl | rfl | rfl | rfl | rfl | rfl | rfl | rfl
  all_goals exact ⟨rfl, rfl⟩

/-! ### the chain -/

theorem mapM'_all (P : Val → Bool) (F : Val → Except MErr (List Val)) :
    ∀ vs : List Val, (∀ v ∈ vs, outsAll P (F v) = true) → outsAll P (mapM' F vs) = true
  | [], _ => rfl
  | v :: vs, H => by
    have h1 := H v (by simp)
    have h2 := mapM'_all P F vs (fun a ha => H a (by simp [ha]))
    simp only [mapM']
    cases hF : F v with
    | error e => rfl
    | ok a =>
      cases hM : mapM' F vs with
      | error e => rfl
      | ok b =>
        rw [hF] at h1; rw [hM] at h2
        simp only [outsAll, List.all_append, Bool.and_eq_true] at h1 h2 ⊢
        exact ⟨h1, h2⟩

theorem applyToVal_nonexp (env : Env) (hf first : Bool) (m : String) (fuel : Nat) (v : Val)
    (hv : ∀ vs, v ≠ .expansion vs) : applyToVal env hf first m fuel v = modifyValue env hf first m v := by
  cases fuel <;> cases v <;> first | rfl | exact absurd rfl (hv _)

theorem all_noRef_iff (vs : List Val) : vs.all noRef = true ↔ ∀ v ∈ vs, noRef v = true := by simp

theorem applyToVal_noRef (env : Env) (hf first : Bool) (m : String) (hm : m ∈ valueModifiers) (hne : m ≠ "fieldref") :
    ∀ (fuel : Nat) (v : Val), noRef v = true → outsAll noRef (applyToVal env hf first m fuel v) = true := by
  intro fuel
  induction fuel with
  | zero =>
    intro v hv
    have : applyToVal env hf first m 0 v = modifyValue env hf first m v := by cases v <;> rfl
    rw [this]; exact modifyValue_noRef env hf first m hm hne v hv
  | succ n ih =>
    intro v hv
    cases v with
    | expansion vs =>
      have hvs : ∀ a ∈ vs, noRef a = true := (noRefL_iff vs).1 (by simpa [noRef] using hv)
      have := mapM'_all noRef (applyToVal env hf first m n) vs (fun a ha => ih a (hvs a ha))
      simp only [applyToVal]
      cases hM : mapM' (applyToVal env hf first m n) vs with
      | error e => rfl
      | ok b =>
        rw [hM] at this
        simp only [outsAll, List.all_cons, List.all_nil, Bool.and_true, noRef]
        rw [noRefL_iff]
        simpa [outsAll] using this
    | _ =>
      rw [applyToVal_nonexp _ _ _ _ _ _ (by intro vs h; cases h)]
      exact modifyValue_noRef env hf first m hm hne _ hv

theorem applyModifier_noRef (env : Env) (first : Bool) (m : String) (hne : m ≠ "fieldref") (it it' : Item)
    (hv : ∀ v ∈ it.vals, noRef v = true) (h : applyModifier env first m it = .ok it') :
    ∀ v ∈ it'.vals, noRef v = true := by
  unfold applyModifier at h
  split at h
  · cases h; exact hv
  · split at h
    · cases h; exact hv
    · split at h
      · rename_i hm
        have hm' : m ∈ valueModifiers := by simpa using hm
        have := mapM'_all noRef (applyToVal env it.hasField first m 8) it.vals
          (fun a ha => applyToVal_noRef env it.hasField first m hm' hne 8 a (hv a ha))
        cases hM : mapM' (applyToVal env it.hasField first m 8) it.vals with
        | error e => rw [hM] at h; cases h
        | ok b =>
          rw [hM] at h this
          cases h
          simpa [outsAll] using this
      · cases h

theorem applyChainAux_noRef (env : Env) : ∀ (mods : List String) (first : Bool) (it it' : Item),
    "fieldref" ∉ mods → (∀ v ∈ it.vals, noRef v = true) → applyChainAux env first mods it = .ok it' →
    ∀ v ∈ it'.vals, noRef v = true
  | [], _, it, it', _, hv, h => by simp [applyChainAux] at h; cases h; exact hv
  | m :: ms, first, it, it', hno, hv, h => by
    simp only [applyChainAux] at h
    cases hA : applyModifier env first m it with
    | error e => rw [hA] at h; cases h
    | ok it1 =>
      rw [hA] at h
      have hm : m ≠ "fieldref" := fun e => hno (by simp [e])
      exact applyChainAux_noRef env ms false it1 it' (fun e => hno (by simp [e]))
        (applyModifier_noRef env first m hm it it1 hv hA) h

theorem applyChain_noRef (env : Env) (mods : List String) (it it' : Item)
    (hno : "fieldref" ∉ mods) (hv : ∀ v ∈ it.vals, noRef v = true) (h : applyChain env mods it = .ok it') :
    ∀ v ∈ it'.vals, noRef v = true := by
  unfold applyChain at h
  split at h
  · cases h
  · exact applyChainAux_noRef env mods true it it' hno hv h

theorem pvToVal_noRef (raw : Bool) (v : PV) : noRef (pvToVal raw v) = true := by
  cases v <;> rfl

/-! ### items without field references -/

theorem fieldref_not_mem (ms : List Str) (h : "fieldref".toList ∉ ms) : "fieldref" ∉ ms.map String.ofList := by
  intro hm
  obtain ⟨s, hs, he⟩ := List.mem_map.1 hm
  have : s = "fieldref".toList := by rw [← he, String.toList_ofList]
  exact h (this ▸ hs)

section
variable {h : Atom → Atom} {f g : Option Str} {r : Str → Str}

/-- an item without the `fieldref` modifier means the same test on another field -/
theorem itemOf_shift (H : Shift h f g r) (hiso : g.isSome = f.isSome) (cx : Ctx) (ms : List Str)
    (hno : "fieldref".toList ∉ ms) (vs : List PV) :
    itemOf cx g ms vs = (itemOf cx f ms vs).map (mapAtoms h) := by
  unfold itemOf
  rw [hiso]
  cases hc : chainOf cx f.isSome ms vs with
  | error e => rfl
  | ok it =>
    have hv : ∀ v ∈ it.vals, noRef v = true := by
      unfold chainOf at hc
      refine applyChain_noRef cx.env _ _ it (fieldref_not_mem ms hno) ?_ hc
      intro v hv
      obtain ⟨p, _, rfl⟩ := List.mem_map.1 hv
      exact pvToVal_noRef _ p
    exact itemBody_shift H hiso cx it hv
end

/-! ### items with field references -/

/-- a field name that is its own Sigma string: no escape character, no wildcard -/
def PlainName (s : Str) : Prop := ∀ c ∈ s, c ≠ '\\' ∧ c ≠ '*' ∧ c ≠ '?'

theorem parse_plain : ∀ s : Str, PlainName s → parse s = s.map .lit
  | [], _ => rfl
  | c :: s, hp => by
    have hc := hp c (by simp)
    have ih := parse_plain s (fun d hd => hp d (by simp [hd]))
    unfold parse at ih ⊢
    simp [parseAux, hc.1, hc.2.1, hc.2.2, ih]

theorem toPlain_lit : ∀ s : Str, PlainName s → toPlain (s.map .lit) = s
  | [], _ => rfl
  | c :: s, hp => by
    have hc := hp c (by simp)
    simp [toPlain, hc.2.1, hc.2.2, toPlain_lit s (fun d hd => hp d (by simp [hd]))]

theorem hasWildcard_lit (s : Str) : hasWildcard (s.map .lit) = false := by
  simp [hasWildcard]

def renPV (r : Str → Str) : PV → PV
  | .str s => .str (r s)
  | v => v

def renItem (r : Str → Str) (it : Item) : Item := { it with vals := it.vals.map (renVal r) }

theorem modifyValue_fieldref_str (env : Env) (hf first : Bool) (c : Bool) (p : SStr) :
    modifyValue env hf first "fieldref" (.str c p) =
      if hasWildcard p then .error (.value "fieldref".toList) else .ok [.fieldref (toPlain p) false false] := rfl

theorem pvToVal_plain (raw : Bool) (s : Str) (hp : PlainName s) : pvToVal raw (.str s) = .str false (s.map .lit) := by
  cases raw <;> simp [pvToVal, parse_plain s hp]

/-- the `fieldref` modifier on a source value and on the renamed source value -/
theorem fieldref_first (env : Env) (hf raw : Bool) (r : Str → Str) (v : PV)
    (hp : ∀ s, v = .str s → PlainName s ∧ PlainName (r s)) :
    applyToVal env hf true "fieldref" 8 (pvToVal raw (renPV r v)) =
      (applyToVal env hf true "fieldref" 8 (pvToVal raw v)).map (List.map (renVal r)) ∧
    outsAll isRef (applyToVal env hf true "fieldref" 8 (pvToVal raw v)) = true := by
  cases v with
  | str s =>
    obtain ⟨h1, h2⟩ := hp s rfl
    simp only [renPV, pvToVal_plain raw s h1, pvToVal_plain raw (r s) h2]
    rw [applyToVal_nonexp _ _ _ _ _ _ (by intro vs h; cases h), applyToVal_nonexp _ _ _ _ _ _ (by intro vs h; cases h)]
    simp [modifyValue_fieldref_str, hasWildcard_lit, toPlain_lit, h1, h2, Except.map, renVal, outsAll, isRef]
  | num n => exact ⟨rfl, rfl⟩
  | bool b => exact ⟨rfl, rfl⟩
  | null => exact ⟨rfl, rfl⟩

theorem mapM'_nat (P : Val → Bool) (k : Val → Val) (F : Val → Except MErr (List Val)) :
    ∀ vs : List Val, (∀ v ∈ vs, F (k v) = (F v).map (List.map k) ∧ outsAll P (F v) = true) →
      mapM' F (vs.map k) = (mapM' F vs).map (List.map k) ∧ outsAll P (mapM' F vs) = true
  | [], _ => ⟨rfl, rfl⟩
  | v :: vs, H => by
    obtain ⟨h1, h1'⟩ := H v (by simp)
    obtain ⟨h2, h2'⟩ := mapM'_nat P k F vs (fun a ha => H a (by simp [ha]))
    simp only [List.map_cons, mapM', h1, h2]
    cases hF : F v with
    | error e => exact ⟨rfl, rfl⟩
    | ok a =>
      cases hM : mapM' F vs with
      | error e => exact ⟨rfl, rfl⟩
      | ok b =>
        rw [hF] at h1'; rw [hM] at h2'
        simp only [outsAll, List.all_append, Bool.and_eq_true] at h1' h2' ⊢
        exact ⟨by simp [Except.map], h1', h2'⟩

/-- a modifier on an item whose values are field references commutes with renaming them -/
theorem applyModifier_ref (env : Env) (first : Bool) (m : String) (r : Str → Str) (it : Item)
    (hv : ∀ v ∈ it.vals, isRef v = true) :
    applyModifier env first m (renItem r it) = (applyModifier env first m it).map (renItem r) ∧
    ∀ it', applyModifier env first m it = .ok it' → ∀ v ∈ it'.vals, isRef v = true := by
  unfold applyModifier
  split
  · exact ⟨rfl, fun it' h => by cases h; exact hv⟩
  · split
    · exact ⟨rfl, fun it' h => by cases h; exact hv⟩
    · split
      · rename_i hm
        have hm' : m ∈ valueModifiers := by simpa using hm
        have key := mapM'_nat isRef (renVal r) (applyToVal env it.hasField first m 8) it.vals (by
          intro v hvm
          have hr := hv v hvm
          cases v with
          | fieldref x sw ew =>
            simp only [renVal]
            rw [applyToVal_nonexp _ _ _ _ _ _ (by intro vs h; cases h), applyToVal_nonexp _ _ _ _ _ _ (by intro vs h; cases h)]
            exact modifyValue_ref env it.hasField first m hm' r x sw ew
          | _ => simp [isRef] at hr)
        simp only [renItem]
        rw [key.1]
        cases hM : mapM' (applyToVal env it.hasField first m 8) it.vals with
        | error e => exact ⟨rfl, fun it' h => by cases h⟩
        | ok b =>
          refine ⟨rfl, fun it' h => ?_⟩
          cases h
          have := key.2
          rw [hM] at this
          simpa [outsAll] using this
      · exact ⟨rfl, fun it' h => by cases h⟩

theorem applyChainAux_ref (env : Env) (r : Str → Str) : ∀ (mods : List String) (first : Bool) (it : Item),
    (∀ v ∈ it.vals, isRef v = true) →
    applyChainAux env first mods (renItem r it) = (applyChainAux env first mods it).map (renItem r) ∧
    ∀ it', applyChainAux env first mods it = .ok it' → ∀ v ∈ it'.vals, isRef v = true
  | [], _, it, hv => ⟨rfl, fun it' h => by simp [applyChainAux] at h; cases h; exact hv⟩
  | m :: ms, first, it, hv => by
    obtain ⟨h1, h2⟩ := applyModifier_ref env first m r it hv
    simp only [applyChainAux, h1]
    cases hA : applyModifier env first m it with
    | error e => exact ⟨rfl, fun it' h => by cases h⟩
    | ok it1 => exact applyChainAux_ref env r ms false it1 (h2 it1 hA)

theorem mapM'_nat2 {α : Type} (P : Val → Bool) (k : Val → Val) (F : Val → Except MErr (List Val)) (a b : α → Val) :
    ∀ l : List α, (∀ x ∈ l, F (a x) = (F (b x)).map (List.map k) ∧ outsAll P (F (b x)) = true) →
      mapM' F (l.map a) = (mapM' F (l.map b)).map (List.map k) ∧ outsAll P (mapM' F (l.map b)) = true
  | [], _ => ⟨rfl, rfl⟩
  | v :: vs, H => by
    obtain ⟨h1, h1'⟩ := H v (by simp)
    obtain ⟨h2, h2'⟩ := mapM'_nat2 P k F a b vs (fun x hx => H x (by simp [hx]))
    simp only [List.map_cons, mapM', h1, h2]
    cases hF : F (b v) with
    | error e => exact ⟨rfl, rfl⟩
    | ok o =>
      cases hM : mapM' F (vs.map b) with
      | error e => exact ⟨rfl, rfl⟩
      | ok o2 =>
        rw [hF] at h1'; rw [hM] at h2'
        simp only [outsAll, List.all_append, Bool.and_eq_true] at h1' h2' ⊢
        exact ⟨by simp [Except.map], h1', h2'⟩

/-- the whole chain of a `field|fieldref|…` item on renamed source values -/
theorem chainOf_ref (cx : Ctx) (hf : Bool) (rest : List Str) (vs : List PV) (r : Str → Str)
    (hp : ∀ v ∈ vs, ∀ s, v = .str s → PlainName s ∧ PlainName (r s)) :
    chainOf cx hf ("fieldref".toList :: rest) (vs.map (renPV r)) =
      (chainOf cx hf ("fieldref".toList :: rest) vs).map (renItem r) ∧
    ∀ it, chainOf cx hf ("fieldref".toList :: rest) vs = .ok it → ∀ v ∈ it.vals, isRef v = true := by
  unfold chainOf applyChain
  simp only [List.map_cons, String.ofList_toList, List.map_map]
  split
  · exact ⟨rfl, fun it h => by cases h⟩
  · simp only [applyChainAux]
    have hmod : ∀ it : Item, applyModifier cx.env true "fieldref" it =
        match mapM' (applyToVal cx.env it.hasField true "fieldref" 8) it.vals with
        | .ok vs => .ok { it with vals := vs }
        | .error e => .error e := fun it => rfl
    simp only [hmod]
    have key := mapM'_nat2 isRef (renVal r) (applyToVal cx.env hf true "fieldref" 8)
      (pvToVal (("fieldref" :: rest.map String.ofList).contains "re") ∘ renPV r)
      (pvToVal (("fieldref" :: rest.map String.ofList).contains "re")) vs
      (fun x hx => fieldref_first cx.env hf _ r x (hp x hx))
    rw [key.1]
    cases hM : mapM' (applyToVal cx.env hf true "fieldref" 8)
        (vs.map (pvToVal (("fieldref" :: rest.map String.ofList).contains "re"))) with
    | error e => exact ⟨rfl, fun it h => by cases h⟩
    | ok o =>
      have ho : ∀ v ∈ o, isRef v = true := by
        have := key.2; rw [hM] at this; simpa [outsAll] using this
      exact applyChainAux_ref cx.env r (rest.map String.ofList) false
        { hasField := hf, vals := o } ho

section
variable {h : Atom → Atom} {f g : Option Str} {r : Str → Str}

theorem valBE'_ref (H : Shift h f g r) (cx : Ctx) (v : Val) (hv : isRef v = true) :
    valBE' cx g (renVal r v) = (valBE' cx f v).map (mapAtoms h) := by
  cases v with
  | fieldref x sw ew => simp [valBE', valBE, renVal, Except.map, mapAtoms, H.ref]
  | _ => simp [isRef] at hv

/-- an item `field|fieldref|…` after renaming both the field and the referenced fields -/
theorem itemOf_shift_ref (H : Shift h f g r) (hiso : g.isSome = f.isSome) (cx : Ctx) (rest : List Str) (vs : List PV)
    (hp : ∀ v ∈ vs, ∀ s, v = .str s → PlainName s ∧ PlainName (r s)) :
    itemOf cx g ("fieldref".toList :: rest) (vs.map (renPV r)) =
      (itemOf cx f ("fieldref".toList :: rest) vs).map (mapAtoms h) := by
  unfold itemOf
  obtain ⟨h1, h2⟩ := chainOf_ref cx f.isSome rest vs r hp
  rw [hiso, h1]
  cases hc : chainOf cx f.isSome ("fieldref".toList :: rest) vs with
  | error e => rfl
  | ok it =>
    exact itemBody_nat H hiso cx it (renVal r) (fun a ha => valBE'_ref H cx a (h2 it hc a ha))
end

end SigmaVerif.Lemmas.C12
