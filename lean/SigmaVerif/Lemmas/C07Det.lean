import SigmaVerif.Lemmas.C07Common
/-! # C07 lemmas: log source, detection and filter sections always return (every exception they can
raise is caught by the `try` block of the loader) -/
namespace SigmaVerif.Load

macro "py_leaves" : tactic => `(tactic| ((repeat' split) <;> simp [OnlyPy]))

/-- the `try … except B … except A … except SigmaError` block with pure handlers returns when the body
raises no Python exception besides `A` and `B` -/
theorem section_total {A B : PyCls} {body : R (List SigmaCls)} {h1 h2 : List SigmaCls} (hb : OnlyPy [B, A] body) :
    Total (catchSigma none (catchPy [A] (catchPy [B] body (pure h1)) (pure h2)) (fun c => pure [c])) := by
  apply total_catchSigma_none
  have h : OnlyPy [A] (catchPy [B] body (pure h1)) :=
    hb.catchPy (by simp) (by intro c hc; simp at hc; rcases hc with rfl | rfl <;> simp)
  exact h.catchPy (by simp) (by intro c hc; simp at hc; subst hc; simp)

theorem pyGetItem_map_onlyPy (m : Dict) (k : Str) : OnlyPy [.keyError] (pyGetItem (.map m) k) := by
  simp only [pyGetItem]; split <;> simp [OnlyPy]

theorem logsourceFromDict_onlyPy (ls : Y) : OnlyPy [.attributeError] (logsourceFromDict ls) := by
  cases ls <;> simp [logsourceFromDict, pyItems, pyGet, OnlyPy]
  case map m => py_leaves

theorem logsourceSection_total (m : Dict) : Total (logsourceSection m) := by
  unfold logsourceSection
  apply section_total
  refine ((pyGetItem_map_onlyPy m _).mono (by simp)).bind (fun ls _ => ?_)
  exact ((logsourceFromDict_onlyPy ls).mono (by simp)).bind (fun _ _ => by simp)

/-! ## detections -/
theorem pyLookupName_onlyPy (names : List Str) (k : Str) : OnlyPy [.keyError] (pyLookupName names k) := by
  unfold pyLookupName; py_leaves

theorem sigmaType_noPy (v : Y) : NoPy (sigmaType v) := by
  cases v <;> simp [sigmaType]
  py_leaves

theorem applyModifiers_noPy (mods : List Str) (vals : List Y) : NoPy (applyModifiers mods vals) := by
  unfold applyModifiers; py_leaves

theorem fromMapping_noPy (key val : Y) : NoPy (fromMapping key val) := by
  unfold fromMapping
  refine OnlyPy.bind ?_ (fun mods _ => ?_)
  · cases key <;> simp [itemModifiers, Y.isNone, Y.isStr, pySplit]
  · refine OnlyPy.bind ?_ (fun _ _ => ?_)
    · exact (forEach_onlyPy (pyLookupName_onlyPy knownModifiers) mods).catchPy (by simp) (by simp)
    · exact (forEach_onlyPy sigmaType_noPy _).bind (fun _ _ => applyModifiers_noPy _ _)

theorem fromMappings_noPy : ∀ m : Dict, NoPy (fromMappings m)
  | [] => by simp [fromMappings]
  | (k, v) :: rest => by
      simp only [fromMappings]
      exact (fromMapping_noPy k v).bind (fun _ _ => fromMappings_noPy rest)

mutual
theorem fromDefinition_noPy : ∀ d : Y, NoPy (fromDefinition d)
  | .map m => by
      unfold fromDefinition
      exact (fromMappings_noPy m).bind (fun _ _ => by py_leaves)
  | .list l => by
      unfold fromDefinition
      split
      · exact fromMapping_noPy _ _
      · exact fromDefinitions_noPy l
  | .null => by unfold fromDefinition; exact fromMapping_noPy _ _
  | .bool _ => by unfold fromDefinition; exact fromMapping_noPy _ _
  | .int _ => by unfold fromDefinition; exact fromMapping_noPy _ _
  | .float _ => by unfold fromDefinition; exact fromMapping_noPy _ _
  | .str _ => by unfold fromDefinition; exact fromMapping_noPy _ _
theorem fromDefinitions_noPy : ∀ l : List Y, NoPy (fromDefinitions l)
  | [] => by simp [fromDefinitions]
  | x :: xs => by
      simp only [fromDefinitions]
      exact (fromDefinition_noPy x).bind (fun _ _ => fromDefinitions_noPy xs)
end

theorem namedDetections_noPy (skip : List Str) : ∀ m : Dict, NoPy (namedDetections skip m)
  | [] => by simp [namedDetections]
  | (k, v) :: rest => by
      simp only [namedDetections]
      split
      · exact namedDetections_noPy skip rest
      · exact (fromDefinition_noPy v).bind (fun _ _ => namedDetections_noPy skip rest)

theorem detectionsFromDict_onlyPy (d : Y) : OnlyPy [.typeError] (detectionsFromDict d) := by
  cases d
  case map m =>
    unfold detectionsFromDict
    refine OnlyPy.bind ?_ (fun c _ => ?_)
    · exact (pyGetItem_map_onlyPy m _).catchPy (by simp) (by simp)
    · simp only [pyItems, pure_eq, ok_bind]
      exact (namedDetections_noPy _ m).only.bind (fun _ _ => by py_leaves)
  all_goals simp [detectionsFromDict, pyGetItem, OnlyPy]

theorem detectionSection_total (m : Dict) : Total (detectionSection m) := by
  unfold detectionSection
  apply section_total
  refine ((pyGetItem_map_onlyPy m _).mono (by simp)).bind (fun d _ => ?_)
  exact ((detectionsFromDict_onlyPy d).mono (by simp)).bind (fun _ _ => by simp)

/-! ## filters -/
theorem globalFilterFromDict_onlyPy (f : Y) : OnlyPy [.typeError] (globalFilterFromDict f) := by
  cases f
  case map m =>
    unfold globalFilterFromDict
    refine OnlyPy.bind ?_ (fun c _ => ?_)
    · refine OnlyPy.catchPy (S := [.keyError]) ?_ (by simp) (by simp)
      exact (pyGetItem_map_onlyPy m _).bind (fun c _ => by py_leaves)
    · refine OnlyPy.bind ?_ (fun _ _ => ?_)
      · refine OnlyPy.catchPy (S := [.keyError]) ?_ (by simp) (by simp)
        refine (pyGetItem_map_onlyPy m _).bind (fun r _ => ?_)
        cases r <;> simp [Y.isStr, Y.isList, pyLower]
      · simp only [pyItems, pure_eq, ok_bind]
        exact (namedDetections_noPy _ m).only.bind (fun _ _ => by py_leaves)
  all_goals simp [globalFilterFromDict, pyGetItem, OnlyPy]

theorem filterSection_total (m : Dict) : Total (filterSection m) := by
  unfold filterSection
  apply section_total
  refine ((pyGetItem_map_onlyPy m _).mono (by simp)).bind (fun d _ => ?_)
  exact ((globalFilterFromDict_onlyPy d).mono (by simp)).bind (fun _ _ => by simp)

end SigmaVerif.Load
