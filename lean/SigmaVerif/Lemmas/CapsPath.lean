import SigmaVerif.Model.Caps
/-!
# C16: the containment test of `_load_vars_from_file` on strings is containment of path components

`realpath` returns an absolute, normalised path: `/c₁/c₂/…/cₙ` with non-empty components free of `/`
(`render [c₁, …, cₙ]`; the root directory itself, which `realpath` writes `/`, is not of this form and is
discussed in Props/C16).  For such paths the string test `p.startswith(b + "/") or p == b` holds exactly when the
components of `b` are a prefix of the components of `p` — in particular a sibling directory whose *name* merely
starts with the base's name (`/base/dirX` vs `/base/dir`) is outside.  Without the appended separator it is not.
-/
namespace SigmaVerif.Caps

/-- the text of an absolute normalised path with these components -/
def render : List Str → Str
  | [] => []
  | c :: cs => '/' :: c ++ render cs

/-- a path component: non-empty, without separator -/
def Comp (c : Str) : Prop := c ≠ [] ∧ '/' ∉ c

theorem render_nil_or_slash (cs : List Str) : render cs = [] ∨ ∃ t, render cs = '/' :: t := by
  cases cs with
  | nil => exact .inl rfl
  | cons c cs => exact .inr ⟨_, rfl⟩

theorem render_append (a b : List Str) : render (a ++ b) = render a ++ render b := by
  induction a with
  | nil => rfl
  | cons c cs ih => simp [render, ih]

/-- two separator-free names followed by a separator (or the end) can only be a prefix of one another if they
are equal -/
theorem name_prefix {a c x y : Str} (ha : '/' ∉ a) (hc : '/' ∉ c) (hy : y = [] ∨ ∃ t, y = '/' :: t)
    (h : (a ++ '/' :: x) <+: (c ++ y)) : a = c ∧ ('/' :: x) <+: y := by
  induction a generalizing c with
  | nil =>
    cases c with
    | nil => exact ⟨rfl, by simpa using h⟩
    | cons ch c' =>
      exfalso
      obtain ⟨r, hr⟩ := h
      simp at hr
      exact hc (hr.1 ▸ List.mem_cons_self)
  | cons ah a' ih =>
    cases c with
    | nil =>
      exfalso
      rcases hy with rfl | ⟨t, rfl⟩
      · obtain ⟨r, hr⟩ := h; simp at hr
      · obtain ⟨r, hr⟩ := h
        simp at hr
        exact ha (hr.1 ▸ List.mem_cons_self)
    | cons ch c' =>
      obtain ⟨r, hr⟩ := h
      simp at hr
      obtain ⟨h1, h2⟩ := hr
      have ha' : '/' ∉ a' := fun hm => ha (List.mem_cons_of_mem _ hm)
      have hc' : '/' ∉ c' := fun hm => hc (List.mem_cons_of_mem _ hm)
      obtain ⟨e, hp⟩ := ih ha' hc' ⟨r, by simpa using h2⟩
      exact ⟨by rw [h1, e], hp⟩

/-- string prefix (with separator) implies component prefix -/
theorem prefix_of_render_prefix : (b p : List Str) → (x : Str) → (∀ c ∈ b, '/' ∉ c) → (∀ c ∈ p, '/' ∉ c) →
    (render b ++ '/' :: x) <+: render p → b <+: p
  | [], p, _, _, _, _ => List.nil_prefix
  | b0 :: bs, [], x, _, _, h => by
    obtain ⟨r, hr⟩ := h
    simp [render] at hr
  | b0 :: bs, p0 :: ps, x, hb, hp, h => by
    have h' : (b0 ++ (render bs ++ '/' :: x)) <+: (p0 ++ render ps) := by
      obtain ⟨r, hr⟩ := h
      refine ⟨r, ?_⟩
      simp [render] at hr
      simpa using hr
    have hsl : ∃ x', render bs ++ '/' :: x = '/' :: x' := by
      rcases render_nil_or_slash bs with hn | ⟨t, ht⟩
      · exact ⟨x, by simp [hn]⟩
      · exact ⟨t ++ '/' :: x, by simp [ht]⟩
    obtain ⟨x', hx'⟩ := hsl
    rw [hx'] at h'
    obtain ⟨e, hrest⟩ := name_prefix (hb b0 List.mem_cons_self) (hp p0 List.mem_cons_self) (render_nil_or_slash ps) h'
    rw [← hx'] at hrest
    have ih := prefix_of_render_prefix bs ps x (fun c hc => hb c (List.mem_cons_of_mem _ hc))
      (fun c hc => hp c (List.mem_cons_of_mem _ hc)) hrest
    subst e
    exact (List.cons_prefix_cons).2 ⟨rfl, ih⟩

/-- **the test written in the code is component containment** -/
theorem contained_iff_components (b p : List Str) (hb : ∀ c ∈ b, Comp c) (hp : ∀ c ∈ p, Comp c) :
    ((render b ++ ['/']) <+: render p ∨ render p = render b) ↔ b <+: p := by
  constructor
  · rintro (h | h)
    · exact prefix_of_render_prefix b p [] (fun c hc => (hb c hc).2) (fun c hc => (hp c hc).2) h
    · -- equal texts: compare `b/` with `p/`
      have h2 : (render b ++ ['/']) <+: render (p ++ [[]]) := by
        rw [render_append, h]; simp [render]
      have hpre := prefix_of_render_prefix b (p ++ [[]]) [] (fun c hc => (hb c hc).2)
        (by
          intro c hc
          rcases List.mem_append.1 hc with hc | hc
          · exact (hp c hc).2
          · simp at hc; subst hc; simp) h2
      obtain ⟨r, hr⟩ := hpre
      -- `b ++ r = p ++ [[]]`: the last element `[]` cannot belong to `b`
      rcases List.eq_nil_or_concat r with rfl | ⟨r', z, rfl⟩
      · exfalso
        simp at hr
        have : ([] : Str) ∈ b := by rw [hr]; simp
        exact (hb [] this).1 rfl
      · have : b ++ r' = p := by
          have := congrArg List.dropLast hr
          simpa [← List.append_assoc] using this
        exact ⟨r', this⟩
  · rintro ⟨r, rfl⟩
    cases r with
    | nil => right; simp
    | cons r0 rs => left; exact ⟨r0 ++ render rs, by simp [render_append, render]⟩

/-- with the appended separator, a passing test means: equal to a base or strictly below it -/
theorem contained_sound {cfg : Cfg} (hs : cfg.pathSep = true) {rb p : Str} (h : contained cfg rb p = true) :
    (rb ++ ['/']) <+: p ∨ p = rb := by
  simp only [contained, hs, if_true, Bool.or_eq_true, Bool.and_eq_true] at h
  rcases h with h | h
  · exact .inl (List.isPrefixOf_iff_prefix.1 h)
  · exact .inr (by simpa using h.2)

theorem pathOk_sound {cfg : Cfg} (hs : cfg.pathSep = true) {w : World} {bases : List Str} {p : Str}
    (h : pathOk cfg w bases p = true) : ∃ b ∈ bases, (w.realpath b ++ ['/']) <+: p ∨ p = w.realpath b := by
  simp only [pathOk, List.any_eq_true] at h
  obtain ⟨b, hb, hc⟩ := h
  exact ⟨b, hb, contained_sound hs hc⟩

end SigmaVerif.Caps
