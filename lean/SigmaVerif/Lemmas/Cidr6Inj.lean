import SigmaVerif.Model.Cidr
import SigmaVerif.Lemmas.Cidr
/-!
# `str(IPv6Address)` is injective (model `render6`)

A reader `read6` of the text form is defined and shown to invert `render6` on every address below
`2 ^ 128`; only the *soundness* of the zero-run scan (`bestRun` returns a run of zero hextets inside
the list) is needed, not its maximality.
-/
namespace SigmaVerif.Cidr

/-! ## the scan returns a run of zeros -/

theorem bestRun_sound (full : List Nat) :
    ∀ (hs : List Nat) (idx : Nat) (cs : Option Nat) (cl : Nat) (bs : Option Nat) (bl s l : Nat),
      full.drop idx = hs → idx ≤ full.length →
      (match cs with
        | none => cl = 0
        | some c => c + cl = idx ∧ ∀ i, c ≤ i → i < idx → full.getD i 1 = 0) →
      (match bs with
        | none => True
        | some b => b + bl ≤ idx ∧ ∀ i, b ≤ i → i < b + bl → full.getD i 1 = 0) →
      bestRun hs idx cs cl bs bl = (some s, l) →
      s + l ≤ full.length ∧ ∀ i, s ≤ i → i < s + l → full.getD i 1 = 0 := by
  intro hs
  induction hs with
  | nil =>
    intro idx cs cl bs bl s l _ hidx _ hbest h
    simp only [bestRun, Prod.mk.injEq] at h
    obtain ⟨h1, h2⟩ := h
    subst h1 h2
    simp only at hbest
    exact ⟨by omega, hbest.2⟩
  | cons x t ih =>
    intro idx cs cl bs bl s l hdrop hidx hcur hbest h
    have hlt : idx < full.length := by
      rcases Nat.lt_or_ge idx full.length with h' | h'
      · exact h'
      · rw [List.drop_eq_nil_of_le h'] at hdrop; cases hdrop
    have hx : full.getD idx 1 = x := by
      have : full[idx]? = some x := by
        rw [← List.head?_drop, hdrop]; rfl
      simp [List.getD, this]
    have hdrop' : full.drop (idx + 1) = t := by
      rw [← List.drop_drop, hdrop]; rfl
    simp only [bestRun] at h
    split at h
    · -- x = 0
      rename_i hx0
      have hx0' : x = 0 := by simpa using hx0
      have hcur' : (match (match cs with | none => some idx | some s => some s) with
          | none => cl + 1 = 0
          | some c => c + (cl + 1) = idx + 1 ∧ ∀ i, c ≤ i → i < idx + 1 → full.getD i 1 = 0) := by
        cases cs with
        | none =>
          simp only at hcur ⊢
          refine ⟨by omega, fun i h1 h2 => ?_⟩
          have : i = idx := by omega
          rw [this, hx, hx0']
        | some c =>
          simp only at hcur ⊢
          refine ⟨by omega, fun i h1 h2 => ?_⟩
          rcases Nat.lt_or_ge i idx with h' | h'
          · exact hcur.2 i h1 h'
          · have : i = idx := by omega
            rw [this, hx, hx0']
      split at h
      · -- new best = current
        refine ih (idx + 1) _ (cl + 1) _ (cl + 1) s l hdrop' (by omega) hcur' ?_ h
        cases cs with
        | none =>
          simp only at hcur' ⊢
          exact ⟨by omega, fun i h1 h2 => hcur'.2 i h1 (by omega)⟩
        | some c =>
          simp only at hcur' ⊢
          exact ⟨by omega, fun i h1 h2 => hcur'.2 i h1 (by omega)⟩
      · refine ih (idx + 1) _ (cl + 1) bs bl s l hdrop' (by omega) hcur' ?_ h
        cases bs with
        | none => trivial
        | some b => simp only at hbest ⊢; exact ⟨by omega, hbest.2⟩
    · refine ih (idx + 1) none 0 bs bl s l hdrop' (by omega) rfl ?_ h
      cases bs with
      | none => trivial
      | some b => simp only at hbest ⊢; exact ⟨by omega, hbest.2⟩

/-- the run found by the scan splits the list: `hs = A ++ zeros ++ B` -/
theorem bestRun_split (hs : List Nat) (s l : Nat) (h : bestRun hs 0 none 0 none 0 = (some s, l)) :
    s + l ≤ hs.length ∧ hs = hs.take s ++ List.replicate l 0 ++ hs.drop (s + l) := by
  obtain ⟨h1, h2⟩ := bestRun_sound hs hs 0 none 0 none 0 s l rfl (Nat.zero_le _) rfl trivial h
  refine ⟨h1, ?_⟩
  apply List.ext_getElem?
  intro i
  rcases Nat.lt_or_ge i s with hi | hi
  · rw [List.append_assoc, List.getElem?_append_left (by simp; omega), List.getElem?_take_of_lt hi]
  · rcases Nat.lt_or_ge i (s + l) with hi2 | hi2
    · have hz := h2 i hi hi2
      have hlen : i < hs.length := by omega
      rw [List.append_assoc, List.getElem?_append_right (by simp; omega),
        List.getElem?_append_left (by simp; omega)]
      simp only [List.length_take, List.getElem?_replicate]
      have : i - min s hs.length < l := by omega
      simp only [this, if_true]
      simp only [List.getD, List.getElem?_eq_getElem hlen, Option.getD_some] at hz
      rw [List.getElem?_eq_getElem hlen, hz]
    · rw [List.getElem?_append_right (by simp; omega)]
      simp only [List.length_append, List.length_take, List.length_replicate, List.getElem?_drop]
      congr 1; omega

/-! ## a reader of the text form -/

/-- split at every `:` -/
def splitColon : Str → List Str
  | [] => [[]]
  | c :: cs =>
    match splitColon cs with
    | [] => [[]]
    | f :: fs => if c = ':' then [] :: f :: fs else (c :: f) :: fs

theorem splitColon_noColon (x : Str) (h : ':' ∉ x) : splitColon x = [x] := by
  induction x with
  | nil => rfl
  | cons c x ih =>
    have hc : c ≠ ':' := fun e => h (by simp [e])
    have hx : ':' ∉ x := fun e => h (by simp [e])
    simp [splitColon, ih hx, hc]

theorem splitColon_ne_nil (x : Str) : splitColon x ≠ [] := by
  cases x with
  | nil => simp [splitColon]
  | cons c x =>
    simp only [splitColon]
    split
    · simp
    · split <;> simp

theorem splitColon_append (x r : Str) (h : ':' ∉ x) :
    splitColon (x ++ ':' :: r) = x :: splitColon r := by
  induction x with
  | nil =>
    simp only [List.nil_append, splitColon]
    cases hr : splitColon r with
    | nil => exact absurd hr (splitColon_ne_nil r)
    | cons f fs => simp
  | cons c x ih =>
    have hc : c ≠ ':' := fun e => h (by simp [e])
    have hx : ':' ∉ x := fun e => h (by simp [e])
    simp [splitColon, ih hx, hc]

theorem splitColon_joinColon (L : List Str) (hne : L ≠ []) (h : ∀ x ∈ L, ':' ∉ x) :
    splitColon (joinColon L) = L := by
  induction L with
  | nil => exact absurd rfl hne
  | cons x t ih =>
    cases t with
    | nil => simpa [joinColon] using splitColon_noColon x (h x (by simp))
    | cons y t =>
      rw [joinColon_cons_cons, splitColon_append x _ (h x (by simp)),
        ih (List.cons_ne_nil _ _) (fun z hz => h z (List.mem_cons_of_mem _ hz))]

/-- the hextets denoted by the `:`-separated fields: without an empty field, the fields themselves;
otherwise the fields before the first empty one, as many zeros as are missing to 8, and the
fields after the last empty one -/
def readFields (F : List Str) : List Nat :=
  if F.all (fun f => !f.isEmpty) then F.map unhex
  else
    let pre := F.takeWhile (fun f => !f.isEmpty)
    let post := (F.reverse.takeWhile (fun f => !f.isEmpty)).reverse
    pre.map unhex ++ List.replicate (8 - pre.length - post.length) 0 ++ post.map unhex

def read6 (x : Str) : List Nat := readFields (splitColon x)

theorem takeWhile_nonempty_stop (X Y : List Str) (h : ∀ x ∈ X, x ≠ []) :
    (X ++ [] :: Y).takeWhile (fun f => !f.isEmpty) = X := by
  induction X with
  | nil => simp
  | cons x X ih =>
    have hx : x ≠ [] := h x (by simp)
    have : (!x.isEmpty) = true := by cases x <;> simp_all
    simp [this, ih (fun z hz => h z (by simp [hz]))]

/-- the list of fields the compressed form is made of -/
def midOf (A B : List Str) : List Str :=
  (if A = [] then [[]] else []) ++ A ++ [[]] ++ B ++ (if B = [] then [[]] else [])

theorem readFields_midOf (A B : List Str) (hA : ∀ x ∈ A, x ≠ []) (hB : ∀ x ∈ B, x ≠ []) :
    readFields (midOf A B)
      = A.map unhex ++ List.replicate (8 - A.length - B.length) 0 ++ B.map unhex := by
  have hall : (midOf A B).all (fun f => !f.isEmpty) = false := by
    simp [midOf]
  have hpre : (midOf A B).takeWhile (fun f => !f.isEmpty) = A := by
    by_cases hA0 : A = []
    · subst hA0; simp [midOf]
    · simp only [midOf, if_neg hA0, List.nil_append, List.append_assoc]
      exact takeWhile_nonempty_stop A _ hA
  have hpost : ((midOf A B).reverse.takeWhile (fun f => !f.isEmpty)).reverse = B := by
    by_cases hB0 : B = []
    · subst hB0; simp [midOf]
    · have hrev : (midOf A B).reverse
          = B.reverse ++ [] :: (A.reverse ++ (if A = [] then [[]] else [])) := by
        simp only [midOf, if_neg hB0, List.append_nil, List.reverse_append, List.reverse_cons,
          List.append_assoc, List.singleton_append]
        congr 2
        split <;> simp
      rw [hrev, takeWhile_nonempty_stop _ _ (fun x hx => hB x (List.mem_reverse.1 hx)),
        List.reverse_reverse]
  unfold readFields
  rw [hall]
  simp only [Bool.false_eq_true, if_false, hpre, hpost]

/-- reading the text form gives back the hextets -/
theorem read6_renderH (hs : List Nat) (hlen : hs.length = 8) (hlt : ∀ x ∈ hs, x < 65536) :
    read6 (renderH hs) = hs := by
  have hcol : ∀ x ∈ hs.map hex, ':' ∉ x := by
    intro x hx
    obtain ⟨n, hn, rfl⟩ := List.mem_map.1 hx
    intro hc
    exact (hex_chars (hlt n hn) ':' hc).2 rfl
  have hnonempty : ∀ x ∈ hs.map hex, x ≠ [] := by
    intro x hx
    obtain ⟨n, _, rfl⟩ := List.mem_map.1 hx
    exact hex_ne_nil n
  have hunhex : ∀ l : List Nat, (∀ x ∈ l, x < 65536) → (l.map hex).map unhex = l := by
    intro l hl
    induction l with
    | nil => rfl
    | cons a l ih =>
      simp [unhex_hex (hl a (by simp)), ih (fun x hx => hl x (by simp [hx]))]
  have hplain : read6 (joinColon (hs.map hex)) = hs := by
    unfold read6
    rw [splitColon_joinColon _ (by intro e; rw [List.map_eq_nil_iff] at e; simp [e] at hlen) hcol]
    unfold readFields
    have : (hs.map hex).all (fun f => !f.isEmpty) = true := by
      rw [List.all_eq_true]
      intro x hx
      have := hnonempty x hx
      cases x <;> simp_all
    rw [this]; simp only [if_true]; exact hunhex hs hlt
  unfold renderH
  simp only
  split
  · rename_i s l hbr
    split
    · rename_i hl
      obtain ⟨hle, hsplit⟩ := bestRun_split hs s l hbr
      have hmid : (if (s == 0) = true then [] :: ((hs.map hex).take s ++ [[]] ++
              if (s + l == 8) = true then (hs.map hex).drop (s + l) ++ [[]] else (hs.map hex).drop (s + l))
            else (hs.map hex).take s ++ [[]] ++
              if (s + l == 8) = true then (hs.map hex).drop (s + l) ++ [[]] else (hs.map hex).drop (s + l))
          = midOf ((hs.take s).map hex) ((hs.drop (s + l)).map hex) := by
        have hA : ((hs.take s).map hex = []) ↔ s = 0 := by
          rw [List.map_eq_nil_iff, List.take_eq_nil_iff]
          constructor
          · rintro (h | h)
            · exact h
            · rw [h] at hlen; simp at hlen
          · exact Or.inl
        have hB : ((hs.drop (s + l)).map hex = []) ↔ s + l = 8 := by
          rw [List.map_eq_nil_iff, List.drop_eq_nil_iff]; omega
        simp only [List.map_take, List.map_drop] at hA hB ⊢
        generalize (hs.map hex).take s = A at hA ⊢
        generalize (hs.map hex).drop (s + l) = B at hB ⊢
        by_cases h0 : s = 0
        · have hA' : A = [] := hA.2 h0
          by_cases h8 : s + l = 8
          · have hB' : B = [] := hB.2 h8
            simp [midOf, h0, hA', hB']
            try omega
          · have hB' : B ≠ [] := fun e => h8 (hB.1 e)
            simp [midOf, h0, hA', hB']
            try omega
        · have hA' : A ≠ [] := fun e => h0 (hA.1 e)
          by_cases h8 : s + l = 8
          · have hB' : B = [] := hB.2 h8
            simp [midOf, h0, h8, hA', hB']
            try omega
          · have hB' : B ≠ [] := fun e => h8 (hB.1 e)
            simp [midOf, h0, h8, hA', hB']
            try omega
      rw [hmid]
      unfold read6
      have hmem_take : ∀ x ∈ (hs.take s).map hex, x ∈ hs.map hex := by
        intro x hx
        obtain ⟨n, hn, rfl⟩ := List.mem_map.1 hx
        exact List.mem_map.2 ⟨n, List.mem_of_mem_take hn, rfl⟩
      have hmem_drop : ∀ x ∈ (hs.drop (s + l)).map hex, x ∈ hs.map hex := by
        intro x hx
        obtain ⟨n, hn, rfl⟩ := List.mem_map.1 hx
        exact List.mem_map.2 ⟨n, List.mem_of_mem_drop hn, rfl⟩
      rw [splitColon_joinColon _ (by simp [midOf])]
      · rw [readFields_midOf _ _ (fun x hx => hnonempty x (hmem_take x hx))
          (fun x hx => hnonempty x (hmem_drop x hx)),
          hunhex _ (fun x hx => hlt x (List.mem_of_mem_take hx)),
          hunhex _ (fun x hx => hlt x (List.mem_of_mem_drop hx))]
        simp only [List.length_map, List.length_take, List.length_drop]
        have : 8 - min s hs.length - (hs.length - (s + l)) = l := by omega
        rw [this]
        exact hsplit.symm
      · intro x hx
        simp only [midOf, List.mem_append, List.mem_singleton] at hx
        rcases hx with (((hx | hx) | hx) | hx) | hx
        · split at hx
          · rw [List.mem_singleton] at hx; subst hx; simp
          · cases hx
        · exact hcol x (hmem_take x hx)
        · subst hx; simp
        · exact hcol x (hmem_drop x hx)
        · split at hx
          · rw [List.mem_singleton] at hx; subst hx; simp
          · cases hx
    · exact hplain
  · exact hplain

/-! ## injectivity -/

theorem hextets_inj (a b : Nat) (ha : a < 2 ^ 128) (hb : b < 2 ^ 128)
    (h : hextets a = hextets b) : a = b := by
  rw [hextets_eq, hextets_eq] at h
  simp only [List.cons.injEq, and_true] at h
  obtain ⟨h0, h1, h2, h3, h4, h5, h6, h7⟩ := h
  omega

/-- `str(IPv6Address(·))` is injective on addresses -/
theorem render6_inj (a b : Nat) (ha : a < 2 ^ 128) (hb : b < 2 ^ 128)
    (h : render6 a = render6 b) : a = b := by
  apply hextets_inj a b ha hb
  rw [← read6_renderH (hextets a) (length_hextets a) (hextets_lt a),
    ← read6_renderH (hextets b) (length_hextets b) (hextets_lt b), ← render6_eq, ← render6_eq, h]

/-! ## the text form contains no wildcard -/

theorem star_not_mem_renderH (hs : List Nat) (hlt : ∀ x ∈ hs, x < 65536) : '*' ∉ renderH hs := by
  have hstrs : ∀ x ∈ hs.map hex, '*' ∉ x := by
    intro x hx
    obtain ⟨n, hn, rfl⟩ := List.mem_map.1 hx
    intro hc
    exact (hex_chars (hlt n hn) '*' hc).1 rfl
  unfold renderH
  simp only
  split
  · split
    · apply not_mem_joinColon '*' (by decide)
      intro x hx
      have hx' : x = [] ∨ x ∈ hs.map hex := by
        split at hx
        · rcases List.mem_cons.1 hx with h | hx
          · exact Or.inl h
          · simp only [List.mem_append, List.mem_singleton] at hx
            rcases hx with (h | h) | h
            · exact Or.inr (List.mem_of_mem_take h)
            · exact Or.inl h
            · split at h
              · rcases List.mem_append.1 h with h | h
                · exact Or.inr (List.mem_of_mem_drop h)
                · exact Or.inl (List.mem_singleton.1 h)
              · exact Or.inr (List.mem_of_mem_drop h)
        · simp only [List.mem_append, List.mem_singleton] at hx
          rcases hx with (h | h) | h
          · exact Or.inr (List.mem_of_mem_take h)
          · exact Or.inl h
          · split at h
            · rcases List.mem_append.1 h with h | h
              · exact Or.inr (List.mem_of_mem_drop h)
              · exact Or.inl (List.mem_singleton.1 h)
            · exact Or.inr (List.mem_of_mem_drop h)
      rcases hx' with h | h
      · subst h; simp
      · exact hstrs x h
    · exact not_mem_joinColon '*' (by decide) _ hstrs
  · exact not_mem_joinColon '*' (by decide) _ hstrs

theorem star_not_mem_render6 (a : Nat) : '*' ∉ render6 a := by
  rw [render6_eq]; exact star_not_mem_renderH _ (hextets_lt a)

end SigmaVerif.Cidr
