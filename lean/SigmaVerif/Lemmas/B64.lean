import SigmaVerif.Model.B64
/-!
# Helper lemmas for C04 (encoding modifiers)

Locality of the position-wise Base64 model, the window characterisation of `slice (b64 _)`,
the three-byte step of `b64`, and the UTF-8 encode/decode round trip.
-/
namespace SigmaVerif.B64

/-- all elements are octets -/
def Bytes (x : List Byte) : Prop := ∀ b ∈ x, b < 256

/-! ## Base64: locality -/

/-- first output position whose six bits lie entirely behind `i` leading bytes: ⌈8i/6⌉ -/
def startOf (i : Nat) : Nat := (8 * i + 5) / 6
/-- first output position whose six bits are not entirely inside the first `i + n` bytes: ⌊8(i+n)/6⌋ -/
def endOf (i n : Nat) : Nat := 8 * (i + n) / 6

theorem length_b64 (x : List Byte) : (b64 x).length = encLen x.length := by
  simp [b64]

theorem getElem?_b64 (x : List Byte) (j : Nat) :
    (b64 x)[j]? = if j < encLen x.length then some (b64char x j) else none := by
  unfold b64
  rw [List.getElem?_map]
  by_cases h : j < encLen x.length
  · rw [List.getElem?_range h]; simp [h]
  · rw [List.getElem?_eq_none (by simp only [List.length_range]; omega)]; simp [h]

/-- `slice (b64 x) a c` is the window `[a, encLen - c)` of the position-wise encoding -/
theorem getElem?_slice_b64 (x : List Byte) (a c k : Nat) :
    (slice (b64 x) a c)[k]? =
      if a + k < encLen x.length - c then some (b64char x (a + k)) else none := by
  unfold slice
  rw [List.getElem?_drop, List.getElem?_take, length_b64, getElem?_b64]
  by_cases h : a + k < encLen x.length - c
  · rw [if_pos h, if_pos h, if_pos (by omega)]
  · rw [if_neg h, if_neg h]

theorem getElem?_window_b64 (x : List Byte) (lo hi k : Nat) :
    (((b64 x).take hi).drop lo)[k]? =
      if lo + k < hi ∧ lo + k < encLen x.length then some (b64char x (lo + k)) else none := by
  rw [List.getElem?_drop, List.getElem?_take, getElem?_b64]
  by_cases h1 : lo + k < hi <;> by_cases h2 : lo + k < encLen x.length <;> simp [h1, h2]

theorem dataChars_le_encLen (n : Nat) : dataChars n ≤ encLen n := by
  simp only [dataChars, encLen]; omega

/-- every position below `endOf i n` is a data position of any byte string that carries the
payload at byte offset `3m + i` -/
theorem in_data (i n m extra j : Nat) (hj : j < endOf i n) :
    j + 4 * m < dataChars (3 * m + i + n + extra) := by
  simp only [endOf, dataChars] at *
  omega

theorem byteAt_mid (p v s : List Byte) (k : Nat) (h1 : p.length ≤ k)
    (h2 : k < p.length + v.length) :
    byteAt (p ++ v ++ s) k = byteAt v (k - p.length) := by
  unfold byteAt
  simp only [List.getD_eq_getElem?_getD]
  rw [List.append_assoc, List.getElem?_append_right h1, List.getElem?_append_left (by omega)]

/-- Locality.  The characters determined by the payload are the same, position for position, in
the reference encoding (`q ++ v`, `|q| = i`) and in the encoding of any byte string that carries
the payload at an offset `≡ i (mod 3)`. -/
theorem b64char_local (p v s q : List Byte) (i m j : Nat) (hp : p.length = 3 * m + i)
    (hq : q.length = i) (hlo : startOf i ≤ j) (hhi : j < endOf i v.length) :
    b64char (p ++ v ++ s) (j + 4 * m) = b64char (q ++ v) j := by
  have hd1 : j + 4 * m < dataChars (p ++ v ++ s).length := by
    have := in_data i v.length m s.length j hhi
    simpa [hp, Nat.add_assoc] using this
  have hd2 : j < dataChars (q ++ v).length := by
    have := in_data i v.length 0 0 j hhi
    simpa [hq] using this
  simp only [b64char, hd1, hd2, ↓reduceIte]
  congr 1
  simp only [startOf, endOf] at hlo hhi
  have hk : 6 * (j + 4 * m) / 8 = 6 * j / 8 + 3 * m := by omega
  have hr : 6 * (j + 4 * m) % 8 = 6 * j % 8 := by omega
  have e0 : byteAt (p ++ v ++ s) (6 * j / 8 + 3 * m) = byteAt (q ++ v ++ []) (6 * j / 8) := by
    rw [byteAt_mid _ _ _ _ (by omega) (by omega), byteAt_mid _ _ _ _ (by omega) (by omega)]
    congr 1; omega
  have e1 : 2 < 6 * j % 8 →
      byteAt (p ++ v ++ s) (6 * j / 8 + 3 * m + 1) = byteAt (q ++ v ++ []) (6 * j / 8 + 1) := by
    intro h
    rw [byteAt_mid _ _ _ _ (by omega) (by omega), byteAt_mid _ _ _ _ (by omega) (by omega)]
    congr 1; omega
  simp only [List.append_nil] at e0 e1
  unfold sextet
  simp only [hk, hr]
  have hr4 : 6 * j % 8 = 0 ∨ 6 * j % 8 = 2 ∨ 6 * j % 8 = 4 ∨ 6 * j % 8 = 6 := by omega
  rcases hr4 with h | h | h | h <;> simp only [h] <;> rw [e0] <;> (try rw [e1 (by omega)])

/-! ## Base64: what soundness of the tables gives -/

theorem Tables.sound_starts (T : Tables) (hT : T.sound = true) (i : Nat) (hi : i < 3) :
    startOf i ≤ T.starts.getD i 0 := by
  simp only [Tables.sound, Bool.and_eq_true, decide_eq_true_eq] at hT
  have h3 : i = 0 ∨ i = 1 ∨ i = 2 := by omega
  rcases h3 with rfl | rfl | rfl <;> simp only [startOf] <;> omega

theorem Tables.sound_cuts (T : Tables) (hT : T.sound = true) (i n : Nat) :
    encLen (i + n) - T.cuts.getD ((n + i) % 3) 0 ≤ endOf i n := by
  simp only [Tables.sound, Bool.and_eq_true, decide_eq_true_eq] at hT
  simp only [encLen, endOf]
  have h3 : (n + i) % 3 = 0 ∨ (n + i) % 3 = 1 ∨ (n + i) % 3 = 2 := by omega
  rcases h3 with h | h | h <;> simp only [h] <;> omega

/-- Window form of the produced value: the slice taken from the reference encoding `q ++ v`
(`q` any `i` bytes) equals the window at the shifted position in the encoding of `p ++ v ++ s`. -/
theorem slice_eq_window (T : Tables) (hT : T.sound = true) (p v s q : List Byte) (i : Nat)
    (hi : i = p.length % 3) (hq : q.length = i) :
    slice (b64 (q ++ v)) (T.starts.getD i 0) (T.cuts.getD ((v.length + i) % 3) 0) =
      ((b64 (p ++ v ++ s)).take
          (encLen (i + v.length) - T.cuts.getD ((v.length + i) % 3) 0 + 4 * (p.length / 3))).drop
        (T.starts.getD i 0 + 4 * (p.length / 3)) := by
  have hi3 : i < 3 := by omega
  have hs := T.sound_starts hT i hi3
  have hc := T.sound_cuts hT i v.length
  have hp : p.length = 3 * (p.length / 3) + i := by omega
  apply List.ext_getElem?
  intro k
  rw [getElem?_slice_b64, getElem?_window_b64]
  have hlen : (q ++ v).length = i + v.length := by simp [hq]
  rw [hlen]
  by_cases h : T.starts.getD i 0 + k < encLen (i + v.length) - T.cuts.getD ((v.length + i) % 3) 0
  · have hd := in_data i v.length (p.length / 3) s.length (T.starts.getD i 0 + k) (by omega)
    have hle := dataChars_le_encLen (3 * (p.length / 3) + i + v.length + s.length)
    have hL : (p ++ v ++ s).length = 3 * (p.length / 3) + i + v.length + s.length := by
      simp only [List.length_append]; omega
    rw [if_pos h, if_pos ⟨by omega, by rw [hL]; omega⟩]
    have e : T.starts.getD i 0 + 4 * (p.length / 3) + k
        = (T.starts.getD i 0 + k) + 4 * (p.length / 3) := by omega
    rw [e, b64char_local p v s q i (p.length / 3) _ hp hq (by omega) (by omega)]
  · rw [if_neg h, if_neg (by omega)]

/-! ## Base64: the alphabet never yields the pad sign -/

theorem alphabet_length : alphabet.length = 64 := by decide

theorem alphabet_getD_ne_pad (k : Nat) : alphabet.getD k '?' ≠ '=' := by
  by_cases h : k < 64
  · have : ∀ k < 64, alphabet.getD k '?' ≠ '=' := by decide +kernel
    exact this k h
  · rw [List.getD_eq_getElem?_getD,
      List.getElem?_eq_none (by rw [alphabet_length]; omega)]
    decide

/-! ## Base64: three-byte step -/

theorem b64_step (a b c : Byte) (rest : List Byte) :
    b64 (a :: b :: c :: rest) =
      alphabet.getD (a / 4) '?' :: alphabet.getD (a % 4 * 16 + b / 16) '?' ::
      alphabet.getD (b % 16 * 4 + c / 64) '?' :: alphabet.getD (c % 64) '?' :: b64 rest := by
  have hlen : encLen (a :: b :: c :: rest).length = 4 + encLen rest.length := by
    simp only [encLen, List.length_cons]; omega
  have hshift : ∀ j, b64char (a :: b :: c :: rest) (4 + j) = b64char rest j := by
    intro j
    have hd : (4 + j < dataChars (a :: b :: c :: rest).length) ↔ (j < dataChars rest.length) := by
      simp only [dataChars, List.length_cons]; omega
    have hk : 6 * (4 + j) / 8 = 6 * j / 8 + 3 := by omega
    have hr : 6 * (4 + j) % 8 = 6 * j % 8 := by omega
    have hs : sextet (a :: b :: c :: rest) (4 + j) = sextet rest j := by
      unfold sextet
      simp only [hk, hr]
      rfl
    simp only [b64char, hd, hs]
  have hd : ∀ j, j < 4 → j < dataChars (a :: b :: c :: rest).length := by
    intro j hj; simp only [dataChars, List.length_cons]; omega
  unfold b64
  rw [hlen, List.range_add, List.map_append, List.map_map]
  have h4 : List.range 4 = [0, 1, 2, 3] := by decide
  rw [h4]
  simp only [List.map_cons, List.map_nil, List.cons_append, List.nil_append]
  have hf : (b64char (a :: b :: c :: rest) ∘ fun x => 4 + x) = b64char rest := by
    funext j; exact hshift j
  rw [hf]
  simp only [b64char, hd 0 (by omega), hd 1 (by omega), hd 2 (by omega), hd 3 (by omega),
    ↓reduceIte]
  rfl

/-! ## UTF-8: the strict decoder is inverted by the encoder -/

theorem utf8enc_cons_of (c : CP) (cs : List CP) (a b : List Byte)
    (h1 : utf8encCP c = some a) (h2 : utf8enc cs = some b) : utf8enc (c :: cs) = some (a ++ b) := by
  simp only [utf8enc, h1, h2]

theorem utf8encCP_1 (b0 : Nat) (h : b0 < 128) : utf8encCP b0 = some [b0] := by
  simp only [utf8encCP, h, ↓reduceIte]

theorem isCont_iff (b : Nat) : isCont b = true ↔ 128 ≤ b ∧ b < 192 := by
  simp only [isCont, Bool.and_eq_true, decide_eq_true_eq]

theorem isSurrogate_iff (c : Nat) : isSurrogate c = true ↔ 0xD800 ≤ c ∧ c ≤ 0xDFFF := by
  simp only [isSurrogate, Bool.and_eq_true, decide_eq_true_eq]

theorem utf8encCP_2 (b0 b1 : Nat) (h0 : ¬ b0 < 194) (h0' : b0 < 224) (h1 : isCont b1 = true) :
    utf8encCP ((b0 - 192) * 64 + (b1 - 128)) = some [b0, b1] := by
  rw [isCont_iff] at h1
  generalize hc : (b0 - 192) * 64 + (b1 - 128) = c
  have c1 : ¬ c < 128 := by omega
  have c2 : c < 2048 := by omega
  have e0 : 192 + c / 64 = b0 := by omega
  have e1 : 128 + c % 64 = b1 := by omega
  simp only [utf8encCP, c1, c2, ↓reduceIte, e0, e1]

theorem utf8encCP_3 (b0 b1 b2 : Nat) (h0 : ¬ b0 < 224) (h0' : b0 < 240)
    (h : (isCont b1 && isCont b2 &&
          decide (2048 ≤ (b0 - 224) * 4096 + (b1 - 128) * 64 + (b2 - 128)) &&
          !isSurrogate ((b0 - 224) * 4096 + (b1 - 128) * 64 + (b2 - 128))) = true) :
    utf8encCP ((b0 - 224) * 4096 + (b1 - 128) * 64 + (b2 - 128)) = some [b0, b1, b2] := by
  generalize hc : (b0 - 224) * 4096 + (b1 - 128) * 64 + (b2 - 128) = c at h
  simp only [Bool.and_eq_true, decide_eq_true_eq, isCont_iff, Bool.not_eq_true'] at h
  obtain ⟨⟨⟨h1, h2⟩, h3⟩, h4⟩ := h
  have c1 : ¬ c < 128 := by omega
  have c2 : ¬ c < 2048 := by omega
  have c3 : c < 65536 := by omega
  have e0 : 224 + c / 4096 = b0 := by omega
  have e1 : 128 + c / 64 % 64 = b1 := by omega
  have e2 : 128 + c % 64 = b2 := by omega
  simp only [utf8encCP, c1, c2, c3, h4, Bool.false_eq_true, ↓reduceIte, e0, e1, e2]

theorem utf8encCP_4 (b0 b1 b2 b3 : Nat) (h0 : ¬ b0 < 240)
    (h : (isCont b1 && isCont b2 && isCont b3 &&
          decide (65536 ≤ (b0 - 240) * 262144 + (b1 - 128) * 4096 + (b2 - 128) * 64 + (b3 - 128)) &&
          decide ((b0 - 240) * 262144 + (b1 - 128) * 4096 + (b2 - 128) * 64 + (b3 - 128) < 1114112))
          = true) :
    utf8encCP ((b0 - 240) * 262144 + (b1 - 128) * 4096 + (b2 - 128) * 64 + (b3 - 128))
      = some [b0, b1, b2, b3] := by
  generalize hc : (b0 - 240) * 262144 + (b1 - 128) * 4096 + (b2 - 128) * 64 + (b3 - 128) = c at h
  simp only [Bool.and_eq_true, decide_eq_true_eq, isCont_iff] at h
  obtain ⟨⟨⟨⟨h1, h2⟩, h3⟩, h4⟩, h5⟩ := h
  have hs : isSurrogate c = false := by
    rw [Bool.eq_false_iff, Ne, isSurrogate_iff]; omega
  have c1 : ¬ c < 128 := by omega
  have c2 : ¬ c < 2048 := by omega
  have c3 : ¬ c < 65536 := by omega
  have e0 : 240 + c / 262144 = b0 := by omega
  have e1 : 128 + c / 4096 % 64 = b1 := by omega
  have e2 : 128 + c / 64 % 64 = b2 := by omega
  have e3 : 128 + c % 64 = b3 := by omega
  simp only [utf8encCP, c1, c2, c3, h5, hs, Bool.false_eq_true, ↓reduceIte, e0, e1, e2, e3]

theorem utf8enc_dec_step (c : CP) (r a : List Byte) (t : List CP)
    (ih : ∀ t, utf8dec r = some t → utf8enc t = some r) (hc : utf8encCP c = some a)
    (h : Option.map (fun x => c :: x) (utf8dec r) = some t) : utf8enc t = some (a ++ r) := by
  rw [Option.map_eq_some_iff] at h
  obtain ⟨t', ht', rfl⟩ := h
  exact utf8enc_cons_of c t' a r hc (ih t' ht')

theorem utf8enc_dec_aux (b : List Byte) :
    ∀ (t : List CP), utf8dec b = some t → utf8enc t = some b := by
  fun_induction utf8dec b
  case case1 => intro t h; cases h; rfl
  case case2 b0 rest h ih =>
    intro t ht; exact utf8enc_dec_step b0 rest [b0] t ih (utf8encCP_1 b0 h) ht
  case case4 b0 _ h2 h3 b1 r hc ih =>
    intro t ht
    exact utf8enc_dec_step _ r [b0, b1] t ih (utf8encCP_2 b0 b1 h2 h3 hc) ht
  case case7 b0 _ _ h3 h4 b1 b2 r c hc ih =>
    intro t ht
    exact utf8enc_dec_step _ r [b0, b1, b2] t ih (utf8encCP_3 b0 b1 b2 h3 h4 hc) ht
  case case10 b0 _ _ _ h4 h5 b1 b2 b3 r c hc ih =>
    intro t ht
    exact utf8enc_dec_step _ r [b0, b1, b2, b3] t ih (utf8encCP_4 b0 b1 b2 b3 h4 hc) ht
  all_goals (intro t h; cases h)

/-! ## ASCII input of the wide modifiers -/

theorem utf8dec_ascii (l : List Nat) (h : ∀ b ∈ l, b < 128) : utf8dec l = some l := by
  induction l with
  | nil => rfl
  | cons b r ih =>
    have hb : b < 128 := h b (List.mem_cons_self)
    have hr := ih (fun x hx => h x (List.mem_cons_of_mem _ hx))
    rw [utf8dec.eq_def]
    simp only [hb, ↓reduceIte, hr, Option.map_some]

theorem utf16units_ascii (c : Nat) (h : c < 128) : utf16units c = some [c] := by
  have hs : isSurrogate c = false := by
    rw [Bool.eq_false_iff, Ne, isSurrogate_iff]; omega
  have c1 : c < 65536 := by omega
  simp only [utf16units, hs, Bool.false_eq_true, ↓reduceIte, c1]

theorem utf16_ascii (be : Bool) (s : List Nat) (h : ∀ c ∈ s, c < 128) :
    utf16 be s = some (s.flatMap (fun c => if be then [0, c] else [c, 0])) := by
  induction s with
  | nil => rfl
  | cons c r ih =>
    have hc : c < 128 := h c (List.mem_cons_self)
    have hr := ih (fun x hx => h x (List.mem_cons_of_mem _ hx))
    have m : c % 256 = c := Nat.mod_eq_of_lt (by omega)
    have d : c / 256 = 0 := Nat.div_eq_of_lt (by omega)
    cases be <;>
      simp [utf16, utf16units_ascii c hc, hr, unitsLE, unitsBE, m, d]

end SigmaVerif.B64
