import SigmaVerif.Lemmas.C07Rule
import SigmaVerif.Spec.Load
/-! # C07 lemmas: the loader model accepts exactly the documents of the declarative specification -/
namespace SigmaVerif.Load
open SigmaVerif.LoadSpec

/-- the computation returned an empty error list -/
def isOkNil (x : R (List SigmaCls)) : Bool := match x with | .ok [] => true | _ => false

@[simp] theorem isOkNil_ok (l : List SigmaCls) : isOkNil (.ok l) = l.isEmpty := by cases l <;> rfl
@[simp] theorem isOkNil_error (e : Exc) : isOkNil (.error e) = false := rfl
theorem isOkNil_ite (p : Prop) [Decidable p] (x y : R (List SigmaCls)) :
    isOkNil (if p then x else y) = if p then isOkNil x else isOkNil y := by split <;> rfl

theorem isOkNil_iff (x : R (List SigmaCls)) : isOkNil x = true ↔ x = .ok [] := by
  cases x with
  | ok l => cases l <;> simp [isOkNil]
  | error e => simp [isOkNil]

macro "bool_leaves" : tactic => `(tactic| ((repeat' split) <;> simp_all))

theorem chkId_spec (v : Y) : isOkNil (chkId v) = idOk v := by
  cases v <;> simp [chkId, idOk, Y.isNone, pyUUID]
  bool_leaves

theorem chkName_spec (v : Y) : isOkNil (chkName v) = nameOk v := by
  cases v <;> simp [chkName, nameOk, Y.isNone, Y.isStr, Y.isEmptyStr]
  case str s => cases s <;> simp

theorem chkTaxonomy_spec (o : Option Y) : isOkNil (chkTaxonomy o) = taxonomyOk o := by
  cases o with
  | none => simp [chkTaxonomy, taxonomyOk, Y.isNone, Y.isStr, Y.isEmptyStr, S]
  | some v =>
    cases v <;> simp [chkTaxonomy, taxonomyOk, Y.isNone, Y.isStr, Y.isEmptyStr]
    case str s => cases s <;> simp

/-! ### related -/
theorem forEach_ok_iff {α : Type} (f : α → R Unit) : ∀ l : List α, forEach f l = .ok () ↔ ∀ x ∈ l, f x = .ok ()
  | [] => by simp [forEach]
  | a :: l => by
      simp only [forEach, List.mem_cons, forall_eq_or_imp]
      cases h : f a with
      | ok u => cases u; simp [forEach_ok_iff f l]
      | error e => simp

theorem relatedItem_spec (x : Y) : relatedItem x = .ok () ↔ relatedItemOk x = true := by
  cases x
  case map m =>
    unfold relatedItem relatedItemOk
    simp only [Y.isMap, pyKeys, pure_eq, ok_bind, keys_any, hasKey]
    cases hi : lookup m (S "id") <;> cases ht : lookup m (S "type") <;> simp
    rename_i i t
    unfold relatedItemFromDict
    simp only [pyGetItem, hi, ht, pure_eq, ok_bind]
    cases i <;> cases t <;> simp [Y.isStr, pyUUID, pyUpper, pyLookupName]
    bool_leaves
  all_goals simp [relatedItem, relatedItemOk, Y.isMap]

theorem chkRelated_spec (v : Y) : isOkNil (chkRelated v) = relatedOk v := by
  cases v <;> simp [chkRelated, relatedOk, Y.isNone, Y.isList]
  case list l =>
    simp only [relatedFromDict, pyIter, pure_eq, ok_bind]
    cases h : forEach relatedItem l with
    | ok u =>
      cases u
      have := (forEach_ok_iff relatedItem l).mp h
      simp only [ok_bind, catchSigma_ok, isOkNil_ok, List.isEmpty_nil]
      symm; rw [List.all_eq_true]
      intro x hx; exact (relatedItem_spec x).mp (this x hx)
    | error e =>
      have hne : ¬ (l.all relatedItemOk = true) := by
        intro hall
        rw [List.all_eq_true] at hall
        have := (forEach_ok_iff relatedItem l).mpr (fun x hx => (relatedItem_spec x).mpr (hall x hx))
        rw [this] at h; cases h
      cases e with
      | sigma c => simp only [error_bind, catchSigma_some]; split <;> simp [hne]
      | py c => simp [hne]

theorem chkEnum_spec (names : List Str) (cls : SigmaCls) (v : Y) : isOkNil (chkEnum names cls v) = enumOk names v := by
  cases v <;> simp [chkEnum, enumOk, Y.isNone, Y.isStr, pyUpper, pyLookupName]
  bool_leaves

/-! ### tags -/
theorem splitOn_length_pos (sep : Char) : ∀ s : Str, 1 ≤ (splitOn sep s).length
  | [] => by simp [splitOn]
  | c :: cs => by
      simp only [splitOn]
      split
      · simp
      · split <;> simp

theorem splitOn_two_iff (sep : Char) : ∀ s : Str, 2 ≤ (splitOn sep s).length ↔ sep ∈ s
  | [] => by simp [splitOn]
  | c :: cs => by
      have ih := splitOn_two_iff sep cs
      have hp := splitOn_length_pos sep cs
      simp only [splitOn]
      split
      · rename_i h; simp [h] at hp
      · rename_i a t h
        rw [h] at ih hp
        simp only [List.length_cons] at ih hp
        by_cases hc : c = sep
        · subst hc; simp
        · have hne : ¬ sep = c := fun e => hc e.symm
          simp only [beq_iff_eq, hc, if_false, List.length_cons, List.mem_cons, hne, false_or]
          exact ih

theorem chkTag_spec (t : Y) : isOkNil (chkTag t) = tagOk t := by
  cases t <;> simp [chkTag, tagOk, Y.isStr]
  case str s =>
    simp only [tagFromStr, pySplit, pure_eq, ok_bind, pyUnpack2]
    have := splitOn_two_iff '.' s
    by_cases h : 2 ≤ (splitOn '.' s).length
    · simp [h, this.mp h]
    · have h' : ¬ ('.' ∈ s) := fun hc => h (this.mpr hc)
      simp [h, h', SigmaCls.isA]

theorem chkTagList_spec : ∀ l : List Y, isOkNil (chkTagList l) = l.all tagOk
  | [] => by simp [chkTagList]
  | t :: ts => by
      obtain ⟨e, he⟩ := chkTag_total t
      obtain ⟨es, hes⟩ := chkTagList_total ts
      have h1 := chkTag_spec t
      have h2 := chkTagList_spec ts
      simp only [he, hes, isOkNil_ok] at h1 h2
      simp only [chkTagList, he, hes, ok_bind, pure_eq, isOkNil_ok, List.all_cons, ← h1, ← h2]
      cases e <;> cases es <;> simp

theorem chkTags_spec (o : Option Y) : isOkNil (chkTags o) = tagsOk o := by
  cases o with
  | none => simp [chkTags, tagsOk, Y.isNone, Y.isList, pyIter, chkTagList]
  | some v =>
    cases v <;> simp [chkTags, tagsOk, Y.isNone, Y.isList, pyIter]
    case list l => exact chkTagList_spec l

theorem chkDate_spec (cls : SigmaCls) (v : Y) : isOkNil (chkDate cls v) = dateOk v := by
  unfold chkDate dateOk
  by_cases hn : v.isNone = true
  · simp [hn]
  · simp only [hn, Bool.false_or]
    cases hm : dateMatch (pyStr v) with
    | none => simp
    | some p =>
      obtain ⟨y, m, d⟩ := p
      simp only [pyDate, allPy]
      by_cases hv : validDate y m d = true <;> simp [hv]

theorem chkIsList_spec (cls : SigmaCls) (v : Y) : isOkNil (chkIsList cls v) = optList v := by
  cases v <;> simp [chkIsList, optList, Y.isNone, Y.isList]
theorem chkIsStr_spec (cls : SigmaCls) (v : Y) : isOkNil (chkIsStr cls v) = optStr v := by
  cases v <;> simp [chkIsStr, optStr, Y.isNone, Y.isStr]
theorem chkTitle_spec (v : Y) : isOkNil (chkTitle v) = titleOk v := by
  cases v <;> simp [chkTitle, titleOk, Y.isNone, Y.isStr, pyLen]
  bool_leaves

theorem isOkNil_eq_of_total {x : R (List SigmaCls)} (h : Total x) : isOkNil x = (okVal x []).isEmpty := by
  obtain ⟨a, rfl⟩ := h; simp

/-- the common attributes are accepted exactly when they are well formed -/
theorem commonErrs_nil_iff (m : Dict) : commonErrs m = [] ↔ commonOk m = true := by
  obtain ⟨e1, h1⟩ := chkId_total (dget m (S "id"))
  obtain ⟨e2, h2⟩ := chkName_total (dget m (S "name"))
  obtain ⟨e3, h3⟩ := chkTaxonomy_total (lookup m (S "taxonomy"))
  obtain ⟨e4, h4⟩ := chkRelated_total (dget m (S "related"))
  obtain ⟨e5, h5⟩ := chkEnum_total levels .levelError (dget m (S "level"))
  obtain ⟨e6, h6⟩ := chkEnum_total statuses .statusError (dget m (S "status"))
  obtain ⟨e7, h7⟩ := chkTags_total (lookup m (S "tags"))
  obtain ⟨e8, h8⟩ := chkDate_total .dateError (dget m (S "date"))
  obtain ⟨e9, h9⟩ := chkDate_total .modifiedError (dget m (S "modified"))
  obtain ⟨e10, h10⟩ := chkIsList_total .fieldsError (dget m (S "fields"))
  obtain ⟨e11, h11⟩ := chkIsList_total .falsePositivesError (dget m (S "falsepositives"))
  obtain ⟨e12, h12⟩ := chkIsStr_total .authorError (dget m (S "author"))
  obtain ⟨e13, h13⟩ := chkIsStr_total .descriptionError (dget m (S "description"))
  obtain ⟨e14, h14⟩ := chkIsList_total .referencesError (dget m (S "references"))
  obtain ⟨e15, h15⟩ := chkTitle_total (dget m (S "title"))
  obtain ⟨e16, h16⟩ := chkIsList_total .scopeError (dget m (S "scope"))
  obtain ⟨e17, h17⟩ := chkIsStr_total .licenseError (dget m (S "license"))
  have s1 := chkId_spec (dget m (S "id"))
  have s2 := chkName_spec (dget m (S "name"))
  have s3 := chkTaxonomy_spec (lookup m (S "taxonomy"))
  have s4 := chkRelated_spec (dget m (S "related"))
  have s5 := chkEnum_spec levels .levelError (dget m (S "level"))
  have s6 := chkEnum_spec statuses .statusError (dget m (S "status"))
  have s7 := chkTags_spec (lookup m (S "tags"))
  have s8 := chkDate_spec .dateError (dget m (S "date"))
  have s9 := chkDate_spec .modifiedError (dget m (S "modified"))
  have s10 := chkIsList_spec .fieldsError (dget m (S "fields"))
  have s11 := chkIsList_spec .falsePositivesError (dget m (S "falsepositives"))
  have s12 := chkIsStr_spec .authorError (dget m (S "author"))
  have s13 := chkIsStr_spec .descriptionError (dget m (S "description"))
  have s14 := chkIsList_spec .referencesError (dget m (S "references"))
  have s15 := chkTitle_spec (dget m (S "title"))
  have s16 := chkIsList_spec .scopeError (dget m (S "scope"))
  have s17 := chkIsStr_spec .licenseError (dget m (S "license"))
  rw [h1] at s1; rw [h2] at s2; rw [h3] at s3; rw [h4] at s4; rw [h5] at s5; rw [h6] at s6; rw [h7] at s7
  rw [h8] at s8; rw [h9] at s9; rw [h10] at s10; rw [h11] at s11; rw [h12] at s12; rw [h13] at s13
  rw [h14] at s14; rw [h15] at s15; rw [h16] at s16; rw [h17] at s17
  simp only [isOkNil_ok] at s1 s2 s3 s4 s5 s6 s7 s8 s9 s10 s11 s12 s13 s14 s15 s16 s17
  simp only [commonErrs, commonErrsM, h1, h2, h3, h4, h5, h6, h7, h8, h9, h10, h11, h12, h13, h14, h15, h16, h17,
    ok_bind, pure_eq, okVal_ok, commonOk, ← s1, ← s2, ← s3, ← s4, ← s5, ← s6, ← s7, ← s8, ← s9, ← s10, ← s11,
    ← s12, ← s13, ← s14, ← s15, ← s16, ← s17, List.append_eq_nil_iff, Bool.and_eq_true, List.isEmpty_iff, and_assoc]

/-! ### log source -/
theorem logsourceSection_spec (m : Dict) : isOkNil (logsourceSection m) = logsourceOk (lookup m (S "logsource")) := by
  unfold logsourceSection
  cases hl : lookup m (S "logsource") with
  | none => simp [pyGetItem, hl, logsourceOk]
  | some ls =>
    simp only [pyGetItem, hl, pure_eq, ok_bind]
    cases ls
    case map lm =>
      have e : ∀ v : Y, (v.truthy && !v.isStr) = !lsAttrOk v := by
        intro v; simp only [lsAttrOk]; cases v.truthy <;> cases v.isStr <;> rfl
      simp only [logsourceFromDict, pyItems, pyGet, pure_eq, ok_bind, e, logsourceOk]
      cases hA : ((dget lm (S "category")).isNone && (dget lm (S "product")).isNone && (dget lm (S "service")).isNone) <;>
        cases h1 : lsAttrOk (dget lm (S "category")) <;> cases h2 : lsAttrOk (dget lm (S "product")) <;>
        cases h3 : lsAttrOk (dget lm (S "service")) <;> cases h4 : lsAttrOk (dget lm (S "definition")) <;> simp
    all_goals simp [logsourceFromDict, pyItems, logsourceOk]

/-! ### detections -/
theorem bind_unit_ok_iff {x y : R Unit} : (x >>= fun _ => y) = .ok () ↔ x = .ok () ∧ y = .ok () := by
  cases x with
  | ok u => cases u; simp
  | error e => simp

theorem itemModifiers_eq (key : Y) :
    itemModifiers key = match keyModifiers key with | some mods => .ok mods | none => .error (.sigma .detectionError) := by
  cases key <;> simp [itemModifiers, keyModifiers, Y.isNone, Y.isStr, pySplit]

theorem lookupAll_spec (mods : List Str) :
    catchPy [.keyError] (forEach (pyLookupName knownModifiers) mods) (raiseS .modifierError) = .ok () ↔
      mods.all knownModifiers.contains = true := by
  induction mods with
  | nil => simp [forEach]
  | cons a l ih =>
    simp only [forEach, pyLookupName, List.all_cons, Bool.and_eq_true]
    by_cases h : knownModifiers.contains a = true
    · simp only [h, if_true, pure_eq, ok_bind, true_and]; exact ih
    · have h' : a ∉ knownModifiers := by simpa using h
      simp [h']

theorem sigmaType_spec (v : Y) : sigmaType v = .ok () ↔ plainOk v = true := by
  cases v <;> simp [sigmaType, plainOk]
  case float r => cases floatClass r <;> simp

theorem applyModifiers_spec (mods : List Str) (vals : List Y) :
    applyModifiers mods vals = .ok () ↔ modifiersAccept mods vals = true := by
  unfold applyModifiers modifiersAccept
  split
  · rename_i m
    by_cases h1 : stringModifiers.contains m = true <;> by_cases h2 : allStr vals = true <;> simp_all
  · rename_i hne
    split
    · rename_i m; exact absurd rfl (hne m)
    · simp

theorem fromMapping_spec (key val : Y) : fromMapping key val = .ok () ↔ itemOk key val = true := by
  unfold fromMapping itemOk
  rw [itemModifiers_eq]
  cases keyModifiers key with
  | none => simp
  | some mods =>
    simp only [ok_bind, bind_unit_ok_iff, lookupAll_spec, applyModifiers_spec, forEach_ok_iff, sigmaType_spec,
      Bool.and_eq_true, List.all_eq_true, and_assoc]
    cases val <;> exact Iff.rfl

theorem fromMappings_spec : ∀ m : Dict, fromMappings m = .ok () ↔ itemsOk m = true
  | [] => by simp [fromMappings, itemsOk]
  | (k, v) :: rest => by
      simp only [fromMappings, itemsOk, bind_unit_ok_iff, fromMapping_spec, fromMappings_spec rest, Bool.and_eq_true]

mutual
theorem fromDefinition_spec : ∀ d : Y, fromDefinition d = .ok () ↔ defOk d = true
  | .map m => by
      unfold fromDefinition defOk
      simp only [bind_unit_ok_iff, fromMappings_spec, Bool.and_eq_true]
      cases m <;> simp
  | .list l => by
      unfold fromDefinition defOk
      split
      · exact fromMapping_spec _ _
      · exact fromDefinitions_spec l
  | .null => by unfold fromDefinition defOk; exact fromMapping_spec _ _
  | .bool _ => by unfold fromDefinition defOk; exact fromMapping_spec _ _
  | .int _ => by unfold fromDefinition defOk; exact fromMapping_spec _ _
  | .float _ => by unfold fromDefinition defOk; exact fromMapping_spec _ _
  | .str _ => by unfold fromDefinition defOk; exact fromMapping_spec _ _
theorem fromDefinitions_spec : ∀ l : List Y, fromDefinitions l = .ok () ↔ defsOk l = true
  | [] => by simp [fromDefinitions, defsOk]
  | x :: xs => by
      simp only [fromDefinitions, defsOk, bind_unit_ok_iff, fromDefinition_spec x, fromDefinitions_spec xs, Bool.and_eq_true]
end

theorem namedDetections_spec (skip : List Str) : ∀ m : Dict, namedDetections skip m = .ok () ↔ namedOk skip m = true
  | [] => by simp [namedDetections, namedOk]
  | (k, v) :: rest => by
      simp only [namedDetections, namedOk, Bool.and_eq_true, Bool.or_eq_true]
      by_cases h : (skip.any fun x => keyIs k x) = true
      · simp only [h, if_true, true_or, true_and]; exact namedDetections_spec skip rest
      · simp only [h, Bool.false_eq_true, if_false, false_or, bind_unit_ok_iff, fromDefinition_spec, namedDetections_spec skip rest]

theorem isEmptyList_cond (c : Y) : isEmptyList (if c.isList = true then c else .list [c]) = isEmptyList c := by
  cases c <;> simp [Y.isList, isEmptyList]

theorem detectionsFromDict_spec (d : Dict) :
    detectionsFromDict (.map d) = .ok () ↔ detectionOk (some (.map d)) = true := by
  unfold detectionsFromDict detectionOk
  cases hl : lookup d (S "condition") with
  | none => simp [pyGetItem, hl]
  | some c =>
    simp only [pyGetItem, hl, pure_eq, catchPy_ok, ok_bind, pyItems, isEmptyList_cond]
    have hf : (d.filter fun p => !keyIs p.1 (S "condition")) = named [S "condition"] d := by
      simp [named]
    rw [hf]
    cases hn : namedDetections [S "condition"] d with
    | ok u =>
      cases u
      have := (namedDetections_spec _ d).mp hn
      simp only [ok_bind, this, Bool.true_and, Bool.and_eq_true, Bool.not_eq_true']
      by_cases h1 : (named [S "condition"] d).isEmpty = true
      · simp [h1]
      · by_cases h2 : isEmptyList c = true <;> simp [h1, h2]
    | error e =>
      have : ¬ (namedOk [S "condition"] d = true) := fun h => by
        rw [(namedDetections_spec _ d).mpr h] at hn; cases hn
      simp [this]

theorem detectionSection_spec (m : Dict) : isOkNil (detectionSection m) = detectionOk (lookup m (S "detection")) := by
  unfold detectionSection
  cases hl : lookup m (S "detection") with
  | none => simp [pyGetItem, hl, detectionOk]
  | some d =>
    simp only [pyGetItem, hl, pure_eq, ok_bind]
    cases d
    case map dm =>
      cases hd : detectionsFromDict (.map dm) with
      | ok u =>
        cases u
        simp [(detectionsFromDict_spec dm).mp hd]
      | error e =>
        have hne : ¬ (detectionOk (some (.map dm)) = true) := fun h => by
          rw [(detectionsFromDict_spec dm).mpr h] at hd; cases hd
        have hp := detectionsFromDict_onlyPy (.map dm)
        cases e with
        | sigma c => simp [hne]
        | py c =>
          have := hp c hd
          simp at this; subst this
          simp [hne]
    all_goals simp [detectionsFromDict, pyGetItem, detectionOk]

/-- strict loading of a rule succeeds exactly on the well-formed documents -/
theorem ruleErrs_nil_iff (d : Y) : ruleErrs d = [] ↔ wellFormedRule d = true := by
  cases d
  case map m =>
    obtain ⟨l, hl⟩ := logsourceSection_total m
    obtain ⟨s, hs⟩ := detectionSection_total m
    have s1 := logsourceSection_spec m
    have s2 := detectionSection_spec m
    rw [hl] at s1; rw [hs] at s2
    simp only [isOkNil_ok] at s1 s2
    simp only [ruleErrs, twoErrs, docErrs, docMap, hl, hs, okVal_ok, List.nil_append, List.append_eq_nil_iff,
      commonErrs_nil_iff, wellFormedRule, Bool.and_eq_true, ← s1, ← s2, List.isEmpty_iff, and_assoc]
  all_goals simp [ruleErrs, twoErrs, docErrs, wellFormedRule]

end SigmaVerif.Load
