import SigmaVerif.Model.Load
/-! # C07 lemmas: the exception calculus (which Python exception classes a computation can raise) -/
namespace SigmaVerif.Load

variable {α β : Type}

@[simp] theorem pure_eq (a : α) : (pure a : R α) = .ok a := rfl
@[simp] theorem ok_bind (a : α) (f : α → R β) : ((Except.ok a : R α) >>= f) = f a := rfl
@[simp] theorem error_bind (e : Exc) (f : α → R β) : ((Except.error e : R α) >>= f) = .error e := rfl
@[simp] theorem raiseS_eq (c : SigmaCls) : (raiseS c : R α) = .error (.sigma c) := rfl
@[simp] theorem raiseP_eq (c : PyCls) : (raiseP c : R α) = .error (.py c) := rfl

/-- `x` raises no Python exception outside the classes `S` -/
def OnlyPy (S : List PyCls) (x : R α) : Prop := ∀ c, x = .error (.py c) → c ∈ S
/-- `x` raises no Python exception at all -/
abbrev NoPy (x : R α) : Prop := OnlyPy [] x
/-- `x` returns -/
def Total (x : R α) : Prop := ∃ a, x = .ok a

theorem noPy_iff (x : R α) : NoPy x ↔ ∀ c, x ≠ .error (.py c) := by
  constructor
  · intro h c hc; exact absurd (h c hc) (by simp)
  · intro h c hc; exact absurd hc (h c)

theorem OnlyPy.mono {S T : List PyCls} {x : R α} (h : OnlyPy S x) (hst : ∀ c, c ∈ S → c ∈ T) : OnlyPy T x :=
  fun c hc => hst c (h c hc)

theorem NoPy.only {S : List PyCls} {x : R α} (h : NoPy x) : OnlyPy S x :=
  fun c hc => absurd (h c hc) (by simp)

@[simp] theorem onlyPy_ok (S : List PyCls) (a : α) : OnlyPy S (Except.ok a : R α) := by
  intro c hc; cases hc
@[simp] theorem onlyPy_sigma (S : List PyCls) (c : SigmaCls) : OnlyPy S (Except.error (.sigma c) : R α) := by
  intro c' hc; cases hc
theorem onlyPy_py {S : List PyCls} {c : PyCls} (h : c ∈ S) : OnlyPy S (Except.error (.py c) : R α) := by
  intro c' hc; cases hc; exact h

theorem Total.only {S : List PyCls} {x : R α} (h : Total x) : OnlyPy S x := by
  obtain ⟨a, rfl⟩ := h; simp

theorem OnlyPy.bind {S : List PyCls} {x : R α} {f : α → R β} (hx : OnlyPy S x) (hf : ∀ a, x = .ok a → OnlyPy S (f a)) :
    OnlyPy S (x >>= f) := by
  cases x with
  | ok a => simpa using hf a rfl
  | error e =>
    cases e with
    | sigma c => simp
    | py c => simpa using onlyPy_py (hx c rfl)

theorem Total.bind {x : R α} {f : α → R β} (hx : Total x) (hf : ∀ a, x = .ok a → Total (f a)) : Total (x >>= f) := by
  obtain ⟨a, rfl⟩ := hx; simpa using hf a rfl

/-- after `except <cs>`, the caught classes are gone (the handler may add its own) -/
theorem OnlyPy.catchPy {S T : List PyCls} {cs : List PyCls} {x h : R α}
    (hx : OnlyPy S x) (hh : OnlyPy T h) (hst : ∀ c, c ∈ S → c ∈ cs ∨ c ∈ T) : OnlyPy T (catchPy cs x h) := by
  cases x with
  | ok a => simp [Load.catchPy]
  | error e =>
    cases e with
    | sigma c =>
      simp only [Load.catchPy]; split
      · exact hh
      · simp
    | py c =>
      simp only [Load.catchPy]; split
      · exact hh
      · rename_i hc
        rcases hst c (hx c rfl) with h1 | h1
        · exact absurd (by simpa using h1) hc
        · exact onlyPy_py h1

/-- a handler for every Sigma error leaves only Python exceptions -/
theorem OnlyPy.catchSigma {S : List PyCls} {b : Option SigmaCls} {x : R α} {h : SigmaCls → R α}
    (hx : OnlyPy S x) (hh : ∀ c, OnlyPy S (h c)) : OnlyPy S (catchSigma b x h) := by
  cases x with
  | ok a => simp [Load.catchSigma]
  | error e =>
    cases e with
    | sigma c =>
      simp only [Load.catchSigma]
      cases b with
      | none => exact hh c
      | some b' => simp only []; split; exact hh c; simp
    | py c => simpa [Load.catchSigma] using onlyPy_py (hx c rfl)

/-- `try: x except <all Sigma errors>: ok` around a computation without Python exceptions returns -/
theorem total_catchSigma_none {x : R α} {h : SigmaCls → α} (hx : NoPy x) :
    Total (catchSigma none x (fun c => pure (h c))) := by
  cases x with
  | ok a => exact ⟨a, rfl⟩
  | error e =>
    cases e with
    | sigma c => exact ⟨h c, rfl⟩
    | py c => exact absurd (hx c rfl) (by simp)

/-- a handler for a Sigma class that covers everything `x` raises makes the block return -/
theorem total_catchSigma_some {x : R α} {b : SigmaCls} {h : SigmaCls → α} (hx : NoPy x)
    (hb : ∀ c, x = .error (.sigma c) → c.isA b = true) :
    Total (catchSigma (some b) x (fun c => pure (h c))) := by
  cases x with
  | ok a => exact ⟨a, rfl⟩
  | error e =>
    cases e with
    | sigma c => simp [Load.catchSigma, hb c rfl, Total]
    | py c => exact absurd (hx c rfl) (by simp)

theorem forEach_onlyPy {S : List PyCls} {f : α → R Unit} (hf : ∀ a, OnlyPy S (f a)) : ∀ l : List α, OnlyPy S (forEach f l)
  | [] => by simp [forEach]
  | a :: l => by
      simp only [forEach]
      exact (hf a).bind (fun _ _ => forEach_onlyPy hf l)

/-- if every element's action returns, the loop returns -/
theorem forEach_total {f : α → R Unit} : ∀ l : List α, (∀ a ∈ l, Total (f a)) → Total (forEach f l)
  | [], _ => ⟨(), rfl⟩
  | a :: l, h => by
      simp only [forEach]
      exact (h a (by simp)).bind (fun _ _ => forEach_total l (fun b hb => h b (by simp [hb])))

/-- the Sigma classes a computation can raise -/
def OnlySigma (P : SigmaCls → Prop) (x : R α) : Prop := ∀ c, x = .error (.sigma c) → P c

theorem OnlySigma.bind {P : SigmaCls → Prop} {x : R α} {f : α → R β} (hx : OnlySigma P x) (hf : ∀ a, OnlySigma P (f a)) :
    OnlySigma P (x >>= f) := by
  cases x with
  | ok a => simpa using hf a
  | error e =>
    intro c hc
    simp at hc
    exact hx c (by rw [hc])

theorem forEach_onlySigma {P : SigmaCls → Prop} {f : α → R Unit} (hf : ∀ a, OnlySigma P (f a)) : ∀ l : List α, OnlySigma P (forEach f l)
  | [] => by intro c hc; simp [forEach] at hc
  | a :: l => by
      simp only [forEach]
      exact (hf a).bind (fun _ => forEach_onlySigma hf l)

/-- value of a computation that returns -/
def okVal (x : R α) (d : α) : α := match x with | .ok a => a | .error _ => d

theorem Total.eq_okVal {x : R α} (h : Total x) (d : α) : x = .ok (okVal x d) := by
  obtain ⟨a, rfl⟩ := h; rfl

end SigmaVerif.Load

namespace SigmaVerif.Load
variable {α β : Type}

/-! simp normal form: `catch`/`bind` are pushed into `if`s and evaluated on results -/
@[simp] theorem ite_bind' (p : Prop) [Decidable p] (x y : R α) (f : α → R β) :
    ((if p then x else y) >>= f) = if p then x >>= f else y >>= f := by split <;> rfl
@[simp] theorem catchPy_ok (cs : List PyCls) (a : α) (h : R α) : catchPy cs (.ok a) h = .ok a := rfl
@[simp] theorem catchPy_py (cs : List PyCls) (c : PyCls) (h : R α) :
    catchPy cs (.error (.py c)) h = if cs.contains c then h else .error (.py c) := rfl
@[simp] theorem catchPy_sigma (cs : List PyCls) (c : SigmaCls) (h : R α) :
    catchPy cs (.error (.sigma c)) h = if cs.contains .valueError then h else .error (.sigma c) := rfl
@[simp] theorem catchPy_ite (cs : List PyCls) (p : Prop) [Decidable p] (x y h : R α) :
    catchPy cs (if p then x else y) h = if p then catchPy cs x h else catchPy cs y h := by split <;> rfl
@[simp] theorem catchSigma_ok (b : Option SigmaCls) (a : α) (h : SigmaCls → R α) : catchSigma b (.ok a) h = .ok a := rfl
@[simp] theorem catchSigma_py (b : Option SigmaCls) (c : PyCls) (h : SigmaCls → R α) :
    catchSigma b (.error (.py c)) h = .error (.py c) := rfl
@[simp] theorem catchSigma_none (c : SigmaCls) (h : SigmaCls → R α) : catchSigma none (.error (.sigma c)) h = h c := rfl
@[simp] theorem catchSigma_some (b c : SigmaCls) (h : SigmaCls → R α) :
    catchSigma (some b) (.error (.sigma c)) h = if c.isA b then h c else .error (.sigma c) := rfl
@[simp] theorem catchSigma_ite (b : Option SigmaCls) (p : Prop) [Decidable p] (x y : R α) (h : SigmaCls → R α) :
    catchSigma b (if p then x else y) h = if p then catchSigma b x h else catchSigma b y h := by split <;> rfl

@[simp] theorem total_ok (a : α) : Total (Except.ok a : R α) := ⟨a, rfl⟩
@[simp] theorem total_error (e : Exc) : ¬ Total (Except.error e : R α) := by rintro ⟨a, h⟩; cases h
theorem total_ite (p : Prop) [Decidable p] {x y : R α} (hx : Total x) (hy : Total y) : Total (if p then x else y) := by
  split <;> assumption

end SigmaVerif.Load

namespace SigmaVerif.Load
variable {α β : Type}

/-- `x` returns or raises a Sigma error of a class satisfying `Q` (and no Python exception) -/
def SigOnly (Q : SigmaCls → Prop) (x : R α) : Prop := NoPy x ∧ OnlySigma Q x

@[simp] theorem sigOnly_ok (Q : SigmaCls → Prop) (a : α) : SigOnly Q (Except.ok a : R α) :=
  ⟨by simp, by intro c hc; cases hc⟩
theorem sigOnly_sigma {Q : SigmaCls → Prop} {c : SigmaCls} (h : Q c) : SigOnly Q (Except.error (.sigma c) : R α) :=
  ⟨by simp, by intro c' hc; cases hc; exact h⟩
@[simp] theorem sigOnly_sigma_eq (c : SigmaCls) : SigOnly (· = c) (Except.error (.sigma c) : R α) := sigOnly_sigma rfl
@[simp] theorem not_sigOnly_py (Q : SigmaCls → Prop) (c : PyCls) : ¬ SigOnly Q (Except.error (.py c) : R α) := by
  intro h; exact absurd (h.1 c rfl) (by simp)

theorem SigOnly.bind {Q : SigmaCls → Prop} {x : R α} {f : α → R β} (hx : SigOnly Q x) (hf : ∀ a, SigOnly Q (f a)) :
    SigOnly Q (x >>= f) :=
  ⟨hx.1.bind (fun a _ => (hf a).1), hx.2.bind (fun a => (hf a).2)⟩

theorem Total.sigOnly {Q : SigmaCls → Prop} {x : R α} (h : Total x) : SigOnly Q x := by
  obtain ⟨a, rfl⟩ := h; simp

theorem SigOnly.mono {Q Q' : SigmaCls → Prop} {x : R α} (h : SigOnly Q x) (hq : ∀ c, Q c → Q' c) : SigOnly Q' x :=
  ⟨h.1, fun c hc => hq c (h.2 c hc)⟩

theorem forEach_sigOnly {Q : SigmaCls → Prop} {f : α → R Unit} (hf : ∀ a, SigOnly Q (f a)) (l : List α) :
    SigOnly Q (forEach f l) :=
  ⟨forEach_onlyPy (fun a => (hf a).1) l, forEach_onlySigma (fun a => (hf a).2) l⟩

/-- `try: x; except <class b>: ok` returns when `x` raises only subclasses of `b` -/
theorem SigOnly.total_catch {x : R α} {b : SigmaCls} {h : SigmaCls → α} (hx : SigOnly (fun c => c.isA b = true) x) :
    Total (catchSigma (some b) x (fun c => pure (h c))) :=
  total_catchSigma_some hx.1 hx.2

theorem SigOnly.total_catch_all {Q : SigmaCls → Prop} {x : R α} {h : SigmaCls → α} (hx : SigOnly Q x) :
    Total (catchSigma none x (fun c => pure (h c))) :=
  total_catchSigma_none hx.1

theorem sigOnly_ite {Q : SigmaCls → Prop} (p : Prop) [Decidable p] {x y : R α} (hx : SigOnly Q x) (hy : SigOnly Q y) :
    SigOnly Q (if p then x else y) := by split <;> assumption

end SigmaVerif.Load

namespace SigmaVerif.Load

theorem hasKey_eq_any (m : Dict) (k : Str) : hasKey m k = m.any (fun p => keyIs p.1 k) := by
  induction m with
  | nil => rfl
  | cons p m ih =>
    simp only [hasKey, lookup, List.find?, List.any_cons] at *
    cases h : keyIs p.1 k <;> simp [ih]

theorem keys_any (m : Dict) (k : Str) : (m.map (·.1)).any (keyIs · k) = hasKey m k := by
  rw [hasKey_eq_any]; simp [List.any_map, Function.comp_def]

end SigmaVerif.Load
