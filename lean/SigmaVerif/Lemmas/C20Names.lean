import SigmaVerif.Model.Det
import SigmaVerif.Lemmas.CondParse
/-!
# C20 lemmas, part 3: internal random names never reach what the backend sees

1. `resolveC` is invariant under a renaming of detection names that the condition cannot tell apart
   (`resolveC_rename`), its leaves are contents of the rule's detections, its error names an
   undefined identifier.
2. the parser reads `name ++ rest` as a head operand in a context that only depends on `rest`
   (`parse_head`), hence the rewritten conditions of `AddConditionTransformation` parse uniformly in
   the drawn name (`addCond_parse_uniform`).
-/
namespace SigmaVerif.Lemmas.C20
open SigmaVerif.Cond SigmaVerif.Det SigmaVerif.Lemmas.CondParse

/-! ## 1. `resolveC` -/

def renameEnv (f : Str → Str) (env : Env δ) : Env δ := env.map (fun e => (f e.1, e.2))

theorem renameEnv_keys (f : Str → Str) (env : Env δ) : (renameEnv f env).keys = env.keys.map f := by
  simp [renameEnv, Env.keys, List.map_map, Function.comp_def]

theorem lookup_cons (e : Str × δ) (es : Env δ) (n : Str) :
    Env.lookup (e :: es) n = if e.1 == n then some e.2 else Env.lookup es n := by
  simp only [Env.lookup, List.find?_cons]
  cases e.1 == n <;> rfl

theorem lookup_rename (f : Str → Str) (env : Env δ) (a b : Str)
    (h : ∀ k ∈ env.keys, (f k = b ↔ k = a)) : (renameEnv f env).lookup b = env.lookup a := by
  induction env with
  | nil => rfl
  | cons e es ih =>
    have he := h e.1 (by simp [Env.keys])
    have ih' := ih (fun k hk => h k (by simp only [Env.keys, List.map_cons, List.mem_cons] at hk ⊢; exact Or.inr hk))
    show Env.lookup ((f e.1, e.2) :: renameEnv f es) b = Env.lookup (e :: es) a
    rw [lookup_cons, lookup_cons, ih']
    by_cases hk : e.1 = a
    · have hb : f e.1 = b := he.mpr hk
      rw [if_pos (by simpa using hb), if_pos (by simpa using hk)]
    · have hb : ¬ f e.1 = b := fun hb => hk (he.mp hb)
      rw [if_neg (by simpa using hb), if_neg (by simpa using hk)]

theorem filter_rename (f : Str → Str) (env : Env δ) (p q : Str)
    (h : ∀ k ∈ env.keys, selMatches q (f k) = selMatches p k) :
    ((renameEnv f env).filter (fun e => selMatches q e.1)).map (·.2) =
      (env.filter (fun e => selMatches p e.1)).map (·.2) := by
  induction env with
  | nil => rfl
  | cons e es ih =>
    have he := h e.1 (by simp [Env.keys])
    have ih' := ih (fun k hk => h k (by simp only [Env.keys, List.map_cons, List.mem_cons] at hk ⊢; exact Or.inr hk))
    simp only [renameEnv, List.map_cons, List.filter_cons, he] at ih' ⊢
    cases selMatches p e.1 <;> simp [ih']

mutual
/-- **Renaming invariance.**  Rename the dict keys by `f`, the identifiers of the condition by `fi`
and its patterns by `fp`.  If no identifier and no pattern of the condition can tell the difference
(look-ups hit the same entries, undefined identifiers keep their spelling, every pattern matches the
same entries) the resolved tree — contents in the leaves — and the error are the same. -/
theorem resolveC_rename (f fi fp : Str → Str) (env : Env δ) :
    (P : PT) →
    (∀ a ∈ PT.ids P, ∀ k ∈ env.keys, (f k = fi a ↔ k = a)) →
    (∀ a ∈ PT.ids P, a ∉ env.keys → fi a = a) →
    (∀ p ∈ PT.pats P, ∀ k ∈ env.keys, selMatches (fp p) (f k) = selMatches p k) →
    resolveC (renameEnv f env) (PT.mapNames fi fp P) = resolveC env P
  | .id n, h1, h2, _ => by
    have hl := lookup_rename f env n (fi n) (h1 n (by simp [PT.ids]))
    simp only [PT.mapNames, resolveC, hl]
    cases hlk : env.lookup n with
    | some d => rfl
    | none =>
      have : n ∉ env.keys := by
        intro hm
        simp only [Env.lookup, Option.map_eq_none_iff, List.find?_eq_none] at hlk
        simp only [Env.keys, List.mem_map] at hm
        obtain ⟨e, he, rfl⟩ := hm
        exact hlk e he (by simp)
      simp [h2 n (by simp [PT.ids]) this]
  | .sel q pat, _, _, h3 => by
    have hf := filter_rename f env pat (fp pat) (h3 pat (by simp [PT.pats]))
    simp only [PT.mapNames, resolveC, hf]
  | .not p, h1, h2, h3 => by
    simp only [PT.mapNames, resolveC,
      resolveC_rename f fi fp env p (by simpa [PT.ids] using h1) (by simpa [PT.ids] using h2)
        (by simpa [PT.pats] using h3)]
  | .and ps, h1, h2, h3 => by
    simp only [PT.mapNames, resolveC,
      resolveCList_rename f fi fp env ps (by simpa [PT.ids] using h1) (by simpa [PT.ids] using h2)
        (by simpa [PT.pats] using h3)]
  | .or ps, h1, h2, h3 => by
    simp only [PT.mapNames, resolveC,
      resolveCList_rename f fi fp env ps (by simpa [PT.ids] using h1) (by simpa [PT.ids] using h2)
        (by simpa [PT.pats] using h3)]
theorem resolveCList_rename (f fi fp : Str → Str) (env : Env δ) :
    (ps : List PT) →
    (∀ a ∈ PT.idsList ps, ∀ k ∈ env.keys, (f k = fi a ↔ k = a)) →
    (∀ a ∈ PT.idsList ps, a ∉ env.keys → fi a = a) →
    (∀ p ∈ PT.patsList ps, ∀ k ∈ env.keys, selMatches (fp p) (f k) = selMatches p k) →
    resolveCList (renameEnv f env) (PT.mapNamesList fi fp ps) = resolveCList env ps
  | [], _, _, _ => by simp [PT.mapNamesList, resolveCList]
  | p :: ps, h1, h2, h3 => by
    simp only [PT.idsList, List.mem_append] at h1 h2
    simp only [PT.patsList, List.mem_append] at h3
    simp only [PT.mapNamesList, resolveCList,
      resolveC_rename f fi fp env p (fun a ha => h1 a (Or.inl ha)) (fun a ha => h2 a (Or.inl ha))
        (fun q hq => h3 q (Or.inl hq)),
      resolveCList_rename f fi fp env ps (fun a ha => h1 a (Or.inr ha)) (fun a ha => h2 a (Or.inr ha))
        (fun q hq => h3 q (Or.inr hq))]
end

mutual
theorem mapNames_eq_self (fi fp : Str → Str) :
    (P : PT) → (∀ a ∈ PT.ids P, fi a = a) → (∀ p ∈ PT.pats P, fp p = p) → PT.mapNames fi fp P = P
  | .id n, h1, _ => by simp [PT.mapNames, h1 n (by simp [PT.ids])]
  | .sel q p, _, h2 => by simp [PT.mapNames, h2 p (by simp [PT.pats])]
  | .not p, h1, h2 => by
    simp [PT.mapNames, mapNames_eq_self fi fp p (by simpa [PT.ids] using h1) (by simpa [PT.pats] using h2)]
  | .and ps, h1, h2 => by
    simp [PT.mapNames, mapNamesList_eq_self fi fp ps (by simpa [PT.ids] using h1) (by simpa [PT.pats] using h2)]
  | .or ps, h1, h2 => by
    simp [PT.mapNames, mapNamesList_eq_self fi fp ps (by simpa [PT.ids] using h1) (by simpa [PT.pats] using h2)]
theorem mapNamesList_eq_self (fi fp : Str → Str) :
    (ps : List PT) → (∀ a ∈ PT.idsList ps, fi a = a) → (∀ p ∈ PT.patsList ps, fp p = p) →
    PT.mapNamesList fi fp ps = ps
  | [], _, _ => rfl
  | p :: ps, h1, h2 => by
    simp only [PT.idsList, List.mem_append] at h1
    simp only [PT.patsList, List.mem_append] at h2
    simp [PT.mapNamesList, mapNames_eq_self fi fp p (fun a ha => h1 a (Or.inl ha)) (fun q hq => h2 q (Or.inl hq)),
      mapNamesList_eq_self fi fp ps (fun a ha => h1 a (Or.inr ha)) (fun q hq => h2 q (Or.inr hq))]
end

/-! ### leaves and errors -/

theorem lookup_mem (env : Env δ) (n : Str) (d : δ) (h : env.lookup n = some d) : d ∈ env.map (·.2) := by
  simp only [Env.lookup, Option.map_eq_some_iff] at h
  obtain ⟨e, he, rfl⟩ := h
  exact List.mem_map_of_mem (List.mem_of_find?_eq_some he)

theorem lookup_none (env : Env δ) (n : Str) (h : env.lookup n = none) : n ∉ env.keys := by
  intro hm
  simp only [Env.lookup, Option.map_eq_none_iff, List.find?_eq_none] at h
  simp only [Env.keys, List.mem_map] at hm
  obtain ⟨e, he, rfl⟩ := hm
  exact h e he (by simp)

theorem leavesList_map_det (ms : List δ) : DT.leavesList (ms.map DT.det) = ms := by
  induction ms with
  | nil => rfl
  | cons m ms ih => simp [DT.leavesList, DT.leaves, ih]

mutual
/-- every leaf of the resolved tree is the content of one of the detections -/
theorem resolveC_leaves (env : Env δ) :
    (P : PT) → ∀ t, resolveC env P = .ok (some t) → ∀ d ∈ DT.leaves t, d ∈ env.map (·.2)
  | .id n, t, ht, d, hd => by
    simp only [resolveC] at ht
    cases hl : env.lookup n with
    | none => simp [hl] at ht
    | some d0 =>
      simp only [hl, Res.ok.injEq, Option.some.injEq] at ht
      subst ht
      simp only [DT.leaves, List.mem_singleton] at hd
      exact hd ▸ lookup_mem env n d0 hl
  | .sel q pat, t, ht, d, hd => by
    simp only [resolveC] at ht
    have hsub : ∀ d ∈ (env.filter (fun e => selMatches pat e.1)).map (·.2), d ∈ env.map (·.2) := by
      intro d hd
      simp only [List.mem_map, List.mem_filter] at hd ⊢
      obtain ⟨e, ⟨he, _⟩, rfl⟩ := hd
      exact ⟨e, he, rfl⟩
    generalize (env.filter (fun e => selMatches pat e.1)).map (·.2) = ms at hsub ht
    match ms, hsub, ht with
    | [], _, ht => simp at ht
    | [m], hsub, ht =>
      simp only [Res.ok.injEq, Option.some.injEq] at ht
      subst ht
      simp only [DT.leaves, List.mem_singleton] at hd
      exact hd ▸ hsub m (by simp)
    | m :: m2 :: ms, hsub, ht =>
      simp only [Res.ok.injEq, Option.some.injEq] at ht
      subst ht
      cases q <;> simp only [DT.leaves, leavesList_map_det] at hd <;> exact hsub d hd
  | .not p, t, ht, d, hd => by
    simp only [resolveC] at ht
    cases hr : resolveC env p with
    | undefinedDet n => simp [hr] at ht
    | ok oc =>
      cases oc with
      | none => simp [hr] at ht
      | some c =>
        simp only [hr, Res.ok.injEq, Option.some.injEq] at ht
        subst ht
        exact resolveC_leaves env p c hr d (by simpa [DT.leaves] using hd)
  | .and ps, t, ht, d, hd => by
    simp only [resolveC] at ht
    cases hr : resolveCList env ps with
    | undefinedDet n => simp [hr] at ht
    | ok cs =>
      match cs, hr with
      | [], hr => simp [hr] at ht
      | [c], hr =>
        simp only [hr, Res.ok.injEq, Option.some.injEq] at ht
        subst ht
        exact resolveCList_leaves env ps [c] hr d (by simpa [DT.leavesList] using hd)
      | c :: c2 :: cs, hr =>
        simp only [hr, Res.ok.injEq, Option.some.injEq] at ht
        subst ht
        exact resolveCList_leaves env ps _ hr d (by simpa [DT.leaves] using hd)
  | .or ps, t, ht, d, hd => by
    simp only [resolveC] at ht
    cases hr : resolveCList env ps with
    | undefinedDet n => simp [hr] at ht
    | ok cs =>
      match cs, hr with
      | [], hr => simp [hr] at ht
      | [c], hr =>
        simp only [hr, Res.ok.injEq, Option.some.injEq] at ht
        subst ht
        exact resolveCList_leaves env ps [c] hr d (by simpa [DT.leavesList] using hd)
      | c :: c2 :: cs, hr =>
        simp only [hr, Res.ok.injEq, Option.some.injEq] at ht
        subst ht
        exact resolveCList_leaves env ps _ hr d (by simpa [DT.leaves] using hd)
theorem resolveCList_leaves (env : Env δ) :
    (ps : List PT) → ∀ ts, resolveCList env ps = .ok ts → ∀ d ∈ DT.leavesList ts, d ∈ env.map (·.2)
  | [], ts, hts, d, hd => by
    simp only [resolveCList, Res.ok.injEq] at hts
    subst hts
    simp [DT.leavesList] at hd
  | p :: ps, ts, hts, d, hd => by
    simp only [resolveCList] at hts
    cases hr : resolveC env p with
    | undefinedDet n => simp [hr] at hts
    | ok oc =>
      cases hr2 : resolveCList env ps with
      | undefinedDet n => simp [hr, hr2] at hts
      | ok cs =>
        simp only [hr, hr2, Res.ok.injEq] at hts
        subst hts
        cases oc with
        | none => exact resolveCList_leaves env ps cs hr2 d hd
        | some c =>
          simp only [DT.leavesList, List.mem_append] at hd
          rcases hd with hd | hd
          · exact resolveC_leaves env p c hr d hd
          · exact resolveCList_leaves env ps cs hr2 d hd
end

mutual
/-- an "undefined detection" error names an identifier of the condition that is not a key of the
detections dict -/
theorem resolveC_undefined (env : Env δ) :
    (P : PT) → ∀ a, resolveC env P = .undefinedDet a → a ∈ PT.ids P ∧ a ∉ env.keys
  | .id n, a, h => by
    simp only [resolveC] at h
    cases hl : env.lookup n with
    | some d0 => simp [hl] at h
    | none =>
      simp only [hl, Res.undefinedDet.injEq] at h
      subst h
      exact ⟨by simp [PT.ids], lookup_none env n hl⟩
  | .sel q pat, a, h => by
    simp only [resolveC] at h
    generalize (env.filter (fun e => selMatches pat e.1)).map (·.2) = ms at h
    match ms, h with
    | [], h => simp at h
    | [m], h => simp at h
    | m :: m2 :: ms, h => simp at h
  | .not p, a, h => by
    simp only [resolveC] at h
    cases hr : resolveC env p with
    | undefinedDet n =>
      simp only [hr, Res.undefinedDet.injEq] at h
      subst h
      simpa [PT.ids] using resolveC_undefined env p n hr
    | ok oc => cases oc <;> simp [hr] at h
  | .and ps, a, h => by
    simp only [resolveC] at h
    cases hr : resolveCList env ps with
    | undefinedDet n =>
      simp only [hr, Res.undefinedDet.injEq] at h
      subst h
      simpa [PT.ids] using resolveCList_undefined env ps n hr
    | ok cs =>
      match cs, hr with
      | [], hr => simp [hr] at h
      | [c], hr => simp [hr] at h
      | c :: c2 :: cs, hr => simp [hr] at h
  | .or ps, a, h => by
    simp only [resolveC] at h
    cases hr : resolveCList env ps with
    | undefinedDet n =>
      simp only [hr, Res.undefinedDet.injEq] at h
      subst h
      simpa [PT.ids] using resolveCList_undefined env ps n hr
    | ok cs =>
      match cs, hr with
      | [], hr => simp [hr] at h
      | [c], hr => simp [hr] at h
      | c :: c2 :: cs, hr => simp [hr] at h
theorem resolveCList_undefined (env : Env δ) :
    (ps : List PT) → ∀ a, resolveCList env ps = .undefinedDet a → a ∈ PT.idsList ps ∧ a ∉ env.keys
  | [], a, h => by simp [resolveCList] at h
  | p :: ps, a, h => by
    simp only [resolveCList] at h
    cases hr : resolveC env p with
    | undefinedDet n =>
      simp only [hr, Res.undefinedDet.injEq] at h
      subst h
      have := resolveC_undefined env p n hr
      exact ⟨by simp [PT.idsList, this.1], this.2⟩
    | ok oc =>
      cases hr2 : resolveCList env ps with
      | undefinedDet n =>
        simp only [hr, hr2, Res.undefinedDet.injEq] at h
        subst h
        have := resolveCList_undefined env ps n hr2
        exact ⟨by simp [PT.idsList, this.1], this.2⟩
      | ok cs => simp [hr, hr2] at h
end

/-! ## 2. The parser: a head operand in a context determined by the rest -/

theorem many_acc (op : Str → Option Str) (sub : Str → Option (PT × Str)) :
    ∀ (k : Nat) (acc : List PT) (s : Str),
      many op sub k acc s = (acc ++ (many op sub k [] s).1, (many op sub k [] s).2)
  | 0, acc, s => by simp [many]
  | k+1, acc, s => by
    cases hop : op s with
    | none => simp [many, hop]
    | some s1 =>
      cases hsub : sub s1 with
      | none => simp [many, hop, hsub]
      | some ps =>
        obtain ⟨p, s2⟩ := ps
        have e1 : many op sub (k+1) acc s = many op sub k (acc ++ [p]) s2 := by
          simp [many, hop, hsub]
        have e2 : many op sub (k+1) [] s = many op sub k [p] s2 := by
          simp [many, hop, hsub]
        rw [e1, e2, many_acc op sub k (acc ++ [p]) s2, many_acc op sub k [p] s2]
        simp

/-- one binary level, when the first operand is known -/
theorem level_head (op : Str → Option Str) (mk : List PT → PT) (sub : Str → Option (PT × Str))
    (s s1 : Str) (h : PT) (hs : sub s = some (h, s1)) :
    level op mk sub s =
      some ((match (many op sub s1.length [] s1).1 with | [] => h | tl => mk (h :: tl)),
        (many op sub s1.length [] s1).2) := by
  simp only [level, hs]
  rw [many_acc op sub s1.length [h] s1]
  cases (many op sub s1.length [] s1).1 with
  | nil => simp
  | cons t tl => simp

/-- the context in which a head operand followed by `rest` is read with fuel `F` (only depends on
the grammar, `rest` and `F`): the AND operands, the OR operands, or `none` when input is left over -/
def headCtx (g : Grammar) (F : Nat) (rest : Str) : Option (List PT × List PT) :=
  let a := many (opTok g g.kwAnd) (pNot g F) rest.length [] rest
  let o := many (opTok g g.kwOr) (pAnd g F) a.2.length [] a.2
  if skipWs o.2 == [] then some (a.1, o.1) else none

/-- **Head lemma.**  If the unary level reads the head operand `h` off the text `t` and leaves
`rest`, the whole text parses to `h` in the context `headCtx` — whatever `h` is. -/
theorem parse_head (g : Grammar) (t rest : Str) (h : PT)
    (hp : pNot g (t.length + 1) t = some (h, rest)) :
    parse g t = (headCtx g (t.length + 1) rest).map (fun ao => fillHead ao.1 ao.2 h) := by
  let a := many (opTok g g.kwAnd) (pNot g (t.length + 1)) rest.length [] rest
  let o := many (opTok g g.kwOr) (pAnd g (t.length + 1)) a.2.length [] a.2
  have h1 : pAnd g (t.length + 1) t = some ((match a.1 with | [] => h | tl => PT.and (h :: tl)), a.2) :=
    level_head (opTok g g.kwAnd) .and (pNot g (t.length + 1)) t rest h hp
  have h2 : pOr g (t.length + 1) t =
      some ((match o.1 with
             | [] => (match a.1 with | [] => h | tl => PT.and (h :: tl))
             | tl => PT.or ((match a.1 with | [] => h | tl => PT.and (h :: tl)) :: tl)), o.2) :=
    level_head (opTok g g.kwOr) .or (pAnd g (t.length + 1)) t a.2 _ h1
  show parse g t = (if skipWs o.2 == [] then some (a.1, o.1) else none).map _
  simp only [parse, h2]
  cases hws : (skipWs o.2 == [])
  · simp
  · simp only [if_true, Option.map_some, fillHead]
    generalize a.1 = al
    generalize o.1 = ol
    cases al <;> cases ol <;> rfl

/-! ## 3. `AddConditionTransformation`: the rewritten condition parses uniformly in the name -/

/-- what follows the name in the rewritten condition -/
def condRest (c : Str) : Str := if c.isEmpty then [] else " and (".toList ++ c ++ ")".toList

theorem addCondText_eq (neg : Bool) (m c : Str) :
    addCondText neg m c = (if neg then "not ".toList else []) ++ (m ++ condRest c) := by
  unfold addCondText condRest
  cases c with
  | nil => simp
  | cons x xs => simp

theorem stop0_condRest (c : Str) : Stop0 (condRest c) := by
  unfold condRest
  cases c with
  | nil => exact ⟨rfl, rfl⟩
  | cons x xs => exact ⟨rfl, rfl⟩

/-- the unary level reads the (negated) name off the rewritten condition -/
theorem pNot_addCond {g : Grammar} (hg : WF g) (neg : Bool) (m c : Str) (hm : WFName g m) :
    pNot g ((addCondText neg m c).length + 1) (addCondText neg m c) =
      some (headLeaf neg m, condRest c) := by
  rw [addCondText_eq]
  cases neg with
  | false =>
    simp only [Bool.false_eq_true, if_false, List.nil_append, headLeaf]
    exact pNot_name hg hm _ _ (stop0_condRest c)
  | true =>
    simp only [if_true, headLeaf]
    have e : "not ".toList ++ (m ++ condRest c) = ['n', 'o', 't'] ++ (' ' :: (m ++ condRest c)) := rfl
    rw [e]
    have hlen : (['n', 'o', 't'] ++ (' ' :: (m ++ condRest c))).length + 1 =
        ((m ++ condRest c).length + 3 + 1) + 1 := by simp
    rw [hlen]
    refine pNot_not hg _ _ (notFollowedBy_space hg _) (.id m) (condRest c) ?_
    have hw := pNot_ws g ((m ++ condRest c).length + 3 + 1) [' '] (m ++ condRest c) space_ws
    simp only [List.singleton_append] at hw
    rw [hw]
    exact pNot_name hg hm _ _ (stop0_condRest c)

/-- **Uniform parse.**  For a fixed rule condition `c` and a fixed name length there is ONE context
such that, for every name `m` the grammar can spell, the rewritten condition parses to the head
operand `m` (or `not m`) in that context — or fails for every such name. -/
theorem addCond_parse_uniform {g : Grammar} (hg : WF g) (neg : Bool) (c : Str) (L : Nat) :
    ∃ K : Option (List PT × List PT), ∀ m, WFName g m → m.length = L →
      parse g (addCondText neg m c) = K.map (fun ao => fillHead ao.1 ao.2 (headLeaf neg m)) := by
  refine ⟨headCtx g ((if neg then 4 else 0) + (L + (condRest c).length) + 1) (condRest c), ?_⟩
  intro m hm hL
  have hp := pNot_addCond hg neg m c hm
  have hlen : (addCondText neg m c).length = (if neg then 4 else 0) + (L + (condRest c).length) := by
    rw [addCondText_eq]
    cases neg <;> simp [List.length_append, hL] <;> omega
  rw [parse_head g _ _ _ hp, hlen]

/-! ## 4. The drawn name is irrelevant for the resolved tree -/

/-- replace `n` by `n'` -/
def swapName (n n' : Str) (k : Str) : Str := if k = n then n' else k

theorem set_fresh (env : Env δ) (n : Str) (d : δ) (h : n ∉ env.keys) : env.set n d = env ++ [(n, d)] := by
  unfold Env.set
  rw [if_neg]
  simpa using h

theorem rename_swap_fresh (env : Env δ) (n n' : Str) (h : n ∉ env.keys) :
    renameEnv (swapName n n') env = env := by
  unfold renameEnv
  conv => rhs; rw [← List.map_id env]
  apply List.map_congr_left
  intro e he
  have : e.1 ≠ n := fun hh => h (hh ▸ List.mem_map_of_mem (f := (·.1)) he)
  simp [swapName, this]

theorem ids_fillHead (a o : List PT) (h : PT) :
    ∀ x, x ∈ PT.ids (fillHead a o h) ↔ x ∈ PT.ids h ∨ x ∈ PT.idsList a ∨ x ∈ PT.idsList o := by
  intro x
  cases a <;> cases o <;> simp [fillHead, PT.ids, PT.idsList, or_assoc]

theorem pats_fillHead (a o : List PT) (h : PT) :
    ∀ x, x ∈ PT.pats (fillHead a o h) ↔ x ∈ PT.pats h ∨ x ∈ PT.patsList a ∨ x ∈ PT.patsList o := by
  intro x
  cases a <;> cases o <;> simp [fillHead, PT.pats, PT.patsList, or_assoc]

theorem mapNames_fillHead (fi fp : Str → Str) (a o : List PT) (h : PT) :
    PT.mapNames fi fp (fillHead a o h) =
      fillHead (PT.mapNamesList fi fp a) (PT.mapNamesList fi fp o) (PT.mapNames fi fp h) := by
  cases a <;> cases o <;> simp [fillHead, PT.mapNames, PT.mapNamesList]

theorem ids_headLeaf (neg : Bool) (n : Str) : PT.ids (headLeaf neg n) = [n] := by
  cases neg <;> simp [headLeaf, PT.ids]

theorem pats_headLeaf (neg : Bool) (n : Str) : PT.pats (headLeaf neg n) = [] := by
  cases neg <;> simp [headLeaf, PT.pats]

theorem mapNames_headLeaf (fi fp : Str → Str) (neg : Bool) (n : Str) :
    PT.mapNames fi fp (headLeaf neg n) = headLeaf neg (fi n) := by
  cases neg <;> simp [headLeaf, PT.mapNames]

/-- **The resolved tree does not depend on the drawn name** — for names that are fresh (not a key of
the rule's detections, not mentioned by the rest of the condition) and that no selector pattern of
the condition tells apart. -/
theorem resolveC_addCond_fresh (renv : Env δ) (d : δ) (neg : Bool) (a o : List PT) (n n' : Str)
    (hk : n ∉ renv.keys) (hk' : n' ∉ renv.keys)
    (hi : n ∉ PT.idsList a ++ PT.idsList o) (hi' : n' ∉ PT.idsList a ++ PT.idsList o)
    (hp : ∀ p ∈ PT.patsList a ++ PT.patsList o, selMatches p n' = selMatches p n) :
    resolveC (renv.set n' d) (fillHead a o (headLeaf neg n')) =
      resolveC (renv.set n d) (fillHead a o (headLeaf neg n)) := by
  simp only [List.mem_append, not_or] at hi hi'
  have hmap : PT.mapNames (swapName n n') id (fillHead a o (headLeaf neg n)) =
      fillHead a o (headLeaf neg n') := by
    rw [mapNames_fillHead, mapNames_headLeaf,
      mapNamesList_eq_self (swapName n n') id a (fun x hx => by
        have : x ≠ n := fun h => hi.1 (h ▸ hx)
        simp [swapName, this]) (fun _ _ => rfl),
      mapNamesList_eq_self (swapName n n') id o (fun x hx => by
        have : x ≠ n := fun h => hi.2 (h ▸ hx)
        simp [swapName, this]) (fun _ _ => rfl)]
    simp [swapName]
  have henv : renameEnv (swapName n n') (renv.set n d) = renv.set n' d := by
    rw [set_fresh renv n d hk, set_fresh renv n' d hk']
    simp only [renameEnv, List.map_append, List.map_cons, List.map_nil]
    have := rename_swap_fresh renv n n' hk
    simp only [renameEnv] at this
    rw [this]
    simp [swapName]
  rw [← hmap, ← henv]
  have hkeys : ∀ k ∈ (renv.set n d).keys, k = n ∨ k ∈ renv.keys := by
    intro k hk0
    rw [set_fresh renv n d hk] at hk0
    simp only [Env.keys, List.map_append, List.map_cons, List.map_nil, List.mem_append,
      List.mem_singleton] at hk0
    rcases hk0 with h | h
    · exact Or.inr h
    · exact Or.inl h
  have hn_key : n ∈ (renv.set n d).keys := by
    rw [set_fresh renv n d hk]; simp [Env.keys]
  apply resolveC_rename
  · intro x hx k hk0
    rw [ids_fillHead, ids_headLeaf] at hx
    have hx' : x ≠ n' ∨ x = n := by
      rcases hx with hx | hx | hx
      · exact Or.inr (by simpa using hx)
      · exact Or.inl (fun h => hi'.1 (h ▸ hx))
      · exact Or.inl (fun h => hi'.2 (h ▸ hx))
    rcases hkeys k hk0 with rfl | hkr
    · -- k = n
      by_cases hxn : x = k
      · subst hxn; simp [swapName]
      · have : x ≠ n' := by
          rcases hx' with h | h
          · exact h
          · exact absurd h hxn
        simp only [swapName, if_true, hxn, if_false]
        constructor
        · intro h; exact absurd h.symm this
        · intro h; exact absurd h.symm hxn
    · have hkn : k ≠ n := fun h => hk (h ▸ hkr)
      have hkn' : k ≠ n' := fun h => hk' (h ▸ hkr)
      by_cases hxn : x = n
      · rw [hxn]
        simp [swapName, hkn, hkn']
      · simp [swapName, hkn, hxn]
  · intro x _ hxk
    have : x ≠ n := fun h => hxk (h ▸ hn_key)
    simp [swapName, this]
  · intro p hp0 k hk0
    rw [pats_fillHead, pats_headLeaf] at hp0
    have hp1 : p ∈ PT.patsList a ++ PT.patsList o := by
      rcases hp0 with h | h | h
      · cases h
      · exact List.mem_append.mpr (Or.inl h)
      · exact List.mem_append.mpr (Or.inr h)
    simp only [id]
    rcases hkeys k hk0 with rfl | hkr
    · simp only [swapName, if_true]
      exact hp p hp1
    · have hkn : k ≠ n := fun h => hk (h ▸ hkr)
      simp [swapName, hkn]

/-- a pattern that does not start with an underscore never selects a name that does (so the rule's
own selectors — `them`, `sel*`, `*` — never select a drawn name) -/
theorem selMatches_underscore (p n : Str) (hp : p.head? ≠ some '_') (hn : n.head? = some '_') :
    selMatches p n = false := by
  have h1 : (p.head? == some '_') = false := by simpa using hp
  simp [selMatches, h1, hn]

/-! ## 5. Filters: the drawn prefix is irrelevant for the resolved tree -/

theorem starMatch_lit_nil (a : Char) (p : Str) (ha : a ≠ '*') : starMatch (a :: p) [] = false := by
  rw [starMatch]
  · exact fun h => ha h

theorem starMatch_lit_cons (a c : Char) (p n : Str) (ha : a ≠ '*') :
    starMatch (a :: p) (c :: n) = (a == c && starMatch p n) := by
  rw [starMatch]
  · exact fun h => ha h

/-- a literal prefix common to pattern and name can be dropped -/
theorem starMatch_prefix (pre p n : Str) (hstar : '*' ∉ pre) :
    starMatch (pre ++ p) (pre ++ n) = starMatch p n := by
  induction pre with
  | nil => rfl
  | cons a pre ih =>
    have ha : a ≠ '*' := fun h => hstar (by simp [h])
    have hs : '*' ∉ pre := fun h => hstar (by simp [h])
    simp [starMatch_lit_cons a a _ _ ha, ih hs]

/-- a pattern with a literal prefix only matches names carrying the prefix -/
theorem starMatch_prefix_false (pre p : Str) (hstar : '*' ∉ pre) :
    ∀ n : Str, ¬ pre <+: n → starMatch (pre ++ p) n = false := by
  induction pre with
  | nil => intro n hn; exact absurd (List.nil_prefix) hn
  | cons a pre ih =>
    have ha : a ≠ '*' := fun h => hstar (by simp [h])
    have hs : '*' ∉ pre := fun h => hstar (by simp [h])
    intro n hn
    cases n with
    | nil => exact starMatch_lit_nil a _ ha
    | cons c n =>
      rw [List.cons_append, starMatch_lit_cons a c _ _ ha]
      by_cases hac : a = c
      · subst hac
        have : ¬ pre <+: n := fun h => hn ((List.cons_prefix_cons).2 ⟨rfl, h⟩)
        simp [ih hs n this]
      · simp [hac]

theorem star_notin_us {pre : Str} (h : '*' ∉ pre) : '*' ∉ pre ++ ['_'] := by
  intro hm
  rcases List.mem_append.1 hm with hm | hm
  · exact h hm
  · simp at hm

theorem prefixed_ne_them' (pre p : Str) : (pre ++ '_' :: p == "them".toList) = false := by
  apply beq_eq_false_iff_ne.2
  intro h
  have : '_' ∈ "them".toList := by rw [← h]; simp
  exact absurd this (by decide)

theorem head_prefixed (pre s : Str) : (pre ++ '_' :: s).head? = some (pre.head?.getD '_') := by
  cases pre <;> rfl

theorem head_test' (x : Char) : (some x == some '_' || some x != some '_') = true := by
  by_cases h : x = '_' <;> simp [h]

/-- the pattern a filter pattern `q` stands for after the rewriting, without the prefix -/
def bareOf (q : Str) : Str := if q = "them".toList then ['*'] else q

theorem prefixPat_eq (pre q : Str) : prefixPat pre q = pre ++ '_' :: bareOf q := by
  unfold prefixPat bareOf
  by_cases h : q = "them".toList
  · rw [if_pos h, if_pos h]; rfl
  · rw [if_neg h, if_neg h]

/-- a rewritten filter pattern against an injected name: the prefix cancels -/
theorem selMatches_prefixed (pre q j : Str) (hstar : '*' ∉ pre) :
    selMatches (prefixPat pre q) (pre ++ '_' :: j) = starMatch (bareOf q) j := by
  rw [prefixPat_eq]
  have h1 := starMatch_prefix (pre ++ ['_']) (bareOf q) j (star_notin_us hstar)
  simp only [List.append_assoc, List.cons_append, List.nil_append] at h1
  simp only [selMatches, prefixed_ne_them', Bool.false_eq_true, if_false, h1, head_prefixed, head_test',
    Bool.and_true]

/-- a rewritten filter pattern never matches a name that does not carry the prefix -/
theorem selMatches_prefixed_other (pre q k : Str) (hstar : '*' ∉ pre) (hk : ¬ (pre ++ ['_']) <+: k) :
    selMatches (prefixPat pre q) k = false := by
  rw [prefixPat_eq]
  have h1 := starMatch_prefix_false (pre ++ ['_']) (bareOf q) (star_notin_us hstar) k hk
  simp only [List.append_assoc, List.cons_append, List.nil_append] at h1
  simp only [selMatches, prefixed_ne_them', Bool.false_eq_true, if_false, h1, Bool.false_and]

/-- exchange the prefix `pre_` for `pre'_`; other strings are left alone -/
def reprefix (pre pre' : Str) (k : Str) : Str :=
  match stripPrefix (pre ++ ['_']) k with
  | some r => pre' ++ '_' :: r
  | none => k

theorem reprefix_prefixed (pre pre' x : Str) : reprefix pre pre' (pre ++ '_' :: x) = pre' ++ '_' :: x := by
  have : stripPrefix (pre ++ ['_']) (pre ++ '_' :: x) = some x := by
    have := stripPrefix_append (pre ++ ['_']) x
    simpa using this
  simp [reprefix, this]

theorem reprefix_other (pre pre' k : Str) (hk : ¬ (pre ++ ['_']) <+: k) : reprefix pre pre' k = k := by
  cases h : stripPrefix (pre ++ ['_']) k with
  | none => simp [reprefix, h]
  | some r =>
    exact absurd ⟨r, ((stripPrefix_eq_some _ _ _).1 h).symm⟩ hk

/-- a string that carries neither prefix -/
def Fresh (pre pre' k : Str) : Prop := ¬ (pre ++ ['_']) <+: k ∧ ¬ (pre' ++ ['_']) <+: k

theorem not_fresh_prefixed (pre pre' x : Str) : ¬ Fresh pre' pre (pre ++ '_' :: x) := by
  intro h
  exact h.2 ⟨x, by simp⟩

mutual
theorem ids_mapNames (fi fp : Str → Str) : (P : PT) → PT.ids (PT.mapNames fi fp P) = (PT.ids P).map fi
  | .id n => by simp [PT.mapNames, PT.ids]
  | .sel _ _ => by simp [PT.mapNames, PT.ids]
  | .not p => by simp [PT.mapNames, PT.ids, ids_mapNames fi fp p]
  | .and ps => by simp [PT.mapNames, PT.ids, idsList_mapNames fi fp ps]
  | .or ps => by simp [PT.mapNames, PT.ids, idsList_mapNames fi fp ps]
theorem idsList_mapNames (fi fp : Str → Str) :
    (ps : List PT) → PT.idsList (PT.mapNamesList fi fp ps) = (PT.idsList ps).map fi
  | [] => rfl
  | p :: ps => by simp [PT.mapNamesList, PT.idsList, ids_mapNames fi fp p, idsList_mapNames fi fp ps]
end

mutual
theorem pats_mapNames (fi fp : Str → Str) : (P : PT) → PT.pats (PT.mapNames fi fp P) = (PT.pats P).map fp
  | .id n => by simp [PT.mapNames, PT.pats]
  | .sel _ _ => by simp [PT.mapNames, PT.pats]
  | .not p => by simp [PT.mapNames, PT.pats, pats_mapNames fi fp p]
  | .and ps => by simp [PT.mapNames, PT.pats, patsList_mapNames fi fp ps]
  | .or ps => by simp [PT.mapNames, PT.pats, patsList_mapNames fi fp ps]
theorem patsList_mapNames (fi fp : Str → Str) :
    (ps : List PT) → PT.patsList (PT.mapNamesList fi fp ps) = (PT.patsList ps).map fp
  | [] => rfl
  | p :: ps => by simp [PT.mapNamesList, PT.patsList, pats_mapNames fi fp p, patsList_mapNames fi fp ps]
end

mutual
theorem mapNames_comp (f g f' g' h k : Str → Str) :
    (P : PT) → (∀ a ∈ PT.ids P, f' (f a) = h a) → (∀ p ∈ PT.pats P, g' (g p) = k p) →
    PT.mapNames f' g' (PT.mapNames f g P) = PT.mapNames h k P
  | .id n, h1, _ => by simp [PT.mapNames, h1 n (by simp [PT.ids])]
  | .sel q p, _, h2 => by simp [PT.mapNames, h2 p (by simp [PT.pats])]
  | .not p, h1, h2 => by
    simp [PT.mapNames, mapNames_comp f g f' g' h k p (by simpa [PT.ids] using h1) (by simpa [PT.pats] using h2)]
  | .and ps, h1, h2 => by
    simp [PT.mapNames, mapNamesList_comp f g f' g' h k ps (by simpa [PT.ids] using h1) (by simpa [PT.pats] using h2)]
  | .or ps, h1, h2 => by
    simp [PT.mapNames, mapNamesList_comp f g f' g' h k ps (by simpa [PT.ids] using h1) (by simpa [PT.pats] using h2)]
theorem mapNamesList_comp (f g f' g' h k : Str → Str) :
    (ps : List PT) → (∀ a ∈ PT.idsList ps, f' (f a) = h a) → (∀ p ∈ PT.patsList ps, g' (g p) = k p) →
    PT.mapNamesList f' g' (PT.mapNamesList f g ps) = PT.mapNamesList h k ps
  | [], _, _ => rfl
  | p :: ps, h1, h2 => by
    simp only [PT.idsList, List.mem_append] at h1
    simp only [PT.patsList, List.mem_append] at h2
    simp [PT.mapNamesList,
      mapNames_comp f g f' g' h k p (fun a ha => h1 a (Or.inl ha)) (fun q hq => h2 q (Or.inl hq)),
      mapNamesList_comp f g f' g' h k ps (fun a ha => h1 a (Or.inr ha)) (fun q hq => h2 q (Or.inr hq))]
end

theorem prefixEnv_keys (pre : Str) (fenv : Env δ) :
    (prefixEnv pre fenv).keys = fenv.keys.map (fun k => pre ++ '_' :: k) := by
  simp [prefixEnv, Env.keys, List.map_map, Function.comp_def]

/-- without a clash, injecting the filter's detections appends them -/
theorem filteredEnv_append (pre : Str) (fenv : Env δ) :
    ∀ (renv : Env δ), (∀ k ∈ fenv.keys, pre ++ '_' :: k ∉ renv.keys) → fenv.keys.Nodup →
      filteredEnv pre renv fenv = renv ++ prefixEnv pre fenv := by
  induction fenv with
  | nil => intro renv _ _; simp [filteredEnv, prefixEnv]
  | cons e es ih =>
    intro renv hfr hnd
    simp only [Env.keys, List.map_cons, List.nodup_cons, List.mem_cons, forall_eq_or_imp] at hfr hnd
    have hset : renv.set (pre ++ '_' :: e.1) e.2 = renv ++ [(pre ++ '_' :: e.1, e.2)] :=
      set_fresh renv _ _ hfr.1
    have := ih (renv ++ [(pre ++ '_' :: e.1, e.2)]) (by
      intro k hk hmem
      simp only [Env.keys, List.map_append, List.map_cons, List.map_nil, List.mem_append,
        List.mem_singleton] at hmem
      rcases hmem with hmem | hmem
      · exact hfr.2 k hk hmem
      · have hke : k = e.1 := by simpa using hmem
        exact hnd.1 (hke ▸ hk)) hnd.2
    simp only [filteredEnv, List.foldl_cons, hset] at this ⊢
    rw [this]
    simp [prefixEnv]

/-- **The resolved tree of a filtered rule does not depend on the drawn prefix.**
`R` is the parse tree of the rule's own condition, `F` that of the filter's condition, `renv`/`fenv`
their detections.  Hypotheses: neither prefix contains `*`; nothing the rule says (detection names,
identifiers and patterns of its condition) starts with either prefix followed by `_`; the filter's
condition only names detections the filter defines (otherwise the error names the prefixed
identifier: finding D39); no pattern of the RULE's condition tells `pre_x` from `pre'_x` apart
(finding D10b: `_filt_a*` would). -/
theorem resolveC_filter_fresh (pre pre' : Str) (renv fenv : Env δ) (R F : PT)
    (hs : '*' ∉ pre) (hs' : '*' ∉ pre')
    (hkeys : ∀ k ∈ renv.keys, Fresh pre pre' k)
    (hids : ∀ a ∈ PT.ids R, Fresh pre pre' a)
    (hpats : ∀ p ∈ PT.pats R, Fresh pre pre' p)
    (hdef : ∀ y ∈ PT.ids F, y ∈ fenv.keys)
    (hR : ∀ p ∈ PT.pats R, ∀ j ∈ fenv.keys,
      selMatches p (pre' ++ '_' :: j) = selMatches p (pre ++ '_' :: j)) :
    resolveC (renv ++ prefixEnv pre' fenv) (filteredTree pre' R F) =
      resolveC (renv ++ prefixEnv pre fenv) (filteredTree pre R F) := by
  have henv : renameEnv (reprefix pre pre') (renv ++ prefixEnv pre fenv) = renv ++ prefixEnv pre' fenv := by
    simp only [renameEnv, List.map_append, prefixEnv, List.map_map, Function.comp_def, reprefix_prefixed]
    congr 1
    conv => rhs; rw [← List.map_id renv]
    apply List.map_congr_left
    intro e he
    have := reprefix_other pre pre' e.1 (hkeys e.1 (List.mem_map_of_mem (f := (·.1)) he)).1
    simp [this]
  have htree : PT.mapNames (reprefix pre pre') (reprefix pre pre') (filteredTree pre R F) =
      filteredTree pre' R F := by
    simp only [filteredTree, PT.mapNames, PT.mapNamesList]
    rw [mapNames_eq_self _ _ R (fun a ha => reprefix_other pre pre' a (hids a ha).1)
        (fun p hp => reprefix_other pre pre' p (hpats p hp).1),
      mapNames_comp _ _ _ _ (prefixName pre') (prefixPat pre') F
        (fun a _ => by simp [prefixName, reprefix_prefixed])
        (fun p _ => by rw [prefixPat_eq, prefixPat_eq, reprefix_prefixed])]
  rw [← henv, ← htree]
  -- membership facts
  have hk_cases : ∀ k ∈ (renv ++ prefixEnv pre fenv).keys,
      (k ∈ renv.keys ∧ Fresh pre pre' k) ∨ ∃ j ∈ fenv.keys, k = pre ++ '_' :: j := by
    intro k hk
    simp only [Env.keys, List.map_append, List.mem_append] at hk
    rcases hk with hk | hk
    · exact Or.inl ⟨hk, hkeys k hk⟩
    · have := prefixEnv_keys pre fenv
      simp only [Env.keys] at this
      rw [this, List.mem_map] at hk
      obtain ⟨j, hj, rfl⟩ := hk
      exact Or.inr ⟨j, hj, rfl⟩
  have hx_cases : ∀ x ∈ PT.ids (filteredTree pre R F),
      Fresh pre pre' x ∨ ∃ y ∈ PT.ids F, x = pre ++ '_' :: y := by
    intro x hx
    simp only [filteredTree, PT.ids, PT.idsList, List.append_nil, List.mem_append, ids_mapNames,
      List.mem_map] at hx
    rcases hx with hx | ⟨y, hy, rfl⟩
    · exact Or.inl (hids x hx)
    · exact Or.inr ⟨y, hy, rfl⟩
  have hp_cases : ∀ p ∈ PT.pats (filteredTree pre R F),
      (p ∈ PT.pats R ∧ Fresh pre pre' p) ∨ ∃ q, p = prefixPat pre q := by
    intro p hp
    simp only [filteredTree, PT.pats, PT.patsList, List.append_nil, List.mem_append, pats_mapNames,
      List.mem_map] at hp
    rcases hp with hp | ⟨q, _, rfl⟩
    · exact Or.inl ⟨hp, hpats p hp⟩
    · exact Or.inr ⟨q, rfl⟩
  apply resolveC_rename
  · -- look-ups hit the same entries
    intro x hx k hk
    rcases hk_cases k hk with ⟨_, hkf⟩ | ⟨j, _, rfl⟩ <;> rcases hx_cases x hx with hxf | ⟨y, _, rfl⟩
    · rw [reprefix_other _ _ k hkf.1, reprefix_other _ _ x hxf.1]
    · rw [reprefix_other _ _ k hkf.1, reprefix_prefixed]
      constructor
      · intro h; exact absurd ⟨y, by simp [h]⟩ hkf.2
      · intro h; exact absurd ⟨y, by simp [h]⟩ hkf.1
    · rw [reprefix_other _ _ x hxf.1, reprefix_prefixed]
      constructor
      · intro h; exact absurd ⟨j, by simp [← h]⟩ hxf.2
      · intro h; exact absurd ⟨j, by simp [← h]⟩ hxf.1
    · rw [reprefix_prefixed, reprefix_prefixed]
      constructor
      · intro h
        have : j = y := by simpa using h
        rw [this]
      · intro h
        have : j = y := by simpa using h
        rw [this]
  · -- undefined identifiers keep their spelling
    intro x hx hxk
    rcases hx_cases x hx with hxf | ⟨y, hy, rfl⟩
    · exact reprefix_other _ _ x hxf.1
    · exfalso
      apply hxk
      simp only [Env.keys, List.map_append, List.mem_append]
      right
      have := prefixEnv_keys pre fenv
      simp only [Env.keys] at this
      rw [this]
      exact List.mem_map_of_mem (hdef y hy)
  · -- every pattern matches the same entries
    intro p hp k hk
    rcases hk_cases k hk with ⟨_, hkf⟩ | ⟨j, hj, rfl⟩ <;> rcases hp_cases p hp with ⟨hpR, hpf⟩ | ⟨q, rfl⟩
    · rw [reprefix_other _ _ k hkf.1, reprefix_other _ _ p hpf.1]
    · rw [reprefix_other _ _ k hkf.1, prefixPat_eq pre q, reprefix_prefixed, ← prefixPat_eq pre' q,
        selMatches_prefixed_other pre' q k hs' hkf.2, ← prefixPat_eq pre q,
        selMatches_prefixed_other pre q k hs hkf.1]
    · rw [reprefix_other _ _ p hpf.1, reprefix_prefixed]
      exact hR p hpR j hj
    · rw [prefixPat_eq pre q, reprefix_prefixed, reprefix_prefixed, ← prefixPat_eq pre' q,
        selMatches_prefixed pre' q j hs', ← prefixPat_eq pre q, selMatches_prefixed pre q j hs]

/-! ## 6. `resolveC` generalises the C02 model `Cond.resolve`

With every detection's content taken to be its own name, `resolveC` is `resolve` (the model that the
C02 sweep compares with `SigmaCondition.parsed`). -/

mutual
def ctToDT : CT → DT Str
  | .det n => .det n
  | .not c => .not (ctToDT c)
  | .and cs => .and (ctToDTList cs)
  | .or cs => .or (ctToDTList cs)
def ctToDTList : List CT → List (DT Str)
  | [] => []
  | c :: cs => ctToDT c :: ctToDTList cs
end

def diagEnv (names : List Str) : Env Str := names.map (fun n => (n, n))

theorem ctToDTList_map_det (ms : List Str) : ctToDTList (ms.map CT.det) = ms.map DT.det := by
  induction ms with
  | nil => rfl
  | cons m ms ih => simp [ctToDTList, ctToDT, ih]

theorem diag_lookup (names : List Str) (n : Str) :
    (diagEnv names).lookup n = if names.contains n then some n else none := by
  induction names with
  | nil => rfl
  | cons a as ih =>
    show Env.lookup ((a, a) :: diagEnv as) n = _
    rw [lookup_cons, ih]
    by_cases h : a = n
    · simp [h]
    · have h' : ¬ n = a := fun e => h e.symm
      simp [h, h']

theorem diag_filter (names : List Str) (pat : Str) :
    ((diagEnv names).filter (fun e => selMatches pat e.1)).map (·.2) = names.filter (selMatches pat) := by
  induction names with
  | nil => rfl
  | cons a as ih =>
    simp only [diagEnv, List.map_cons, List.filter_cons] at ih ⊢
    cases selMatches pat a <;> simp [ih]

def mapRes (f : α → β) : Res α → Res β
  | .ok a => .ok (f a)
  | .undefinedDet n => .undefinedDet n

mutual
theorem resolveC_diag (names : List Str) :
    (P : PT) → resolveC (diagEnv names) P = mapRes (Option.map ctToDT) (resolve names P)
  | .id n => by
    simp only [resolveC, resolve, diag_lookup]
    cases h : names.contains n
    · simp [mapRes]
    · simp [mapRes, ctToDT]
  | .sel q pat => by
    simp only [resolveC, resolve, diag_filter]
    match names.filter (selMatches pat) with
    | [] => rfl
    | [m] => rfl
    | m :: m2 :: ms =>
      cases q <;> simp [mapRes, ctToDT, ctToDTList_map_det, ctToDTList]
  | .not p => by
    simp only [resolveC, resolve, resolveC_diag names p]
    cases resolve names p with
    | undefinedDet n => rfl
    | ok oc => cases oc <;> rfl
  | .and ps => by
    simp only [resolveC, resolve, resolveCList_diag names ps]
    cases resolveList names ps with
    | undefinedDet n => rfl
    | ok cs =>
      match cs with
      | [] => rfl
      | [c] => rfl
      | c :: c2 :: cs => rfl
  | .or ps => by
    simp only [resolveC, resolve, resolveCList_diag names ps]
    cases resolveList names ps with
    | undefinedDet n => rfl
    | ok cs =>
      match cs with
      | [] => rfl
      | [c] => rfl
      | c :: c2 :: cs => rfl
theorem resolveCList_diag (names : List Str) :
    (ps : List PT) → resolveCList (diagEnv names) ps = mapRes ctToDTList (resolveList names ps)
  | [] => rfl
  | p :: ps => by
    simp only [resolveCList, resolveList, resolveC_diag names p, resolveCList_diag names ps]
    cases resolve names p with
    | undefinedDet n => rfl
    | ok oc =>
      cases resolveList names ps with
      | undefinedDet n => rfl
      | ok cs => cases oc <;> rfl
end

/-! ## 7. Small facts used by the property theorems -/

theorem ids_fillHead_list (a o : List PT) (h : PT) :
    PT.ids (fillHead a o h) = PT.ids h ++ (PT.idsList a ++ PT.idsList o) := by
  cases a <;> cases o <;> simp [fillHead, PT.ids, PT.idsList]

theorem pats_fillHead_list (a o : List PT) (h : PT) :
    PT.pats (fillHead a o h) = PT.pats h ++ (PT.patsList a ++ PT.patsList o) := by
  cases a <;> cases o <;> simp [fillHead, PT.pats, PT.patsList]


open SigmaVerif.CondSpec in
/-- a name of the shape the generator draws: `_cond_` + 10 lower-case letters -/
theorem drawn_wfName (n : Str) (h : isDrawn condPrefix lowercase drawLen n) :
    wfName stdGrammar n = true ∧ n.length = 16 ∧ n.head? = some '_' := by
  obtain ⟨w, rfl, hw, hc⟩ := h
  have hlen : (condPrefix ++ w).length = 16 := by simp [condPrefix, hw, drawLen]
  refine ⟨?_, hlen, rfl⟩
  have hpre : ∀ c ∈ condPrefix, stdGrammar.identChars.contains c = true := by decide
  have hlow : ∀ c ∈ lowercase, stdGrammar.identChars.contains c = true := by decide
  have hall : ∀ c ∈ condPrefix ++ w, stdGrammar.identChars.contains c = true := by
    intro c hc'
    rcases List.mem_append.1 hc' with h | h
    · exact hpre c h
    · exact hlow c (hc c h)
  have hne : ∀ k : Str, k.length < 16 → condPrefix ++ w ≠ k := by
    intro k hk e; rw [e] at hlen; omega
  simp only [wfName, Bool.and_eq_true, Bool.not_eq_true', List.isEmpty_eq_false_iff, ne_eq,
    List.all_eq_true, bne_iff_ne]
  exact ⟨⟨⟨⟨by simp [condPrefix], hall⟩, hne _ (by decide)⟩, hne _ (by decide)⟩, hne _ (by decide)⟩


end SigmaVerif.Lemmas.C20
