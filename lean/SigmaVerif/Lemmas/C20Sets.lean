import SigmaVerif.Model.Det
/-!
# C20 lemmas, part 1: renderings that consume a set are invariant under its enumeration order
(because the code sorts), and are not when it does not sort.
-/
namespace SigmaVerif.Lemmas.C20
open SigmaVerif.Cond SigmaVerif.Det

/-! ## `strLe` is a total order -/

theorem strLe_total : ∀ a b : Str, (strLe a b || strLe b a) = true
  | [], _ => by simp [strLe]
  | _ :: _, [] => by simp [strLe]
  | a :: as, b :: bs => by
    have ih := strLe_total as bs
    simp only [strLe, Bool.or_eq_true, decide_eq_true_eq, Bool.and_eq_true, beq_iff_eq] at ih ⊢
    rcases Nat.lt_trichotomy a.toNat b.toNat with h | h | h
    · exact Or.inl (Or.inl h)
    · rcases ih with ih | ih
      · exact Or.inl (Or.inr ⟨h, ih⟩)
      · exact Or.inr (Or.inr ⟨h.symm, ih⟩)
    · exact Or.inr (Or.inl h)

theorem strLe_trans : ∀ a b c : Str, strLe a b = true → strLe b c = true → strLe a c = true
  | [], _, _ => by simp [strLe]
  | _ :: _, [], _ => by simp [strLe]
  | _ :: _, _ :: _, [] => by simp [strLe]
  | a :: as, b :: bs, c :: cs => by
    have ih := strLe_trans as bs cs
    simp only [strLe, Bool.or_eq_true, decide_eq_true_eq, Bool.and_eq_true, beq_iff_eq] at ih ⊢
    intro h1 h2
    rcases h1 with h1 | ⟨e1, h1⟩ <;> rcases h2 with h2 | ⟨e2, h2⟩
    · exact Or.inl (Nat.lt_trans h1 h2)
    · exact Or.inl (e2 ▸ h1)
    · exact Or.inl (e1 ▸ h2)
    · exact Or.inr ⟨e1.trans e2, ih h1 h2⟩

theorem strLe_antisymm : ∀ a b : Str, strLe a b = true → strLe b a = true → a = b
  | [], [] => by simp
  | [], _ :: _ => by simp [strLe]
  | _ :: _, [] => by simp [strLe]
  | a :: as, b :: bs => by
    have ih := strLe_antisymm as bs
    simp only [strLe, Bool.or_eq_true, decide_eq_true_eq, Bool.and_eq_true, beq_iff_eq] at ih ⊢
    intro h1 h2
    rcases h1 with h1 | ⟨e1, h1⟩ <;> rcases h2 with h2 | ⟨e2, h2⟩
    · exact absurd (Nat.lt_trans h1 h2) (Nat.lt_irrefl _)
    · exact absurd (e2 ▸ h1) (Nat.lt_irrefl _)
    · exact absurd (e1 ▸ h2) (Nat.lt_irrefl _)
    · rw [Char.toNat_inj.mp e1, ih h1 h2]

/-! ## generic: sorting erases the enumeration order -/

theorem insertBy_perm (le : α → α → Bool) (x : α) : ∀ l : List α, (insertBy le x l).Perm (x :: l)
  | [] => List.Perm.refl _
  | y :: ys => by
    simp only [insertBy]
    split
    · exact List.Perm.refl _
    · exact ((insertBy_perm le x ys).cons y).trans (List.Perm.swap x y ys)

theorem isort_perm (le : α → α → Bool) : ∀ l : List α, (isort le l).Perm l
  | [] => List.Perm.refl _
  | x :: xs => (insertBy_perm le x (isort le xs)).trans ((isort_perm le xs).cons x)

theorem insertBy_pairwise (le : α → α → Bool)
    (htrans : ∀ a b c, le a b = true → le b c = true → le a c = true)
    (htotal : ∀ a b, (le a b || le b a) = true) (x : α) :
    ∀ l : List α, l.Pairwise (fun a b => le a b = true) →
      (insertBy le x l).Pairwise (fun a b => le a b = true)
  | [], _ => by simp [insertBy]
  | y :: ys, h => by
    simp only [insertBy]
    rw [List.pairwise_cons] at h
    split
    · rename_i hxy
      refine List.pairwise_cons.2 ⟨?_, List.pairwise_cons.2 h⟩
      intro z hz
      rcases List.mem_cons.1 hz with rfl | hz
      · exact hxy
      · exact htrans _ _ _ hxy (h.1 z hz)
    · rename_i hxy
      have hyx : le y x = true := by
        have := htotal x y
        simp only [Bool.or_eq_true] at this
        rcases this with h' | h'
        · exact absurd h' hxy
        · exact h'
      refine List.pairwise_cons.2 ⟨?_, insertBy_pairwise le htrans htotal x ys h.2⟩
      intro z hz
      rcases List.mem_cons.1 ((insertBy_perm le x ys).mem_iff.1 hz) with rfl | hz
      · exact hyx
      · exact h.1 z hz

theorem isort_pairwise (le : α → α → Bool)
    (htrans : ∀ a b c, le a b = true → le b c = true → le a c = true)
    (htotal : ∀ a b, (le a b || le b a) = true) :
    ∀ l : List α, (isort le l).Pairwise (fun a b => le a b = true)
  | [] => List.Pairwise.nil
  | x :: xs => insertBy_pairwise le htrans htotal x _ (isort_pairwise le htrans htotal xs)

/-- sorting with a transitive, total comparison that is antisymmetric *on the members* gives the
same list for every enumeration -/
theorem isort_perm_eq {α : Type} (le : α → α → Bool)
    (htrans : ∀ a b c, le a b = true → le b c = true → le a c = true)
    (htotal : ∀ a b, (le a b || le b a) = true)
    {l₁ l₂ : List α} (hanti : ∀ a b, a ∈ l₁ → b ∈ l₁ → le a b = true → le b a = true → a = b)
    (h : l₁.Perm l₂) : isort le l₁ = isort le l₂ := by
  have p1 := isort_perm le l₁
  have p2 := isort_perm le l₂
  refine List.Perm.eq_of_pairwise (le := fun a b => le a b = true) ?_
    (isort_pairwise le htrans htotal l₁) (isort_pairwise le htrans htotal l₂)
    (p1.trans (h.trans p2.symm))
  intro a b ha hb hab hba
  exact hanti a b (p1.mem_iff.mp ha) (h.mem_iff.mpr (p2.mem_iff.mp hb)) hab hba

theorem sortStrs_perm {l₁ l₂ : List Str} (h : l₁.Perm l₂) : sortStrs l₁ = sortStrs l₂ :=
  isort_perm_eq strLe strLe_trans strLe_total (fun a b _ _ => strLe_antisymm a b) h

theorem sortStrs_perm_self (l : List Str) : (sortStrs l).Perm l := isort_perm strLe l

theorem mem_sortStrs {l : List Str} {x : Str} : x ∈ sortStrs l ↔ x ∈ l :=
  (sortStrs_perm_self l).mem_iff

/-! ## the sorted renderers -/

theorem renderSorted_perm (sep : Str) {l₁ l₂ : List Str} (h : l₁.Perm l₂) :
    renderSorted sep l₁ = renderSorted sep l₂ := by
  simp only [renderSorted, sortStrs_perm h]

theorem msgUnknownKeys_perm {l₁ l₂ : List Str} (h : l₁.Perm l₂) :
    msgUnknownKeys l₁ = msgUnknownKeys l₂ := by
  unfold msgUnknownKeys; rw [renderSorted_perm commaSep h]

theorem msgUnreferenced_perm (name : Str) {l₁ l₂ : List Str} (h : l₁.Perm l₂) :
    msgUnreferenced name l₁ = msgUnreferenced name l₂ := by
  unfold msgUnreferenced; rw [renderSorted_perm commaSep h]

theorem msgUnmapped_perm (isMapped : Str → Bool) {l₁ l₂ : List Str} (h : l₁.Perm l₂) :
    msgUnmapped isMapped l₁ = msgUnmapped isMapped l₂ := by
  unfold msgUnmapped; rw [sortStrs_perm h]

theorem msgRemoveValidator_perm (vn : Str) {l₁ l₂ : List Str} (h : l₁.Perm l₂) :
    msgRemoveValidator vn l₁ = msgRemoveValidator vn l₂ := by
  unfold msgRemoveValidator; rw [sortStrs_perm h]

theorem danglingIssues_perm {n₁ n₂ r₁ r₂ : List Str} (hn : n₁.Perm n₂) (hr : r₁.Perm r₂) :
    danglingIssues n₁ r₁ = danglingIssues n₂ r₂ := by
  unfold danglingIssues
  have hf : (fun n => !r₁.contains n) = (fun n => !r₂.contains n) := by
    funext n; rw [hr.contains_eq]
  rw [hf]
  exact sortStrs_perm (hn.filter _)

theorem renderFlags_perm {f₁ f₂ : List Flag} (h : f₁.Perm f₂) : renderFlags f₁ = renderFlags f₂ := by
  unfold renderFlags; rw [h.isEmpty_eq, sortStrs_perm (h.map Flag.text)]

/-! ## `_generate_identifier` -/

theorem sortItems_perm {l₁ l₂ : List (Str × Str)} (hk : (l₁.map (·.1)).Nodup) (h : l₁.Perm l₂) :
    sortItems l₁ = sortItems l₂ := by
  refine isort_perm_eq (fun a b => strLe a.1 b.1) (fun a b c => strLe_trans a.1 b.1 c.1)
    (fun a b => strLe_total a.1 b.1) ?_ h
  intro a b ha hb hab hba
  have hkey : a.1 = b.1 := strLe_antisymm _ _ hab hba
  -- distinct members of a list with distinct keys have distinct keys
  clear hab hba h
  induction l₁ with
  | nil => cases ha
  | cons x xs ih =>
    simp only [List.map_cons, List.nodup_cons, List.mem_map, not_exists, not_and] at hk
    rcases List.mem_cons.mp ha with rfl | ha' <;> rcases List.mem_cons.mp hb with rfl | hb'
    · rfl
    · exact absurd hkey.symm (hk.1 b hb')
    · exact absurd hkey (hk.1 a ha')
    · exact ih hk.2 ha' hb'

theorem identifierContent_perm (cls : Str) (conds : List Str) {l₁ l₂ : List (Str × Str)}
    (hk : (l₁.map (·.1)).Nodup) (h : l₁.Perm l₂) :
    identifierContent cls l₁ conds = identifierContent cls l₂ conds := by
  unfold identifierContent renderItems; rw [sortItems_perm hk h]

end SigmaVerif.Lemmas.C20
