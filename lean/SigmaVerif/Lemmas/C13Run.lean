import SigmaVerif.Lemmas.C13Conds
/-! Helper lemmas for C13: the specification's pipeline run (`runPipe`, `runFlags`) against the gate
model's `Gate.run`.  Lean core only. -/
namespace SigmaVerif.Lemmas.C13
open SigmaVerif.PipeConds SigmaVerif.Gate

/-- the world reached from `w0` when exactly the items at the positions `applied` (in that order) acted -/
def worldOf (m : Str → Str → Bool) (all : List PItem) (w0 : World) (applied : List Nat) : World :=
  applied.foldl (fun w k => match all[k]? with | some p => p.act m w | none => w) w0

/-- the truth value of rule condition `i` of item `k`, given the positions of the items applied so
far — the shape `Gate.run` asks for — computed with the specification's leaf semantics -/
def gateConds (m : Str → Str → Bool) (all : List PItem) (w0 : World) : Nat → List Nat → Nat → Bool :=
  fun k applied i => match all[k]? with
    | some p => leafAt p.rule (RuleCond.eval (worldOf m all w0 applied)) i
    | none => false

theorem worldOf_snoc (m : Str → Str → Bool) (all : List PItem) (w0 : World) (applied : List Nat) (k : Nat) (p : PItem)
    (h : all[k]? = some p) : worldOf m all w0 (applied ++ [k]) = p.act m (worldOf m all w0 applied) := by
  simp [worldOf, List.foldl_append, h]

theorem ruleHolds_eq_onRule (p : PItem) (w : World) :
    p.ruleHolds w = (gateItem p).onRule (leafAt p.rule (RuleCond.eval w)) := by
  simp [PItem.ruleHolds, Gate.Item.onRule, gateItem, holds_eq_gate]

theorem runFlags_eq_gate_run_gen (m : Str → Str → Bool) (w0 : World) :
    ∀ (rest pre : List PItem) (applied : List Nat),
      runFlags m rest (worldOf m (pre ++ rest) w0 applied) =
        Gate.run (rest.map gateItem) (gateConds m (pre ++ rest) w0) pre.length applied := by
  intro rest
  induction rest with
  | nil => intro pre applied; simp [runFlags, Gate.run]
  | cons p rest ih =>
    intro pre applied
    have hk : (pre ++ p :: rest)[pre.length]? = some p := by simp
    have hall : pre ++ p :: rest = (pre ++ [p]) ++ rest := by simp
    simp only [runFlags, List.map_cons, Gate.run]
    have hc : gateConds m (pre ++ p :: rest) w0 pre.length applied
        = leafAt p.rule (RuleCond.eval (worldOf m (pre ++ p :: rest) w0 applied)) := by
      funext i; simp [gateConds]
    rw [hc, ← ruleHolds_eq_onRule]
    congr 1
    have ih' := ih (pre ++ [p])
    rw [← hall] at ih'
    by_cases ha : p.ruleHolds (worldOf m (pre ++ p :: rest) w0 applied) = true
    · have hs : p.step m (worldOf m (pre ++ p :: rest) w0 applied)
          = worldOf m (pre ++ p :: rest) w0 (applied ++ [pre.length]) := by
        rw [worldOf_snoc m _ w0 applied pre.length p hk]; simp [PItem.step, ha]
      rw [hs, ih' (applied ++ [pre.length])]; simp [ha]
    · have hs : p.step m (worldOf m (pre ++ p :: rest) w0 applied) = worldOf m (pre ++ p :: rest) w0 applied := by
        simp [PItem.step, ha]
      rw [hs, ih' applied]; simp [ha]

/-- positions (counted from `k`) of the `true` flags -/
def idxFrom : Nat → List Bool → List Nat
  | _, [] => []
  | k, b :: bs => (if b then [k] else []) ++ idxFrom (k + 1) bs

theorem runPipe_eq_worldOf_gen (m : Str → Str → Bool) (w0 : World) :
    ∀ (rest pre : List PItem) (applied : List Nat),
      runPipe m rest (worldOf m (pre ++ rest) w0 applied) =
        worldOf m (pre ++ rest) w0
          (applied ++ idxFrom pre.length (runFlags m rest (worldOf m (pre ++ rest) w0 applied))) := by
  intro rest
  induction rest with
  | nil => intro pre applied; simp [runPipe, runFlags, idxFrom]
  | cons p rest ih =>
    intro pre applied
    have hk : (pre ++ p :: rest)[pre.length]? = some p := by simp
    have hall : pre ++ p :: rest = (pre ++ [p]) ++ rest := by simp
    have ih' := ih (pre ++ [p])
    rw [← hall] at ih'
    simp only [runPipe, runFlags, idxFrom]
    by_cases ha : p.ruleHolds (worldOf m (pre ++ p :: rest) w0 applied) = true
    · have hs : p.step m (worldOf m (pre ++ p :: rest) w0 applied)
          = worldOf m (pre ++ p :: rest) w0 (applied ++ [pre.length]) := by
        rw [worldOf_snoc m _ w0 applied pre.length p hk]; simp [PItem.step, ha]
      rw [hs, ih' (applied ++ [pre.length])]; simp [ha]
    · have hs : p.step m (worldOf m (pre ++ p :: rest) w0 applied) = worldOf m (pre ++ p :: rest) w0 applied := by
        simp [PItem.step, ha]
      rw [hs, ih' applied]; simp [ha]

end SigmaVerif.Lemmas.C13
