import SigmaVerif.Lemmas.C12Base
/-! Helper lemmas for C12: the meaning of a detection item is natural in its field. -/
namespace SigmaVerif.Lemmas.C12
open SigmaVerif.SStr SigmaVerif.Mods SigmaVerif.Rule SigmaVerif.Rewrite

/-- `h` acts on the atoms of field `f` as: same test on field `g`, referenced field through `r` -/
def Shift (h : Atom → Atom) (f g : Option Str) (r : Str → Str) : Prop :=
  ∀ a, atomField a = f → h a = shiftAtom g r a

theorem shift_shiftAtom (f g : Option Str) (r : Str → Str) : Shift (shiftAtom g r) f g r := fun _ _ => rfl

theorem shift_renameAtom (f : Option Str) (r : Str → Str) : Shift (renameAtom r) f (f.map r) r := by
  intro a ha; simp [renameAtom, ha]

mutual
/-- no field reference anywhere in the value -/
def noRef : Val → Bool
  | .fieldref .. => false
  | .expansion vs => noRefL vs
  | _ => true
def noRefL : List Val → Bool
  | [] => true
  | v :: vs => noRef v && noRefL vs
end

theorem noRefL_iff (vs : List Val) : noRefL vs = true ↔ ∀ v ∈ vs, noRef v = true := by
  induction vs with
  | nil => simp [noRefL]
  | cons v vs ih => simp [noRefL, ih]

theorem optMapM_natural {α β : Type} (k : β → β) (F F' : α → Option β) :
    ∀ l : List α, (∀ a ∈ l, F' a = (F a).map k) → l.mapM F' = (l.mapM F).map (List.map k)
  | [], _ => by simp
  | a :: l, H => by
    have h1 := H a (by simp)
    have h2 := optMapM_natural k F F' l (fun b hb => H b (by simp [hb]))
    simp only [List.mapM_cons, h1, h2]
    cases F a <;> cases l.mapM F <;> rfl

section
variable {h : Atom → Atom} {f g : Option Str} {r : Str → Str}

theorem Shift.str (H : Shift h f g r) (c : Bool) (p : SStr) : h (.str f c p) = .str g c p := H _ rfl
theorem Shift.num (H : Shift h f g r) (n : Str) : h (.num f n) = .num g n := H _ rfl
theorem Shift.bool (H : Shift h f g r) (b : Bool) : h (.bool f b) = .bool g b := H _ rfl
theorem Shift.null (H : Shift h f g r) : h (.null f) = .null g := H _ rfl
theorem Shift.exists_ (H : Shift h f g r) : h (.exists_ f) = .exists_ g := H _ rfl
theorem Shift.re (H : Shift h f g r) (s : Str) (a b d : Bool) : h (.re f s a b d) = .re g s a b d := H _ rfl
theorem Shift.cidr (H : Shift h f g r) (t : Str) : h (.cidr f t) = .cidr g t := H _ rfl
theorem Shift.cmp (H : Shift h f g r) (o n : Str) : h (.cmp f o n) = .cmp g o n := H _ rfl
theorem Shift.ref (H : Shift h f g r) (x : Str) (sw ew : Bool) : h (.ref f x sw ew) = .ref g (r x) sw ew := H _ rfl
theorem Shift.ts (H : Shift h f g r) (u n : Str) : h (.ts f u n) = .ts g u n := H _ rfl
theorem Shift.qx (H : Shift h f g r) (e i : Str) : h (.qx f e i) = .qx g e i := H _ rfl

theorem strBE_shift (H : Shift h f g r) (hiso : g.isNone = f.isNone) (cx : Ctx) (c : Bool) (s : SStr) :
    strBE cx g c s = (strBE cx f c s).map (mapAtoms h) := by
  unfold strBE
  split
  · simp [Except.map, mapAtoms, H.str]
  · cases phRun cx cx.phItems (.alts [s]) with
    | error e => rfl
    | ok st =>
      cases st with
      | qexpr e i =>
        simp only [hiso]
        split
        · rfl
        · simp [Except.map, mapAtoms, H.qx]
      | alts vs =>
        simp only
        split
        · rfl
        · split
          · simp [Except.map, mapAtoms, H.str]
          · simp [Except.map, mapAtoms, mapAtomsL_eq_map, H.str]

theorem valBE_shift_aux (H : Shift h f g r) (cx : Ctx) (n : Nat) (v : Val)
    (hexp : ∀ vs, v = .expansion vs → valBE cx g n v = (valBE cx f n v).map (mapAtoms h))
    (hv : noRef v = true) : valBE cx g n v = (valBE cx f n v).map (mapAtoms h) := by
  cases v with
  | expansion vs => exact hexp vs rfl
  | fieldref x sw ew => simp [noRef] at hv
  | str c s => simp only [valBE]; split <;> simp [mapAtoms, H.str]
  | cidr t =>
    simp only [valBE]
    split
    · simp [mapAtoms, H.cidr]
    · cases parseCidr4 t with
      | none => rfl
      | some bp => simp [mapAtoms, mapAtomsL_eq_map, H.str]
  | exists_ b => cases b <;> simp [valBE, mapAtoms, H.exists_]
  | num n => simp [valBE, mapAtoms, H.num]
  | bool b => simp [valBE, mapAtoms, H.bool]
  | null => simp [valBE, mapAtoms, H.null]
  | re s a b d => simp [valBE, mapAtoms, H.re]
  | cmp o n => simp [valBE, mapAtoms, H.cmp]
  | tspart u n => simp [valBE, mapAtoms, H.ts]

theorem valBE_shift (H : Shift h f g r) (cx : Ctx) :
    ∀ (n : Nat) (v : Val), noRef v = true → valBE cx g n v = (valBE cx f n v).map (mapAtoms h) := by
  intro n
  induction n with
  | zero =>
    intro v hv
    exact valBE_shift_aux H cx 0 v (fun vs hvs => by subst hvs; simp [valBE]) hv
  | succ n ih =>
    intro v hv
    refine valBE_shift_aux H cx (n + 1) v (fun vs hvs => ?_) hv
    subst hvs
    have hall : ∀ a ∈ vs, valBE cx g n a = (valBE cx f n a).map (mapAtoms h) :=
      fun a ha => ih a ((noRefL_iff vs).1 (by simpa [noRef] using hv) a ha)
    simp only [valBE, optMapM_natural (mapAtoms h) _ _ vs hall]
    cases vs.mapM (valBE cx f n) <;> simp [mapAtoms, mapAtomsL_eq_map]

theorem go_eq_mapME (alt : Val → Except SpecErr BE) : ∀ l : List Val, valBE'.go alt l = mapME alt l
  | [] => rfl
  | a :: l => by
    simp only [valBE'.go, mapME, go_eq_mapME alt l]
    cases alt a <;> cases mapME alt l <;> rfl

theorem optToExcept_shift (cx : Ctx) (n : Nat) (v : Val)
    (hv : valBE cx g n v = (valBE cx f n v).map (mapAtoms h)) :
    (match valBE cx g n v with | some e => Except.ok e | none => Except.error (SpecErr.unsupported "value")) =
    (match valBE cx f n v with | some e => Except.ok e | none => Except.error (SpecErr.unsupported "value") : Except SpecErr BE).map (mapAtoms h) := by
  rw [hv]; cases valBE cx f n v <;> rfl

theorem valBE'_shift (H : Shift h f g r) (hiso : g.isNone = f.isNone) (cx : Ctx) (v : Val) (hv : noRef v = true) :
    valBE' cx g v = (valBE' cx f v).map (mapAtoms h) := by
  cases v with
  | str c s => simpa [valBE'] using strBE_shift H hiso cx c s
  | expansion vs =>
    simp only [valBE', go_eq_mapME]
    have hall : ∀ a ∈ vs,
        (match a with
          | .str c s => strBE cx g c s
          | _ => match valBE cx g 8 a with | some e => Except.ok e | none => Except.error (SpecErr.unsupported "value")) =
        (match a with
          | .str c s => strBE cx f c s
          | _ => match valBE cx f 8 a with | some e => Except.ok e | none => Except.error (SpecErr.unsupported "value")).map (mapAtoms h) := by
      intro a ha
      have hna : noRef a = true := (noRefL_iff vs).1 (by simpa [noRef] using hv) a ha
      cases a with
      | str c s => exact strBE_shift H hiso cx c s
      | _ => exact optToExcept_shift cx 8 _ (valBE_shift H cx 8 _ hna)
    erw [mapME_natural (mapAtoms h) _ _ vs hall]
    cases mapME _ vs <;> simp [Except.map, mapAtoms, mapAtomsL_eq_map]
  | fieldref x sw ew => simp [noRef] at hv
  | _ => exact optToExcept_shift cx 8 _ (valBE_shift H cx 8 _ hv)

end

/-! ### `itemBE` in parts -/

/-- the meaning of an item once the modifier chain has run -/
def itemBody (cx : Ctx) (field : Option Str) (it : Item) : Except SpecErr BE :=
  let body : Except SpecErr BE :=
    match it.vals with
    | [] => if field.isSome then .ok (.atom (.null field)) else .error (.unsupported "null value without field")
    | vals =>
      match mapME (valBE' cx field) vals with
      | .ok [e] => .ok e
      | .ok es => .ok (if it.linkAnd then .and es else .or es)
      | .error e => .error e
  match body with
  | .ok e => .ok (if it.negated then .not e else e)
  | .error e => .error e

def chainOf (cx : Ctx) (hasField : Bool) (ms : List Str) (vs : List PV) : Except MErr Item :=
  applyChain cx.env (ms.map String.ofList)
    { hasField := hasField, vals := vs.map (pvToVal ((ms.map String.ofList).contains "re")) }

def itemOf (cx : Ctx) (field : Option Str) (ms : List Str) (vs : List PV) : Except SpecErr BE :=
  match chainOf cx field.isSome ms vs with
  | .error e => .error (.mod e)
  | .ok it => itemBody cx field it

theorem fieldOf_eq (k : Str) : fieldOf k = if (keyField k).isEmpty then none else some (keyField k) := rfl

theorem itemBE_some (cx : Ctx) (k : Str) (vs : List PV) :
    itemBE cx (some k) vs = itemOf cx (fieldOf k) (keyMods k) vs := by
  unfold itemBE itemOf chainOf itemBody
  simp only [splitOn_key, List.drop_one, List.tail_cons, fieldOf_eq]
  rfl

theorem itemBE_none (cx : Ctx) (vs : List PV) : itemBE cx none vs = itemBE cx (some []) vs := rfl

section
variable {h : Atom → Atom} {f g : Option Str} {r : Str → Str}

/-- the item body is natural: values through `k`, atoms through `h` -/
theorem itemBody_nat (H : Shift h f g r) (hiso : g.isSome = f.isSome) (cx : Ctx) (it : Item) (k : Val → Val)
    (hall : ∀ a ∈ it.vals, valBE' cx g (k a) = (valBE' cx f a).map (mapAtoms h)) :
    itemBody cx g { it with vals := it.vals.map k } = (itemBody cx f it).map (mapAtoms h) := by
  unfold itemBody
  cases hvals : it.vals with
  | nil =>
    simp only [hiso, List.map_nil]
    cases f.isSome <;> cases it.negated <;> simp [Except.map, mapAtoms, H.null]
  | cons v vs =>
    rw [hvals] at hall
    simp only [List.map_cons]
    rw [← List.map_cons, mapME_map, mapME_natural (mapAtoms h) _ _ (v :: vs) hall]
    cases mapME (valBE' cx f) (v :: vs) with
    | error e => rfl
    | ok es =>
      cases it.negated <;> cases it.linkAnd <;>
        (match es with
         | [] => simp [Except.map, mapAtoms, mapAtomsL_eq_map]
         | [e] => simp [Except.map, mapAtoms, mapAtomsL_eq_map]
         | e1 :: e2 :: es => simp [Except.map, mapAtoms, mapAtomsL_eq_map])

theorem itemBody_shift (H : Shift h f g r) (hiso : g.isSome = f.isSome) (cx : Ctx) (it : Item)
    (hv : ∀ v ∈ it.vals, noRef v = true) :
    itemBody cx g it = (itemBody cx f it).map (mapAtoms h) := by
  have hiso' : g.isNone = f.isNone := by
    cases f <;> cases g <;> simp_all
  have := itemBody_nat H hiso cx it id (fun a ha => valBE'_shift H hiso' cx a (hv a ha))
  simpa using this

end
end SigmaVerif.Lemmas.C12
