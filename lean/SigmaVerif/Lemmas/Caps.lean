import SigmaVerif.Model.Caps
/-!
# Lemmas for C16 (capability flow of pipeline loading).  No Mathlib.

Structure: (1) the `Run` monad, (2) key/value lists (`kvSet`, `kvStrip`, `inject`, `siteParams`), (3) what a
closed site lets through (`closed_lookup`), (4) generic invariants of `instItem(s)` / `instFin(s)` / `useItem(s)`
by mutual structural induction over the document tree, parametrised by an object predicate `P` and an event
predicate `Q`, (5) non-interference under scrubbing, (6) path containment on strings vs. components.
-/
namespace SigmaVerif.Caps

/-! ## 1. Run -/

@[simp] theorem Run.bind_ok (a : α) (f : α → Run β) : (Run.ok a).bind f = f a := by
  simp [Run.bind, Run.ok]

@[simp] theorem Run.bind_fail (e : Err) (f : α → Run β) : (Run.fail e : Run α).bind f = Run.fail e := by
  simp [Run.bind, Run.fail]

@[simp] theorem Run.ok_evs (a : α) : (Run.ok a).evs = [] := rfl
@[simp] theorem Run.fail_evs (e : Err) : (Run.fail e : Run α).evs = [] := rfl
@[simp] theorem Run.ok_res (a : α) : (Run.ok a).res = .ok a := rfl
@[simp] theorem Run.fail_res (e : Err) : (Run.fail e : Run α).res = .error e := rfl

/-- events of a bind: those of the first part, then (if it succeeded) those of the continuation -/
theorem Run.mem_bind_evs {x : Run α} {f : α → Run β} {ev : Event} (h : ev ∈ (x.bind f).evs) :
    ev ∈ x.evs ∨ ∃ a, x.res = .ok a ∧ ev ∈ (f a).evs := by
  unfold Run.bind at h
  cases hx : x.res with
  | error e => simp [hx] at h; exact .inl h
  | ok a =>
    simp [hx] at h
    rcases h with h | h
    · exact .inl h
    · exact .inr ⟨a, rfl, h⟩

theorem Run.bind_res_ok {x : Run α} {f : α → Run β} {b : β} (h : (x.bind f).res = .ok b) :
    ∃ a, x.res = .ok a ∧ (f a).res = .ok b := by
  unfold Run.bind at h
  cases hx : x.res with
  | error e => simp [hx] at h
  | ok a => simp [hx] at h; exact ⟨a, rfl, h⟩

theorem Run.bind_evs_nil {x : Run α} {f : α → Run β} (hx : x.evs = []) (hf : ∀ a, (f a).evs = []) :
    (x.bind f).evs = [] := by
  unfold Run.bind
  cases x.res <;> simp [hx, hf]

/-! ## 2. key/value lists -/

theorem lookup_cons_ne {k a : String} (b : Val) (es : KV) (h : (k == a) = false) :
    List.lookup k ((a, b) :: es) = List.lookup k es := by
  simp only [List.lookup, h]

theorem lookup_cons_eq {k a : String} (b : Val) (es : KV) (h : (k == a) = true) :
    List.lookup k ((a, b) :: es) = some b := by
  simp only [List.lookup, h]

/-- a filter on keys that keeps `k` does not change the lookup of `k` -/
theorem lookup_filter_keep (f : String → Bool) (kv : KV) (k : String) (hk : f k = true) :
    List.lookup k (kv.filter (fun e => f e.1)) = List.lookup k kv := by
  induction kv with
  | nil => rfl
  | cons e es ih =>
    obtain ⟨a, b⟩ := e
    by_cases hfa : f a = true
    · rw [List.filter_cons_of_pos (by simpa using hfa)]
      cases hka : (k == a) with
      | true => rw [lookup_cons_eq _ _ hka, lookup_cons_eq _ _ hka]
      | false => rw [lookup_cons_ne _ _ hka, lookup_cons_ne _ _ hka, ih]
    · rw [List.filter_cons_of_neg (by simpa using hfa)]
      have hka : (k == a) = false := by
        cases hka : (k == a) with
        | false => rfl
        | true =>
          have : k = a := by simpa using hka
          subst this
          exact absurd hk hfa
      rw [lookup_cons_ne _ _ hka, ih]

/-- a filter on keys that drops `k` makes the lookup of `k` fail -/
theorem lookup_filter_drop (f : String → Bool) (kv : KV) (k : String) (hk : f k = false) :
    List.lookup k (kv.filter (fun e => f e.1)) = none := by
  induction kv with
  | nil => rfl
  | cons e es ih =>
    obtain ⟨a, b⟩ := e
    by_cases hfa : f a = true
    · rw [List.filter_cons_of_pos (by simpa using hfa)]
      have hka : (k == a) = false := by
        cases hka : (k == a) with
        | false => rfl
        | true =>
          have : k = a := by simpa using hka
          subst this
          rw [hk] at hfa; cases hfa
      rw [lookup_cons_ne _ _ hka, ih]
    · rw [List.filter_cons_of_neg (by simpa using hfa)]
      exact ih

theorem lookup_filter_ne (kv : KV) (k k' : String) (h : k' ≠ k) :
    List.lookup k' (kv.filter (fun e => e.1 != k)) = List.lookup k' kv :=
  lookup_filter_keep (fun a => a != k) kv k' (by simpa using h)

@[simp] theorem lookup_kvSet_self (kv : KV) (k : String) (v : Val) : List.lookup k (kvSet kv k v) = some v := by
  unfold kvSet
  exact lookup_cons_eq _ _ (by simp)

theorem lookup_kvSet_ne (kv : KV) (k k' : String) (v : Val) (h : k' ≠ k) :
    List.lookup k' (kvSet kv k v) = List.lookup k' kv := by
  unfold kvSet
  rw [lookup_cons_ne _ _ (by simpa using h), lookup_filter_ne kv k k' h]

theorem lookup_kvStrip_mem (strip : List String) (kv : KV) (k : String) (h : k ∈ strip) :
    List.lookup k (kvStrip strip kv) = none :=
  lookup_filter_drop (fun a => !strip.contains a) kv k (by simpa using h)

theorem lookup_kvStrip_not_mem (strip : List String) (kv : KV) (k : String) (h : k ∉ strip) :
    List.lookup k (kvStrip strip kv) = List.lookup k kv :=
  lookup_filter_keep (fun a => !strip.contains a) kv k (by simpa using h)

theorem lookup_inject_mem (keys : List String) (c : Caller) (p : KV) (k : String) (h : k ∈ keys) :
    List.lookup k (inject keys c p) = some (c.val k) := by
  unfold inject
  induction keys generalizing p with
  | nil => cases h
  | cons a as ih =>
    simp only [List.foldl]
    by_cases hk : k ∈ as
    · exact ih _ hk
    · have hka : k = a := by
        rcases List.mem_cons.1 h with h | h
        · exact h
        · exact absurd h hk
      subst hka
      -- the remaining assignments do not touch `k`
      have aux : ∀ (as : List String) (q : KV), k ∉ as →
          List.lookup k (as.foldl (fun p k' => kvSet p k' (c.val k')) q) = List.lookup k q := by
        intro as
        induction as with
        | nil => intro q _; rfl
        | cons b bs ihb =>
          intro q hnb
          simp only [List.foldl]
          have hb : k ≠ b := fun e => hnb (e ▸ List.mem_cons_self)
          have hbs : k ∉ bs := fun e => hnb (List.mem_cons_of_mem _ e)
          rw [ihb _ hbs, lookup_kvSet_ne _ _ _ _ hb]
      rw [aux as _ hk, lookup_kvSet_self]

theorem lookup_inject_not_mem (keys : List String) (c : Caller) (p : KV) (k : String) (h : k ∉ keys) :
    List.lookup k (inject keys c p) = List.lookup k p := by
  unfold inject
  induction keys generalizing p with
  | nil => rfl
  | cons a as ih =>
    simp only [List.foldl]
    have ha : k ≠ a := fun e => h (e ▸ List.mem_cons_self)
    have has : k ∉ as := fun e => h (List.mem_cons_of_mem _ e)
    rw [ih _ has, lookup_kvSet_ne _ _ _ _ ha]

theorem mem_keys_of_lookup {kv : KV} {k : String} {v : Val} (h : List.lookup k kv = some v) :
    ∃ e ∈ kv, e.1 = k := by
  induction kv with
  | nil => simp [List.lookup] at h
  | cons e es ih =>
    obtain ⟨a, b⟩ := e
    simp only [List.lookup] at h
    cases hk : (k == a) with
    | true =>
      have : k = a := by simpa using hk
      exact ⟨(a, b), List.mem_cons_self, this.symm⟩
    | false =>
      simp [hk] at h
      obtain ⟨e, he, hek⟩ := ih h
      exact ⟨e, List.mem_cons_of_mem _ he, hek⟩

/-- a successfully constructed object only has keywords its class accepts -/
theorem accepts_of_construct {cls : Cls} {params : KV} {k : String} {v : Val}
    (hc : construct cls params = true) (h : List.lookup k params = some v) : cls.accepts.contains k = true := by
  obtain ⟨e, he, hek⟩ := mem_keys_of_lookup h
  simp only [construct, Bool.and_eq_true, List.all_eq_true] at hc
  have := hc.1 e he
  simpa [hek] using this

/-! ## 3. what a site lets through -/

/-- the parameters a constructor receives for key `k`: the caller's value where the site assigns it, nothing where
the site strips it, the document's value otherwise -/
theorem lookup_siteParams (s : Site) (c : Caller) (cls : Cls) (kv : KV) (k : String) :
    List.lookup k (siteParams s c cls kv) =
      if cls.isExt = true ∧ k ∈ s.injExt then some (c.val k)
      else if cls.isTemplate = true ∧ k ∈ s.injTmpl then some (c.val k)
      else if k ∈ s.strip then none else List.lookup k kv := by
  unfold siteParams
  have base : List.lookup k (kvStrip s.strip kv) = if k ∈ s.strip then none else List.lookup k kv := by
    by_cases h : k ∈ s.strip
    · simp [h, lookup_kvStrip_mem _ _ _ h]
    · simp [h, lookup_kvStrip_not_mem _ _ _ h]
  have mid : List.lookup k (if cls.isTemplate = true then inject s.injTmpl c (kvStrip s.strip kv) else kvStrip s.strip kv) =
      if cls.isTemplate = true ∧ k ∈ s.injTmpl then some (c.val k)
      else if k ∈ s.strip then none else List.lookup k kv := by
    by_cases ht : cls.isTemplate = true
    · by_cases hk : k ∈ s.injTmpl
      · simp [ht, hk, lookup_inject_mem _ _ _ _ hk]
      · simp [ht, hk, lookup_inject_not_mem _ _ _ _ hk, base]
    · simp [ht, base]
  by_cases he : cls.isExt = true
  · by_cases hk : k ∈ s.injExt
    · simp only [he, if_true, hk, and_self, lookup_inject_mem _ _ _ _ hk]
    · simp only [he, if_true, hk, and_false, if_false, lookup_inject_not_mem _ _ _ _ hk]
      exact mid
  · simp only [he, Bool.false_eq_true, if_false, false_and]
    exact mid

/-- at a site that is closed for the class, a constructed object holds for every opt-in key either nothing
(class default) or the caller's value — never the document's -/
theorem closed_lookup {s : Site} {c : Caller} {cls : Cls} {kv : KV} {k : String}
    (hcl : keyOpen s cls k = false) (hc : construct cls (siteParams s c cls kv) = true) :
    List.lookup k (siteParams s c cls kv) = none ∨ List.lookup k (siteParams s c cls kv) = some (c.val k) := by
  cases hl : List.lookup k (siteParams s c cls kv) with
  | none => exact .inl rfl
  | some v =>
    right
    have hacc := accepts_of_construct hc hl
    rw [lookup_siteParams] at hl
    by_cases h1 : cls.isExt = true ∧ k ∈ s.injExt
    · rw [if_pos h1] at hl; exact hl.symm
    · by_cases h2 : cls.isTemplate = true ∧ k ∈ s.injTmpl
      · rw [if_neg h1, if_pos h2] at hl; exact hl.symm
      · by_cases h3 : k ∈ s.strip
        · rw [if_neg h1, if_neg h2, if_pos h3] at hl; cases hl
        · exfalso
          have : keyOpen s cls k = true := by
            simp only [keyOpen, hacc, Bool.true_and, Bool.and_eq_true, Bool.not_eq_true', Bool.or_eq_false_iff,
              Bool.and_eq_false_iff]
            refine ⟨by simpa using h3, ?_, ?_⟩
            · by_cases ht : cls.isTemplate = true
              · right; simpa using fun hm => h2 ⟨ht, hm⟩
              · left; simpa using ht
            · by_cases he : cls.isExt = true
              · right; simpa using fun hm => h1 ⟨he, hm⟩
              · left; simpa using he
          rw [hcl] at this; cases this

/-! ## 4. generic invariants of the loaders -/

@[simp] theorem Obj.all_mk (t : String) (cls : Cls) (p : KV) (ch : List Obj) :
    (Obj.mk t cls p ch).all = Obj.mk t cls p ch :: Obj.allL ch := by
  simp [Obj.all]

@[simp] theorem Obj.allL_nil : Obj.allL [] = [] := by simp [Obj.allL]
@[simp] theorem Obj.allL_cons (o : Obj) (os : List Obj) : Obj.allL (o :: os) = o.all ++ Obj.allL os := by
  simp [Obj.allL]

/-- the registry and the forwarding used below a nested item -/
def itemReg (cfg : Cfg) (pp : Bool) : Reg := if pp then cfg.regPP else cfg.regT
def itemNestFwd (cfg : Cfg) (pp : Bool) : Fwd := if pp then cfg.fwdNestPP else cfg.fwdNestT

/-- what has to be shown locally for an invariant of `instItem` -/
structure ItemInv (cfg : Cfg) (w : World) (pp : Bool) (P : Caller → Cls → KV → Prop) (Q : Caller → Event → Prop) : Prop where
  obj : ∀ c t cls kv, (itemReg cfg pp).lookup t = some cls → construct cls (siteParams cfg.item c cls kv) = true →
    P c cls (siteParams cfg.item c cls kv)
  ev : ∀ c t cls kv, (itemReg cfg pp).lookup t = some cls → cls.isTemplate = true →
    construct cls (siteParams cfg.item c cls kv) = true →
    ∀ e ∈ (tmplInit cfg w (siteParams cfg.item c cls kv)).evs, Q c e
  /-- only needed where nested items are loaded at all -/
  objVia : (pp && cfg.nestPPDirect) = false → ∀ c cls p, P (c.via (itemNestFwd cfg pp)) cls p → P c cls p
  evVia : (pp && cfg.nestPPDirect) = false → ∀ c e, Q (c.via (itemNestFwd cfg pp)) e → Q c e

mutual
theorem instItem_inv {cfg : Cfg} {w : World} {pp : Bool} {P : Caller → Cls → KV → Prop} {Q : Caller → Event → Prop}
    (h : ItemInv cfg w pp P Q) : (c : Caller) → (n : Node) →
    (∀ e ∈ (instItem cfg w pp c n).evs, Q c e) ∧
    (∀ o, (instItem cfg w pp c n).res = .ok o → ∀ o' ∈ o.all, P c o'.cls o'.params)
  | c, .mk ty kv hasCh ch => by
    have IH := instItems_inv h (c.via (itemNestFwd cfg pp)) ch
    unfold instItem
    cases ty with
    | none => simp
    | some t =>
      simp only []
      cases hl : (if pp = true then cfg.regPP else cfg.regT).lookup t with
      | none => simp
      | some cls =>
        have hl' : (itemReg cfg pp).lookup t = some cls := hl
        simp only []
        by_cases hc : construct cls (siteParams cfg.item c cls kv) = true
        · simp only [hc, Bool.not_true, Bool.false_eq_true, if_false]
          have hobj := h.obj c t cls kv hl' hc
          by_cases hn : cls.nest = true
          · simp only [hn, if_true]
            by_cases hh : hasCh = true
            · simp only [hh, Bool.not_true, Bool.false_eq_true, if_false]
              by_cases hd : (pp && cfg.nestPPDirect) = true
              · simp only [hd, if_true]
                by_cases hch : ch.isEmpty = true
                · simp [hch, Obj.cls, Obj.params, hobj]
                · simp [hch]
              · simp only [hd, Bool.false_eq_true, if_false]
                have hd' : (pp && cfg.nestPPDirect) = false := by simpa using hd
                have hf : (if pp = true then cfg.fwdNestPP else cfg.fwdNestT) = itemNestFwd cfg pp := rfl
                rw [hf]
                constructor
                · intro e he
                  rcases Run.mem_bind_evs he with he | ⟨os, _, he⟩
                  · exact h.evVia hd' c e (IH.1 e he)
                  · simp at he
                · intro o ho o' ho'
                  obtain ⟨os, hos, ho2⟩ := Run.bind_res_ok ho
                  simp at ho2
                  subst ho2
                  simp at ho'
                  rcases ho' with rfl | ho'
                  · simpa [Obj.cls, Obj.params] using hobj
                  · exact h.objVia hd' c _ _ (IH.2 os hos o' ho')
            · simp [hh]
          · simp only [hn, Bool.false_eq_true, if_false]
            by_cases ht : cls.isTemplate = true
            · simp only [ht, if_true]
              constructor
              · intro e he
                rcases Run.mem_bind_evs he with he | ⟨_, _, he⟩
                · exact h.ev c t cls kv hl' ht hc e he
                · simp at he
              · intro o ho o' ho'
                obtain ⟨_, _, ho2⟩ := Run.bind_res_ok ho
                simp at ho2
                subst ho2
                simp at ho'
                subst ho'
                simpa [Obj.cls, Obj.params] using hobj
            · simp [ht, Obj.cls, Obj.params, hobj]
        · simp [hc]
theorem instItems_inv {cfg : Cfg} {w : World} {pp : Bool} {P : Caller → Cls → KV → Prop} {Q : Caller → Event → Prop}
    (h : ItemInv cfg w pp P Q) : (c : Caller) → (ns : List Node) →
    (∀ e ∈ (instItems cfg w pp c ns).evs, Q c e) ∧
    (∀ os, (instItems cfg w pp c ns).res = .ok os → ∀ o' ∈ Obj.allL os, P c o'.cls o'.params)
  | c, [] => by simp [instItems]
  | c, n :: ns => by
    have IH1 := instItem_inv h c n
    have IH2 := instItems_inv h c ns
    unfold instItems
    constructor
    · intro e he
      rcases Run.mem_bind_evs he with he | ⟨o, _, he⟩
      · exact IH1.1 e he
      · rcases Run.mem_bind_evs he with he | ⟨os, _, he⟩
        · exact IH2.1 e he
        · simp at he
    · intro os hos o' ho'
      obtain ⟨o, ho, h2⟩ := Run.bind_res_ok hos
      obtain ⟨os', hos', h3⟩ := Run.bind_res_ok h2
      simp at h3
      subst h3
      simp at ho'
      rcases ho' with ho' | ho'
      · exact IH1.2 o ho o' ho'
      · exact IH2.2 os' hos' o' ho'
end

def finSite (cfg : Cfg) (nested : Bool) : Site := if nested then cfg.finNested else cfg.finTop
def finNestFwd (cfg : Cfg) (nested : Bool) : Fwd := if nested then cfg.fwdNestF else cfg.fwdTopNestF

/-- what has to be shown locally for an invariant of `instFin` -/
structure FinInv (cfg : Cfg) (w : World) (P : Caller → Cls → KV → Prop) (Q : Caller → Event → Prop) : Prop where
  obj : ∀ nested c t cls kv, cfg.regF.lookup t = some cls →
    construct cls (siteParams (finSite cfg nested) c cls kv) = true → P c cls (siteParams (finSite cfg nested) c cls kv)
  objNest : ∀ c cls, P c cls []
  ev : ∀ nested c t cls kv, cfg.regF.lookup t = some cls → cls.isTemplate = true →
    construct cls (siteParams (finSite cfg nested) c cls kv) = true →
    ∀ e ∈ (tmplInit cfg w (siteParams (finSite cfg nested) c cls kv)).evs, Q c e
  objVia : ∀ nested c cls p, P (c.via (finNestFwd cfg nested)) cls p → P c cls p
  evVia : ∀ nested c e, Q (c.via (finNestFwd cfg nested)) e → Q c e

mutual
theorem instFin_inv {cfg : Cfg} {w : World} {P : Caller → Cls → KV → Prop} {Q : Caller → Event → Prop}
    (h : FinInv cfg w P Q) : (nested : Bool) → (c : Caller) → (n : Node) →
    (∀ e ∈ (instFin cfg w nested c n).evs, Q c e) ∧
    (∀ o, (instFin cfg w nested c n).res = .ok o → ∀ o' ∈ o.all, P c o'.cls o'.params)
  | nested, c, .mk ty kv hasCh ch => by
    have IH := instFins_inv h true (c.via (finNestFwd cfg nested)) ch
    unfold instFin
    cases ty with
    | none => simp
    | some t =>
      simp only []
      cases hl : cfg.regF.lookup t with
      | none => simp
      | some cls =>
        simp only []
        have hs : (if nested = true then cfg.finNested else cfg.finTop) = finSite cfg nested := rfl
        rw [hs]
        by_cases ht : cls.isTemplate = true
        · simp only [ht, if_true]
          by_cases hc : construct cls (siteParams (finSite cfg nested) c cls kv) = true
          · simp only [hc, Bool.not_true, Bool.false_eq_true, if_false]
            have hobj := h.obj nested c t cls kv hl hc
            constructor
            · intro e he
              rcases Run.mem_bind_evs he with he | ⟨_, _, he⟩
              · exact h.ev nested c t cls kv hl ht hc e he
              · simp at he
            · intro o ho o' ho'
              obtain ⟨_, _, ho2⟩ := Run.bind_res_ok ho
              simp at ho2
              subst ho2
              simp at ho'
              subst ho'
              simpa [Obj.cls, Obj.params] using hobj
          · simp [hc]
        · simp only [ht, Bool.false_eq_true, if_false]
          by_cases hn : cls.nest = true
          · simp only [hn, if_true]
            by_cases hh : hasCh = true
            · simp only [hh, Bool.not_true, Bool.false_eq_true, if_false]
              have hf : (if nested = true then cfg.fwdNestF else cfg.fwdTopNestF) = finNestFwd cfg nested := rfl
              rw [hf]
              constructor
              · intro e he
                rcases Run.mem_bind_evs he with he | ⟨os, _, he⟩
                · exact h.evVia nested c e (IH.1 e he)
                · simp at he
              · intro o ho o' ho'
                obtain ⟨os, hos, ho2⟩ := Run.bind_res_ok ho
                simp at ho2
                subst ho2
                simp at ho'
                rcases ho' with rfl | ho'
                · simpa [Obj.cls, Obj.params] using h.objNest c cls
                · exact h.objVia nested c _ _ (IH.2 os hos o' ho')
            · simp [hh]
          · simp only [hn, Bool.false_eq_true, if_false]
            by_cases hc : construct cls (siteParams (finSite cfg nested) c cls kv) = true
            · have hobj := h.obj nested c t cls kv hl hc
              simp [hc, Obj.cls, Obj.params, hobj]
            · simp [hc]
theorem instFins_inv {cfg : Cfg} {w : World} {P : Caller → Cls → KV → Prop} {Q : Caller → Event → Prop}
    (h : FinInv cfg w P Q) : (nested : Bool) → (c : Caller) → (ns : List Node) →
    (∀ e ∈ (instFins cfg w nested c ns).evs, Q c e) ∧
    (∀ os, (instFins cfg w nested c ns).res = .ok os → ∀ o' ∈ Obj.allL os, P c o'.cls o'.params)
  | nested, c, [] => by simp [instFins]
  | nested, c, n :: ns => by
    have IH1 := instFin_inv h nested c n
    have IH2 := instFins_inv h nested c ns
    unfold instFins
    constructor
    · intro e he
      rcases Run.mem_bind_evs he with he | ⟨o, _, he⟩
      · exact IH1.1 e he
      · rcases Run.mem_bind_evs he with he | ⟨os, _, he⟩
        · exact IH2.1 e he
        · simp at he
    · intro os hos o' ho'
      obtain ⟨o, ho, h2⟩ := Run.bind_res_ok hos
      obtain ⟨os', hos', h3⟩ := Run.bind_res_ok h2
      simp at h3
      subst h3
      simp at ho'
      rcases ho' with ho' | ho'
      · exact IH1.2 o ho o' ho'
      · exact IH2.2 os' hos' o' ho'
end

/-! ### use of external sources while converting -/

def Event.isExec : Event → Bool
  | .exec _ => true
  | _ => false

mutual
/-- every effect of a conversion comes from an external-source object whose gate was open, and is not a vars execution -/
theorem useItem_evs (cfg : Cfg) (w : World) : (o : Obj) → ∀ e ∈ (useItem cfg w o).evs,
    e.isExec = false ∧ ∃ o' ∈ o.all, externalAllowed cfg w o'.params = true
  | .mk t cls params ch => by
    have IH := useItems_evs cfg w ch
    intro e he
    unfold useItem at he
    by_cases hn : cls.nest = true
    · simp only [hn, if_true] at he
      obtain ⟨h1, o', ho', h2⟩ := IH e he
      exact ⟨h1, o', by simp [ho'], h2⟩
    · simp only [hn, Bool.false_eq_true, if_false] at he
      by_cases hx : cls.isExt = true
      · simp only [hx, if_true] at he
        by_cases ha : externalAllowed cfg w params = true
        · simp only [ha, Bool.not_true, Bool.false_eq_true, if_false] at he
          refine ⟨?_, .mk t cls params ch, by simp, by simpa [Obj.params] using ha⟩
          cases hs : cls.src with
          | none => simp [hs] at he
          | some kk =>
            obtain ⟨kind, key⟩ := kk
            simp only [hs] at he
            cases hp : List.lookup key params with
            | none => simp [hp] at he
            | some v =>
              cases v with
              | str a =>
                simp only [hp, effect] at he
                by_cases hf : w.fails a = true
                · simp [hf] at he; subst he; cases kind <;> rfl
                · simp [hf, Run.emit] at he; subst he; cases kind <;> rfl
              | _ => simp [hp] at he
        · simp [ha] at he
      · simp [hx] at he
theorem useItems_evs (cfg : Cfg) (w : World) : (os : List Obj) → ∀ e ∈ (useItems cfg w os).evs,
    e.isExec = false ∧ ∃ o' ∈ Obj.allL os, externalAllowed cfg w o'.params = true
  | [] => by simp [useItems]
  | o :: os => by
    have IH1 := useItem_evs cfg w o
    have IH2 := useItems_evs cfg w os
    intro e he
    unfold useItems at he
    rcases Run.mem_bind_evs he with he | ⟨_, _, he⟩
    · obtain ⟨h1, o', ho', h2⟩ := IH1 e he
      exact ⟨h1, o', by simp [ho'], h2⟩
    · obtain ⟨h1, o', ho', h2⟩ := IH2 e he
      exact ⟨h1, o', by simp [ho'], h2⟩
end

/-! ## 5. non-interference: keys a site strips do not matter -/

theorem kvStrip_kvStrip_of_subset (K strip : List String) (kv : KV) (h : ∀ k ∈ K, k ∈ strip) :
    kvStrip strip (kvStrip K kv) = kvStrip strip kv := by
  unfold kvStrip
  rw [List.filter_filter]
  apply List.filter_congr
  intro e _
  have : e.1 ∈ K → e.1 ∈ strip := h e.1
  by_cases hs : e.1 ∈ strip <;> by_cases hk : e.1 ∈ K <;> simp_all

theorem siteParams_scrub (s : Site) (c : Caller) (cls : Cls) (K : List String) (kv : KV) (h : ∀ k ∈ K, k ∈ s.strip) :
    siteParams s c cls (kvStrip K kv) = siteParams s c cls kv := by
  unfold siteParams
  rw [kvStrip_kvStrip_of_subset K s.strip kv h]

theorem scrubL_isEmpty (K : List String) (ch : List Node) : (Node.scrubL K ch).isEmpty = ch.isEmpty := by
  cases ch <;> simp [Node.scrubL]

mutual
theorem instItem_scrub {cfg : Cfg} {w : World} {pp : Bool} {K : List String} (hK : ∀ k ∈ K, k ∈ cfg.item.strip) :
    (c : Caller) → (n : Node) → instItem cfg w pp c (n.scrub K) = instItem cfg w pp c n
  | c, .mk ty kv hasCh ch => by
    have IH := fun c' => instItems_scrub (w := w) (pp := pp) hK c' ch
    have hsp : ∀ cls, siteParams cfg.item c cls (kvStrip K kv) = siteParams cfg.item c cls kv :=
      fun cls => siteParams_scrub _ _ _ _ _ hK
    simp only [Node.scrub, instItem, hsp, IH, scrubL_isEmpty]
theorem instItems_scrub {cfg : Cfg} {w : World} {pp : Bool} {K : List String} (hK : ∀ k ∈ K, k ∈ cfg.item.strip) :
    (c : Caller) → (ns : List Node) → instItems cfg w pp c (Node.scrubL K ns) = instItems cfg w pp c ns
  | c, [] => by simp [Node.scrubL]
  | c, n :: ns => by
    have IH1 := instItem_scrub (w := w) (pp := pp) hK c n
    have IH2 := instItems_scrub (w := w) (pp := pp) hK c ns
    simp only [Node.scrubL, instItems, IH1, IH2]
end

mutual
theorem instFin_scrub {cfg : Cfg} {w : World} {K : List String}
    (hT : ∀ k ∈ K, k ∈ cfg.finTop.strip) (hN : ∀ k ∈ K, k ∈ cfg.finNested.strip) :
    (nested : Bool) → (c : Caller) → (n : Node) → instFin cfg w nested c (n.scrub K) = instFin cfg w nested c n
  | nested, c, .mk ty kv hasCh ch => by
    have IH := fun c' => instFins_scrub (w := w) hT hN true c' ch
    have hsp : ∀ cls, siteParams (if nested = true then cfg.finNested else cfg.finTop) c cls (kvStrip K kv) =
        siteParams (if nested = true then cfg.finNested else cfg.finTop) c cls kv := by
      intro cls
      cases nested
      · exact siteParams_scrub _ _ _ _ _ hT
      · exact siteParams_scrub _ _ _ _ _ hN
    simp only [Node.scrub, instFin, hsp, IH]
theorem instFins_scrub {cfg : Cfg} {w : World} {K : List String}
    (hT : ∀ k ∈ K, k ∈ cfg.finTop.strip) (hN : ∀ k ∈ K, k ∈ cfg.finNested.strip) :
    (nested : Bool) → (c : Caller) → (ns : List Node) →
      instFins cfg w nested c (Node.scrubL K ns) = instFins cfg w nested c ns
  | nested, c, [] => by simp [Node.scrubL]
  | nested, c, n :: ns => by
    have IH1 := instFin_scrub (w := w) hT hN nested c n
    have IH2 := instFins_scrub (w := w) hT hN nested c ns
    simp only [Node.scrubL, instFins, IH1, IH2]
end

theorem kvStrip_kvSet_mem (K : List String) (kv : KV) (k : String) (v : Val) (h : k ∈ K) :
    kvStrip K (kvSet kv k v) = kvStrip K kv := by
  unfold kvStrip kvSet
  rw [List.filter_cons_of_neg (by simpa using h), List.filter_filter]
  apply List.filter_congr
  intro e _
  by_cases he : e.1 = k
  · simp [he, h]
  · have : (e.1 != k) = true := by simpa using he
    simp [this]

mutual
/-- writing a scrubbed key anywhere into the tree is invisible after scrubbing -/
theorem scrub_injectAt (K : List String) (k : String) (v : Val) (hk : k ∈ K) :
    (path : List Nat) → (n : Node) → (Node.injectAt k v path n).scrub K = n.scrub K
  | path, .mk ty kv hasCh ch => by
    cases path with
    | nil => simp only [Node.injectAt, Node.scrub, kvStrip_kvSet_mem K kv k v hk]
    | cons i rest =>
      have IH := scrubL_injectAtL K k v hk i rest ch
      simp only [Node.injectAt, Node.scrub, IH]
theorem scrubL_injectAtL (K : List String) (k : String) (v : Val) (hk : k ∈ K) :
    (i : Nat) → (rest : List Nat) → (ns : List Node) → Node.scrubL K (Node.injectAtL k v i rest ns) = Node.scrubL K ns
  | i, rest, [] => by simp [Node.injectAtL]
  | i, rest, n :: ns => by
    cases i with
    | zero =>
      have IH := scrub_injectAt K k v hk rest n
      simp only [Node.injectAtL, Node.scrubL, IH]
    | succ j =>
      have IH := scrubL_injectAtL K k v hk j rest ns
      simp only [Node.injectAtL, Node.scrubL, IH]
end

end SigmaVerif.Caps
