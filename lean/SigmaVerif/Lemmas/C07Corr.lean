import SigmaVerif.Lemmas.C07Rule
/-! # C07 lemmas: correlation rules — every section of `from_dict` returns; `_validate` raises
Sigma errors only; both loading modes as functions of one error list (the errors `from_dict`
collects followed by the error of the constructor's validation) -/
namespace SigmaVerif.Load

macro "sig_leaves" : tactic => `(tactic| ((repeat' split) <;> simp))

theorem forEach_sigOnly_mem {α : Type} {Q : SigmaCls → Prop} {f : α → R Unit} :
    ∀ l : List α, (∀ a ∈ l, SigOnly Q (f a)) → SigOnly Q (forEach f l)
  | [], _ => by simp [forEach]
  | a :: l, h => by
      simp only [forEach]
      exact (h a (by simp)).bind (fun _ => forEach_sigOnly_mem l (fun b hb => h b (by simp [hb])))

theorem corrTypeSection_total (v : Y) : Total (corrTypeSection v) := by
  cases v <;> simp [corrTypeSection, Y.isNone, pyUpper, pyCorrType]
  case str s => split <;> simp

theorem corrRulesSection_spec (v : Y) (typ : Option CorrType) :
    ∃ rs es, corrRulesSection v typ = .ok (rs, es) ∧ allStr rs = true := by
  cases v
  case null =>
    cases h : optTemporal typ
    · exact ⟨[], [.correlationRuleError], by simp [corrRulesSection, Y.isNone, h], rfl⟩
    · exact ⟨[], [], by simp [corrRulesSection, Y.isNone, h], rfl⟩
  case str s => exact ⟨_, _, rfl, rfl⟩
  case list l =>
    by_cases h : allStr l = true
    · exact ⟨l, [], by simp [corrRulesSection, Y.isNone, Y.isStr, Y.isList, pyIter, h], h⟩
    · exact ⟨[], [.correlationRuleError], by simp [corrRulesSection, Y.isNone, Y.isStr, Y.isList, pyIter, h], rfl⟩
  all_goals exact ⟨_, _, rfl, rfl⟩

theorem corrGenerateSection_total (v : Y) : Total (corrGenerateSection v) := by
  unfold corrGenerateSection; sig_leaves

theorem corrGroupBySection_total (v : Y) : Total (corrGroupBySection v) := by
  cases v <;> simp [corrGroupBySection, Y.isNone, Y.isStr, Y.isList, pyIter]

theorem timespanInit_sig (v : Y) : SigOnly (· = .timespanError) (timespanInit v) := by
  cases v <;> simp [timespanInit, pySliceInit, pyInt, pyIndexLast]
  case str s =>
    split
    · cases s.getLast? <;> simp [pyUnitLookup, pyLookupName]
      sig_leaves
    · simp

theorem corrTimespanSection_total (v : Y) : Total (corrTimespanSection v) := by
  unfold corrTimespanSection
  split
  · apply SigOnly.total_catch
    exact ((timespanInit_sig v).mono (by intro c hc; subst hc; decide)).bind (fun _ => by simp)
  · simp

theorem aliasItems_sig : ∀ m : Dict, SigOnly (· = .correlationRuleError) (aliasItems m)
  | [] => by simp [aliasItems]
  | (_, mapping) :: rest => by
      cases mapping <;> simp [aliasItems, Y.isMap, pyItems]
      exact aliasItems_sig rest

theorem corrAliasesSection_total (v : Y) : Total (corrAliasesSection v) := by
  cases v <;> simp [corrAliasesSection, Y.isNone, Y.isMap]
  case map m =>
    apply SigOnly.total_catch
    refine SigOnly.bind ?_ (fun _ => by simp)
    simp only [aliasesFromDict, pyItems, pure_eq, ok_bind]
    exact (aliasItems_sig m).mono (by intro c hc; subst hc; decide)

theorem pyInt_onlyPy (v : Y) : OnlyPy [.valueError, .typeError, .overflowError] (pyInt v) := by
  cases v <;> simp [pyInt, OnlyPy]
  all_goals (repeat' split) <;> simp

theorem pyGetItem_hasKey (m : Dict) (k : Str) (h : hasKey m k = true) : ∃ v, pyGetItem (.map m) k = .ok v := by
  simp only [hasKey, Option.isSome_iff_exists] at h
  obtain ⟨v, hv⟩ := h
  exact ⟨v, by simp [pyGetItem, hv]⟩

theorem condCount_sig (m : Dict) (op : Str) (h : hasKey m op = true) :
    SigOnly (· = .correlationConditionError)
      (catchPy [.valueError, .typeError, .overflowError] (do let c ← pyGetItem (.map m) op; pyInt c)
        (raiseS .correlationConditionError)) := by
  obtain ⟨v, hv⟩ := pyGetItem_hasKey m op h
  simp only [hv, ok_bind]
  have := pyInt_onlyPy v
  cases hp : pyInt v with
  | ok a => simp
  | error e =>
    cases e with
    | sigma c => simp
    | py c =>
      have hc := this c hp
      simp at hc
      rcases hc with rfl | rfl | rfl <;> simp

theorem condPercentile_sig (m : Dict) :
    SigOnly (· = .correlationConditionError)
      (catchPy [.valueError, .typeError, .overflowError]
        (catchPy [.keyError] (do let p ← pyGetItem (.map m) (S "percentile"); pyInt p) (pure ()))
        (raiseS .correlationConditionError)) := by
  cases hl : lookup m (S "percentile") with
  | none => simp [pyGetItem, hl]
  | some v =>
    simp only [pyGetItem, hl, pure_eq, ok_bind]
    have := pyInt_onlyPy v
    cases hp : pyInt v with
    | ok a => simp
    | error e =>
      cases e with
      | sigma c => simp
      | py c =>
        have hc := this c hp
        simp at hc
        rcases hc with rfl | rfl | rfl <;> simp

theorem condFromDict_sig (m : Dict) : SigOnly (· = .correlationConditionError) (condFromDict (.map m)) := by
  unfold condFromDict
  simp only [pyKeys, pure_eq, ok_bind]
  split
  · simp
  · split
    · simp
    · refine SigOnly.bind ?_ (fun _ => ?_)
      · apply forEach_sigOnly_mem
        intro op hop
        have hk : hasKey m op = true := by
          have := (List.mem_filter.mp hop).2
          rw [← keys_any]; exact this
        exact condCount_sig m op hk
      · refine SigOnly.bind ?_ (fun fr => ?_)
        · cases hl : lookup m (S "field") <;> simp [pyGetItem, hl]
        · exact (condPercentile_sig m).bind (fun _ => by simp)

theorem extCondInit_sig (s : Str) : SigOnly (· = .correlationConditionError) (extCondInit (.str s)) := by
  simp only [extCondInit]; split <;> simp

theorem corrConditionSection_total (v : Y) (typ : Option CorrType) : Total (corrConditionSection v typ) := by
  cases v <;> simp [corrConditionSection, Y.isNone, Y.isMap, Y.isStr]
  case null => split <;> simp
  case map m =>
    apply SigOnly.total_catch
    exact ((condFromDict_sig m).mono (by intro c hc; subst hc; decide)).bind (fun _ => by simp)
  case str s =>
    split
    · simp
    · apply SigOnly.total_catch
      exact ((extCondInit_sig s).mono (by intro c hc; subst hc; decide)).bind (fun _ => by simp)

/-- the sections return, and the rule references handed to the constructor are strings -/
theorem corrSections_spec (m : Dict) :
    ∃ typ rules cond errs, corrSections m = .ok (typ, rules, cond, errs) ∧ allStr rules = true := by
  unfold corrSections
  simp only []
  generalize hcm : (if ((lookup m (S "correlation")).getD (Y.map [])).isMap = true
      then ((lookup m (S "correlation")).getD (Y.map []), ([] : List SigmaCls))
      else (Y.map [], [SigmaCls.correlationRuleError])) = p
  have hmap : ∃ cm, p.1 = .map cm := by
    subst hcm
    split
    · rename_i h
      cases hc : (lookup m (S "correlation")).getD (Y.map []) <;> simp [hc, Y.isMap] at h ⊢
    · exact ⟨[], rfl⟩
  obtain ⟨cm, e0⟩ := p
  obtain ⟨cmm, hcmm⟩ := hmap
  simp only at hcmm
  subst hcmm
  simp only [pyGet, pure_eq, ok_bind]
  obtain ⟨t, ht⟩ := corrTypeSection_total (dget cmm (S "type"))
  obtain ⟨rs, es, hr, hrs⟩ := corrRulesSection_spec (dget cmm (S "rules")) t.1
  obtain ⟨g, hg⟩ := corrGenerateSection_total (dget cmm (S "generate"))
  obtain ⟨gb, hgb⟩ := corrGroupBySection_total (dget cmm (S "group-by"))
  obtain ⟨ts, hts⟩ := corrTimespanSection_total (dget cmm (S "timespan"))
  obtain ⟨al, hal⟩ := corrAliasesSection_total (dget cmm (S "aliases"))
  obtain ⟨cd, hcd⟩ := corrConditionSection_total (dget cmm (S "condition")) t.1
  obtain ⟨t1, t2⟩ := t
  obtain ⟨c1, c2⟩ := cd
  simp only at hr hcd
  simp only [ht, ok_bind, hr, hg, hgb, hts, hal, hcd]
  exact ⟨_, _, _, _, rfl, hrs⟩

/-! ## `_validate` and `__post_init__` -/
theorem forEach_pyHash_str : ∀ rs : List Y, allStr rs = true → forEach pyHash rs = .ok ()
  | [], _ => rfl
  | r :: rs, h => by
      have h' : r.isStr = true ∧ allStr rs = true := by simpa [allStr] using h
      cases r <;> simp [Y.isStr] at h'
      simp [forEach, pyHash, forEach_pyHash_str rs h']

theorem pyJoin_str (xs : List Y) (h : allStr xs = true) : pyJoin xs = .ok () := by
  simp [pyJoin, h]

theorem allStr_filter (q : Y → Bool) (l : List Y) (h : allStr l = true) : allStr (l.filter q) = true := by
  simp only [allStr, List.all_eq_true] at *
  intro x hx
  exact h x (List.mem_filter.mp hx).1

/-- the constructor's cross-field validation raises Sigma errors only -/
theorem corrValidate_noPy (typ : Option CorrType) (rules : Option (List Y)) (cond : CorrCond)
    (hr : ∀ rs, rules = some rs → allStr rs = true) : NoPy (corrValidate typ rules cond) := by
  unfold corrValidate
  split
  · simp
  · split
    · simp
    · refine OnlyPy.bind ?_ (fun _ _ => ?_)
      · split
        · rename_i refs rs _ _
          have hs := hr rs rfl
          rw [forEach_pyHash_str rs hs]
          simp only [ok_bind]
          split
          · rw [pyJoin_str _ (allStr_filter _ rs hs)]; simp
          · split <;> simp
        · simp
      · (repeat' split) <;> simp

end SigmaVerif.Load

namespace SigmaVerif.Load

/-- type, rule references, condition and errors the sections of `from_dict` compute -/
def corrParts (d : Y) : Option CorrType × List Y × CorrCond × List SigmaCls :=
  okVal (corrSections (docMap d)) (none, [], placeholderCond, [])

/-- the collected error list of a correlation rule document -/
def corrErrs (d : Y) : List SigmaCls := docErrs d ++ commonErrs (docMap d) ++ (corrParts d).2.2.2

/-- the cross-field validation (`_validate`) on the values `from_dict` hands to the constructor -/
def corrPost (d : Y) : R Unit :=
  let p := corrParts d
  corrValidate p.1 (if p.2.1.isEmpty && p.2.2.1.isExtended then none else some p.2.1) p.2.2.1

/-- what the validation contributes to the error list: its Sigma error, if it raises one -/
def sigmaErrOf (x : R Unit) : List SigmaCls := match x with | .error (.sigma c) => [c] | _ => []

/-- the error of the constructor's validation of document `d` (at most one) -/
def postErrs (d : Y) : List SigmaCls := sigmaErrOf (corrPost d)

/-- all errors of a correlation rule document: the ones `from_dict` collects, then the constructor's -/
def corrAllErrs (d : Y) : List SigmaCls := corrErrs d ++ postErrs d

theorem corrSections_eq (d : Y) : corrSections (docMap d) = .ok (corrParts d) := by
  obtain ⟨t, r, c, e, h, _⟩ := corrSections_spec (docMap d)
  simp [corrParts, h]

theorem corrParts_rules_str (d : Y) : allStr (corrParts d).2.1 = true := by
  obtain ⟨t, r, c, e, h, hr⟩ := corrSections_spec (docMap d)
  simp [corrParts, h, hr]

theorem corrPost_noPy (d : Y) : NoPy (corrPost d) := by
  unfold corrPost
  apply corrValidate_noPy
  intro rs hrs
  split at hrs
  · cases hrs
  · cases hrs; exact corrParts_rules_str d

/-- collecting mode: the constructor returns the errors it received plus the validation error -/
theorem corrPostInit_collect (typ : Option CorrType) (rules : Option (List Y)) (cond : CorrCond) (errs : List SigmaCls)
    (h : NoPy (corrValidate typ rules cond)) :
    corrPostInit true typ rules cond errs = .ok (errs ++ sigmaErrOf (corrValidate typ rules cond)) := by
  unfold corrPostInit
  cases hv : corrValidate typ rules cond with
  | ok u => simp [sigmaErrOf]
  | error e =>
    cases e with
    | sigma c => simp [sigmaErrOf]
    | py c => exact absurd (h c hv) (by simp)

/-- strict mode: the validation error is raised -/
theorem corrPostInit_strict (typ : Option CorrType) (rules : Option (List Y)) (cond : CorrCond) (errs : List SigmaCls) :
    corrPostInit false typ rules cond errs = (corrValidate typ rules cond >>= fun _ => pure errs) := by
  unfold corrPostInit
  cases hv : corrValidate typ rules cond with
  | ok u => simp
  | error e => cases e <;> simp

theorem corr_collect_eq (d : Y) : corrFromDict true d = .ok (corrAllErrs d) := by
  have hs := corrSections_eq d
  have hn : NoPy (corrPost d) := corrPost_noPy d
  have hp := fun errs => corrPostInit_collect (corrParts d).1
    (if (corrParts d).2.1.isEmpty && (corrParts d).2.2.1.isExtended then none else some (corrParts d).2.1) (corrParts d).2.2.1 errs hn
  cases d <;> simp only [docMap] at hs <;>
    simp only [corrFromDict, documentAsMap, commonParams_true, hs, pure_eq, ok_bind, tailRaise_true, hp, corrAllErrs, postErrs,
      corrPost, corrErrs, docErrs, docMap, Bool.not_true, Bool.false_eq_true, if_false]

theorem corr_strict_eq (d : Y) : corrFromDict false d = strictOf (corrAllErrs d) := by
  have hs := corrSections_eq d
  have hn : NoPy (corrPost d) := corrPost_noPy d
  cases d
  case map m =>
    simp only [docMap] at hs
    simp only [corrFromDict, documentAsMap, pure_eq, ok_bind, commonParams_false, corrAllErrs, corrErrs, docErrs, docMap,
      postErrs, List.nil_append]
    cases hc : commonErrs m with
    | nil =>
      simp only [strictOf, ok_bind, hs, List.nil_append, tailRaise_false]
      cases he : (corrParts (Y.map m)).2.2.2 with
      | nil =>
        simp only [ok_bind, corrPostInit_strict, List.nil_append]
        change (corrPost (Y.map m) >>= fun _ => pure []) = _
        cases hv : corrPost (Y.map m) with
        | ok u => simp [sigmaErrOf]
        | error e =>
          cases e with
          | sigma c => simp [sigmaErrOf]
          | py c => exact absurd (hn c hv) (by simp)
      | cons e es => simp
    | cons e es => simp [strictOf]
  all_goals simp [corrFromDict, documentAsMap, corrAllErrs, corrErrs, docErrs, strictOf]

end SigmaVerif.Load
