import SigmaVerif.Model.Cond
import SigmaVerif.Spec.Cond
/-!
# Helper lemmas for the C02 property theorems

Layers:
1. strings / terminals (`skipWs`, `stripPrefix`, `keyword`, `word`, …)
2. what `Grammar.wf` and `wfName` give (`WF`, `WFName`)
3. leaf parsers: a name, a selector, in front of an admissible rest
4. `many` / `level` on a rendered chain (`many_spine`, `level_good`)
5. the canonical printer: spines, the induction on the size bound, `parse_pp`
6. `starMatch = globStar`, `resolve`, the parser builds non-empty nodes
7. free layout: the relation `Spells`, `parse_spells_aux`, `pp_spells`
-/
namespace SigmaVerif.Lemmas.CondParse
open SigmaVerif.Cond SigmaVerif.CondSpec

/-! ## 1. Strings and terminals -/

theorem isWs_iff (c : Char) : isWs c = true ↔ c ∈ wsChars := by
  simp [isWs]

theorem skipWs_ws_append (w s : Str) (hw : ∀ c ∈ w, isWs c = true) :
    skipWs (w ++ s) = skipWs s := by
  induction w with
  | nil => rfl
  | cons c w ih =>
    have hc := hw c (by simp)
    simp only [List.cons_append, skipWs, hc, if_true]
    exact ih (fun c hc => hw c (by simp [hc]))

theorem skipWs_cons (c : Char) (s : Str) (h : isWs c = false) : skipWs (c :: s) = c :: s := by
  simp [skipWs, h]

/-- a string that starts with a non-blank is not touched -/
theorem skipWs_append_of_nonws (s t : Str) (hs : s ≠ []) (h : ∀ c ∈ s, isWs c = false) :
    skipWs (s ++ t) = s ++ t := by
  cases s with
  | nil => exact absurd rfl hs
  | cons c s => exact skipWs_cons c _ (h c (by simp))

theorem stripPrefix_eq_some (k s r : Str) : stripPrefix k s = some r ↔ s = k ++ r := by
  induction k generalizing s with
  | nil => simp [stripPrefix, eq_comm]
  | cons p ps ih =>
    cases s with
    | nil => simp [stripPrefix]
    | cons c s =>
      by_cases hpc : p = c
      · subst hpc; simp [stripPrefix, ih]
      · have : ¬ c = p := fun h => hpc h.symm
        simp [stripPrefix, hpc, this]

theorem stripPrefix_append (k s : Str) : stripPrefix k (k ++ s) = some s :=
  (stripPrefix_eq_some k _ s).2 rfl

theorem literal_ws (k w s : Str) (hw : ∀ c ∈ w, isWs c = true) :
    literal k (w ++ s) = literal k s := by
  simp only [literal, skipWs_ws_append w s hw]

theorem keyword_ws (cs : List Char) (k w s : Str) (hw : ∀ c ∈ w, isWs c = true) :
    keyword cs k (w ++ s) = keyword cs k s := by
  simp only [keyword, skipWs_ws_append w s hw]

theorem word_ws (cs : List Char) (w s : Str) (hw : ∀ c ∈ w, isWs c = true) :
    word cs (w ++ s) = word cs s := by
  simp only [word, skipWs_ws_append w s hw]

theorem opTok_ws (g : Grammar) (k w s : Str) (hw : ∀ c ∈ w, isWs c = true) :
    opTok g k (w ++ s) = opTok g k s := by
  simp only [opTok, keyword_ws _ _ w s hw, literal_ws _ w s hw]

theorem quantifier_ws (g : Grammar) (qs : List Str) (w s : Str) (hw : ∀ c ∈ w, isWs c = true) :
    quantifier g qs (w ++ s) = quantifier g qs s := by
  induction qs with
  | nil => rfl
  | cons q qs ih => simp only [quantifier, keyword_ws _ _ w s hw, ih]

theorem selector_ws (g : Grammar) (w s : Str) (hw : ∀ c ∈ w, isWs c = true) :
    selector g (w ++ s) = selector g s := by
  simp only [selector, quantifier_ws g _ w s hw]

theorem identifier_ws (g : Grammar) (w s : Str) (hw : ∀ c ∈ w, isWs c = true) :
    identifier g (w ++ s) = identifier g s := by
  simp only [identifier, word_ws _ w s hw]

theorem pNot_ws (g : Grammar) (f : Nat) (w s : Str) (hw : ∀ c ∈ w, isWs c = true) :
    pNot g f (w ++ s) = pNot g f s := by
  cases f with
  | zero => rfl
  | succ f =>
    simp only [pNot, opTok_ws g _ w s hw, selector_ws g w s hw, identifier_ws g w s hw,
      literal_ws _ w s hw]

theorem level_ws (op : Str → Option Str) (mk : List PT → PT) (sub : Str → Option (PT × Str))
    (w s : Str) (h : sub (w ++ s) = sub s) : level op mk sub (w ++ s) = level op mk sub s := by
  simp only [level, h]

theorem pAnd_ws (g : Grammar) (f : Nat) (w s : Str) (hw : ∀ c ∈ w, isWs c = true) :
    pAnd g f (w ++ s) = pAnd g f s :=
  level_ws _ _ _ w s (pNot_ws g f w s hw)

/-- a keyword in front of a delimiter is read -/
theorem keyword_append (cs : List Char) (k s : Str) (hk : k ≠ []) (hkw : ∀ c ∈ k, isWs c = false)
    (h : notFollowedBy cs s = true) : keyword cs k (k ++ s) = some s := by
  simp only [keyword, skipWs_append_of_nonws k s hk hkw, stripPrefix_append, h, if_true]

theorem keyword_none_of_strip (cs : List Char) (k s : Str)
    (h : stripPrefix k (skipWs s) = none) : keyword cs k s = none := by
  simp only [keyword, h]

theorem literal_append (k s : Str) (hk : k ≠ []) (hkw : ∀ c ∈ k, isWs c = false) :
    literal k (k ++ s) = some s := by
  simp only [literal, skipWs_append_of_nonws k s hk hkw, stripPrefix_append]

theorem spanChars_append (cs : List Char) (w rest : Str) (hw : ∀ c ∈ w, c ∈ cs)
    (hr : notFollowedBy cs rest = true) : spanChars cs (w ++ rest) = (w, rest) := by
  induction w with
  | nil =>
    cases rest with
    | nil => rfl
    | cons c r =>
      have : c ∉ cs := by simpa [notFollowedBy] using hr
      simp [spanChars, this]
  | cons c w ih =>
    have hc : c ∈ cs := hw c (by simp)
    have ih' := ih (fun c hc => hw c (by simp [hc]))
    simp [spanChars, hc, ih']

/-- maximal munch reads exactly `w` when what follows is not a word character -/
theorem word_append (cs : List Char) (w rest : Str) (hne : w ≠ []) (hw : ∀ c ∈ w, c ∈ cs)
    (hws : ∀ c ∈ w, isWs c = false) (hr : notFollowedBy cs rest = true) :
    word cs (w ++ rest) = some (w, rest) := by
  cases w with
  | nil => exact absurd rfl hne
  | cons c w =>
    simp only [word, skipWs_append_of_nonws (c :: w) rest hne hws,
      spanChars_append cs (c :: w) rest hw hr]

/-- where whitespace or a closing parenthesis (or the end) follows -/
def delim : Str → Bool
  | [] => true
  | c :: _ => isWs c || c == ')'

theorem notFollowedBy_of_delim (cs : List Char) (rest : Str) (hd : delim rest = true)
    (hcs : ∀ c, (isWs c = true ∨ c = ')') → c ∉ cs) : notFollowedBy cs rest = true := by
  cases rest with
  | nil => rfl
  | cons c r =>
    have : isWs c = true ∨ c = ')' := by simpa [delim] using hd
    simpa [notFollowedBy] using hcs c this

/-- a keyword `k` (letters only) matched on `n ++ rest`, where `rest` starts with a delimiter:
`k` is a prefix of `n` -/
theorem stripPrefix_name (k n rest r : Str) (hd : delim rest = true)
    (hk : ∀ c ∈ k, ¬ (isWs c = true ∨ c = ')'))
    (h : stripPrefix k (n ++ rest) = some r) : ∃ n', n = k ++ n' ∧ r = n' ++ rest := by
  rw [stripPrefix_eq_some, List.append_eq_append_iff] at h
  rcases h with ⟨a', hk', hrest⟩ | ⟨c', hn, hr⟩
  · cases a' with
    | nil => exact ⟨[], by simpa using hk'.symm, by simpa using hrest.symm⟩
    | cons c a' =>
      exfalso
      have hc : c ∈ k := by rw [hk']; simp
      apply hk c hc
      rw [hrest] at hd
      simpa [delim] using hd
  · exact ⟨c', hn, hr⟩


/-! ## 2. What well-formedness gives -/

structure WF (g : Grammar) : Prop where
  opKw : g.opKeyword = true
  identSub : ∀ c ∈ g.identChars, c ∈ g.opKwChars
  ofQuant : 'o' ∈ g.quantKwChars
  sepIdent : ∀ c, (isWs c = true ∨ c = '(' ∨ c = ')') → c ∉ g.identChars
  sepPat : ∀ c, (isWs c = true ∨ c = '(' ∨ c = ')') → c ∉ g.patChars
  sepOp : ∀ c, (isWs c = true ∨ c = '(' ∨ c = ')') → c ∉ g.opKwChars
  sepQuant : ∀ c, (isWs c = true ∨ c = '(' ∨ c = ')') → c ∉ g.quantKwChars
  kwNot : g.kwNot = ['n', 'o', 't']
  kwAnd : g.kwAnd = ['a', 'n', 'd']
  kwOr : g.kwOr = ['o', 'r']
  kwOf : g.kwOf = ['o', 'f']
  quants : g.quants = [['1'], ['a', 'n', 'y'], ['a', 'l', 'l']]

theorem WF.of {g : Grammar} (hg : g.wf = true) : WF g := by
  simp [Grammar.wf, wsChars] at hg
  obtain ⟨⟨⟨⟨⟨⟨⟨⟨h1, h2⟩, h3⟩, hsp, htab, hnl, hcr, hlp, hrp⟩, k1⟩, k2⟩, k3⟩, k4⟩, k5⟩ := hg
  refine { opKw := h1, identSub := h2, ofQuant := h3, kwNot := k1, kwAnd := k2, kwOr := k3,
           kwOf := k4, quants := k5, sepIdent := ?_, sepPat := ?_, sepOp := ?_, sepQuant := ?_ }
  all_goals
    intro c hc
    simp only [isWs_iff, wsChars, List.mem_cons, List.not_mem_nil, or_false] at hc
    rcases hc with (rfl | rfl | rfl | rfl) | rfl | rfl <;> simp_all

structure WFName (g : Grammar) (n : Str) : Prop where
  ne : n ≠ []
  chars : ∀ c ∈ n, c ∈ g.identChars
  notNot : n ≠ g.kwNot
  notAnd : n ≠ g.kwAnd
  notOr : n ≠ g.kwOr

/-- the pinned grammar is well formed (checked once; the examples reuse it) -/
theorem stdGrammar_wf : stdGrammar.wf = true := by decide

theorem WFName.of {g : Grammar} {n : Str} (h : wfName g n = true) : WFName g n := by
  simp [wfName] at h
  obtain ⟨⟨⟨⟨h1, h2⟩, h3⟩, h4⟩, h5⟩ := h
  exact ⟨h1, h2, h3, h4, h5⟩

theorem WFName.nonws {g : Grammar} {n : Str} (hg : WF g) (hn : WFName g n) :
    ∀ c ∈ n, isWs c = false := by
  intro c hc
  cases h : isWs c with
  | false => rfl
  | true => exact absurd (hn.chars c hc) (hg.sepIdent c (Or.inl h))

theorem wfPat_iff (g : Grammar) (p : Str) :
    wfPat g p = true ↔ p ≠ [] ∧ ∀ c ∈ p, c ∈ g.patChars := by
  simp [wfPat]

theorem pat_nonws {g : Grammar} {p : Str} (hg : WF g) (hp : ∀ c ∈ p, c ∈ g.patChars) :
    ∀ c ∈ p, isWs c = false := by
  intro c hc
  cases h : isWs c with
  | false => rfl
  | true => exact absurd (hp c hc) (hg.sepPat c (Or.inl h))

/-! ## 3. Leaves: a name / a selector in front of an admissible rest -/

/-- what may follow an operand: a delimiter, and the next word is not `of` -/
def Stop0 (rest : Str) : Prop :=
  delim rest = true ∧ stripPrefix ['o', 'f'] (skipWs rest) = none
/-- … and the next word is not `and` -/
def StopAnd (rest : Str) : Prop := Stop0 rest ∧ stripPrefix ['a', 'n', 'd'] (skipWs rest) = none
/-- … and not `or` either -/
def StopOr (rest : Str) : Prop := StopAnd rest ∧ stripPrefix ['o', 'r'] (skipWs rest) = none

theorem delim_sep {g : Grammar} (hg : WF g) (rest : Str) (hd : delim rest = true) :
    notFollowedBy g.identChars rest = true ∧ notFollowedBy g.patChars rest = true ∧
    notFollowedBy g.opKwChars rest = true ∧ notFollowedBy g.quantKwChars rest = true := by
  have conv : ∀ c, (isWs c = true ∨ c = ')') → (isWs c = true ∨ c = '(' ∨ c = ')') := by
    intro c h; rcases h with h | h
    · exact Or.inl h
    · exact Or.inr (Or.inr h)
  exact ⟨notFollowedBy_of_delim _ _ hd (fun c h => hg.sepIdent c (conv c h)),
    notFollowedBy_of_delim _ _ hd (fun c h => hg.sepPat c (conv c h)),
    notFollowedBy_of_delim _ _ hd (fun c h => hg.sepOp c (conv c h)),
    notFollowedBy_of_delim _ _ hd (fun c h => hg.sepQuant c (conv c h))⟩

/-- an operator keyword is not read off the front of a longer (or different) name -/
theorem keyword_name_none {g : Grammar} {n : Str} (hg : WF g) (hn : WFName g n) (k : Str)
    (hk : ∀ c ∈ k, ¬ (isWs c = true ∨ c = ')')) (hnk : n ≠ k) (rest : Str)
    (hd : delim rest = true) : keyword g.opKwChars k (n ++ rest) = none := by
  simp only [keyword, skipWs_append_of_nonws n rest hn.ne (hn.nonws hg)]
  cases h : stripPrefix k (n ++ rest) with
  | none => rfl
  | some r =>
    obtain ⟨n', hn', hr⟩ := stripPrefix_name k n rest r hd hk h
    cases n' with
    | nil => exact absurd (by simpa using hn') hnk
    | cons c n' =>
      have hc : c ∈ g.opKwChars := hg.identSub c (hn.chars c (by rw [hn']; simp))
      simp [hr, notFollowedBy, hc]

/-- a quantifier keyword read off the front of a name is never followed by `of` -/
theorem quant_name_no_of {g : Grammar} {n : Str} (hg : WF g) (hn : WFName g n) (q : Str)
    (hq : ∀ c ∈ q, ¬ (isWs c = true ∨ c = ')')) (rest : Str) (hs : Stop0 rest) (r : Str)
    (h : keyword g.quantKwChars q (n ++ rest) = some r) :
    keyword g.quantKwChars ['o', 'f'] r = none := by
  simp only [keyword, skipWs_append_of_nonws n rest hn.ne (hn.nonws hg)] at h
  cases hsp : stripPrefix q (n ++ rest) with
  | none => simp [hsp] at h
  | some r' =>
    simp only [hsp] at h
    by_cases hnf : notFollowedBy g.quantKwChars r' = true
    · simp only [hnf, if_true, Option.some.injEq] at h
      subst h
      obtain ⟨n', hn', hr⟩ := stripPrefix_name q n rest r' hs.1 hq hsp
      cases n' with
      | nil =>
        apply keyword_none_of_strip
        simpa [hr] using hs.2
      | cons c n' =>
        have hcn : c ∈ n := by rw [hn']; simp
        have hcq : c ∉ g.quantKwChars := by simpa [hr, notFollowedBy] using hnf
        have hco : c ≠ 'o' := fun h => hcq (h ▸ hg.ofQuant)
        apply keyword_none_of_strip
        rw [hr, List.cons_append, skipWs_cons c _ (hn.nonws hg c hcn)]
        have : ¬ 'o' = c := fun h => hco h.symm
        simp [stripPrefix, this]
    · simp [hnf] at h

theorem quantifier_some (g : Grammar) (qs : List Str) (s q r : Str)
    (h : quantifier g qs s = some (q, r)) : q ∈ qs ∧ keyword g.quantKwChars q s = some r := by
  induction qs with
  | nil => simp [quantifier] at h
  | cons q' qs ih =>
    simp only [quantifier] at h
    cases hk : keyword g.quantKwChars q' s with
    | none =>
      simp only [hk] at h
      exact ⟨List.mem_cons_of_mem _ (ih h).1, (ih h).2⟩
    | some r' =>
      simp only [hk, Option.some.injEq, Prod.mk.injEq] at h
      obtain ⟨rfl, rfl⟩ := h
      exact ⟨List.mem_cons_self, hk⟩

theorem selector_none_of (g : Grammar) (s : Str)
    (h : ∀ q ∈ g.quants, ∀ r, keyword g.quantKwChars q s = some r →
      keyword g.quantKwChars g.kwOf r = none) : selector g s = none := by
  simp only [selector]
  cases hq : quantifier g g.quants s with
  | none => rfl
  | some qr =>
    obtain ⟨q, r⟩ := qr
    have := quantifier_some g _ s q r hq
    simp [h q this.1 r this.2]

theorem quants_letters {g : Grammar} (hg : WF g) :
    ∀ q ∈ g.quants, ∀ c ∈ q, ¬ (isWs c = true ∨ c = ')') := by
  rw [hg.quants]
  intro q hq c hc
  simp only [List.mem_cons, List.not_mem_nil, or_false] at hq
  rcases hq with rfl | rfl | rfl <;>
    simp only [List.mem_cons, List.not_mem_nil, or_false] at hc <;>
    rcases hc with rfl | rfl | rfl <;> decide

/-- a name is read whole by the unary level -/
theorem pNot_name {g : Grammar} {n : Str} (hg : WF g) (hn : WFName g n) (f : Nat) (rest : Str)
    (hs : Stop0 rest) : pNot g (f + 1) (n ++ rest) = some (.id n, rest) := by
  have h1 : opTok g g.kwNot (n ++ rest) = none := by
    simp only [opTok, hg.opKw, if_true]
    refine keyword_name_none hg hn _ ?_ hn.notNot rest hs.1
    rw [hg.kwNot]
    intro c hc
    simp only [List.mem_cons, List.not_mem_nil, or_false] at hc
    rcases hc with rfl | rfl | rfl <;> decide
  have h2 : selector g (n ++ rest) = none := by
    apply selector_none_of
    intro q hq r hr
    rw [hg.kwOf]
    exact quant_name_no_of hg hn q (quants_letters hg q hq) rest hs r hr
  have h3 : identifier g (n ++ rest) = some (.id n, rest) := by
    simp only [identifier,
      word_append g.identChars n rest hn.ne hn.chars (hn.nonws hg) (delim_sep hg rest hs.1).1]
  simp only [pNot, h1, h2, h3]


theorem text_one : QW.text .one = ['1'] := by decide
theorem text_any : QW.text .any = ['a', 'n', 'y'] := by decide
theorem text_all : QW.text .all = ['a', 'l', 'l'] := by decide

theorem quantOf_text (q : QW) : quantOf q.text = some q.quant := by cases q <;> decide

theorem text_ne (q : QW) : q.text ≠ [] := by cases q <;> decide

theorem notFollowedBy_ws_append (cs : List Char) (w s : Str) (hw : w ≠ [])
    (hws : ∀ c ∈ w, isWs c = true) (hcs : ∀ c, isWs c = true → c ∉ cs) :
    notFollowedBy cs (w ++ s) = true := by
  cases w with
  | nil => exact absurd rfl hw
  | cons c w => simpa [notFollowedBy] using hcs c (hws c (by simp))

theorem quantifier_text {g : Grammar} (hg : WF g) (q : QW) (X : Str)
    (hX : notFollowedBy g.quantKwChars X = true) :
    quantifier g g.quants (q.text ++ X) = some (q.text, X) := by
  rw [hg.quants]
  cases q with
  | one =>
    have h := keyword_append g.quantKwChars ['1'] X (by simp) (by decide) hX
    simp only [text_one, quantifier, h]
  | any =>
    have h0 : keyword g.quantKwChars ['1'] (['a', 'n', 'y'] ++ X) = none :=
      keyword_none_of_strip _ _ _ (by simp [skipWs, isWs, wsChars, stripPrefix])
    have h := keyword_append g.quantKwChars ['a', 'n', 'y'] X (by simp) (by decide) hX
    simp only [text_any, quantifier, h0, h]
  | all =>
    have h0 : keyword g.quantKwChars ['1'] (['a', 'l', 'l'] ++ X) = none :=
      keyword_none_of_strip _ _ _ (by simp [skipWs, isWs, wsChars, stripPrefix])
    have h1 : keyword g.quantKwChars ['a', 'n', 'y'] (['a', 'l', 'l'] ++ X) = none :=
      keyword_none_of_strip _ _ _ (by simp [skipWs, isWs, wsChars, stripPrefix])
    have h := keyword_append g.quantKwChars ['a', 'l', 'l'] X (by simp) (by decide) hX
    simp only [text_all, quantifier, h0, h1, h]

/-- `<quantifier> of <pattern>` with any non-empty blanks in between is read as a selector -/
theorem selector_spelled {g : Grammar} (hg : WF g) (q : QW) (w1 w2 pat rest : Str)
    (hw1 : w1 ≠ []) (hw1' : ∀ c ∈ w1, isWs c = true)
    (hw2 : w2 ≠ []) (hw2' : ∀ c ∈ w2, isWs c = true)
    (hp : wfPat g pat = true) (hd : delim rest = true) :
    selector g (q.text ++ (w1 ++ (['o', 'f'] ++ (w2 ++ (pat ++ rest))))) =
      some (.sel q.quant pat, rest) := by
  obtain ⟨hpne, hpc⟩ := (wfPat_iff g pat).1 hp
  have hq := quantifier_text hg q (w1 ++ (['o', 'f'] ++ (w2 ++ (pat ++ rest))))
    (notFollowedBy_ws_append _ _ _ hw1 hw1' (fun c hc => hg.sepQuant c (Or.inl hc)))
  have hk : keyword g.quantKwChars ['o', 'f'] (w1 ++ (['o', 'f'] ++ (w2 ++ (pat ++ rest)))) =
      some (w2 ++ (pat ++ rest)) := by
    rw [keyword_ws _ _ _ _ hw1']
    exact keyword_append _ _ _ (by simp) (by decide)
      (notFollowedBy_ws_append _ _ _ hw2 hw2' (fun c hc => hg.sepQuant c (Or.inl hc)))
  have hw : word g.patChars (w2 ++ (pat ++ rest)) = some (pat, rest) := by
    rw [word_ws _ _ _ hw2']
    exact word_append _ _ _ hpne hpc (pat_nonws hg hpc) (delim_sep hg rest hd).2.1
  simp only [selector, hq, hg.kwOf, hk, hw, quantOf_text]

theorem opTok_not_text {g : Grammar} (hg : WF g) (q : QW) (X : Str) :
    opTok g g.kwNot (q.text ++ X) = none := by
  simp only [opTok, hg.opKw, if_true, hg.kwNot]
  apply keyword_none_of_strip
  cases q <;> simp [text_one, text_any, text_all, skipWs, isWs, wsChars, stripPrefix]

theorem pNot_sel {g : Grammar} (hg : WF g) (q : QW) (w1 w2 pat rest : Str) (f : Nat)
    (hw1 : w1 ≠ []) (hw1' : ∀ c ∈ w1, isWs c = true)
    (hw2 : w2 ≠ []) (hw2' : ∀ c ∈ w2, isWs c = true)
    (hp : wfPat g pat = true) (hd : delim rest = true) :
    pNot g (f + 1) (q.text ++ (w1 ++ (['o', 'f'] ++ (w2 ++ (pat ++ rest))))) =
      some (.sel q.quant pat, rest) := by
  simp only [pNot, opTok_not_text hg q, selector_spelled hg q w1 w2 pat rest hw1 hw1' hw2 hw2' hp hd]

/-- `not` in front of something that does not continue the word -/
theorem pNot_not {g : Grammar} (hg : WF g) (f : Nat) (s : Str)
    (hs : notFollowedBy g.opKwChars s = true) (p : PT) (rest : Str)
    (h : pNot g f s = some (p, rest)) :
    pNot g (f + 1) (['n', 'o', 't'] ++ s) = some (.not p, rest) := by
  have hk := keyword_append g.opKwChars ['n', 'o', 't'] s (by simp) (by decide) hs
  simp only [pNot, opTok, hg.opKw, if_true, hg.kwNot, hk, h]

theorem pNot_paren {g : Grammar} (hg : WF g) (f : Nat) (s : Str) (p : PT) (s2 rest : Str)
    (h : pOr g f s = some (p, s2)) (h2 : literal [')'] s2 = some rest) :
    pNot g (f + 1) ('(' :: s) = some (p, rest) := by
  have h1 : opTok g g.kwNot ('(' :: s) = none := by
    simp only [opTok, hg.opKw, if_true, hg.kwNot]
    apply keyword_none_of_strip
    simp [skipWs, isWs, wsChars, stripPrefix]
  have h2' : selector g ('(' :: s) = none := by
    have : quantifier g g.quants ('(' :: s) = none := by
      rw [hg.quants]
      simp [quantifier, keyword, skipWs, isWs, wsChars, stripPrefix]
    simp only [selector, this]
  have h3 : identifier g ('(' :: s) = none := by
    have : '(' ∉ g.identChars := hg.sepIdent '(' (Or.inr (Or.inl rfl))
    simp [identifier, word, skipWs, isWs, wsChars, spanChars, this]
  have h4 : literal ['('] ('(' :: s) = some s := literal_append ['('] s (by simp) (by decide)
  simp only [pOr, pAnd] at h
  simp only [pNot, h1, h2', h3, h4, h, h2]

/-! ## 4. `many` / `level` on a rendered chain -/

/-- `sub` reads the spelling `s` of `x` in front of any admissible rest -/
def Good (sub : Str → Option (PT × Str)) (Stop : Str → Prop) (s : Str) (x : E) : Prop :=
  ∀ rest, Stop rest → ∃ p, sub (s ++ rest) = some (p, rest) ∧
    ∀ dets ρ, semPT dets ρ p = x.sem dets ρ

/-- `op` then `sub` read the chain item `it` (operator + operand `x`) -/
def Item (op : Str → Option Str) (sub : Str → Option (PT × Str)) (Stop : Str → Prop)
    (it : Str) (x : E) : Prop :=
  ∀ rest, Stop rest → ∃ s1 p, op (it ++ rest) = some s1 ∧ sub s1 = some (p, rest) ∧
    ∀ dets ρ, semPT dets ρ p = x.sem dets ρ

theorem many_spine (op : Str → Option Str) (sub : Str → Option (PT × Str))
    (StopSub StopAll : Str → Prop)
    (hall : ∀ s, StopAll s → StopSub s)
    (hstop : ∀ s, StopAll s → op s = none)
    (xs : List (Str × E))
    (hhead : ∀ it ∈ xs, ∀ s, StopSub (it.1 ++ s))
    (hx : ∀ it ∈ xs, Item op sub StopSub it.1 it.2) :
    ∀ (k : Nat) (acc : List PT) (rest : Str), StopAll rest → xs.length ≤ k →
    ∃ ps, many op sub k acc (xs.flatMap (·.1) ++ rest) = (acc ++ ps, rest) ∧
      ps.length = xs.length ∧
      (∀ dets ρ, semPT.semPTAll dets ρ ps = xs.all (fun it => it.2.sem dets ρ)) ∧
      (∀ dets ρ, semPT.semPTAny dets ρ ps = xs.any (fun it => it.2.sem dets ρ)) := by
  induction xs with
  | nil =>
    intro k acc rest hrest _
    refine ⟨[], ?_, rfl, ?_, ?_⟩
    · cases k with
      | zero => simp [many]
      | succ k => simp [many, hstop _ hrest]
    · intro dets ρ; simp [semPT.semPTAll]
    · intro dets ρ; simp [semPT.semPTAny]
  | cons x xs ih =>
    intro k acc rest hrest hk
    cases k with
    | zero => simp at hk
    | succ k =>
      have hnext : StopSub (xs.flatMap (·.1) ++ rest) := by
        cases xs with
        | nil => simpa using hall _ hrest
        | cons y ys =>
          simp only [List.flatMap_cons, List.append_assoc]
          exact hhead y (by simp) _
      obtain ⟨s1, p, hop, hsub, hpe⟩ := hx x (by simp) _ hnext
      obtain ⟨ps, hps, hlen, hall', hany'⟩ :=
        ih (fun y hy => hhead y (by simp [hy])) (fun y hy => hx y (by simp [hy]))
          k (acc ++ [p]) rest hrest (by simpa using hk)
      refine ⟨p :: ps, ?_, by simp [hlen], ?_, ?_⟩
      · simp only [List.flatMap_cons, List.append_assoc, many, hop, hsub, hps]
        simp
      · intro dets ρ; simp [semPT.semPTAll, hpe, hall']
      · intro dets ρ; simp [semPT.semPTAny, hpe, hany']

theorem flatMap_len_ge (xs : List (Str × E)) (rest : Str) (hne : ∀ it ∈ xs, it.1 ≠ []) :
    xs.length ≤ (xs.flatMap (·.1) ++ rest).length := by
  induction xs with
  | nil => simp
  | cons x xs ih =>
    have h1 : 0 < x.1.length := List.length_pos_iff.2 (hne x (by simp))
    have h2 := ih (fun y hy => hne y (by simp [hy]))
    simp only [List.flatMap_cons, List.length_append, List.length_cons] at h2 ⊢
    omega

/-- one binary level on `head (op operand)*` -/
theorem level_good (op : Str → Option Str) (mk : List PT → PT) (sub : Str → Option (PT × Str))
    (StopSub StopAll : Str → Prop)
    (hall : ∀ s, StopAll s → StopSub s)
    (hstop : ∀ s, StopAll s → op s = none)
    (hds : Str) (hd : E) (tl : List (Str × E))
    (hhead : ∀ it ∈ tl, ∀ s, StopSub (it.1 ++ s))
    (hne : ∀ it ∈ tl, it.1 ≠ [])
    (hhd : Good sub StopSub hds hd)
    (htl : ∀ it ∈ tl, Item op sub StopSub it.1 it.2) :
    ∀ rest, StopAll rest → ∃ p,
      level op mk sub (hds ++ tl.flatMap (·.1) ++ rest) = some (p, rest) ∧
      ((tl = [] ∧ ∀ dets ρ, semPT dets ρ p = hd.sem dets ρ) ∨
       (∃ p0 ps, p = mk (p0 :: ps) ∧ (∀ dets ρ, semPT dets ρ p0 = hd.sem dets ρ) ∧
          (∀ dets ρ, semPT.semPTAll dets ρ ps = tl.all (fun it => it.2.sem dets ρ)) ∧
          (∀ dets ρ, semPT.semPTAny dets ρ ps = tl.any (fun it => it.2.sem dets ρ)))) := by
  intro rest hrest
  have hnext : StopSub (tl.flatMap (·.1) ++ rest) := by
    cases tl with
    | nil => simpa using hall _ hrest
    | cons y ys =>
      simp only [List.flatMap_cons, List.append_assoc]
      exact hhead y (by simp) _
  obtain ⟨p0, hp0, he0⟩ := hhd _ hnext
  obtain ⟨ps, hps, hlen, hall', hany'⟩ :=
    many_spine op sub StopSub StopAll hall hstop tl hhead htl
      (tl.flatMap (·.1) ++ rest).length [p0] rest hrest (flatMap_len_ge _ _ hne)
  cases ps with
  | nil =>
    refine ⟨p0, ?_, Or.inl ⟨?_, he0⟩⟩
    · simp only [level, List.append_assoc, hp0, hps]; simp
    · cases tl with
      | nil => rfl
      | cons y ys => simp at hlen
  | cons q qs =>
    refine ⟨mk (p0 :: q :: qs), ?_, Or.inr ⟨p0, q :: qs, rfl, he0, hall', hany'⟩⟩
    simp only [level, List.append_assoc, hp0, hps]; simp


/-- an operator keyword, blanks around it, then an operand `sub` reads -/
theorem item_of_good {g : Grammar} (hg : WF g) (k : Str) (hk : k ≠ [])
    (hkw : ∀ c ∈ k, isWs c = false) (sub : Str → Option (PT × Str))
    (hsub : ∀ w s, (∀ c ∈ w, isWs c = true) → sub (w ++ s) = sub s) (Stop : Str → Prop)
    (w1 w2 s : Str) (x : E) (hw1 : ∀ c ∈ w1, isWs c = true) (hw2 : ∀ c ∈ w2, isWs c = true)
    (hfol : ∀ rest, notFollowedBy g.opKwChars (w2 ++ (s ++ rest)) = true)
    (h : Good sub Stop s x) : Item (opTok g k) sub Stop (w1 ++ (k ++ (w2 ++ s))) x := by
  intro rest hrest
  obtain ⟨p, hp, hpe⟩ := h rest hrest
  refine ⟨w2 ++ (s ++ rest), p, ?_, ?_, hpe⟩
  · simp only [opTok, hg.opKw, if_true, List.append_assoc]
    rw [keyword_ws _ _ _ _ hw1]
    exact keyword_append _ _ _ hk hkw (hfol rest)
  · rw [hsub _ _ hw2]; exact hp

/-! ## 5. The canonical printer -/

def sepAnd : Str := [' ', 'a', 'n', 'd', ' ']
def sepOr : Str := [' ', 'o', 'r', ' ']

def _root_.SigmaVerif.CondSpec.E.size : E → Nat
  | .id _ => 1 | .sel _ _ => 1 | .not e => e.size + 1
  | .and a b => a.size + b.size + 1 | .or a b => a.size + b.size + 1

theorem _root_.SigmaVerif.CondSpec.E.size_pos (e : E) : 0 < e.size := by cases e <;> simp [E.size]

def isAnd : E → Bool | .and _ _ => true | _ => false
def isOr : E → Bool | .or _ _ => true | _ => false

/-- head operand of an `and` chain -/
def andHead : E → E
  | .and a _ => andHead a
  | e => e
/-- the other operands of an `and` chain, each with its spelling `" and " ++ operand` -/
def andItems : E → List (Str × E)
  | .and a b => andItems a ++ [(sepAnd ++ pp 0 b, b)]
  | _ => []
def orHead : E → E
  | .or a _ => orHead a
  | e => e
def orItems : E → List (Str × E)
  | .or a b => orItems a ++ [(sepOr ++ pp 1 b, b)]
  | _ => []

theorem pp1_of_not_and (e : E) (h : isAnd e = false) : pp 1 e = pp 0 e := by
  cases e <;> simp_all [pp, isAnd, paren]

theorem pp2_of_not_or (e : E) (h : isOr e = false) : pp 2 e = pp 1 e := by
  cases e <;> simp_all [pp, isOr, paren]

theorem andHead_not_and (e : E) : isAnd (andHead e) = false := by
  induction e with
  | and a b iha ihb => simpa [andHead] using iha
  | _ => simp [andHead, isAnd]

theorem orHead_not_or (e : E) : isOr (orHead e) = false := by
  induction e with
  | or a b iha ihb => simpa [orHead] using iha
  | _ => simp [orHead, isOr]

theorem pp1_spine (e : E) : pp 1 e = pp 0 (andHead e) ++ (andItems e).flatMap (·.1) := by
  induction e with
  | and a b iha ihb =>
    simp [andHead, andItems, pp, paren, iha, List.flatMap_append, sepAnd]
  | id n => simp [andHead, andItems, pp]
  | sel q p => simp [andHead, andItems, pp]
  | not e ih => simp [andHead, andItems, pp]
  | or a b iha ihb => simp [andHead, andItems, pp, paren]

theorem pp2_spine (e : E) : pp 2 e = pp 1 (orHead e) ++ (orItems e).flatMap (·.1) := by
  induction e with
  | or a b iha ihb =>
    simp [orHead, orItems, pp, paren, iha, List.flatMap_append, sepOr]
  | id n => simp [orHead, orItems, pp]
  | sel q p => simp [orHead, orItems, pp]
  | not e ih => simp [orHead, orItems, pp]
  | and a b iha ihb => simp [orHead, orItems, pp, paren]

theorem sem_andSpine (dets : List Str) (ρ : Str → Bool) (e : E) :
    e.sem dets ρ = ((andHead e).sem dets ρ && (andItems e).all (fun it => it.2.sem dets ρ)) := by
  induction e with
  | and a b iha ihb => simp [andHead, andItems, E.sem, iha, List.all_append, Bool.and_assoc]
  | _ => simp [andHead, andItems]

theorem sem_orSpine (dets : List Str) (ρ : Str → Bool) (e : E) :
    e.sem dets ρ = ((orHead e).sem dets ρ || (orItems e).any (fun it => it.2.sem dets ρ)) := by
  induction e with
  | or a b iha ihb => simp [orHead, orItems, E.sem, iha, List.any_append, Bool.or_assoc]
  | _ => simp [orHead, orItems]

theorem andSpine_facts (g : Grammar) (e : E) (he : e.wf g = true) :
    (andHead e).size ≤ e.size ∧ (andHead e).wf g = true ∧
    (∀ it ∈ andItems e, it.1 = sepAnd ++ pp 0 it.2 ∧ it.2.size < e.size ∧ it.2.wf g = true) ∧
    (isAnd e = true → (andHead e).size < e.size) := by
  induction e with
  | and a b iha ihb =>
    simp only [E.wf, Bool.and_eq_true] at he
    obtain ⟨h1, h2, h3, _⟩ := iha he.1
    refine ⟨?_, ?_, ?_, ?_⟩
    · simp only [andHead, E.size]; omega
    · simpa [andHead] using h2
    · intro it hit
      simp only [andItems, List.mem_append, List.mem_singleton] at hit
      rcases hit with hit | rfl
      · obtain ⟨e1, e2, e3⟩ := h3 it hit
        exact ⟨e1, by simp only [E.size]; omega, e3⟩
      · exact ⟨rfl, by simp only [E.size]; have := E.size_pos a; omega, he.2⟩
    · intro _; simp only [andHead, E.size]; omega
  | _ => simp_all [andHead, andItems, isAnd]

theorem orSpine_facts (g : Grammar) (e : E) (he : e.wf g = true) :
    (orHead e).size ≤ e.size ∧ (orHead e).wf g = true ∧
    (∀ it ∈ orItems e, it.1 = sepOr ++ pp 1 it.2 ∧ it.2.size < e.size ∧ it.2.wf g = true) ∧
    (isOr e = true → (orHead e).size < e.size) := by
  induction e with
  | or a b iha ihb =>
    simp only [E.wf, Bool.and_eq_true] at he
    obtain ⟨h1, h2, h3, _⟩ := iha he.1
    refine ⟨?_, ?_, ?_, ?_⟩
    · simp only [orHead, E.size]; omega
    · simpa [orHead] using h2
    · intro it hit
      simp only [orItems, List.mem_append, List.mem_singleton] at hit
      rcases hit with hit | rfl
      · obtain ⟨e1, e2, e3⟩ := h3 it hit
        exact ⟨e1, by simp only [E.size]; omega, e3⟩
      · exact ⟨rfl, by simp only [E.size]; have := E.size_pos a; omega, he.2⟩
    · intro _; simp only [orHead, E.size]; omega
  | _ => simp_all [orHead, orItems, isOr]

theorem stop0_sepAnd (s : Str) : Stop0 (sepAnd ++ s) := by
  simp [Stop0, sepAnd, delim, skipWs, isWs, wsChars, stripPrefix]

theorem stopAnd_sepOr (s : Str) : StopAnd (sepOr ++ s) := by
  simp [StopAnd, Stop0, sepOr, delim, skipWs, isWs, wsChars, stripPrefix]

theorem stopOr_rparen (s : Str) : StopOr (')' :: s) := by
  simp [StopOr, StopAnd, Stop0, delim, skipWs, isWs, wsChars, stripPrefix]

theorem stopOr_nil : StopOr [] := by
  simp [StopOr, StopAnd, Stop0, delim, skipWs, stripPrefix]

theorem opTok_and_stop {g : Grammar} (hg : WF g) (s : Str) (hs : StopAnd s) :
    opTok g g.kwAnd s = none := by
  simp only [opTok, hg.opKw, if_true, hg.kwAnd]
  exact keyword_none_of_strip _ _ _ hs.2

theorem opTok_or_stop {g : Grammar} (hg : WF g) (s : Str) (hs : StopOr s) :
    opTok g g.kwOr s = none := by
  simp only [opTok, hg.opKw, if_true, hg.kwOr]
  exact keyword_none_of_strip _ _ _ hs.2

theorem space_ws : ∀ c ∈ [' '], isWs c = true := by decide

theorem notFollowedBy_space {g : Grammar} (hg : WF g) (s : Str) :
    notFollowedBy g.opKwChars (' ' :: s) = true := by
  have : ' ' ∉ g.opKwChars := hg.sepOp ' ' (Or.inl (by decide))
  simpa [notFollowedBy] using this

/-- the `and` level reads `pp 1 x` when the unary level reads the operands -/
theorem pAnd_good {g : Grammar} (hg : WF g) (f : Nat) (x : E)
    (hform : ∀ it ∈ andItems x, it.1 = sepAnd ++ pp 0 it.2)
    (h : Good (pNot g f) Stop0 (pp 0 (andHead x)) (andHead x))
    (ht : ∀ it ∈ andItems x, Good (pNot g f) Stop0 (pp 0 it.2) it.2) :
    Good (pAnd g f) StopAnd (pp 1 x) x := by
  intro rest hrest
  obtain ⟨p, hp, hsem⟩ :=
    level_good (opTok g g.kwAnd) .and (pNot g f) Stop0 StopAnd (fun _ h => h.1)
      (opTok_and_stop hg) (pp 0 (andHead x)) (andHead x) (andItems x)
      (by intro it hit s; rw [hform it hit, List.append_assoc]; exact stop0_sepAnd _)
      (by intro it hit; rw [hform it hit]; simp [sepAnd])
      h
      (by
        intro it hit
        rw [hform it hit, hg.kwAnd]
        exact item_of_good hg ['a', 'n', 'd'] (by simp) (by decide) (pNot g f)
          (fun w s hw => pNot_ws g f w s hw) Stop0 [' '] [' '] (pp 0 it.2) it.2 space_ws space_ws
          (fun rest => notFollowedBy_space hg _) (ht it hit))
      rest hrest
  refine ⟨p, ?_, ?_⟩
  · rw [pp1_spine]; exact hp
  · intro dets ρ
    rw [sem_andSpine dets ρ x]
    rcases hsem with ⟨hnil, hs⟩ | ⟨p0, ps, rfl, h0, hall, _⟩
    · simp [hnil, hs]
    · simp [semPT, semPT.semPTAll, h0, hall]

theorem pOr_good {g : Grammar} (hg : WF g) (f : Nat) (x : E)
    (hform : ∀ it ∈ orItems x, it.1 = sepOr ++ pp 1 it.2)
    (h : Good (pAnd g f) StopAnd (pp 1 (orHead x)) (orHead x))
    (ht : ∀ it ∈ orItems x, Good (pAnd g f) StopAnd (pp 1 it.2) it.2) :
    Good (pOr g f) StopOr (pp 2 x) x := by
  intro rest hrest
  obtain ⟨p, hp, hsem⟩ :=
    level_good (opTok g g.kwOr) .or (pAnd g f) StopAnd StopOr (fun _ h => h.1)
      (opTok_or_stop hg) (pp 1 (orHead x)) (orHead x) (orItems x)
      (by intro it hit s; rw [hform it hit, List.append_assoc]; exact stopAnd_sepOr _)
      (by intro it hit; rw [hform it hit]; simp [sepOr])
      h
      (by
        intro it hit
        rw [hform it hit, hg.kwOr]
        exact item_of_good hg ['o', 'r'] (by simp) (by decide) (pAnd g f)
          (fun w s hw => pAnd_ws g f w s hw) StopAnd [' '] [' '] (pp 1 it.2) it.2 space_ws space_ws
          (fun rest => notFollowedBy_space hg _) (ht it hit))
      rest hrest
  refine ⟨p, ?_, ?_⟩
  · rw [pp2_spine]; exact hp
  · intro dets ρ
    rw [sem_orSpine dets ρ x]
    rcases hsem with ⟨hnil, hs⟩ | ⟨p0, ps, rfl, h0, _, hany⟩
    · simp [hnil, hs]
    · simp [semPT, semPT.semPTAny, h0, hany]


theorem pAnd_good_of {g : Grammar} (hg : WF g) (f n : Nat)
    (ih : ∀ e : E, e.wf g = true → e.size ≤ n → Good (pNot g f) Stop0 (pp 0 e) e)
    (x : E) (hx : x.wf g = true) (hhd : (andHead x).size ≤ n)
    (htl : ∀ it ∈ andItems x, it.2.size ≤ n) : Good (pAnd g f) StopAnd (pp 1 x) x := by
  have hs := andSpine_facts g x hx
  exact pAnd_good hg f x (fun it hit => (hs.2.2.1 it hit).1) (ih _ hs.2.1 hhd)
    (fun it hit => ih it.2 (hs.2.2.1 it hit).2.2 (htl it hit))

theorem pOr_good_of {g : Grammar} (hg : WF g) (f n : Nat)
    (ih : ∀ e : E, e.wf g = true → e.size ≤ n → Good (pAnd g f) StopAnd (pp 1 e) e)
    (x : E) (hx : x.wf g = true) (hhd : (orHead x).size ≤ n)
    (htl : ∀ it ∈ orItems x, it.2.size ≤ n) : Good (pOr g f) StopOr (pp 2 x) x := by
  have hs := orSpine_facts g x hx
  exact pOr_good hg f x (fun it hit => (hs.2.2.1 it hit).1) (ih _ hs.2.1 hhd)
    (fun it hit => ih it.2 (hs.2.2.1 it hit).2.2 (htl it hit))

theorem pp0_and (a b : E) : pp 0 (.and a b) = '(' :: (pp 2 (.and a b) ++ [')']) := by
  simp [pp, paren]
theorem pp0_or (a b : E) : pp 0 (.or a b) = '(' :: (pp 2 (.or a b) ++ [')']) := by
  simp [pp, paren]

theorem literal_rparen (rest : Str) : literal [')'] (')' :: rest) = some rest :=
  literal_append [')'] rest (by simp) (by decide)

/-- the unary level reads the canonical spelling of every expression of size ≤ n, given fuel ≥ n -/
theorem pNot_good {g : Grammar} (hg : WF g) : ∀ n, ∀ e : E, e.wf g = true → e.size ≤ n →
    ∀ f, n ≤ f → Good (pNot g f) Stop0 (pp 0 e) e := by
  intro n
  induction n with
  | zero => intro e _ he; have := E.size_pos e; omega
  | succ n ih =>
    intro e hwf he f hf
    obtain ⟨f, rfl⟩ : ∃ f', f = f' + 1 := ⟨f - 1, by omega⟩
    have hf' : n ≤ f := by omega
    have ihf : ∀ e : E, e.wf g = true → e.size ≤ n → Good (pNot g f) Stop0 (pp 0 e) e :=
      fun e hw he => ih e hw he f hf'
    have andOf : ∀ x : E, x.wf g = true → x.size ≤ n → Good (pAnd g f) StopAnd (pp 1 x) x := by
      intro x hxw hx
      have hs := andSpine_facts g x hxw
      exact pAnd_good_of hg f n ihf x hxw (by omega)
        (fun it hit => by have := (hs.2.2.1 it hit).2.1; omega)
    intro rest hrest
    cases e with
    | id nm =>
      refine ⟨.id nm, ?_, ?_⟩
      · simpa [pp] using pNot_name hg (WFName.of (by simpa [E.wf] using hwf)) f rest hrest
      · intro dets ρ; simp [semPT, E.sem]
    | sel q pat =>
      refine ⟨.sel q.quant pat, ?_, ?_⟩
      · have := pNot_sel hg q [' '] [' '] pat rest f (by simp) space_ws (by simp) space_ws
          (by simpa [E.wf] using hwf) hrest.1
        simpa [pp] using this
      · intro dets ρ; cases q <;> simp [semPT, E.sem, QW.quant]
    | not e' =>
      have he' : e'.size ≤ n := by simp only [E.size] at he; omega
      obtain ⟨p, hp, hpe⟩ := ihf e' (by simpa [E.wf] using hwf) he' rest hrest
      refine ⟨.not p, ?_, ?_⟩
      · have h1 : pNot g f (' ' :: (pp 0 e' ++ rest)) = some (p, rest) := by
          have := pNot_ws g f [' '] (pp 0 e' ++ rest) space_ws
          simp only [List.cons_append, List.nil_append] at this
          rw [this]; exact hp
        have := pNot_not hg f (' ' :: (pp 0 e' ++ rest)) (notFollowedBy_space hg _) p rest h1
        simpa [pp] using this
      · intro dets ρ; simp [semPT, E.sem, hpe]
    | and a b =>
      have hs := andSpine_facts g (E.and a b) hwf
      have hAnd : Good (pAnd g f) StopAnd (pp 1 (E.and a b)) (E.and a b) :=
        pAnd_good_of hg f n ihf _ hwf (by have := hs.2.2.2 rfl; omega)
          (fun it hit => by have := (hs.2.2.1 it hit).2.1; omega)
      have hOr : Good (pOr g f) StopOr (pp 2 (E.and a b)) (E.and a b) := by
        refine pOr_good hg f _ (by simp [orItems]) ?_ (by simp [orItems])
        simpa [orHead] using hAnd
      obtain ⟨p, hp, hpe⟩ := hOr (')' :: rest) (stopOr_rparen rest)
      refine ⟨p, ?_, hpe⟩
      rw [pp0_and, List.cons_append, List.append_assoc]
      exact pNot_paren hg f _ p (')' :: rest) rest hp (literal_rparen rest)
    | or a b =>
      have hs := orSpine_facts g (E.or a b) hwf
      have hOr : Good (pOr g f) StopOr (pp 2 (E.or a b)) (E.or a b) :=
        pOr_good_of hg f n andOf _ hwf (by have := hs.2.2.2 rfl; omega)
          (fun it hit => by have := (hs.2.2.1 it hit).2.1; omega)
      obtain ⟨p, hp, hpe⟩ := hOr (')' :: rest) (stopOr_rparen rest)
      refine ⟨p, ?_, hpe⟩
      rw [pp0_or, List.cons_append, List.append_assoc]
      exact pNot_paren hg f _ p (')' :: rest) rest hp (literal_rparen rest)

theorem pp_len (g : Grammar) (c : Nat) (e : E) (he : e.wf g = true) :
    e.size ≤ (pp c e).length := by
  induction e generalizing c with
  | id n =>
    have := (WFName.of (by simpa [E.wf] using he)).ne
    have : 0 < n.length := List.length_pos_iff.2 this
    simp only [pp, E.size]; omega
  | sel q p => cases q <;> simp [pp, E.size, QW.text]
  | not e ih => have := ih 0 (by simpa [E.wf] using he); simp [pp, E.size]; omega
  | and a b iha ihb =>
    simp only [E.wf, Bool.and_eq_true] at he
    have := iha 1 he.1; have := ihb 0 he.2
    simp only [pp, E.size, paren]; split <;> simp <;> omega
  | or a b iha ihb =>
    simp only [E.wf, Bool.and_eq_true] at he
    have := iha 2 he.1; have := ihb 1 he.2
    simp only [pp, E.size, paren]; split <;> simp <;> omega

/-- **Round trip.** -/
theorem parse_pp_aux {g : Grammar} (hg : WF g) (e : E) (he : e.wf g = true) :
    ∃ t, parse g (pp 2 e) = some t ∧ ∀ dets ρ, semPT dets ρ t = e.sem dets ρ := by
  have hlen := pp_len g 2 e he
  have hN : ∀ x : E, x.wf g = true → x.size ≤ e.size →
      Good (pNot g ((pp 2 e).length + 1)) Stop0 (pp 0 x) x :=
    fun x hw hx => pNot_good hg e.size x hw hx _ (by omega)
  have hA : ∀ x : E, x.wf g = true → x.size ≤ e.size →
      Good (pAnd g ((pp 2 e).length + 1)) StopAnd (pp 1 x) x := by
    intro x hw hx
    have hs := andSpine_facts g x hw
    exact pAnd_good_of hg _ e.size hN x hw (by omega)
      (fun it hit => by have := (hs.2.2.1 it hit).2.1; omega)
  have hs := orSpine_facts g e he
  have hO : Good (pOr g ((pp 2 e).length + 1)) StopOr (pp 2 e) e :=
    pOr_good_of hg _ e.size hA e he (by omega)
      (fun it hit => by have := (hs.2.2.1 it hit).2.1; omega)
  obtain ⟨p, hp, hpe⟩ := hO [] stopOr_nil
  refine ⟨p, ?_, hpe⟩
  simp only [List.append_nil] at hp
  simp [parse, hp, skipWs]

theorem level_nil (op : Str → Option Str) (mk : List PT → PT) (sub : Str → Option (PT × Str))
    (s : Str) (p : PT) (h : sub s = some (p, [])) : level op mk sub s = some (p, []) := by
  simp [level, h, many]

theorem name_whole_word_aux {g : Grammar} (hg : WF g) (n : Str) (hn : wfName g n = true) :
    parse g n = some (.id n) := by
  have h := pNot_name hg (WFName.of hn) n.length [] stopOr_nil.1.1
  simp only [List.append_nil] at h
  have h1 := level_nil (opTok g g.kwAnd) .and _ n _ h
  have h2 := level_nil (opTok g g.kwOr) .or _ n _ h1
  simp only [parse, pOr, pAnd, h2]
  simp [skipWs]


/-! ## 6. Globs and selector resolution -/
open SigmaVerif.Cond SigmaVerif.CondSpec SigmaVerif.Lemmas.CondParse

theorem starMatch_eq_globStar_aux (pat name : Str) (h : '\n' ∉ name) : starMatch pat name = globStar pat name := by
  fun_induction starMatch pat name with
  | case1 => simp [globStar]
  | case2 c n => simp [globStar]
  | case3 p ih => 
    rw [globStar]; simp [ih h]
  | case4 p c n ih1 ih2 =>
    rw [globStar]
    have hc : (c != '\n') = true := by
      simp only [bne_iff_ne, ne_eq]; intro hc; apply h; simp [hc]
    have hn : '\n' ∉ n := by intro hn; apply h; simp [hn]
    simp [ih1 h, ih2 hn, hc]
  | case5 a p ha =>
    rw [globStar]
    · exact fun h => ha h
  | case6 a p c n ha ih =>
    have hn : '\n' ∉ n := by intro hn; apply h; simp [hn]
    rw [globStar]
    · simp [ih hn]
    · exact fun h => ha h

theorem globStar_star (name : Str) : globStar ['*'] name = true := by
  induction name with
  | nil => simp [globStar]
  | cons c n ih => rw [globStar]; simp [ih]

theorem selMatches_eq_selects (pat name : Str) (h : '\n' ∉ name) : selMatches pat name = selects pat name := by
  simp only [selMatches, selects, starMatch_eq_globStar_aux _ _ h]
  by_cases hp : pat = ['t', 'h', 'e', 'm']
  · simp [hp, globStar_star]
  · have hb : (pat == ['t', 'h', 'e', 'm']) = false := beq_eq_false_iff_ne.2 hp
    simp [hb]

/-! ### hypotheses of `resolve_sound` -/

mutual
/-- every `.id n` in the tree names a detection of the rule -/
def idsDefined (dets : List Str) : PT → Bool
  | .id n => dets.contains n
  | .sel _ _ => true
  | .not p => idsDefined dets p
  | .and ps => idsDefinedList dets ps
  | .or ps => idsDefinedList dets ps
def idsDefinedList (dets : List Str) : List PT → Bool
  | [] => true
  | p :: ps => idsDefined dets p && idsDefinedList dets ps
end

mutual
/-- every selector in the tree matches at least one detection of the rule -/
def selsMatch (dets : List Str) : PT → Bool
  | .id _ => true
  | .sel _ pat => dets.any (selMatches pat)
  | .not p => selsMatch dets p
  | .and ps => selsMatchList dets ps
  | .or ps => selsMatchList dets ps
def selsMatchList (dets : List Str) : List PT → Bool
  | [] => true
  | p :: ps => selsMatch dets p && selsMatchList dets ps
end

mutual
/-- every `and`/`or` node has at least one operand (the parser only builds such nodes) -/
def nodesNonempty : PT → Bool
  | .id _ => true
  | .sel _ _ => true
  | .not p => nodesNonempty p
  | .and ps => !ps.isEmpty && nodesNonemptyList ps
  | .or ps => !ps.isEmpty && nodesNonemptyList ps
def nodesNonemptyList : List PT → Bool
  | [] => true
  | p :: ps => nodesNonempty p && nodesNonemptyList ps
end

theorem evalAny_map_det (ρ : Str → Bool) (ms : List Str) :
    CT.evalAny ρ (ms.map .det) = ms.any ρ := by
  induction ms with
  | nil => simp [CT.evalAny]
  | cons m ms ih => simp [CT.evalAny, CT.eval, ih]

theorem evalAll_map_det (ρ : Str → Bool) (ms : List Str) :
    CT.evalAll ρ (ms.map .det) = ms.all ρ := by
  induction ms with
  | nil => simp [CT.evalAll]
  | cons m ms ih => simp [CT.evalAll, CT.eval, ih]

theorem resolve_sel (dets : List Str) (hnl : ∀ d ∈ dets, '\n' ∉ d) (q : Quant) (pat : Str)
    (h : dets.any (selMatches pat) = true) :
    ∃ c, resolve dets (.sel q pat) = .ok (some c) ∧ ∀ ρ, c.eval ρ = semPT dets ρ (.sel q pat) := by
  have hf : dets.filter (selects pat) = dets.filter (selMatches pat) :=
    List.filter_congr (fun d hd => (selMatches_eq_selects pat d (hnl d hd)).symm)
  cases hms : dets.filter (selMatches pat) with
  | nil =>
    exfalso
    simp only [List.any_eq_true] at h
    obtain ⟨d, hd, hm⟩ := h
    have : d ∈ dets.filter (selMatches pat) := List.mem_filter.2 ⟨hd, hm⟩
    rw [hms] at this; simp at this
  | cons m ms =>
    cases ms with
    | nil =>
      refine ⟨.det m, by simp [resolve, hms], ?_⟩
      intro ρ; cases q <;> simp [semPT, hf, hms, CT.eval]
    | cons m2 ms =>
      cases q with
      | any =>
        refine ⟨.or ((m :: m2 :: ms).map .det), by simp [resolve, hms], ?_⟩
        intro ρ
        rw [CT.eval, evalAny_map_det]; simp [semPT, hf, hms]
      | all =>
        refine ⟨.and ((m :: m2 :: ms).map .det), by simp [resolve, hms], ?_⟩
        intro ρ
        rw [CT.eval, evalAll_map_det]; simp [semPT, hf, hms]

mutual
theorem resolve_sound_aux (dets : List Str) (hnl : ∀ d ∈ dets, '\n' ∉ d) :
    (t : PT) → idsDefined dets t = true → selsMatch dets t = true → nodesNonempty t = true →
    ∃ c, resolve dets t = .ok (some c) ∧ ∀ ρ, c.eval ρ = semPT dets ρ t
  | .id n, h1, _, _ => by
    refine ⟨.det n, ?_, ?_⟩
    · have : n ∈ dets := by simpa [idsDefined] using h1
      simp [resolve, this]
    · intro ρ; simp [CT.eval, semPT]
  | .sel q pat, _, h2, _ => resolve_sel dets hnl q pat (by simpa [selsMatch] using h2)
  | .not p, h1, h2, h3 => by
    obtain ⟨c, hc, he⟩ := resolve_sound_aux dets hnl p (by simpa [idsDefined] using h1)
      (by simpa [selsMatch] using h2) (by simpa [nodesNonempty] using h3)
    exact ⟨.not c, by simp [resolve, hc], by intro ρ; simp [CT.eval, semPT, he]⟩
  | .and ps, h1, h2, h3 => by
    simp only [nodesNonempty, Bool.and_eq_true] at h3
    obtain ⟨cs, hcs, hlen, hall, _⟩ := resolveList_sound_aux dets hnl ps
      (by simpa [idsDefined] using h1) (by simpa [selsMatch] using h2) h3.2
    cases cs with
    | nil => cases ps <;> simp_all
    | cons c cs =>
      cases cs with
      | nil =>
        refine ⟨c, by simp [resolve, hcs], ?_⟩
        intro ρ; simp [semPT, ← hall ρ, CT.evalAll]
      | cons c2 cs =>
        refine ⟨.and (c :: c2 :: cs), by simp [resolve, hcs], ?_⟩
        intro ρ; simp [semPT, ← hall ρ, CT.eval]
  | .or ps, h1, h2, h3 => by
    simp only [nodesNonempty, Bool.and_eq_true] at h3
    obtain ⟨cs, hcs, hlen, _, hany⟩ := resolveList_sound_aux dets hnl ps
      (by simpa [idsDefined] using h1) (by simpa [selsMatch] using h2) h3.2
    cases cs with
    | nil => cases ps <;> simp_all
    | cons c cs =>
      cases cs with
      | nil =>
        refine ⟨c, by simp [resolve, hcs], ?_⟩
        intro ρ; simp [semPT, ← hany ρ, CT.evalAny]
      | cons c2 cs =>
        refine ⟨.or (c :: c2 :: cs), by simp [resolve, hcs], ?_⟩
        intro ρ; simp [semPT, ← hany ρ, CT.eval]
theorem resolveList_sound_aux (dets : List Str) (hnl : ∀ d ∈ dets, '\n' ∉ d) :
    (ps : List PT) → idsDefinedList dets ps = true → selsMatchList dets ps = true →
    nodesNonemptyList ps = true →
    ∃ cs, resolveList dets ps = .ok cs ∧ cs.length = ps.length ∧
      (∀ ρ, CT.evalAll ρ cs = semPT.semPTAll dets ρ ps) ∧
      (∀ ρ, CT.evalAny ρ cs = semPT.semPTAny dets ρ ps)
  | [], _, _, _ => ⟨[], by simp [resolveList], rfl, by intro ρ; simp [CT.evalAll, semPT.semPTAll],
      by intro ρ; simp [CT.evalAny, semPT.semPTAny]⟩
  | p :: ps, h1, h2, h3 => by
    simp only [idsDefinedList, Bool.and_eq_true] at h1
    simp only [selsMatchList, Bool.and_eq_true] at h2
    simp only [nodesNonemptyList, Bool.and_eq_true] at h3
    obtain ⟨c, hc, he⟩ := resolve_sound_aux dets hnl p h1.1 h2.1 h3.1
    obtain ⟨cs, hcs, hlen, hall, hany⟩ := resolveList_sound_aux dets hnl ps h1.2 h2.2 h3.2
    refine ⟨c :: cs, by simp [resolveList, hc, hcs], by simp [hlen], ?_, ?_⟩
    · intro ρ; simp [CT.evalAll, semPT.semPTAll, he, hall]
    · intro ρ; simp [CT.evalAny, semPT.semPTAny, he, hany]
end

/-! ### the parser only builds non-empty `and`/`or` nodes -/

theorem nodesNonemptyList_iff (ps : List PT) :
    nodesNonemptyList ps = true ↔ ∀ p ∈ ps, nodesNonempty p = true := by
  induction ps with
  | nil => simp [nodesNonemptyList]
  | cons p ps ih => simp [nodesNonemptyList, ih]

theorem many_inv (P : PT → Prop) (op : Str → Option Str) (sub : Str → Option (PT × Str))
    (hsub : ∀ s p r, sub s = some (p, r) → P p) :
    ∀ (k : Nat) (acc : List PT) (s : Str), (∀ p ∈ acc, P p) →
      (∀ p ∈ (many op sub k acc s).1, P p) ∧ acc.length ≤ (many op sub k acc s).1.length := by
  intro k
  induction k with
  | zero => intro acc s h; exact ⟨by simpa [many] using h, by simp [many]⟩
  | succ k ih =>
    intro acc s h
    cases h1 : op s with
    | none => simp only [many, h1]; exact ⟨h, Nat.le_refl _⟩
    | some s1 =>
      cases h2 : sub s1 with
      | none => simp only [many, h1, h2]; exact ⟨h, Nat.le_refl _⟩
      | some ps2 =>
        obtain ⟨p, s2⟩ := ps2
        have hp := hsub s1 p s2 h2
        have := ih (acc ++ [p]) s2 (by
          intro q hq; simp only [List.mem_append, List.mem_singleton] at hq
          rcases hq with hq | rfl
          · exact h q hq
          · exact hp)
        simp only [many, h1, h2]
        refine ⟨this.1, ?_⟩
        have h3 := this.2
        simp only [List.length_append, List.length_singleton] at h3
        omega

theorem level_inv (P : PT → Prop) (op : Str → Option Str) (mk : List PT → PT)
    (sub : Str → Option (PT × Str)) (hsub : ∀ s p r, sub s = some (p, r) → P p)
    (hmk : ∀ qs, qs ≠ [] → (∀ q ∈ qs, P q) → P (mk qs)) (s : Str) (p : PT) (r : Str)
    (h : level op mk sub s = some (p, r)) : P p := by
  simp only [level] at h
  cases h0 : sub s with
  | none => simp [h0] at h
  | some p0s1 =>
    obtain ⟨p0, s1⟩ := p0s1
    have hp0 := hsub s p0 s1 h0
    have hm := many_inv P op sub hsub s1.length [p0] s1 (by simpa using hp0)
    simp only [h0] at h
    cases hres : many op sub s1.length [p0] s1 with
    | mk qs s2 =>
      rw [hres] at h hm
      cases qs with
      | nil => simp at hm
      | cons q qs =>
        cases qs with
        | nil =>
          simp only [Option.some.injEq, Prod.mk.injEq] at h
          exact h.1 ▸ hm.1 q (by simp)
        | cons q2 qs =>
          simp only [Option.some.injEq, Prod.mk.injEq] at h
          exact h.1 ▸ hmk _ (by simp) hm.1

theorem selector_inv (g : Grammar) (s : Str) (p : PT) (r : Str) (h : selector g s = some (p, r)) :
    nodesNonempty p = true := by
  simp only [selector] at h
  repeat' split at h
  all_goals first | (simp at h; done) | skip
  all_goals
    simp only [Option.some.injEq, Prod.mk.injEq] at h
    rw [← h.1]; simp [nodesNonempty]

theorem identifier_inv (g : Grammar) (s : Str) (p : PT) (r : Str)
    (h : identifier g s = some (p, r)) : nodesNonempty p = true := by
  simp only [identifier] at h
  split at h
  · simp only [Option.some.injEq, Prod.mk.injEq] at h
    rw [← h.1]; simp [nodesNonempty]
  · simp at h

theorem pNot_inv (g : Grammar) : ∀ (f : Nat) (s : Str) (p : PT) (r : Str),
    pNot g f s = some (p, r) → nodesNonempty p = true := by
  intro f
  induction f with
  | zero => intro s p r h; simp [pNot] at h
  | succ f ih =>
    intro s p r h
    have hAnd : ∀ s p r, level (opTok g g.kwAnd) .and (pNot g f) s = some (p, r) →
        nodesNonempty p = true :=
      level_inv (fun p => nodesNonempty p = true) _ _ _ ih (by
        intro qs hne hq
        have : qs.isEmpty = false := by cases qs <;> simp_all
        simpa [nodesNonempty, this, nodesNonemptyList_iff] using hq)
    have hOr : ∀ s p r, level (opTok g g.kwOr) .or (level (opTok g g.kwAnd) .and (pNot g f)) s
        = some (p, r) → nodesNonempty p = true :=
      level_inv (fun p => nodesNonempty p = true) _ _ _ hAnd (by
        intro qs hne hq
        have : qs.isEmpty = false := by cases qs <;> simp_all
        simpa [nodesNonempty, this, nodesNonemptyList_iff] using hq)
    have htail : (match selector g s with
        | some r => some r
        | none =>
          match identifier g s with
          | some r => some r
          | none =>
            match literal ['('] s with
            | some s1 =>
              match level (opTok g g.kwOr) PT.or (level (opTok g g.kwAnd) PT.and (pNot g f)) s1 with
              | some (p, s2) =>
                match literal [')'] s2 with
                | some s3 => some (p, s3)
                | none => none
              | none => none
            | none => none) = some (p, r) → nodesNonempty p = true := by
      intro h
      cases h3 : selector g s with
      | some r' => simp only [h3, Option.some.injEq] at h; exact selector_inv g s p r (h ▸ h3)
      | none =>
        cases h4 : identifier g s with
        | some r' =>
          simp only [h3, h4, Option.some.injEq] at h; exact identifier_inv g s p r (h ▸ h4)
        | none =>
          cases h5 : literal ['('] s with
          | none => simp [h3, h4, h5] at h
          | some s1 =>
            cases h6 : level (opTok g g.kwOr) PT.or (level (opTok g g.kwAnd) PT.and (pNot g f)) s1 with
            | none => simp [h3, h4, h5, h6] at h
            | some ps2 =>
              cases h7 : literal [')'] ps2.2 with
              | none => simp [h3, h4, h5, h6, h7] at h
              | some s3 =>
                simp only [h3, h4, h5, h6, h7, Option.some.injEq, Prod.mk.injEq] at h
                rw [← h.1]; exact hOr s1 ps2.1 ps2.2 h6
    simp only [pNot] at h
    cases h1 : opTok g g.kwNot s with
    | some s1 =>
      cases h2 : pNot g f s1 with
      | some ps2 =>
        simp only [h1, h2, Option.some.injEq, Prod.mk.injEq] at h
        rw [← h.1]; simpa [nodesNonempty] using ih s1 ps2.1 ps2.2 h2
      | none =>
        simp only [h1, h2] at h
        exact htail h
    | none =>
      simp only [h1] at h
      exact htail h

theorem parse_inv (g : Grammar) (s : Str) (t : PT) (h : parse g s = some t) :
    nodesNonempty t = true := by
  simp only [parse] at h
  cases h1 : pOr g (s.length + 1) s with
  | none => simp [h1] at h
  | some pr =>
    simp only [h1] at h
    split at h
    · simp only [Option.some.injEq] at h
      have hmk : ∀ qs : List PT, qs ≠ [] → (∀ q ∈ qs, nodesNonempty q = true) →
          nodesNonemptyList qs = true ∧ qs.isEmpty = false := by
        intro qs hne hq
        exact ⟨(nodesNonemptyList_iff qs).2 hq, by cases qs <;> simp_all⟩
      rw [← h]
      refine level_inv (fun p => nodesNonempty p = true) _ _ _
        (level_inv (fun p => nodesNonempty p = true) _ _ _ (pNot_inv g _) ?_) ?_ s pr.1 pr.2 h1
      · intro qs hne hq; have := hmk qs hne hq; simp [nodesNonempty, this.1, this.2]
      · intro qs hne hq; have := hmk qs hne hq; simp [nodesNonempty, this.1, this.2]
    · simp at h

/-! ## 7. Free layout: extra whitespace and redundant parentheses -/

/-- a (possibly empty) run of whitespace -/
def blank (w : Str) : Prop := ∀ c ∈ w, isWs c = true

instance (w : Str) : Decidable (blank w) := by unfold blank; exact inferInstance

/-- `t` starts with a character that cannot continue the operator word in front of it -/
def sepOk (g : Grammar) : Str → Bool
  | [] => false
  | c :: _ => !g.opKwChars.contains c

/-- `Spells g c e s`: the string `s` is a spelling of the expression `e` that can stand, without
parentheses of its own, where an operand of level `c` is expected (0 operand of NOT/AND, 1 operand
of OR, 2 anywhere).  Compared with the canonical printer `pp`: every blank of `pp` may be any
non-empty run of whitespace, extra whitespace may precede every token (so also follow `(`) and
precede `)`, `not`/`and`/`or` may be followed directly by `(`, and any sub-expression may be
wrapped in redundant parentheses. -/
inductive Spells (g : Grammar) : Nat → E → Str → Prop
  | id (w n : Str) : blank w → wfName g n = true → Spells g 0 (.id n) (w ++ n)
  | sel (w : Str) (q : QW) (w1 w2 pat : Str) : blank w → w1 ≠ [] → blank w1 → w2 ≠ [] → blank w2 →
      wfPat g pat = true →
      Spells g 0 (.sel q pat) (w ++ (q.text ++ (w1 ++ (['o', 'f'] ++ (w2 ++ pat)))))
  | not (w : Str) (e : E) (s : Str) : blank w → Spells g 0 e s → sepOk g s = true →
      Spells g 0 (.not e) (w ++ (['n', 'o', 't'] ++ s))
  | paren (w : Str) (e : E) (s w' : Str) : blank w → Spells g 2 e s → blank w' →
      Spells g 0 e (w ++ ('(' :: (s ++ (w' ++ [')']))))
  | up01 (e : E) (s : Str) : Spells g 0 e s → Spells g 1 e s
  | and (a b : E) (s w t : Str) : Spells g 1 a s → w ≠ [] → blank w → Spells g 0 b t →
      sepOk g t = true → Spells g 1 (.and a b) (s ++ (w ++ (['a', 'n', 'd'] ++ t)))
  | up12 (e : E) (s : Str) : Spells g 1 e s → Spells g 2 e s
  | or (a b : E) (s w t : Str) : Spells g 2 a s → w ≠ [] → blank w → Spells g 1 b t →
      sepOk g t = true → Spells g 2 (.or a b) (s ++ (w ++ (['o', 'r'] ++ t)))

theorem sepOk_append (g : Grammar) (t rest : Str) (h : sepOk g t = true) :
    notFollowedBy g.opKwChars (t ++ rest) = true := by
  cases t with
  | nil => simp [sepOk] at h
  | cons c t => simpa [sepOk, notFollowedBy] using h

theorem skipWs_blank_append (w s : Str) (hw : blank w) : skipWs (w ++ s) = skipWs s :=
  skipWs_ws_append w s hw

/-- a chain item: non-empty blank, the operator word `k`, an operand spelled at level `c` -/
def ChainItem (g : Grammar) (k : Str) (c : Nat) (it : Str × E) : Prop :=
  ∃ w t, it.1 = w ++ (k ++ t) ∧ w ≠ [] ∧ blank w ∧ Spells g c it.2 t ∧ sepOk g t = true

theorem chain1 {g : Grammar} : ∀ c e s, Spells g c e s → c = 1 →
    ∃ (s0 : Str) (e0 : E) (items : List (Str × E)), s = s0 ++ items.flatMap (·.1) ∧ Spells g 0 e0 s0 ∧
      (∀ it ∈ items, ChainItem g ['a', 'n', 'd'] 0 it) ∧
      (∀ dets ρ, e.sem dets ρ = (e0.sem dets ρ && items.all (fun it => it.2.sem dets ρ))) := by
  intro c e s h
  induction h with
  | up01 e s h _ => intro _; exact ⟨s, e, [], by simp, h, by simp, by simp⟩
  | and a b s w t ha hw hw' hb hsep iha _ =>
    intro _
    obtain ⟨s0, e0, items, hs, h0, hit, hsem⟩ := iha rfl
    refine ⟨s0, e0, items ++ [(w ++ (['a', 'n', 'd'] ++ t), b)], ?_, h0, ?_, ?_⟩
    · simp [hs, List.flatMap_append]
    · intro it hmem
      simp only [List.mem_append, List.mem_singleton] at hmem
      rcases hmem with hmem | rfl
      · exact hit it hmem
      · exact ⟨w, t, rfl, hw, hw', hb, hsep⟩
    · intro dets ρ; simp [E.sem, hsem, List.all_append, Bool.and_assoc]
  | id => intro hc; simp at hc
  | sel => intro hc; simp at hc
  | not => intro hc; simp at hc
  | paren => intro hc; simp at hc
  | up12 => intro hc; simp at hc
  | or => intro hc; simp at hc

theorem chain2 {g : Grammar} : ∀ c e s, Spells g c e s → c = 2 →
    ∃ (s0 : Str) (e0 : E) (items : List (Str × E)), s = s0 ++ items.flatMap (·.1) ∧ Spells g 1 e0 s0 ∧
      (∀ it ∈ items, ChainItem g ['o', 'r'] 1 it) ∧
      (∀ dets ρ, e.sem dets ρ = (e0.sem dets ρ || items.any (fun it => it.2.sem dets ρ))) := by
  intro c e s h
  induction h with
  | up12 e s h _ => intro _; exact ⟨s, e, [], by simp, h, by simp, by simp⟩
  | or a b s w t ha hw hw' hb hsep iha _ =>
    intro _
    obtain ⟨s0, e0, items, hs, h0, hit, hsem⟩ := iha rfl
    refine ⟨s0, e0, items ++ [(w ++ (['o', 'r'] ++ t), b)], ?_, h0, ?_, ?_⟩
    · simp [hs, List.flatMap_append]
    · intro it hmem
      simp only [List.mem_append, List.mem_singleton] at hmem
      rcases hmem with hmem | rfl
      · exact hit it hmem
      · exact ⟨w, t, rfl, hw, hw', hb, hsep⟩
    · intro dets ρ; simp [E.sem, hsem, List.any_append, Bool.or_assoc]
  | id => intro hc; simp at hc
  | sel => intro hc; simp at hc
  | not => intro hc; simp at hc
  | paren => intro hc; simp at hc
  | up01 => intro hc; simp at hc
  | and => intro hc; simp at hc

theorem mem_flatMap_len (items : List (Str × E)) (it : Str × E) (h : it ∈ items) :
    it.1.length ≤ (items.flatMap (·.1)).length := by
  induction items with
  | nil => simp at h
  | cons x xs ih =>
    simp only [List.mem_cons] at h
    simp only [List.flatMap_cons, List.length_append]
    rcases h with rfl | h
    · omega
    · have := ih h; omega

theorem stop0_blank_and (w s : Str) (hw : w ≠ []) (hb : blank w) :
    Stop0 (w ++ (['a', 'n', 'd'] ++ s)) := by
  refine ⟨?_, ?_⟩
  · cases w with
    | nil => exact absurd rfl hw
    | cons c w => simp [delim, hb c (by simp)]
  · rw [skipWs_ws_append _ _ hb]; simp [skipWs, isWs, wsChars, stripPrefix]

theorem stopAnd_blank_or (w s : Str) (hw : w ≠ []) (hb : blank w) :
    StopAnd (w ++ (['o', 'r'] ++ s)) := by
  refine ⟨⟨?_, ?_⟩, ?_⟩
  · cases w with
    | nil => exact absurd rfl hw
    | cons c w => simp [delim, hb c (by simp)]
  · rw [skipWs_ws_append _ _ hb]; simp [skipWs, isWs, wsChars, stripPrefix]
  · rw [skipWs_ws_append _ _ hb]; simp [skipWs, isWs, wsChars, stripPrefix]

theorem stopOr_blank_rparen (w s : Str) (hb : blank w) : StopOr (w ++ (')' :: s)) := by
  have hd : delim (w ++ (')' :: s)) = true := by
    cases w with
    | nil => simp [delim]
    | cons c w => simp [delim, hb c (by simp)]
  refine ⟨⟨⟨hd, ?_⟩, ?_⟩, ?_⟩ <;>
    (rw [skipWs_ws_append _ _ hb]; simp [skipWs, isWs, wsChars, stripPrefix])

theorem stopOr_blank (w : Str) (hb : blank w) : StopOr w := by
  have hs : skipWs w = [] := by
    have := skipWs_ws_append w [] hb
    simpa [skipWs] using this
  have hd : delim w = true := by
    cases w with
    | nil => simp [delim]
    | cons c w => simp [delim, hb c (by simp)]
  exact ⟨⟨⟨hd, by rw [hs]; simp [stripPrefix]⟩, by rw [hs]; simp [stripPrefix]⟩,
    by rw [hs]; simp [stripPrefix]⟩

/-- AND level from the unary level, for every spelling no longer than `n` -/
theorem good1_of {g : Grammar} (hg : WF g) (f n : Nat)
    (ih0 : ∀ e s, Spells g 0 e s → s.length ≤ n → Good (pNot g f) Stop0 s e) :
    ∀ e s, Spells g 1 e s → s.length ≤ n → Good (pAnd g f) StopAnd s e := by
  intro e s h hlen
  obtain ⟨s0, e0, items, hs, h0, hit, hsem⟩ := chain1 1 e s h rfl
  have hl0 : s0.length ≤ n := by rw [hs] at hlen; simp only [List.length_append] at hlen; omega
  have hli : ∀ it ∈ items, it.1.length ≤ n := by
    intro it hmem
    have := mem_flatMap_len items it hmem
    rw [hs] at hlen; simp only [List.length_append] at hlen; omega
  intro rest hrest
  obtain ⟨p, hp, hps⟩ :=
    level_good (opTok g g.kwAnd) .and (pNot g f) Stop0 StopAnd (fun _ h => h.1)
      (opTok_and_stop hg) s0 e0 items
      (by
        intro it hmem r
        obtain ⟨w, t, hform, hw, hb, _, _⟩ := hit it hmem
        rw [hform]; simp only [List.append_assoc]; exact stop0_blank_and w _ hw hb)
      (by
        intro it hmem
        obtain ⟨w, t, hform, hw, _⟩ := hit it hmem
        rw [hform]; simp [hw])
      (ih0 e0 s0 h0 hl0)
      (by
        intro it hmem
        obtain ⟨w, t, hform, hw, hb, hsp, hsep⟩ := hit it hmem
        have hlt : t.length ≤ n := by
          have := hli it hmem; rw [hform] at this
          simp only [List.length_append] at this; omega
        have := item_of_good hg ['a', 'n', 'd'] (by simp) (by decide) (pNot g f)
          (fun w s hw => pNot_ws g f w s hw) Stop0 w [] t it.2 hb (by simp)
          (fun rest => by simpa using sepOk_append g t rest hsep) (ih0 it.2 t hsp hlt)
        rw [hform, hg.kwAnd]; simpa using this)
      rest hrest
  refine ⟨p, by rw [hs]; exact hp, ?_⟩
  intro dets ρ
  rw [hsem dets ρ]
  rcases hps with ⟨hnil, hs'⟩ | ⟨p0, ps, rfl, h0', hall, _⟩
  · simp [hnil, hs']
  · simp [semPT, semPT.semPTAll, h0', hall]

theorem good2_of {g : Grammar} (hg : WF g) (f n : Nat)
    (ih1 : ∀ e s, Spells g 1 e s → s.length ≤ n → Good (pAnd g f) StopAnd s e) :
    ∀ e s, Spells g 2 e s → s.length ≤ n → Good (pOr g f) StopOr s e := by
  intro e s h hlen
  obtain ⟨s0, e0, items, hs, h0, hit, hsem⟩ := chain2 2 e s h rfl
  have hl0 : s0.length ≤ n := by rw [hs] at hlen; simp only [List.length_append] at hlen; omega
  have hli : ∀ it ∈ items, it.1.length ≤ n := by
    intro it hmem
    have := mem_flatMap_len items it hmem
    rw [hs] at hlen; simp only [List.length_append] at hlen; omega
  intro rest hrest
  obtain ⟨p, hp, hps⟩ :=
    level_good (opTok g g.kwOr) .or (pAnd g f) StopAnd StopOr (fun _ h => h.1)
      (opTok_or_stop hg) s0 e0 items
      (by
        intro it hmem r
        obtain ⟨w, t, hform, hw, hb, _, _⟩ := hit it hmem
        rw [hform]; simp only [List.append_assoc]; exact stopAnd_blank_or w _ hw hb)
      (by
        intro it hmem
        obtain ⟨w, t, hform, hw, _⟩ := hit it hmem
        rw [hform]; simp [hw])
      (ih1 e0 s0 h0 hl0)
      (by
        intro it hmem
        obtain ⟨w, t, hform, hw, hb, hsp, hsep⟩ := hit it hmem
        have hlt : t.length ≤ n := by
          have := hli it hmem; rw [hform] at this
          simp only [List.length_append] at this; omega
        have := item_of_good hg ['o', 'r'] (by simp) (by decide) (pAnd g f)
          (fun w s hw => pAnd_ws g f w s hw) StopAnd w [] t it.2 hb (by simp)
          (fun rest => by simpa using sepOk_append g t rest hsep) (ih1 it.2 t hsp hlt)
        rw [hform, hg.kwOr]; simpa using this)
      rest hrest
  refine ⟨p, by rw [hs]; exact hp, ?_⟩
  intro dets ρ
  rw [hsem dets ρ]
  rcases hps with ⟨hnil, hs'⟩ | ⟨p0, ps, rfl, h0', _, hany⟩
  · simp [hnil, hs']
  · simp [semPT, semPT.semPTAny, h0', hany]

theorem good0 {g : Grammar} (hg : WF g) : ∀ n, ∀ e s, Spells g 0 e s → s.length ≤ n →
    ∀ f, n ≤ f → Good (pNot g f) Stop0 s e := by
  intro n
  induction n with
  | zero =>
    intro e s h hlen
    exfalso
    cases h with
    | id w n hw hn => have := (WFName.of hn).ne; cases n <;> simp_all
    | sel w q w1 w2 pat => have := text_ne q; cases q <;> simp [QW.text] at hlen
    | not => simp at hlen
    | paren => simp at hlen
  | succ n ih =>
    intro e s h hlen f hf
    obtain ⟨f, rfl⟩ : ∃ f', f = f' + 1 := ⟨f - 1, by omega⟩
    have hf' : n ≤ f := by omega
    have ih0 : ∀ e s, Spells g 0 e s → s.length ≤ n → Good (pNot g f) Stop0 s e :=
      fun e s h hl => ih e s h hl f hf'
    have ih1 := good1_of hg f n ih0
    have ih2 := good2_of hg f n ih1
    intro rest hrest
    cases h with
    | id w nm hw hn =>
      refine ⟨.id nm, ?_, by intro dets ρ; simp [semPT, E.sem]⟩
      rw [List.append_assoc, pNot_ws g _ w _ hw]
      exact pNot_name hg (WFName.of hn) f rest hrest
    | sel w q w1 w2 pat hw hw1 hb1 hw2 hb2 hp =>
      refine ⟨.sel q.quant pat, ?_, by intro dets ρ; cases q <;> simp [semPT, E.sem, QW.quant]⟩
      simp only [List.append_assoc]
      rw [pNot_ws g _ w _ hw]
      exact pNot_sel hg q w1 w2 pat rest f hw1 hb1 hw2 hb2 hp hrest.1
    | not w e' s' hw hs' hsep =>
      have hl : s'.length ≤ n := by simp only [List.length_append, List.length_cons] at hlen; omega
      obtain ⟨p, hp, hpe⟩ := ih0 e' s' hs' hl rest hrest
      refine ⟨.not p, ?_, by intro dets ρ; simp [semPT, E.sem, hpe]⟩
      simp only [List.append_assoc]
      rw [pNot_ws g _ w _ hw]
      exact pNot_not hg f (s' ++ rest) (sepOk_append g s' rest hsep) p rest hp
    | paren w e' s' w' hw hs' hw' =>
      have hl : s'.length ≤ n := by simp only [List.length_append, List.length_cons] at hlen; omega
      obtain ⟨p, hp, hpe⟩ := ih2 e s' hs' hl (w' ++ (')' :: rest)) (stopOr_blank_rparen w' rest hw')
      refine ⟨p, ?_, hpe⟩
      simp only [List.append_assoc, List.cons_append]
      rw [pNot_ws g _ w _ hw]
      refine pNot_paren hg f _ p (w' ++ (')' :: rest)) rest ?_ ?_
      · simpa using hp
      · rw [literal_ws _ _ _ hw']; exact literal_rparen rest

/-- **Round trip, free layout.** -/
theorem parse_spells_aux {g : Grammar} (hg : WF g) (e : E) (s w : Str) (h : Spells g 2 e s)
    (hw : blank w) :
    ∃ t, parse g (s ++ w) = some t ∧ ∀ dets ρ, semPT dets ρ t = e.sem dets ρ := by
  have h0 : ∀ e' s', Spells g 0 e' s' → s'.length ≤ s.length →
      Good (pNot g ((s ++ w).length + 1)) Stop0 s' e' :=
    fun e' s' h' hl => good0 hg s.length e' s' h' hl _ (by simp only [List.length_append]; omega)
  have h2 := good2_of hg _ s.length (good1_of hg _ s.length h0) e s h (Nat.le_refl _)
  obtain ⟨p, hp, hpe⟩ := h2 w (stopOr_blank w hw)
  refine ⟨p, ?_, hpe⟩
  have hs : skipWs w = [] := by
    have := skipWs_ws_append w [] hw
    simpa [skipWs] using this
  simp only [parse, hp, hs]
  simp


theorem blank_append {w w' : Str} (h : blank w) (h' : blank w') : blank (w ++ w') := by
  intro c hc
  simp only [List.mem_append] at hc
  rcases hc with hc | hc
  · exact h c hc
  · exact h' c hc

/-- extra whitespace in front of a spelling -/
theorem Spells.ws {g : Grammar} {c : Nat} {e : E} {s : Str} (w' : Str) (hw' : blank w')
    (h : Spells g c e s) : Spells g c e (w' ++ s) := by
  induction h with
  | id w n hw hn => rw [← List.append_assoc]; exact .id _ _ (blank_append hw' hw) hn
  | sel w q w1 w2 pat hw h1 h2 h3 h4 h5 =>
    rw [← List.append_assoc]; exact .sel _ q w1 w2 pat (blank_append hw' hw) h1 h2 h3 h4 h5
  | not w e s hw hs hsep _ => rw [← List.append_assoc]; exact .not _ e s (blank_append hw' hw) hs hsep
  | paren w e s w2 hw hs hw2 _ =>
    rw [← List.append_assoc]; exact .paren _ e s w2 (blank_append hw' hw) hs hw2
  | up01 e s _ ih => exact .up01 _ _ ih
  | up12 e s _ ih => exact .up12 _ _ ih
  | and a b s w t _ hw hb ht hsep iha _ =>
    rw [← List.append_assoc]; exact .and a b _ w t iha hw hb ht hsep
  | or a b s w t _ hw hb ht hsep iha _ =>
    rw [← List.append_assoc]; exact .or a b _ w t iha hw hb ht hsep

theorem sepOk_space {g : Grammar} (hg : WF g) (s : Str) : sepOk g (' ' :: s) = true := by
  have : ' ' ∉ g.opKwChars := hg.sepOp ' ' (Or.inl (by decide))
  simpa [sepOk] using this

/-- the canonical spelling is one of the spellings -/
theorem pp_spells {g : Grammar} (hg : WF g) (e : E) (he : e.wf g = true) :
    Spells g 0 e (pp 0 e) ∧ Spells g 1 e (pp 1 e) ∧ Spells g 2 e (pp 2 e) := by
  induction e with
  | id n =>
    have h : Spells g 0 (.id n) (pp 0 (.id n)) := by
      have := Spells.id (g := g) [] n (by intro c hc; simp at hc) (by simpa [E.wf] using he)
      simpa [pp] using this
    exact ⟨h, .up01 _ _ h, .up12 _ _ (.up01 _ _ h)⟩
  | sel q pat =>
    have h : Spells g 0 (.sel q pat) (pp 0 (.sel q pat)) := by
      have := Spells.sel (g := g) [] q [' '] [' '] pat (by intro c hc; simp at hc) (by simp)
        space_ws (by simp) space_ws (by simpa [E.wf] using he)
      simpa [pp] using this
    exact ⟨h, .up01 _ _ h, .up12 _ _ (.up01 _ _ h)⟩
  | not e ih =>
    obtain ⟨h0, _, _⟩ := ih (by simpa [E.wf] using he)
    have h : Spells g 0 (.not e) (pp 0 (.not e)) := by
      have := Spells.not (g := g) [] e (' ' :: pp 0 e) (by intro c hc; simp at hc)
        (Spells.ws [' '] space_ws h0) (sepOk_space hg _)
      simpa [pp] using this
    exact ⟨h, .up01 _ _ h, .up12 _ _ (.up01 _ _ h)⟩
  | and a b iha ihb =>
    simp only [E.wf, Bool.and_eq_true] at he
    obtain ⟨_, ha1, _⟩ := iha he.1
    obtain ⟨hb0, _, _⟩ := ihb he.2
    have h1 : Spells g 1 (.and a b) (pp 1 (.and a b)) := by
      have := Spells.and a b (pp 1 a) [' '] (' ' :: pp 0 b) ha1 (by simp) space_ws
        (Spells.ws [' '] space_ws hb0) (sepOk_space hg _)
      simpa [pp, paren] using this
    have h2 : Spells g 2 (.and a b) (pp 2 (.and a b)) := by
      have := Spells.up12 _ _ h1
      simpa [pp, paren] using this
    refine ⟨?_, h1, h2⟩
    have := Spells.paren (g := g) [] _ _ [] (by intro c hc; simp at hc) h2 (by intro c hc; simp at hc)
    rw [pp0_and]; simpa using this
  | or a b iha ihb =>
    simp only [E.wf, Bool.and_eq_true] at he
    obtain ⟨_, _, ha2⟩ := iha he.1
    obtain ⟨_, hb1, _⟩ := ihb he.2
    have h2 : Spells g 2 (.or a b) (pp 2 (.or a b)) := by
      have := Spells.or a b (pp 2 a) [' '] (' ' :: pp 1 b) ha2 (by simp) space_ws
        (Spells.ws [' '] space_ws hb1) (sepOk_space hg _)
      simpa [pp, paren] using this
    have h0 : Spells g 0 (.or a b) (pp 0 (.or a b)) := by
      have := Spells.paren (g := g) [] _ _ [] (by intro c hc; simp at hc) h2
        (by intro c hc; simp at hc)
      rw [pp0_or]; simpa using this
    refine ⟨h0, ?_, h2⟩
    have := Spells.up01 _ _ h0
    simpa [pp, paren] using this

end SigmaVerif.Lemmas.CondParse
