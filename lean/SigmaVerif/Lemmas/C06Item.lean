import SigmaVerif.Model.Ser
import SigmaVerif.Lemmas.SStr
/-!
# C06 helper lemmas, part 1: one detection item (`from_mapping` / `to_plain`)
-/
namespace SigmaVerif.Ser
open SigmaVerif.SStr SigmaVerif.SStrSpec SigmaVerif.Mods
open SigmaVerif.Rule (PV splitOn pvToVal)

/-! ## `str.split("|")` and `"|".join` -/

theorem splitOn_ne_nil (sep : Char) (s : Str) : splitOn sep s ≠ [] := by
  induction s with
  | nil => simp [splitOn]
  | cons c r ih =>
    unfold splitOn
    cases h : splitOn sep r with
    | nil => exact absurd h ih
    | cons a t => by_cases hc : (c == sep) = true <;> simp [hc]

theorem splitOn_noSep (sep : Char) (s : Str) (h : sep ∉ s) : splitOn sep s = [s] := by
  induction s with
  | nil => simp [splitOn]
  | cons c r ih =>
    have hc : (c == sep) = false := by
      simp only [beq_eq_false_iff_ne, ne_eq]; intro e; exact h (by simp [e])
    have hr : sep ∉ r := fun m => h (by simp [m])
    unfold splitOn
    rw [ih hr]; simp [hc]

theorem splitOn_append (sep : Char) (a r : Str) (h : sep ∉ a) :
    splitOn sep (a ++ sep :: r) = a :: splitOn sep r := by
  induction a with
  | nil =>
    simp only [List.nil_append]
    conv => lhs; unfold splitOn
    cases hs : splitOn sep r with
    | nil => exact absurd hs (splitOn_ne_nil sep r)
    | cons x t => simp
  | cons c a ih =>
    have hc : (c == sep) = false := by
      simp only [beq_eq_false_iff_ne, ne_eq]; intro e; exact h (by simp [e])
    have ha : sep ∉ a := fun m => h (by simp [m])
    simp only [List.cons_append]
    conv => lhs; unfold splitOn
    rw [ih ha]; simp [hc]

theorem splitOn_parts_noSep (sep : Char) (s : Str) : ∀ p ∈ splitOn sep s, sep ∉ p := by
  induction s with
  | nil => simp [splitOn]
  | cons c r ih =>
    unfold splitOn
    cases hs : splitOn sep r with
    | nil => exact absurd hs (splitOn_ne_nil sep r)
    | cons x t =>
      rw [hs] at ih
      by_cases hc : (c == sep) = true
      · simp only [hc, if_true]
        intro p hp
        rcases List.mem_cons.mp hp with rfl | hp
        · simp
        · exact ih p hp
      · simp only [hc]
        intro p hp
        rcases List.mem_cons.mp hp with rfl | hp
        · have hx := ih x (by simp)
          intro m
          rcases List.mem_cons.mp m with e | m
          · exact hc (by simp [e])
          · exact hx m
        · exact ih p (by simp [hp])

theorem splitOn_joinBar (f : Str) (ms : List Str) (hf : '|' ∉ f) (hm : ∀ m ∈ ms, '|' ∉ m) :
    splitOn '|' (joinBar (f :: ms)) = f :: ms := by
  induction ms generalizing f with
  | nil => simpa [joinBar] using splitOn_noSep '|' f hf
  | cons m r ih =>
    simp only [joinBar]
    rw [splitOn_append '|' f _ hf, ih m (hm m (by simp)) (fun x hx => hm x (by simp [hx]))]

/-! ## modifier identifiers -/

theorem canon_idem (m : Str) : canon (canon m) = canon m := by
  unfold canon
  by_cases h1 : m = "i".toList
  · subst h1; decide
  · by_cases h2 : m = "m".toList
    · subst h2; decide
    · by_cases h3 : m = "dotall".toList
      · subst h3; decide
      · rw [if_neg h1, if_neg h2, if_neg h3, if_neg h1, if_neg h2, if_neg h3]

theorem known_canon (m : Str) (h : known m = true) : known (canon m) = true := by
  unfold canon
  by_cases h1 : m = "i".toList
  · subst h1; decide
  · by_cases h2 : m = "m".toList
    · subst h2; decide
    · by_cases h3 : m = "dotall".toList
      · subst h3; decide
      · rw [if_neg h1, if_neg h2, if_neg h3]; exact h

theorem canon_noBar (m : Str) (h : '|' ∉ m) : '|' ∉ canon m := by
  unfold canon
  by_cases h1 : m = "i".toList
  · subst h1; decide
  · by_cases h2 : m = "m".toList
    · subst h2; decide
    · by_cases h3 : m = "dotall".toList
      · subst h3; decide
      · rw [if_neg h1, if_neg h2, if_neg h3]; exact h

/-! ## `mapE` -/

theorem mapE_map {α β γ : Type} (g : α → β) (f : β → Except Err γ) (l : List α) :
    mapE f (l.map g) = mapE (fun a => f (g a)) l := by
  induction l with
  | nil => rfl
  | cons a r ih => simp only [List.map_cons, mapE, ih]

theorem mapE_ok {α β : Type} (f : α → Except Err β) (g : α → β) (l : List α)
    (h : ∀ a ∈ l, f a = .ok (g a)) : mapE f l = .ok (l.map g) := by
  induction l with
  | nil => rfl
  | cons a r ih =>
    simp only [mapE, h a (by simp), ih (fun x hx => h x (by simp [hx])), List.map_cons]

theorem mapE_ok_length {α β : Type} (f : α → Except Err β) :
    ∀ (l : List α) (r : List β), mapE f l = .ok r → r.length = l.length := by
  intro l
  induction l with
  | nil => intro r h; simp [mapE] at h; subst h; rfl
  | cons a t ih =>
    intro r h
    simp only [mapE] at h
    cases ha : f a with
    | error e => simp [ha] at h
    | ok b =>
      cases ht : mapE f t with
      | error e => simp [ha, ht] at h
      | ok bs =>
        simp only [ha, ht, Except.ok.injEq] at h
        subst h
        simp [ih bs ht]

/-! ## plain values -/

/-- the plain value after one load / write cycle -/
def normPV (raw : Bool) : PV → PV
  | .str s => .str (if raw then s else toPlain (parse s))
  | v => v

/-- the side condition forced by finding D3: the parsed string has no literal backslash directly
in front of a wildcard, an escaped wildcard or another backslash (`bsOk`) -/
def pvOk (raw : Bool) : PV → Bool
  | .str s => raw || bsOk (parse s)
  | _ => true

theorem litChars_lit (s : Str) : litChars (s.map Part.lit) = s := by
  induction s with
  | nil => rfl
  | cons c r ih => simp [litChars, ih]

theorem valToPlain_pvToVal (raw : Bool) (pv : PV) :
    valToPlain raw (pvToVal raw pv) = .ok (normPV raw pv) := by
  cases pv with
  | str s => cases raw <;> simp [pvToVal, valToPlain, normPV, litChars_lit]
  | num n => rfl
  | bool b => rfl
  | null => rfl

theorem pvToVal_normPV (raw : Bool) (pv : PV) (h : pvOk raw pv = true) :
    pvToVal raw (normPV raw pv) = pvToVal raw pv := by
  cases pv with
  | str s =>
    cases raw with
    | true => simp [normPV]
    | false =>
      simp only [pvOk, Bool.false_or] at h
      simp only [normPV, pvToVal, Bool.false_eq_true, if_false]
      have := parseAux_toPlain (parse s) (parse_noPh _ _ _) h
      rw [show parse (toPlain (parse s)) = parse s from this.1]
  | num n => rfl
  | bool b => rfl
  | null => rfl

theorem collapse_toList (pvs : List PV) : (collapse pvs).toList = pvs := by
  unfold collapse
  split <;> simp [PVals.toList]

/-! ## `from_mapping`, factored -/

/-- `from_mapping` after the key has been split -/
def build (env : Env) (f : Str) (ids : List Str) (vals : List PV) : Except Err Item :=
  let field : Option Str := if f.isEmpty then none else some f
  if ids.all known then
    let mods := ids.map canon
    let raw := isRaw mods
    let orig := vals.map (pvToVal raw)
    match applyChainAux env true (mods.map String.ofList) { hasField := field.isSome, vals := orig } with
    | .ok r => .ok { field := field, mods := mods, value := r.vals, linkAnd := r.linkAnd,
                     negated := r.negated, orig := some orig }
    | .error e => .error (Err.ofM e)
  else .error .modifier

theorem fromMapping_eq (env : Env) (k : Str) (v : PVals) :
    fromMapping env k v = build env ((splitOn '|' k).headD []) ((splitOn '|' k).drop 1) v.toList := rfl

theorem build_fields {env : Env} {f : Str} {ids : List Str} {vals : List PV} {it : Item}
    (h : build env f ids vals = .ok it) :
    it.field = (if f.isEmpty then none else some f) ∧ it.mods = ids.map canon ∧
    it.orig = some (vals.map (pvToVal (isRaw (ids.map canon)))) ∧ ids.all known = true := by
  unfold build at h
  by_cases hk : ids.all known = true
  · simp only [hk, if_true] at h
    split at h
    · simp only [Except.ok.injEq] at h
      subst h
      exact ⟨rfl, rfl, rfl, hk⟩
    · simp at h
  · simp [hk] at h

/-- loading the values written by `to_plain` under the identifiers `to_plain` writes gives the
same object -/
theorem build_canon (env : Env) (f : Str) (ids : List Str) (vals : List PV)
    (hk : ids.all known = true)
    (hv : ∀ pv ∈ vals, pvOk (isRaw (ids.map canon)) pv = true) :
    build env f (ids.map canon) (vals.map (normPV (isRaw (ids.map canon)))) =
      build env f ids vals := by
  have hk' : (ids.map canon).all known = true := by
    rw [List.all_eq_true] at hk ⊢
    intro m hm
    rcases List.mem_map.mp hm with ⟨x, hx, rfl⟩
    exact known_canon x (hk x hx)
  have hcc : (ids.map canon).map canon = ids.map canon := by
    rw [List.map_map]
    apply List.map_congr_left
    intro m _
    exact canon_idem m
  have hvals : (vals.map (normPV (isRaw (ids.map canon)))).map
      (pvToVal (isRaw (ids.map canon))) = vals.map (pvToVal (isRaw (ids.map canon))) := by
    rw [List.map_map]
    apply List.map_congr_left
    intro pv hpv
    exact pvToVal_normPV _ pv (hv pv hpv)
  unfold build
  simp only [hk, hk', hcc, hvals, if_true]

theorem parts_shape (k : Str) :
    splitOn '|' k = (splitOn '|' k).headD [] :: (splitOn '|' k).drop 1 := by
  cases h : splitOn '|' k with
  | nil => exact absurd h (splitOn_ne_nil _ _)
  | cons a t => simp

/-- is the value of key `k` read raw (`re` among the modifiers)? -/
def keyRaw (k : Str) : Bool := isRaw (((splitOn '|' k).drop 1).map canon)

/-- the key `to_plain` writes for an item loaded from key `k` -/
def canonKey (k : Str) : Str :=
  joinBar ((splitOn '|' k).headD [] :: ((splitOn '|' k).drop 1).map canon)

/-- the values `to_plain` writes for an item loaded from `k: v` -/
def valsOf (k : Str) (v : PVals) : PVals := collapse (v.toList.map (normPV (keyRaw k)))

/-- what `to_plain` writes for an item loaded from `k: v` -/
def plainOf (k : Str) (v : PVals) : IPlain :=
  if k.isEmpty then .bare (valsOf k v) else .keyed (canonKey k) (valsOf k v)

def valsOk (k : Str) (v : PVals) : Bool := v.toList.all (pvOk (keyRaw k))

theorem key_empty_iff (k : Str) :
    k = [] ↔ (splitOn '|' k).headD [] = [] ∧ (splitOn '|' k).drop 1 = [] := by
  constructor
  · intro h; subst h; simp [splitOn]
  · intro ⟨h1, h2⟩
    cases k with
    | nil => rfl
    | cons c r =>
      exfalso
      unfold splitOn at h1 h2
      cases hs : splitOn '|' r with
      | nil => exact absurd hs (splitOn_ne_nil _ _)
      | cons a t =>
        rw [hs] at h1 h2
        by_cases hc : (c == '|') = true
        · simp [hc] at h2
        · simp [hc] at h1

/-- What `to_plain` writes for a loaded item, and: reloading it gives the same object (under the
side condition on string values). -/
theorem item_plain_reload (env : Env) (k : Str) (v : PVals) (it : Item)
    (h : fromMapping env k v = .ok it) :
    toPlainItem it = .ok (plainOf k v) ∧
    (valsOk k v = true → fromIPlain env (plainOf k v) = .ok it) := by
  rw [fromMapping_eq] at h
  obtain ⟨hfield, hmods, horig, hk⟩ := build_fields h
  have hparts := parts_shape k
  have hnb := splitOn_parts_noSep '|' k
  have hke := key_empty_iff k
  unfold plainOf valsOf valsOk canonKey keyRaw
  generalize hf : (splitOn '|' k).headD [] = f at *
  generalize hids : (splitOn '|' k).drop 1 = ids at *
  have hfnb : '|' ∉ f := hnb f (by rw [hparts]; simp)
  have hidsnb : ∀ m ∈ ids.map canon, '|' ∉ m := by
    intro m hm
    rcases List.mem_map.mp hm with ⟨x, hx, rfl⟩
    exact canon_noBar x (hnb x (by rw [hparts]; simp [hx]))
  have hreload : (∀ pv ∈ v.toList, pvOk (isRaw (ids.map canon)) pv = true) →
      build env f (ids.map canon) (v.toList.map (normPV (isRaw (ids.map canon)))) = .ok it := by
    intro hv
    rw [build_canon env f ids v.toList hk hv]; exact h
  generalize hraw : isRaw (ids.map canon) = raw at *
  have hpl : mapE (valToPlain raw) (v.toList.map (pvToVal raw)) = .ok (v.toList.map (normPV raw)) := by
    rw [mapE_map]
    exact mapE_ok _ _ _ (fun a _ => valToPlain_pvToVal raw a)
  have hbare : (it.field.isNone && (ids.map canon).isEmpty) = k.isEmpty := by
    rw [hfield]
    by_cases hk0 : k = []
    · obtain ⟨e1, e2⟩ := hke.mp hk0
      subst e1 e2 hk0
      rfl
    · have hk1 : k.isEmpty = false := by simpa using hk0
      rw [hk1]
      by_cases hfe : f.isEmpty = true
      · have hf0 : f = [] := by simpa using hfe
        have : ids ≠ [] := fun e => hk0 (hke.mpr ⟨hf0, e⟩)
        cases ids with
        | nil => exact absurd rfl this
        | cons a t => simp
      · simp [hfe]
  unfold toPlainItem
  simp only [horig, hmods, hraw, hpl, hbare]
  by_cases hb : k.isEmpty = true
  · simp only [hb, if_true, true_and]
    intro hv
    have hk0 : k = [] := by simpa using hb
    obtain ⟨e1, e2⟩ := hke.mp hk0
    simp only [fromIPlain, fromMapping_eq, collapse_toList]
    have : splitOn '|' ([] : Str) = [[]] := by simp [splitOn]
    rw [this]
    simp only [List.headD_cons, List.drop_succ_cons, List.drop_zero]
    have hr := hreload (by simpa [List.all_eq_true] using hv)
    rw [e1, e2] at hr
    exact hr
  · simp only [hb]
    have hkey : emitKey it.field (ids.map canon) = joinBar (f :: ids.map canon) := by
      unfold emitKey
      rw [hfield]
      by_cases hfe : f.isEmpty = true
      · have : f = [] := by simpa using hfe
        subst this; rfl
      · simp [hfe]
    refine ⟨by simp [hkey], ?_⟩
    intro hv
    simp only [Bool.false_eq_true, if_false, fromIPlain, fromMapping_eq, collapse_toList,
      splitOn_joinBar f (ids.map canon) hfnb hidsnb, List.headD_cons, List.drop_succ_cons, List.drop_zero]
    exact hreload (by simpa [List.all_eq_true] using hv)

end SigmaVerif.Ser
